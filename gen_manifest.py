#!/usr/bin/env python3
"""Regenerates MANIFEST.json from the table below and validates it against the schema."""
import json, subprocess, sys
PROPS = [json.loads(l) for l in open('/verif/properties.jsonl')]
IDS = [p['id'] for p in PROPS]

# id -> (technique, level text, level note, design_ref)
CLAIMED = {
 'C16': ("runtime monitor: round-trip + independent reference decoders over exhaustive short inputs, byte runs and seeded random data",
         "Executes the real encoders/decoders on every byte string up to length 2 (quick) / 3 (thorough), every byte value in runs up to 64 KiB and seeded random/structured inputs; oracle = identity and strict reference decoders (own ASCIIHex/ASCII85/LZW, miniz_oxide zlib). Held on the executions observed; exhaustive only for the short-input sub-domain.",
         "Trusts the reference decoders in harness/src/refimpl/codec.rs (self-tested) and miniz_oxide.", "5/C16"),
 'C05': ("runtime monitor: independent spec-level encoders -> real decoders (differential against the original bytes), exhaustive sub-domains, corruption fuzzing under a panic monitor",
         "Random (data, filter chain <=3, predictor geometry, spelling choices) cases encoded by independent encoders and decoded by the real code through enc::decode, Stream::data and a generated file; exhaustive over hex digit pairs, run-length headers, all 2^24 Paeth triples, ASCII85 groups (2^20 stratified quick, all 2^32 thorough) and partial groups; truncated/corrupted encodings must yield value or Err. Held on the executions observed.",
         "Trusts the reference encoders (self-checked per case against own decoders and miniz_oxide); LZW encoders restricted to initial clear code and table reset at <= 4094 entries.", "5/C05"),
 'C03': ("runtime monitor: randomized specification-conformant printer (value = oracle) -> real parser; exhaustive token-adjacency matrix; tape shrinking to minimal feature labels",
         "Values of every Primitive kind printed with every legal spelling choice (white-space kinds, comments with LF/CR/CRLF ends, no separator where legal, literal-string escapes/octal/continuations/balanced parens/raw EOLs, hex strings with white-space and odd digits, #xx names, signed/leading-zero/fraction-only numbers, references, LF/CRLF after `stream`) and parsed by parser::parse / parse_with_lexer (sequences, Lexer::get_pos checked) / parse_indirect_object / parse_stream; exhaustive 15x15 token kinds x 12 separators x 3 contexts, all 256 one-byte strings per spelling, all #xx names. Held on the executions observed.",
         "Trusts harness/src/printer.rs to emit only ISO 32000-1 conformant spellings; names limited to valid UTF-8 without NUL; reals to <= 7 significant digits (compared within 1 ulp).", "5/C03"),
 'C04': ("runtime monitor: generated Primitive trees -> real serializer -> real parser, in four placements (round-trip oracle), boundary-leaf sweep, tape shrinking",
         "Random trees (depth <= 16, all string bytes, names over Unicode scalar values, boundary and random-bit finite reals, i32 boundaries, references, streams) are serialised by the real writer (Storage::save framing via PdfBuilder, Primitive::serialize, serialize_ops) and re-read by the real parser; the original value is the oracle (Integer≡Number). Complete sweep of boundary leaves x 4 placements. Panic monitor on every call. Held on the executions observed.",
         "Placement (i) locates the object in PdfBuilder output by its `n g obj` header; NaN/inf excluded (not finite).", "5/C04"),
}
NOT_YET = "check not built yet in this round (planned, see DESIGN.md §5)"

def main():
    hooks_commits = subprocess.run(['git','-C','/repo','log','--format=%h','--grep=^verif hooks'],capture_output=True,text=True).stdout.split()
    m = {
      "version": 1,
      "setup_cmd": "cd /verif/harness && CARGO_NET_OFFLINE=true cargo build --release --offline",
      "hooks": {
        "guard": "cargo feature verif_hooks (pdf/Cargo.toml), off by default",
        "enable": "harness/Cargo.toml depends on pdf = { path = \"/repo/pdf\", features = [\"verif_hooks\"] }",
        "baseline_off_cmd": "cd /repo && cargo test --workspace --no-fail-fast --offline",
        "source_commits": hooks_commits,
        "add_only": True
      },
      "engines": [
        {"name": "pdfmon", "path": "harness", "serves_properties": sorted(CLAIMED), "kind_free_text": "Rust harness linking the real pdf crate (hooks on): generators, reference implementations, monitors, child-process supervisor; ./check <id> <tier> rebuilds it against /repo's working tree"}
      ],
      "checks": [],
      "not_applicable": [],
      "notes": "All checks: ./check <id> <quick|thorough>; VERIF_SEED selects the random slice; known findings in KNOWN_FINDINGS.txt; replay files under replay/<id>/."
    }
    for pid in IDS:
        if pid in CLAIMED:
            tech, text, note, ref = CLAIMED[pid]
            m["checks"].append({
              "property_id": pid,
              "quick_cmd": f"./check {pid} quick",
              "thorough_cmd": f"./check {pid} thorough",
              "evidence_file": f"/verif/evidence/{pid}.json",
              "replay_cmd_template": f"./check {pid} --replay {{path}}",
              "engine": "pdfmon",
              "level_claimed": {"category": "exploration", "text": text, "design_ref": f"DESIGN.md §{ref}"},
              "level_note": note,
              "technique": tech,
            })
        else:
            m["not_applicable"].append({"property_id": pid, "reason": NOT_YET})
    json.dump(m, open('/verif/MANIFEST.json','w'), indent=1)
    try:
        import jsonschema
        jsonschema.validate(m, json.load(open('/root/.vp/MANIFEST.schema.json')))
        print("MANIFEST.json valid;", len(m["checks"]), "checks")
    except ImportError:
        print("jsonschema not importable here; run with python3-vt")
if __name__ == '__main__':
    main()
