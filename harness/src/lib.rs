pub mod rng;
pub mod tape;
pub mod run;
pub mod par;
pub mod panicmon;
pub mod refimpl;
pub mod props;
