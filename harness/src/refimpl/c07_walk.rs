//! C07 reference code working on the *document* (object number -> mkpdf::Obj), independent of the abstract
//! tree the generator started from:
//!  * `walk`  – validating depth-first walk (Type, Parent, Count, acyclicity) that returns the leaves in document
//!              order with their effective attributes found by climbing /Parent from each leaf (bottom-up),
//!  * `stub_*` – a miniature "library" (count-driven descent, parent-climbing inheritance) with switchable
//!              defects; used only for the monitor's self-test (a monitor that cannot fire is noticed).
use crate::mkpdf::Obj;
use std::collections::{BTreeMap, BTreeSet};

pub type Objs = BTreeMap<u32, Obj>;

#[derive(Clone, Debug, PartialEq)]
pub struct Leaf {
    pub nr: u32,
    pub marker: Option<i64>,
    pub media: Option<[f64; 4]>,
    pub crop: Option<[f64; 4]>,
    pub res: Option<Vec<String>>,
}

fn deref<'a>(objs: &'a Objs, o: &'a Obj) -> Option<&'a Obj> {
    match o { Obj::Ref(n, 0) => objs.get(n), Obj::Ref(..) => None, other => Some(other) }
}
fn refnr(o: Option<&Obj>) -> Option<u32> { match o { Some(Obj::Ref(n, 0)) => Some(*n), _ => None } }
fn type_of(o: &Obj) -> Option<&[u8]> { match o.get("Type") { Some(Obj::Name(n)) => Some(n.as_slice()), _ => None } }
fn num(o: &Obj) -> Option<f64> { match o { Obj::Int(i) => Some(*i as f64), Obj::Real(x) => Some(*x), _ => None } }
pub fn rect(o: &Obj) -> Option<[f64; 4]> {
    match o { Obj::Arr(a) if a.len() == 4 => Some([num(&a[0])?, num(&a[1])?, num(&a[2])?, num(&a[3])?]), _ => None }
}
/// names of the /Properties entries of a resources dictionary (direct or indirect)
pub fn res_names(objs: &Objs, o: &Obj) -> Option<Vec<String>> {
    let d = deref(objs, o)?;
    let mut v = Vec::new();
    if let Some(p) = d.get("Properties") {
        match deref(objs, p)? { Obj::Dict(items) => for (k, _) in items { v.push(String::from_utf8_lossy(k).to_string()); }, _ => return None }
    }
    v.sort();
    Some(v)
}

/// nearest value of `key` climbing from `nr` (own entry first) along /Parent; `outermost` = defect switch
fn climb<'a>(objs: &'a Objs, nr: u32, key: &str, outermost: bool) -> Option<&'a Obj> {
    let mut cur = Some(nr);
    let mut found = None;
    let mut steps = 0;
    while let Some(n) = cur {
        let o = objs.get(&n)?;
        if let Some(v) = o.get(key) {
            if found.is_none() || outermost { found = Some(v); }
            // the real rule: own entry wins, then the nearest ancestor
            if !outermost { break; }
            // defect emulation: own entry still wins, ancestors keep overriding each other
            if n == nr { break; }
        }
        cur = refnr(o.get("Parent"));
        steps += 1;
        if steps > 64 { return None; }
    }
    found
}

pub fn leaf_info(objs: &Objs, nr: u32, outermost: bool) -> Leaf {
    let o = &objs[&nr];
    let media = climb(objs, nr, "MediaBox", outermost).and_then(rect);
    let crop = climb(objs, nr, "CropBox", outermost).and_then(rect).or(media);
    let res = climb(objs, nr, "Resources", outermost).and_then(|r| res_names(objs, r));
    Leaf { nr, marker: match o.get("VerifLeaf") { Some(Obj::Int(i)) => Some(*i), _ => None }, media, crop, res }
}

/// Validating walk. Err = the document is not a well-formed page tree (generator trouble, never a verdict).
pub fn walk(objs: &Objs, catalog: u32) -> Result<Vec<Leaf>, String> {
    let cat = objs.get(&catalog).ok_or("no catalog")?;
    if type_of(cat) != Some(b"Catalog") { return Err("catalog /Type".into()); }
    let root = refnr(cat.get("Pages")).ok_or("catalog /Pages is not a reference")?;
    if objs.get(&root).and_then(|o| o.get("Parent")).is_some() { return Err("root has /Parent".into()); }
    let mut seen = BTreeSet::new();
    let mut out = Vec::new();
    let n = visit(objs, root, None, &mut seen, &mut out, 0)?;
    if n != out.len() as i64 { return Err("internal: count".into()); }
    for l in &out {
        if l.marker.is_none() { return Err(format!("leaf {} without marker", l.nr)); }
        if l.media.is_none() { return Err(format!("leaf {} has no MediaBox on its path", l.nr)); }
        if l.res.is_none() { return Err(format!("leaf {} has no Resources on its path", l.nr)); }
    }
    Ok(out)
}
fn visit(objs: &Objs, nr: u32, parent: Option<u32>, seen: &mut BTreeSet<u32>, out: &mut Vec<Leaf>, depth: usize) -> Result<i64, String> {
    if depth > 40 { return Err("too deep".into()); }
    if !seen.insert(nr) { return Err(format!("object {} reached twice (cycle or shared kid)", nr)); }
    let o = objs.get(&nr).ok_or(format!("dangling reference {}", nr))?;
    if !matches!(o, Obj::Dict(_)) { return Err(format!("object {} is not a dictionary", nr)); }
    if refnr(o.get("Parent")) != parent { return Err(format!("object {} has a wrong /Parent", nr)); }
    match type_of(o) {
        Some(b"Page") => {
            if o.get("Kids").is_some() || o.get("Count").is_some() { return Err("leaf with Kids/Count".into()); }
            out.push(leaf_info(objs, nr, false));
            Ok(1)
        }
        Some(b"Pages") => {
            let kids = match o.get("Kids") { Some(Obj::Arr(a)) => a, _ => return Err(format!("object {} without /Kids array", nr)) };
            let mut total = 0;
            for k in kids {
                let kn = refnr(Some(k)).ok_or("kid is not a reference")?;
                total += visit(objs, kn, Some(nr), seen, out, depth + 1)?;
            }
            match o.get("Count") { Some(Obj::Int(c)) if *c == total => Ok(total), other => Err(format!("object {}: /Count {:?} but {} leaves", nr, other, total)) }
        }
        _ => Err(format!("object {} has no page-tree /Type", nr)),
    }
}

// ---------------------------------------------------------------- doctored stub library (self-test only)

#[derive(Clone, Copy, Debug, PartialEq)]
pub enum Bug { None, PosPlusOne, NoRebase, Outermost, CountKids, BoundsOffByOne, CropIgnoresInheritance }

pub fn stub_root(objs: &Objs, catalog: u32) -> u32 { refnr(objs[&catalog].get("Pages")).unwrap() }

pub fn stub_count(objs: &Objs, catalog: u32, bug: Bug) -> i64 {
    let root = &objs[&stub_root(objs, catalog)];
    if bug == Bug::CountKids { if let Some(Obj::Arr(a)) = root.get("Kids") { return a.len() as i64; } }
    match root.get("Count") { Some(Obj::Int(c)) => *c, _ => -1 }
}

/// count-driven descent as a reader would implement it; Err("PageOutOfBounds") when the index is not found
pub fn stub_page(objs: &Objs, node: u32, page_nr: i64, bug: Bug) -> Result<u32, String> {
    let o = &objs[&node];
    let kids = match o.get("Kids") { Some(Obj::Arr(a)) => a.clone(), _ => vec![] };
    let mut pos = 0i64;
    for k in kids {
        let kn = refnr(Some(&k)).unwrap();
        let ko = &objs[&kn];
        if type_of(ko) == Some(b"Pages") {
            let c = match ko.get("Count") { Some(Obj::Int(c)) => *c, _ => 0 };
            let inside = if bug == Bug::BoundsOffByOne { page_nr >= pos && page_nr <= pos + c } else { page_nr >= pos && page_nr < pos + c };
            if inside {
                let sub = if bug == Bug::NoRebase { page_nr } else { page_nr - pos };
                return stub_page(objs, kn, sub, bug);
            }
            pos += if bug == Bug::PosPlusOne { 1 } else { c };
        } else {
            if pos == page_nr { return Ok(kn); }
            pos += 1;
        }
    }
    Err("PageOutOfBounds".into())
}

pub fn stub_leaf(objs: &Objs, nr: u32, bug: Bug) -> Leaf {
    let mut l = leaf_info(objs, nr, bug == Bug::Outermost);
    if bug == Bug::CropIgnoresInheritance {
        l.crop = objs[&nr].get("CropBox").and_then(rect).or(l.media);
    }
    l
}
