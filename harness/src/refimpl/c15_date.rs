//! Reference parser for PDF date strings (ISO 32000-1 7.9.4 / ISO 32000-2 7.9.4):
//! `D:YYYY[MM[DD[HH[mm[SS[O[HH'[mm[']]]]]]]]]`, O in {+,-,Z}. Missing fields take the defaults of the
//! specification (month, day = 01; everything else 00). A missing time-zone designator is read as UT
//! (ISO 32000-2: "shall be considered to be GMT"). Shares no code with the library.
#[derive(Debug, Clone, PartialEq, Eq)]
pub struct RefDate {
    pub year: u32, pub month: u32, pub day: u32, pub hour: u32, pub minute: u32, pub second: u32,
    /// '+', '-' or 'Z'
    pub rel: char,
    pub tz_hour: u32, pub tz_minute: u32,
}

fn two(s: &[u8], pos: &mut usize, default: u32) -> Result<u32, String> {
    if *pos >= s.len() || !s[*pos].is_ascii_digit() { return Ok(default); }
    if *pos + 2 > s.len() || !s[*pos + 1].is_ascii_digit() { return Err(format!("odd digit count at {}", *pos)); }
    let v = (s[*pos] - b'0') as u32 * 10 + (s[*pos + 1] - b'0') as u32;
    *pos += 2;
    Ok(v)
}

pub fn parse(s: &[u8]) -> Result<RefDate, String> {
    if !s.starts_with(b"D:") { return Err("no D: prefix".into()); }
    if s.len() < 6 || !s[2..6].iter().all(|c| c.is_ascii_digit()) { return Err("no year".into()); }
    let year = s[2..6].iter().fold(0u32, |a, c| a * 10 + (c - b'0') as u32);
    let mut pos = 6;
    let month = two(s, &mut pos, 1)?;
    let day = two(s, &mut pos, 1)?;
    let hour = two(s, &mut pos, 0)?;
    let minute = two(s, &mut pos, 0)?;
    let second = two(s, &mut pos, 0)?;
    let mut rel = 'Z';
    let (mut tz_hour, mut tz_minute) = (0, 0);
    if pos < s.len() {
        rel = match s[pos] { b'+' => '+', b'-' => '-', b'Z' => 'Z', c => return Err(format!("bad zone designator {:?}", c as char)) };
        pos += 1;
        tz_hour = two(s, &mut pos, 0)?;
        if pos < s.len() && s[pos] == b'\'' {
            pos += 1;
            tz_minute = two(s, &mut pos, 0)?;
            if pos < s.len() && s[pos] == b'\'' { pos += 1; }
        }
        if pos != s.len() { return Err(format!("trailing bytes at {}", pos)); }
    }
    if !(1..=12).contains(&month) || !(1..=31).contains(&day) || hour > 23 || minute > 59 || second > 59 || tz_hour > 23 || tz_minute > 59 {
        return Err("field out of range".into());
    }
    Ok(RefDate { year, month, day, hour, minute, second, rel, tz_hour, tz_minute })
}

#[cfg(test)]
mod tests {
    use super::*;
    #[test]
    fn forms() {
        let a = parse(b"D:199812231952-08'00'").unwrap();
        let b = parse(b"D:19981223195200-08'00").unwrap();
        assert_eq!(a, b);
        assert_eq!(parse(b"D:2001").unwrap(), parse(b"D:20010101000000Z00'00").unwrap());
        assert_eq!(parse(b"D:20010203040506").unwrap().rel, 'Z');
        assert!(parse(b"D:20011301").is_err());
        assert!(parse(b"2001").is_err());
    }
}
