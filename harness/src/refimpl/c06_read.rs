//! Minimal spec-driven object reader (tokenizer + object parser + "n g obj ... endobj" with streams of direct /Length).
//! Used (a) to read the third-party encrypted fixtures and (b) to read generated documents back before the
//! library sees them. Shares no code with the `pdf` crate. Produces `mkpdf::Obj` values.
use crate::mkpdf::Obj;

pub struct P<'a> { pub b: &'a [u8], pub i: usize }

fn is_ws(c: u8) -> bool { matches!(c, 0 | 9 | 10 | 12 | 13 | 32) }
fn is_delim(c: u8) -> bool { b"()<>[]{}/%".contains(&c) }
fn hexval(c: u8) -> Option<u8> {
    match c { b'0'..=b'9' => Some(c - b'0'), b'a'..=b'f' => Some(c - b'a' + 10), b'A'..=b'F' => Some(c - b'A' + 10), _ => None }
}

impl<'a> P<'a> {
    pub fn new(b: &'a [u8], i: usize) -> P<'a> { P { b, i } }
    fn peek(&self) -> Option<u8> { self.b.get(self.i).copied() }
    pub fn skip_ws(&mut self) {
        while let Some(c) = self.peek() {
            if is_ws(c) { self.i += 1; }
            else if c == b'%' { while let Some(c) = self.peek() { if c == b'\n' || c == b'\r' { break; } self.i += 1; } }
            else { break; }
        }
    }
    fn regular(&mut self) -> &'a [u8] {
        let s = self.i;
        while let Some(c) = self.peek() { if is_ws(c) || is_delim(c) { break; } self.i += 1; }
        &self.b[s..self.i]
    }
    pub fn keyword(&mut self, kw: &[u8]) -> Result<(), String> {
        self.skip_ws();
        if self.b[self.i..].starts_with(kw) { self.i += kw.len(); Ok(()) }
        else { Err(format!("expected {:?} at {}", String::from_utf8_lossy(kw), self.i)) }
    }
    pub fn uint(&mut self) -> Result<u64, String> {
        self.skip_ws();
        let t = self.regular();
        std::str::from_utf8(t).ok().and_then(|s| s.parse().ok()).ok_or_else(|| format!("expected integer at {}", self.i))
    }
    fn literal_string(&mut self) -> Result<Vec<u8>, String> {
        // self.i is just after '('
        let mut out = Vec::new();
        let mut depth = 1;
        loop {
            let c = self.peek().ok_or("EOF in string")?;
            self.i += 1;
            match c {
                b'(' => { depth += 1; out.push(c); }
                b')' => { depth -= 1; if depth == 0 { break; } out.push(c); }
                b'\\' => {
                    let e = self.peek().ok_or("EOF in escape")?;
                    self.i += 1;
                    match e {
                        b'n' => out.push(b'\n'), b'r' => out.push(b'\r'), b't' => out.push(b'\t'),
                        b'b' => out.push(8), b'f' => out.push(12),
                        b'(' | b')' | b'\\' => out.push(e),
                        b'\r' => { if self.peek() == Some(b'\n') { self.i += 1; } }
                        b'\n' => {}
                        b'0'..=b'7' => {
                            let mut v = (e - b'0') as u32;
                            for _ in 0..2 {
                                match self.peek() { Some(d @ b'0'..=b'7') => { v = v * 8 + (d - b'0') as u32; self.i += 1; } _ => break }
                            }
                            out.push(v as u8);
                        }
                        other => out.push(other),
                    }
                }
                b'\r' => { if self.peek() == Some(b'\n') { self.i += 1; } out.push(b'\n'); }
                _ => out.push(c),
            }
        }
        Ok(out)
    }
    fn hex_string(&mut self) -> Result<Vec<u8>, String> {
        let mut nibbles = Vec::new();
        loop {
            let c = self.peek().ok_or("EOF in hex string")?;
            self.i += 1;
            if c == b'>' { break; }
            if is_ws(c) { continue; }
            nibbles.push(hexval(c).ok_or_else(|| format!("bad hex digit at {}", self.i))?);
        }
        if nibbles.len() % 2 == 1 { nibbles.push(0); }
        Ok(nibbles.chunks(2).map(|p| p[0] << 4 | p[1]).collect())
    }
    fn name(&mut self) -> Result<Vec<u8>, String> {
        let raw = self.regular();
        let mut out = Vec::new();
        let mut k = 0;
        while k < raw.len() {
            if raw[k] == b'#' && k + 2 < raw.len() {
                match (hexval(raw[k + 1]), hexval(raw[k + 2])) { (Some(h), Some(l)) => { out.push(h << 4 | l); k += 3; continue; } _ => {} }
            }
            out.push(raw[k]); k += 1;
        }
        Ok(out)
    }
    pub fn object(&mut self) -> Result<Obj, String> {
        self.skip_ws();
        let c = self.peek().ok_or("EOF")?;
        match c {
            b'(' => { self.i += 1; Ok(Obj::Str(self.literal_string()?)) }
            b'<' => {
                if self.b.get(self.i + 1) == Some(&b'<') {
                    self.i += 2;
                    let mut d = Vec::new();
                    loop {
                        self.skip_ws();
                        if self.b[self.i..].starts_with(b">>") { self.i += 2; break; }
                        if self.peek() != Some(b'/') { return Err(format!("dict key expected at {}", self.i)); }
                        self.i += 1;
                        let k = self.name()?;
                        let v = self.object()?;
                        d.push((k, v));
                    }
                    Ok(Obj::Dict(d))
                } else { self.i += 1; Ok(Obj::Str(self.hex_string()?)) }
            }
            b'/' => { self.i += 1; Ok(Obj::Name(self.name()?)) }
            b'[' => {
                self.i += 1;
                let mut a = Vec::new();
                loop {
                    self.skip_ws();
                    if self.peek() == Some(b']') { self.i += 1; break; }
                    a.push(self.object()?);
                }
                Ok(Obj::Arr(a))
            }
            _ => {
                let t = self.regular();
                if t.is_empty() { return Err(format!("unexpected byte {:#x} at {}", c, self.i)); }
                match t {
                    b"true" => return Ok(Obj::Bool(true)),
                    b"false" => return Ok(Obj::Bool(false)),
                    b"null" => return Ok(Obj::Null),
                    _ => {}
                }
                let s = std::str::from_utf8(t).map_err(|_| "non-utf8 token".to_string())?;
                if let Ok(n) = s.parse::<i64>() {
                    // maybe "n g R"
                    let save = self.i;
                    if n >= 0 {
                        self.skip_ws();
                        let t2 = self.regular();
                        if let Some(g) = std::str::from_utf8(t2).ok().and_then(|s| s.parse::<u16>().ok()) {
                            self.skip_ws();
                            let t3 = self.regular();
                            if t3 == b"R" { return Ok(Obj::Ref(n as u32, g)); }
                        }
                    }
                    self.i = save;
                    Ok(Obj::Int(n))
                } else if let Ok(x) = s.parse::<f64>() { Ok(Obj::Real(x)) }
                else { Err(format!("unknown token {:?} at {}", s, self.i)) }
            }
        }
    }
    /// "n g obj <object> [stream ... endstream] endobj"; stream needs a direct integer /Length
    pub fn indirect(&mut self) -> Result<(u32, u16, Obj), String> {
        let nr = self.uint()? as u32;
        let gen = self.uint()? as u16;
        self.keyword(b"obj")?;
        let o = self.object()?;
        self.skip_ws();
        let o = if self.b[self.i..].starts_with(b"stream") {
            self.i += 6;
            if self.peek() == Some(b'\r') { self.i += 1; }
            if self.peek() == Some(b'\n') { self.i += 1; }
            let Obj::Dict(d) = o else { return Err("stream without dictionary".into()) };
            let len = match d.iter().find(|(k, _)| k == b"Length") { Some((_, Obj::Int(n))) if *n >= 0 => *n as usize, _ => return Err("stream /Length must be a direct integer here".into()) };
            if self.i + len > self.b.len() { return Err("stream data beyond EOF".into()); }
            let data = self.b[self.i..self.i + len].to_vec();
            self.i += len;
            self.keyword(b"endstream")?;
            Obj::Stream(d, data)
        } else { o };
        self.keyword(b"endobj")?;
        Ok((nr, gen, o))
    }
}

fn find(hay: &[u8], needle: &[u8], from: usize) -> Option<usize> {
    if needle.is_empty() || hay.len() < needle.len() { return None; }
    (from..=hay.len() - needle.len()).find(|&i| &hay[i..i + needle.len()] == needle)
}
fn rfind(hay: &[u8], needle: &[u8]) -> Option<usize> {
    if hay.len() < needle.len() { return None; }
    (0..=hay.len() - needle.len()).rev().find(|&i| &hay[i..i + needle.len()] == needle)
}

/// A classic single-section file (as the fixtures are): returns (trailer dict, objects by scanning the xref table).
pub fn read_classic(b: &[u8]) -> Result<(Obj, Vec<(u32, u16, Obj)>), String> {
    let sx = rfind(b, b"startxref").ok_or("no startxref")?;
    let mut p = P::new(b, sx + 9);
    let xoff = p.uint()? as usize;
    let mut p = P::new(b, xoff);
    p.keyword(b"xref")?;
    let mut offs: Vec<(u32, usize, u16)> = Vec::new();
    loop {
        p.skip_ws();
        if b[p.i..].starts_with(b"trailer") { p.i += 7; break; }
        let first = p.uint()? as u32;
        let n = p.uint()? as u32;
        for k in 0..n {
            let off = p.uint()? as usize;
            let gen = p.uint()? as u16;
            p.skip_ws();
            let t = p.peek().ok_or("EOF in xref")?;
            p.i += 1;
            if t == b'n' { offs.push((first + k, off, gen)); }
        }
    }
    let trailer = p.object()?;
    let mut objs = Vec::new();
    for (nr, off, gen) in offs {
        let mut q = P::new(b, off);
        let (n2, g2, o) = q.indirect().map_err(|e| format!("object {} at {}: {}", nr, off, e))?;
        if n2 != nr || g2 != gen { return Err(format!("xref says {} {} but object header is {} {}", nr, gen, n2, g2)); }
        objs.push((nr, gen, o));
    }
    let _ = find(b, b"%PDF-", 0).ok_or("no header")?;
    Ok((trailer, objs))
}
