//! C19 reference code (shares nothing with the `pdf` crate):
//!  * strict interpreter of a CID-font /W array (PDF 32000-1 §9.7.4.3),
//!  * strict reader of ToUnicode CMap texts (PDF 32000-1 §9.10.3, Adobe TN 5014 / 5411 subset:
//!    codespacerange, bfchar, bfrange in string and array form).
//! Both *reject* anything outside the conformant subset, so they double as the conformance
//! check of the generators in props/c19.rs.
use crate::mkpdf::Obj;
use std::collections::BTreeMap;

// ---------------------------------------------------------------------------------------------
// /W arrays
// ---------------------------------------------------------------------------------------------

fn num(o: &Obj) -> Option<f64> {
    match o { Obj::Int(i) => Some(*i as f64), Obj::Real(x) => Some(*x), _ => None }
}

/// Interpret a /W array. `deref` resolves `Obj::Ref` (for indirect sub-arrays). Result: per code
/// 0..=65535 the assigned width (None = not assigned). Errors on anything that is not a
/// well-formed array of disjoint non-empty groups.
pub fn interpret_w(w: &Obj, deref: &dyn Fn(u32) -> Option<Obj>) -> Result<Vec<Option<f64>>, String> {
    let w = match w { Obj::Ref(n, _) => deref(*n).ok_or("dangling /W reference")?, o => o.clone() };
    let items = match &w { Obj::Arr(a) => a, _ => return Err("/W is not an array".into()) };
    let mut out: Vec<Option<f64>> = vec![None; 65536];
    let mut assign = |c: i64, v: f64| -> Result<(), String> {
        if !(0..=65535).contains(&c) { return Err(format!("code {} out of range", c)); }
        if out[c as usize].is_some() { return Err(format!("code {} assigned twice", c)); }
        out[c as usize] = Some(v);
        Ok(())
    };
    let mut i = 0;
    while i < items.len() {
        let c1 = match &items[i] { Obj::Int(c) => *c, o => return Err(format!("group start is not an integer: {:?}", o)) };
        let second = items.get(i + 1).ok_or("truncated group")?;
        let second = match second { Obj::Ref(n, _) => deref(*n).ok_or("dangling sub-array reference")?, o => o.clone() };
        match &second {
            Obj::Arr(ws) => {
                if ws.is_empty() { return Err("empty width list".into()); }
                for (k, wv) in ws.iter().enumerate() {
                    assign(c1 + k as i64, num(wv).ok_or("width is not a number")?)?;
                }
                i += 2;
            }
            Obj::Int(c2) => {
                if *c2 < c1 { return Err("empty range".into()); }
                let wv = num(items.get(i + 2).ok_or("truncated range group")?).ok_or("width is not a number")?;
                for c in c1..=*c2 { assign(c, wv)?; }
                i += 3;
            }
            o => return Err(format!("unexpected object after group start: {:?}", o)),
        }
    }
    Ok(out)
}

// ---------------------------------------------------------------------------------------------
// CMap texts
// ---------------------------------------------------------------------------------------------

#[derive(Clone, Debug, PartialEq)]
pub enum Tok { Int(i64), Real(String), Hex(Vec<u8>), Lit(Vec<u8>), Name(Vec<u8>), Word(Vec<u8>), ArrOpen, ArrClose, DictOpen, DictClose }

fn is_ws(b: u8) -> bool { matches!(b, 0 | 9 | 10 | 12 | 13 | 32) }
fn is_delim(b: u8) -> bool { matches!(b, b'(' | b')' | b'<' | b'>' | b'[' | b']' | b'{' | b'}' | b'/' | b'%') }
fn hexval(b: u8) -> Option<u8> {
    match b { b'0'..=b'9' => Some(b - b'0'), b'a'..=b'f' => Some(b - b'a' + 10), b'A'..=b'F' => Some(b - b'A' + 10), _ => None }
}

/// PostScript/PDF tokenizer: white space = NUL TAB LF FF CR SP; a comment runs from % to the next CR or LF.
pub fn tokenize(d: &[u8]) -> Result<Vec<Tok>, String> {
    let mut t = Vec::new();
    let mut i = 0;
    while i < d.len() {
        let b = d[i];
        if is_ws(b) { i += 1; continue; }
        match b {
            b'%' => { while i < d.len() && d[i] != b'\n' && d[i] != b'\r' { i += 1; } }
            b'[' => { t.push(Tok::ArrOpen); i += 1; }
            b']' => { t.push(Tok::ArrClose); i += 1; }
            b'{' | b'}' => { t.push(Tok::Word(vec![b])); i += 1; }
            b'<' => {
                if d.get(i + 1) == Some(&b'<') { t.push(Tok::DictOpen); i += 2; continue; }
                i += 1;
                let mut nib: Vec<u8> = Vec::new();
                loop {
                    let c = *d.get(i).ok_or("unterminated hex string")?;
                    i += 1;
                    if c == b'>' { break; }
                    if is_ws(c) { continue; }
                    nib.push(hexval(c).ok_or_else(|| format!("bad hex digit {:?}", c as char))?);
                }
                if nib.len() % 2 == 1 { nib.push(0); }
                t.push(Tok::Hex(nib.chunks(2).map(|p| p[0] << 4 | p[1]).collect()));
            }
            b'>' => {
                if d.get(i + 1) == Some(&b'>') { t.push(Tok::DictClose); i += 2; } else { return Err("stray >".into()); }
            }
            b'(' => {
                let mut depth = 1; i += 1;
                let mut s = Vec::new();
                loop {
                    let c = *d.get(i).ok_or("unterminated literal string")?;
                    i += 1;
                    match c {
                        b'\\' => { let e = *d.get(i).ok_or("unterminated escape")?; i += 1; s.push(e); }
                        b'(' => { depth += 1; s.push(c); }
                        b')' => { depth -= 1; if depth == 0 { break; } s.push(c); }
                        _ => s.push(c),
                    }
                }
                t.push(Tok::Lit(s));
            }
            b')' => return Err("stray )".into()),
            b'/' => {
                i += 1;
                let st = i;
                while i < d.len() && !is_ws(d[i]) && !is_delim(d[i]) { i += 1; }
                t.push(Tok::Name(d[st..i].to_vec()));
            }
            _ => {
                let st = i;
                while i < d.len() && !is_ws(d[i]) && !is_delim(d[i]) { i += 1; }
                let w = &d[st..i];
                let s = std::str::from_utf8(w).unwrap_or("");
                if let Ok(v) = s.parse::<i64>() { t.push(Tok::Int(v)); }
                else if !s.is_empty() && s.parse::<f64>().is_ok() && s.bytes().all(|c| c.is_ascii_digit() || c == b'.' || c == b'-' || c == b'+') { t.push(Tok::Real(s.to_string())); }
                else { t.push(Tok::Word(w.to_vec())); }
            }
        }
    }
    Ok(t)
}

pub fn utf16be(b: &[u8]) -> Result<String, String> {
    if b.is_empty() { return Err("empty destination".into()); }
    if b.len() % 2 != 0 { return Err("odd destination length".into()); }
    let units: Vec<u16> = b.chunks(2).map(|c| (c[0] as u16) << 8 | c[1] as u16).collect();
    let mut s = String::new();
    let mut i = 0;
    while i < units.len() {
        let u = units[i] as u32;
        if (0xD800..0xDC00).contains(&u) {
            let l = *units.get(i + 1).ok_or("lone high surrogate")? as u32;
            if !(0xDC00..0xE000).contains(&l) { return Err("high surrogate not followed by low".into()); }
            s.push(char::from_u32(0x10000 + ((u - 0xD800) << 10) + (l - 0xDC00)).ok_or("bad scalar")?);
            i += 2;
        } else if (0xDC00..0xE000).contains(&u) {
            return Err("lone low surrogate".into());
        } else {
            s.push(char::from_u32(u).ok_or("bad scalar")?);
            i += 1;
        }
    }
    Ok(s)
}

#[derive(Default, Debug)]
pub struct CMapInfo {
    pub map: BTreeMap<u16, String>,
    pub codespace: Vec<(Vec<u8>, Vec<u8>)>,
    pub n_bfchar: usize,
    pub n_range_str: usize,
    pub n_range_arr: usize,
    pub blocks: usize,
}

fn key_of(code: &[u8]) -> u16 { code.iter().fold(0u16, |a, &b| a << 8 | b as u16) }

/// Strict reader. Rejects: missing begincmap/endcmap, mappings before the codespace, wrong or >100
/// block counts, codes that are not 1 or 2 bytes or outside the codespace, lo>hi or different
/// lengths, string-form ranges whose last byte would overflow, array length != range length,
/// destinations that are not non-empty well-formed UTF-16BE, duplicate source codes.
pub fn parse_tounicode(data: &[u8]) -> Result<CMapInfo, String> {
    let t = tokenize(data)?;
    let mut info = CMapInfo::default();
    let word = |k: usize| -> Option<&[u8]> { match t.get(k) { Some(Tok::Word(w)) => Some(w.as_slice()), _ => None } };
    let hex = |k: usize| -> Result<&Vec<u8>, String> { match t.get(k) { Some(Tok::Hex(h)) => Ok(h), o => Err(format!("expected hex string, found {:?}", o)) } };
    let mut i = 0;
    let mut in_cmap = false;
    let mut ended = false;
    let in_space = |cs: &Vec<(Vec<u8>, Vec<u8>)>, c: &[u8]| cs.iter().any(|(lo, hi)| lo.len() == c.len() && lo.iter().zip(c).all(|(l, x)| l <= x) && hi.iter().zip(c).all(|(h, x)| x <= h));
    let put = |info: &mut CMapInfo, code: Vec<u8>, dst: &[u8]| -> Result<(), String> {
        if code.is_empty() || code.len() > 2 { return Err("source code must be 1 or 2 bytes".into()); }
        if !in_space(&info.codespace, &code) { return Err(format!("code {:02x?} outside the codespace", code)); }
        let s = utf16be(dst)?;
        if info.map.insert(key_of(&code), s).is_some() { return Err("duplicate source code".into()); }
        Ok(())
    };
    while i < t.len() {
        let count = |what: &str| -> Result<usize, String> {
            match (i > 0).then(|| &t[i - 1]) { Some(Tok::Int(n)) if *n >= 1 && *n <= 100 => Ok(*n as usize), o => Err(format!("{} needs a count 1..100, found {:?}", what, o)) }
        };
        match word(i) {
            Some(b"begincmap") => { in_cmap = true; i += 1; }
            Some(b"endcmap") => { if !in_cmap { return Err("endcmap without begincmap".into()); } ended = true; break; }
            Some(b"begincodespacerange") => {
                if !in_cmap { return Err("codespacerange outside cmap".into()); }
                let n = count("begincodespacerange")?;
                i += 1;
                for _ in 0..n {
                    let lo = hex(i)?.clone(); let hi = hex(i + 1)?.clone();
                    if lo.len() != hi.len() || lo.is_empty() || lo.len() > 2 || lo.iter().zip(&hi).any(|(l, h)| l > h) { return Err("bad codespace range".into()); }
                    info.codespace.push((lo, hi));
                    i += 2;
                }
                if word(i) != Some(b"endcodespacerange") { return Err("missing endcodespacerange".into()); }
                i += 1;
            }
            Some(b"beginbfchar") => {
                if !in_cmap || info.codespace.is_empty() { return Err("bfchar before codespace".into()); }
                let n = count("beginbfchar")?;
                i += 1;
                for _ in 0..n {
                    let src = hex(i)?.clone(); let dst = hex(i + 1)?.clone();
                    put(&mut info, src, &dst)?;
                    info.n_bfchar += 1;
                    i += 2;
                }
                if word(i) != Some(b"endbfchar") { return Err("missing endbfchar (count mismatch?)".into()); }
                i += 1; info.blocks += 1;
            }
            Some(b"beginbfrange") => {
                if !in_cmap || info.codespace.is_empty() { return Err("bfrange before codespace".into()); }
                let n = count("beginbfrange")?;
                i += 1;
                for _ in 0..n {
                    let lo = hex(i)?.clone(); let hi = hex(i + 1)?.clone();
                    if lo.len() != hi.len() || lo.is_empty() || lo.len() > 2 { return Err("bad range codes".into()); }
                    let (l, h) = (key_of(&lo) as u32, key_of(&hi) as u32);
                    if l > h { return Err("range lo > hi".into()); }
                    let len = (h - l + 1) as usize;
                    let code = |k: usize| -> Vec<u8> { let v = l + k as u32; if lo.len() == 1 { vec![v as u8] } else { vec![(v >> 8) as u8, v as u8] } };
                    match t.get(i + 2) {
                        Some(Tok::Hex(dst)) => {
                            if dst.is_empty() { return Err("empty range destination".into()); }
                            let last = *dst.last().unwrap() as usize;
                            if last + len - 1 > 255 { return Err("string-form range overflows the last byte".into()); }
                            for k in 0..len {
                                let mut d = dst.clone();
                                *d.last_mut().unwrap() = (last + k) as u8;
                                put(&mut info, code(k), &d)?;
                            }
                            info.n_range_str += 1;
                            i += 3;
                        }
                        Some(Tok::ArrOpen) => {
                            let mut j = i + 3;
                            let mut k = 0;
                            while let Some(Tok::Hex(d)) = t.get(j) {
                                if k >= len { return Err("array longer than range".into()); }
                                put(&mut info, code(k), d)?;
                                k += 1; j += 1;
                            }
                            if t.get(j) != Some(&Tok::ArrClose) { return Err("array not closed / non-string element".into()); }
                            if k != len { return Err("array shorter than range".into()); }
                            info.n_range_arr += 1;
                            i = j + 1;
                        }
                        o => return Err(format!("bad range destination {:?}", o)),
                    }
                }
                if word(i) != Some(b"endbfrange") { return Err("missing endbfrange (count mismatch?)".into()); }
                i += 1; info.blocks += 1;
            }
            _ => i += 1,
        }
    }
    if !in_cmap || !ended { return Err("no begincmap … endcmap".into()); }
    Ok(info)
}

#[cfg(test)]
mod tests {
    use super::*;
    #[test]
    fn spec_example() {
        // PDF 32000-1 §9.10.3 example 2 (abridged)
        let txt = b"/CIDInit /ProcSet findresource begin\n12 dict begin\nbegincmap\n/CIDSystemInfo\n<< /Registry (Adobe)\n/Ordering (UCS)\n/Supplement 0\n>> def\n/CMapName /Adobe-Identity-UCS def\n/CMapType 2 def\n1 begincodespacerange\n<0000> <FFFF>\nendcodespacerange\n2 beginbfrange\n<0000> <005E> <0020>\n<005F> <0061> [<00660066> <00660069> <00660066006C>]\nendbfrange\n1 beginbfchar\n<3A51> <D840DC3E>\nendbfchar\nendcmap\nCMapName currentdict /CMap defineresource pop\nend\nend\n";
        let m = parse_tounicode(txt).unwrap();
        assert_eq!(m.map.len(), 0x5F + 3 + 1);
        assert_eq!(m.map[&0], " ");
        assert_eq!(m.map[&0x5E], "~");
        assert_eq!(m.map[&0x5F], "ff");
        assert_eq!(m.map[&0x61], "ffl");
        assert_eq!(m.map[&0x3A51], "\u{2003E}");
    }
}
