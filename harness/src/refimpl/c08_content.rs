//! Reference interpreter for content streams, written from ISO 32000-1 (7.2 lexical conventions, 7.3 objects,
//! 7.8.2 content streams, Annex A operator summary, 8.5.2 path construction, 8.9.7 inline images, 9.3/9.4 text).
//! Shares no parsing code with the `pdf` crate; only the neutral picture type `opsgen::Repr` (whose property-list
//! operands are `Primitive` values built through public constructors).
use crate::opsgen::{Repr, Val, CAPS, INTENTS, JOINS};
use pdf::object::PlainRef;
use pdf::primitive::{Dictionary, Name, PdfString, Primitive};

#[derive(Clone, Debug, PartialEq)]
pub enum RObj {
    Int(i64),
    Real(f32),
    Name(String),
    Str(Vec<u8>),
    Arr(Vec<RObj>),
    Dict(Vec<(String, RObj)>),
    Bool(bool),
    Null,
    Ref(u64, u64),
}

pub fn is_ws(b: u8) -> bool { matches!(b, 0 | 9 | 10 | 12 | 13 | 32) }
pub fn is_delim(b: u8) -> bool { b"()<>[]{}/%".contains(&b) }

pub const TEXT_MODES: [&str; 8] = ["M.Fill", "M.Stroke", "M.FillThenStroke", "M.Invisible", "M.FillAndClip", "M.StrokeAndClip", "M.FillStrokeAndClip", "M.Clip"];

struct Lex<'a> { b: &'a [u8], p: usize }

enum Tok { Obj(RObj), ArrOpen, ArrClose, DictOpen, DictClose, Kw(String), Eof }

fn parse_number(t: &[u8]) -> Option<RObj> {
    let s = std::str::from_utf8(t).ok()?;
    let (sign, body) = match s.as_bytes().first()? { b'+' => (1.0f64, &s[1..]), b'-' => (-1.0, &s[1..]), _ => (1.0, s) };
    if body.is_empty() || !body.bytes().all(|c| c.is_ascii_digit() || c == b'.') { return None; }
    let dots = body.bytes().filter(|c| *c == b'.').count();
    if dots > 1 || body == "." { return None; }
    if dots == 0 {
        // integer; out of the 32-bit range it is a real (7.3.3 / Annex C)
        match body.parse::<i64>() {
            Ok(v) if sign * (v as f64) >= -2147483648.0 && sign * (v as f64) <= 2147483647.0 => Some(RObj::Int(if sign < 0.0 { -v } else { v })),
            _ => { let txt = format!("{}{}", if sign < 0.0 { "-" } else { "" }, body); Some(RObj::Real(txt.parse::<f32>().ok()?)) }
        }
    } else {
        let mut txt = String::new();
        if sign < 0.0 { txt.push('-'); }
        if body.starts_with('.') { txt.push('0'); }
        txt.push_str(body);
        if body.ends_with('.') { txt.push('0'); }
        Some(RObj::Real(txt.parse::<f32>().ok()?))
    }
}

impl<'a> Lex<'a> {
    fn skip_ws(&mut self) {
        loop {
            while self.p < self.b.len() && is_ws(self.b[self.p]) { self.p += 1; }
            if self.p < self.b.len() && self.b[self.p] == b'%' {
                while self.p < self.b.len() && self.b[self.p] != b'\n' && self.b[self.p] != b'\r' { self.p += 1; }
            } else { break; }
        }
    }
    fn literal_string(&mut self) -> Result<Vec<u8>, String> {
        // self.p is just after '('
        let mut out = Vec::new();
        let mut depth = 0i32;
        loop {
            let c = *self.b.get(self.p).ok_or("unterminated string")?;
            self.p += 1;
            match c {
                b'(' => { depth += 1; out.push(c); }
                b')' => { if depth == 0 { return Ok(out); } depth -= 1; out.push(c); }
                b'\r' => { if self.b.get(self.p) == Some(&b'\n') { self.p += 1; } out.push(b'\n'); }
                b'\\' => {
                    let e = *self.b.get(self.p).ok_or("unterminated escape")?;
                    self.p += 1;
                    match e {
                        b'n' => out.push(b'\n'), b'r' => out.push(b'\r'), b't' => out.push(b'\t'), b'b' => out.push(8), b'f' => out.push(12),
                        b'(' | b')' | b'\\' => out.push(e),
                        b'\r' => { if self.b.get(self.p) == Some(&b'\n') { self.p += 1; } }
                        b'\n' => {}
                        b'0'..=b'7' => {
                            let mut v = (e - b'0') as u32;
                            for _ in 0..2 {
                                match self.b.get(self.p) { Some(d @ b'0'..=b'7') => { v = v * 8 + (*d - b'0') as u32; self.p += 1; } _ => break }
                            }
                            out.push(v as u8);
                        }
                        other => out.push(other),
                    }
                }
                _ => out.push(c),
            }
        }
    }
    fn hex_string(&mut self) -> Result<Vec<u8>, String> {
        let mut out = Vec::new();
        let mut hi: Option<u8> = None;
        loop {
            let c = *self.b.get(self.p).ok_or("unterminated hex string")?;
            self.p += 1;
            if is_ws(c) { continue; }
            if c == b'>' { break; }
            let v = match c { b'0'..=b'9' => c - b'0', b'a'..=b'f' => c - b'a' + 10, b'A'..=b'F' => c - b'A' + 10, _ => return Err(format!("bad hex digit {:#x}", c)) };
            match hi.take() { None => hi = Some(v), Some(h) => out.push(h << 4 | v) }
        }
        if let Some(h) = hi { out.push(h << 4); }
        Ok(out)
    }
    fn next(&mut self) -> Result<Tok, String> {
        self.skip_ws();
        let Some(&c) = self.b.get(self.p) else { return Ok(Tok::Eof) };
        match c {
            b'(' => { self.p += 1; Ok(Tok::Obj(RObj::Str(self.literal_string()?))) }
            b'<' if self.b.get(self.p + 1) == Some(&b'<') => { self.p += 2; Ok(Tok::DictOpen) }
            b'<' => { self.p += 1; Ok(Tok::Obj(RObj::Str(self.hex_string()?))) }
            b'>' if self.b.get(self.p + 1) == Some(&b'>') => { self.p += 2; Ok(Tok::DictClose) }
            b'[' => { self.p += 1; Ok(Tok::ArrOpen) }
            b']' => { self.p += 1; Ok(Tok::ArrClose) }
            b'/' => {
                self.p += 1;
                let mut out = Vec::new();
                while self.p < self.b.len() && !is_ws(self.b[self.p]) && !is_delim(self.b[self.p]) {
                    if self.b[self.p] == b'#' {
                        let h = self.b.get(self.p + 1..self.p + 3).ok_or("short # escape")?;
                        let s = std::str::from_utf8(h).map_err(|_| "bad # escape")?;
                        out.push(u8::from_str_radix(s, 16).map_err(|_| "bad # escape")?);
                        self.p += 3;
                    } else { out.push(self.b[self.p]); self.p += 1; }
                }
                Ok(Tok::Obj(RObj::Name(String::from_utf8(out).map_err(|_| "name is not UTF-8")?)))
            }
            b')' | b'>' | b'{' | b'}' => Err(format!("unexpected delimiter {:?} at {}", c as char, self.p)),
            _ => {
                let s = self.p;
                while self.p < self.b.len() && !is_ws(self.b[self.p]) && !is_delim(self.b[self.p]) { self.p += 1; }
                let t = &self.b[s..self.p];
                if let Some(n) = parse_number(t) { return Ok(Tok::Obj(n)); }
                match t {
                    b"true" => Ok(Tok::Obj(RObj::Bool(true))),
                    b"false" => Ok(Tok::Obj(RObj::Bool(false))),
                    b"null" => Ok(Tok::Obj(RObj::Null)),
                    _ => Ok(Tok::Kw(String::from_utf8(t.to_vec()).map_err(|_| "keyword is not UTF-8")?)),
                }
            }
        }
    }
    /// object after an opening token was seen
    fn finish_obj(&mut self, first: Tok) -> Result<RObj, String> {
        match first {
            Tok::Obj(o) => Ok(o),
            Tok::ArrOpen => {
                let mut v = Vec::new();
                loop {
                    match self.next()? {
                        Tok::ArrClose => return Ok(RObj::Arr(fold_refs(v))),
                        Tok::Kw(k) if k == "R" && v.len() >= 2 => v.push(RObj::Name("\u{0}R".into())),
                        t => v.push(self.finish_obj(t)?),
                    }
                }
            }
            Tok::DictOpen => {
                let mut items: Vec<RObj> = Vec::new();
                loop {
                    match self.next()? {
                        Tok::DictClose => break,
                        Tok::Kw(k) if k == "R" && items.len() >= 2 => items.push(RObj::Name("\u{0}R".into())),
                        t => items.push(self.finish_obj(t)?),
                    }
                }
                let items = fold_refs(items);
                if items.len() % 2 != 0 { return Err("odd number of dictionary items".into()); }
                let mut d: Vec<(String, RObj)> = Vec::new();
                for kv in items.chunks(2) {
                    let RObj::Name(k) = &kv[0] else { return Err("dictionary key is not a name".into()) };
                    d.retain(|(k2, _)| k2 != k);
                    d.push((k.clone(), kv[1].clone()));
                }
                Ok(RObj::Dict(d))
            }
            Tok::ArrClose | Tok::DictClose => Err("unbalanced closing delimiter".into()),
            Tok::Kw(k) => Err(format!("keyword {} inside an object", k)),
            Tok::Eof => Err("end of data inside an object".into()),
        }
    }
}
/// `n g R` inside arrays / dictionaries
fn fold_refs(v: Vec<RObj>) -> Vec<RObj> {
    let mut out: Vec<RObj> = Vec::new();
    for o in v {
        if o == RObj::Name("\u{0}R".into()) {
            if out.len() >= 2 {
                if let (RObj::Int(id), RObj::Int(gen)) = (&out[out.len() - 2], &out[out.len() - 1]) {
                    let (id, gen) = (*id as u64, *gen as u64);
                    out.truncate(out.len() - 2);
                    out.push(RObj::Ref(id, gen));
                    continue;
                }
            }
        }
        out.push(o);
    }
    out
}

pub fn to_prim(o: &RObj) -> Primitive {
    match o {
        RObj::Int(i) => Primitive::Integer(*i as i32),
        RObj::Real(x) => Primitive::Number(*x),
        RObj::Name(s) => Primitive::Name(s.as_str().into()),
        RObj::Str(b) => Primitive::String(PdfString::new(b.as_slice().into())),
        RObj::Arr(a) => Primitive::Array(a.iter().map(to_prim).collect()),
        RObj::Dict(d) => { let mut n = Dictionary::new(); for (k, v) in d { n.insert(Name::from(k.as_str()), to_prim(v)); } Primitive::Dictionary(n) }
        RObj::Bool(b) => Primitive::Boolean(*b),
        RObj::Null => Primitive::Null,
        RObj::Ref(id, gen) => Primitive::Reference(PlainRef { id: *id, gen: *gen }),
    }
}

/// where an expected operation came from
#[derive(Clone, Debug)]
pub struct Origin {
    /// operator keyword that produced it
    pub operator: String,
    /// index of that operator among the operators of the text
    pub index: usize,
    /// for `v`: the operator that defined the current point ("" when it is undefined)
    pub cp_from: String,
}

pub struct Interp {
    pub ops: Vec<Repr>,
    pub origin: Vec<Origin>,
    /// operator keywords in order of appearance
    pub operators: Vec<String>,
    /// (operator, operands as tokenised) in order of appearance; BI carries no operands
    pub trace: Vec<(String, Vec<RObj>)>,
}

fn num(o: &RObj) -> Result<f32, String> { match o { RObj::Int(i) => Ok(*i as f32), RObj::Real(x) => Ok(*x), o => Err(format!("number expected, found {:?}", o)) } }
fn int(o: &RObj) -> Result<i64, String> { match o { RObj::Int(i) => Ok(*i), o => Err(format!("integer expected, found {:?}", o)) } }
fn name(o: &RObj) -> Result<String, String> { match o { RObj::Name(s) => Ok(s.clone()), o => Err(format!("name expected, found {:?}", o)) } }
fn string(o: &RObj) -> Result<Vec<u8>, String> { match o { RObj::Str(s) => Ok(s.clone()), o => Err(format!("string expected, found {:?}", o)) } }

fn expand<'a>(k: &'a str, table: &[(&'a str, &'a str)]) -> &'a str { table.iter().find(|(a, _)| *a == k).map(|(_, b)| *b).unwrap_or(k) }

/// Interpret a content stream. `Err` means the text is not something this reference understands
/// (the caller's generator is at fault, never the library).
pub fn interpret(text: &[u8]) -> Result<Interp, String> {
    let mut lx = Lex { b: text, p: 0 };
    let mut st: Vec<RObj> = Vec::new();
    let mut out = Interp { ops: Vec::new(), origin: Vec::new(), operators: Vec::new(), trace: Vec::new() };
    let mut cp: Option<(f32, f32)> = None;
    let mut cp_from = String::new();
    let mut start: Option<(f32, f32)> = None;
    let mut compat = 0u32;
    loop {
        let t = lx.next()?;
        let kw = match t {
            Tok::Eof => break,
            Tok::Kw(k) => k,
            t => { let o = lx.finish_obj(t)?; st.push(o); continue; }
        };
        let opi = out.operators.len();
        out.operators.push(kw.clone());
        let before = out.ops.len();
        let args = std::mem::take(&mut st);
        out.trace.push((kw.clone(), args.clone()));
        let need = |n: usize| -> Result<(), String> { if args.len() == n { Ok(()) } else { Err(format!("{} takes {} operands, {} given", kw, n, args.len())) } };
        let nums = |n: usize| -> Result<Vec<Val>, String> { need(n)?; args.iter().map(|a| num(a).map(Val::Num)).collect() };
        let r = |kind: &'static str, f: Vec<Val>| Repr { kind, f };
        let tag = |s: &'static str| Val::Tag(s);
        let mut v_cp_from = String::new();
        match kw.as_str() {
            "b" => { need(0)?; out.ops.push(r("Close", vec![])); out.ops.push(r("FillAndStroke", vec![tag("NonZero")])); cp = None; start = None; }
            "B" => { need(0)?; out.ops.push(r("FillAndStroke", vec![tag("NonZero")])); cp = None; start = None; }
            "b*" => { need(0)?; out.ops.push(r("Close", vec![])); out.ops.push(r("FillAndStroke", vec![tag("EvenOdd")])); cp = None; start = None; }
            "B*" => { need(0)?; out.ops.push(r("FillAndStroke", vec![tag("EvenOdd")])); cp = None; start = None; }
            "BDC" | "DP" => {
                need(2)?;
                match &args[1] { RObj::Name(_) | RObj::Dict(_) => {} o => return Err(format!("property list must be a name or dictionary, found {:?}", o)) }
                out.ops.push(r(if kw == "BDC" { "BeginMarkedContent" } else { "MarkedContentPoint" }, vec![Val::Name(name(&args[0])?), Val::Prim(to_prim(&args[1]))]));
            }
            "BMC" | "MP" => { need(1)?; out.ops.push(r(if kw == "BMC" { "BeginMarkedContent" } else { "MarkedContentPoint" }, vec![Val::Name(name(&args[0])?), Val::Absent])); }
            "BI" => { need(0)?; out.ops.push(inline_image(&mut lx)?); }
            "BT" => { need(0)?; out.ops.push(r("BeginText", vec![])); }
            "ET" => { need(0)?; out.ops.push(r("EndText", vec![])); }
            "BX" => { need(0)?; compat += 1; }
            "EX" => { need(0)?; compat = compat.saturating_sub(1); }
            "c" => { let v = nums(6)?; cp = Some((num(&args[4])?, num(&args[5])?)); cp_from = kw.clone(); out.ops.push(r("CurveTo", v)); }
            "v" => {
                let v = nums(4)?;
                let c1 = match cp { Some((x, y)) => vec![Val::Num(x), Val::Num(y)], None => vec![Val::Absent, Val::Absent] };
                v_cp_from = if cp.is_some() { cp_from.clone() } else { String::new() };
                out.ops.push(r("CurveTo", [c1, v].concat()));
                cp = Some((num(&args[2])?, num(&args[3])?)); cp_from = kw.clone();
            }
            "y" => { let v = nums(4)?; out.ops.push(r("CurveTo", vec![v[0].clone(), v[1].clone(), v[2].clone(), v[3].clone(), v[2].clone(), v[3].clone()])); cp = Some((num(&args[2])?, num(&args[3])?)); cp_from = kw.clone(); }
            "cm" => out.ops.push(r("Transform", nums(6)?)),
            "Tm" => out.ops.push(r("SetTextMatrix", nums(6)?)),
            "CS" => { need(1)?; out.ops.push(r("StrokeColorSpace", vec![Val::Name(name(&args[0])?)])); }
            "cs" => { need(1)?; out.ops.push(r("FillColorSpace", vec![Val::Name(name(&args[0])?)])); }
            "d" => {
                need(2)?;
                let RObj::Arr(a) = &args[0] else { return Err("d: array expected".into()) };
                out.ops.push(r("Dash", vec![Val::List(a.iter().map(|x| num(x).map(Val::Num)).collect::<Result<_, _>>()?), Val::Num(num(&args[1])?)]));
            }
            "d0" => { nums(2)?; }
            "d1" => { nums(6)?; }
            "Do" => { need(1)?; out.ops.push(r("XObject", vec![Val::Name(name(&args[0])?)])); }
            "EMC" => { need(0)?; out.ops.push(r("EndMarkedContent", vec![])); }
            "f" | "F" => { need(0)?; out.ops.push(r("Fill", vec![tag("NonZero")])); cp = None; start = None; }
            "f*" => { need(0)?; out.ops.push(r("Fill", vec![tag("EvenOdd")])); cp = None; start = None; }
            "G" => out.ops.push(r("StrokeColor", [vec![tag("Gray")], nums(1)?].concat())),
            "g" => out.ops.push(r("FillColor", [vec![tag("Gray")], nums(1)?].concat())),
            "RG" => out.ops.push(r("StrokeColor", [vec![tag("Rgb")], nums(3)?].concat())),
            "rg" => out.ops.push(r("FillColor", [vec![tag("Rgb")], nums(3)?].concat())),
            "K" => out.ops.push(r("StrokeColor", [vec![tag("Cmyk")], nums(4)?].concat())),
            "k" => out.ops.push(r("FillColor", [vec![tag("Cmyk")], nums(4)?].concat())),
            "SC" | "sc" => {
                if args.is_empty() || args.len() > 4 { return Err(format!("{}: 1..4 numbers expected", kw)); }
                for a in &args { num(a)?; }
                out.ops.push(r(if kw == "SC" { "StrokeColor" } else { "FillColor" }, vec![tag("Other"), Val::List(args.iter().map(|a| Val::Prim(to_prim(a))).collect())]));
            }
            "SCN" | "scn" => {
                if args.is_empty() { return Err(format!("{}: operands expected", kw)); }
                for (i, a) in args.iter().enumerate() { if i + 1 == args.len() && matches!(a, RObj::Name(_)) { continue; } num(a)?; }
                out.ops.push(r(if kw == "SCN" { "StrokeColor" } else { "FillColor" }, vec![tag("Other"), Val::List(args.iter().map(|a| Val::Prim(to_prim(a))).collect())]));
            }
            "gs" => { need(1)?; out.ops.push(r("GraphicsState", vec![Val::Name(name(&args[0])?)])); }
            "h" => { need(0)?; out.ops.push(r("Close", vec![])); if start.is_some() { cp = start; cp_from = kw.clone(); } }
            "i" => out.ops.push(r("Flatness", nums(1)?)),
            "j" => { need(1)?; let v = int(&args[0])?; if !(0..=2).contains(&v) { return Err("j: 0..2".into()); } out.ops.push(r("LineJoin", vec![tag(JOINS[v as usize])])); }
            "J" => { need(1)?; let v = int(&args[0])?; if !(0..=2).contains(&v) { return Err("J: 0..2".into()); } out.ops.push(r("LineCap", vec![tag(CAPS[v as usize])])); }
            "l" => { let v = nums(2)?; cp = Some((num(&args[0])?, num(&args[1])?)); cp_from = kw.clone(); out.ops.push(r("LineTo", v)); }
            "m" => { let v = nums(2)?; cp = Some((num(&args[0])?, num(&args[1])?)); start = cp; cp_from = kw.clone(); out.ops.push(r("MoveTo", v)); }
            "M" => out.ops.push(r("MiterLimit", nums(1)?)),
            "n" => { need(0)?; out.ops.push(r("EndPath", vec![])); cp = None; start = None; }
            "q" => { need(0)?; out.ops.push(r("Save", vec![])); }
            "Q" => { need(0)?; out.ops.push(r("Restore", vec![])); }
            "re" => { let v = nums(4)?; cp = Some((num(&args[0])?, num(&args[1])?)); start = cp; cp_from = kw.clone(); out.ops.push(r("Rect", v)); }
            "ri" => {
                need(1)?;
                let s = name(&args[0])?;
                let t = INTENTS.iter().find(|t| t[2..] == s).ok_or_else(|| format!("ri: non-standard intent {}", s))?;
                out.ops.push(r("RenderingIntent", vec![tag(*t)]));
            }
            "s" => { need(0)?; out.ops.push(r("Close", vec![])); out.ops.push(r("Stroke", vec![])); cp = None; start = None; }
            "S" => { need(0)?; out.ops.push(r("Stroke", vec![])); cp = None; start = None; }
            "sh" => { need(1)?; out.ops.push(r("Shade", vec![Val::Name(name(&args[0])?)])); }
            "T*" => { need(0)?; out.ops.push(r("TextNewline", vec![])); }
            "Tc" => out.ops.push(r("CharSpacing", nums(1)?)),
            "Tw" => out.ops.push(r("WordSpacing", nums(1)?)),
            "Tz" => out.ops.push(r("TextScaling", nums(1)?)),
            "TL" => out.ops.push(r("Leading", nums(1)?)),
            "Ts" => out.ops.push(r("TextRise", nums(1)?)),
            "Td" => out.ops.push(r("MoveTextPosition", nums(2)?)),
            "TD" => { let v = nums(2)?; out.ops.push(r("Leading", vec![Val::Num(-num(&args[1])?)])); out.ops.push(r("MoveTextPosition", v)); }
            "Tf" => { need(2)?; out.ops.push(r("TextFont", vec![Val::Name(name(&args[0])?), Val::Num(num(&args[1])?)])); }
            "Tj" => { need(1)?; out.ops.push(r("TextDraw", vec![Val::Str(string(&args[0])?)])); }
            "'" => { need(1)?; out.ops.push(r("TextNewline", vec![])); out.ops.push(r("TextDraw", vec![Val::Str(string(&args[0])?)])); }
            "\"" => {
                need(3)?;
                out.ops.push(r("WordSpacing", vec![Val::Num(num(&args[0])?)]));
                out.ops.push(r("CharSpacing", vec![Val::Num(num(&args[1])?)]));
                out.ops.push(r("TextNewline", vec![]));
                out.ops.push(r("TextDraw", vec![Val::Str(string(&args[2])?)]));
            }
            "TJ" => {
                need(1)?;
                let RObj::Arr(a) = &args[0] else { return Err("TJ: array expected".into()) };
                out.ops.push(r("TextDrawAdjusted", vec![Val::List(a.iter().map(|x| match x {
                    RObj::Str(s) => Ok(Val::Str(s.clone())),
                    o => num(o).map(Val::Num),
                }).collect::<Result<_, String>>()?)]));
            }
            "Tr" => { need(1)?; let v = int(&args[0])?; if !(0..=7).contains(&v) { return Err("Tr: 0..7".into()); } out.ops.push(r("TextRenderMode", vec![tag(TEXT_MODES[v as usize])])); }
            "w" => out.ops.push(r("LineWidth", nums(1)?)),
            "W" => { need(0)?; out.ops.push(r("Clip", vec![tag("NonZero")])); }
            "W*" => { need(0)?; out.ops.push(r("Clip", vec![tag("EvenOdd")])); }
            "ID" | "EI" => return Err(format!("{} outside an inline image", kw)),
            other => { if compat == 0 { return Err(format!("unknown operator {}", other)); } }
        }
        for _ in before..out.ops.len() {
            out.origin.push(Origin { operator: kw.clone(), index: opi, cp_from: v_cp_from.clone() });
        }
    }
    if !st.is_empty() { return Err(format!("{} dangling operands at the end", st.len())); }
    Ok(out)
}

/// BI has been read: key/value pairs, ID, one white-space byte, data, EI (8.9.7).
fn inline_image(lx: &mut Lex) -> Result<Repr, String> {
    let mut d: Vec<(String, RObj)> = Vec::new();
    loop {
        match lx.next()? {
            Tok::Kw(k) if k == "ID" => break,
            Tok::Obj(RObj::Name(k)) => {
                let t = lx.next()?;
                let v = lx.finish_obj(t)?;
                let k = expand(&k, &[("BPC", "BitsPerComponent"), ("CS", "ColorSpace"), ("D", "Decode"), ("DP", "DecodeParms"), ("F", "Filter"),
                    ("H", "Height"), ("IM", "ImageMask"), ("I", "Interpolate"), ("W", "Width")]).to_string();
                d.push((k, v));
            }
            _ => return Err("inline image: key expected".into()),
        }
    }
    let get = |k: &str| d.iter().find(|(a, _)| a == k).map(|(_, v)| v.clone());
    let w = int(&get("Width").ok_or("inline image without Width")?)?;
    let h = int(&get("Height").ok_or("inline image without Height")?)?;
    let mask = matches!(get("ImageMask"), Some(RObj::Bool(true)));
    let interp = matches!(get("Interpolate"), Some(RObj::Bool(true)));
    let bpc = match get("BitsPerComponent") { Some(o) => Some(int(&o)?), None => None };
    let cs = match get("ColorSpace") { Some(o) => Some(expand(&name(&o)?, &[("G", "DeviceGray"), ("RGB", "DeviceRGB"), ("CMYK", "DeviceCMYK")]).to_string()), None => None };
    let comps = match cs.as_deref() { Some("DeviceGray") => 1, Some("DeviceRGB") => 3, Some("DeviceCMYK") => 4, None if mask => 1, other => return Err(format!("inline image colour space {:?} not modelled", other)) };
    let bits = if mask { 1 } else { bpc.ok_or("inline image without BitsPerComponent")? };
    let filter = match get("Filter") { None => None, Some(o) => Some(expand(&name(&o)?, &[("AHx", "ASCIIHexDecode")]).to_string()) };
    // exactly one white-space byte after ID
    if !lx.b.get(lx.p).map(|b| is_ws(*b)).unwrap_or(false) { return Err("inline image: white space expected after ID".into()); }
    lx.p += 1;
    let data = match filter.as_deref() {
        None => {
            let row = ((w * comps * bits) + 7) / 8;
            let len = (row * h) as usize;
            let data = lx.b.get(lx.p..lx.p + len).ok_or("inline image data truncated")?.to_vec();
            lx.p += len;
            data
        }
        Some("ASCIIHexDecode") => {
            let end = lx.b[lx.p..].iter().position(|b| *b == b'>').ok_or("inline image: no EOD")?;
            let data = crate::refimpl::codec::hex_decode(&lx.b[lx.p..lx.p + end + 1])?;
            lx.p += end + 1;
            data
        }
        Some(f) => return Err(format!("inline image filter {} not modelled", f)),
    };
    match lx.next()? { Tok::Kw(k) if k == "EI" => {} _ => return Err("inline image: EI expected after the data".into()) }
    let csdbg = cs.map(|c| Val::Name(c)).unwrap_or(Val::Absent);
    Ok(Repr { kind: "InlineImage", f: vec![
        Val::Num(w as f32), Val::Num(h as f32),
        match bpc { Some(b) => Val::Num(b as f32), None => Val::Absent },
        csdbg,
        Val::Tag(if mask { "mask" } else { "nomask" }),
        Val::Tag(if interp { "interpolate" } else { "nointerpolate" }),
        Val::Str(data),
    ] })
}
