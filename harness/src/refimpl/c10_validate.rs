//! Independent structural validator for a complete PDF file (ISO 32000-1 7.5: header, body, cross-reference
//! section — table or stream —, trailer, `startxref`, `%%EOF`). Shares no code with the `pdf` crate; object
//! syntax is read with the small tokenizer of `c06_read`, everything about the file structure is decided here.
//!
//! What is checked (each failure is a `Problem` with a class from a small fixed vocabulary):
//!   header-not-at-0          `%PDF-` is not the first thing in the file
//!   no-eof-marker            the file does not end with `%%EOF` (an EOL after it is tolerated)
//!   no-startxref             no `startxref` keyword / no offset after it
//!   startxref-not-at-xref    the last `startxref` offset is not the first byte of an `xref` table or of the header of
//!                            an object whose dictionary has /Type /XRef (the byte before must be white-space)
//!   xref-stream-malformed    /W, /Index, /Size missing or ill-typed; data length is not rows x row width
//!   xref-self-entry          the xref stream's entry for itself does not give the `startxref` offset
//!   xref-offset-mismatch     an in-use entry's offset is not exactly at `n g obj` with that n and g
//!   object-syntax            the object at an in-use offset does not parse up to `endobj`
//!   size-too-small           /Size <= an object number that is in use / defined / covered by /Index
//!   length-missing           a stream without a usable /Length
//!   length-mismatch          /Length != number of bytes between the EOL after `stream` and the EOL before `endstream`
//!   dangling-reference       `n g R` (anywhere: bodies, stream dictionaries, trailer) where n g is not in use
//!   duplicate-object         an object number defined twice in the body of a single-section file
//!   body-syntax              the sequential scan of the body hit something that is not an indirect object
//!   root-missing             no /Root reference in the trailer
//! Observations that the specification words as "shall" but the property does not name are returned as `notes`
//! (e.g. /Size larger than highest object number + 1, object 0 not the head of the free list).
use super::c06_read::P;
use crate::mkpdf::Obj;
use std::collections::{BTreeMap, BTreeSet};

#[derive(Clone, Debug)]
pub struct Problem { pub class: &'static str, pub detail: String }

#[derive(Clone, Debug, PartialEq)]
pub enum Entry { Free { next: u64, gen: u64 }, InUse { off: usize, gen: u64 }, Compressed { stream: u64, index: u64 } }

#[derive(Default)]
pub struct Report {
    pub problems: Vec<Problem>,
    pub notes: BTreeSet<String>,
    /// set when the file uses something this validator does not implement (the verdict is then "don't know")
    pub unsupported: Option<String>,
    pub entries: BTreeMap<u64, Entry>,
    /// objects read through the in-use entries: nr -> (gen, value, offset)
    pub objects: BTreeMap<u64, (u64, Obj, usize)>,
    /// trailer dictionary (of the newest section)
    pub trailer: Option<Obj>,
    pub size: Option<i64>,
    pub xref_is_stream: bool,
    pub startxref: Option<usize>,
    pub n_streams: usize,
    pub n_refs: usize,
    pub sections: usize,
}

impl Report {
    fn bad(&mut self, class: &'static str, detail: String) { if self.problems.len() < 40 { self.problems.push(Problem { class, detail }); } }
    pub fn ok(&self) -> bool { self.problems.is_empty() && self.unsupported.is_none() }
    pub fn classes(&self) -> BTreeSet<&'static str> { self.problems.iter().map(|p| p.class).collect() }
    pub fn object(&self, nr: u64) -> Option<&Obj> { self.objects.get(&nr).map(|t| &t.1) }
    /// follow a reference (one level is all a conforming writer needs; chains are followed up to 8 hops)
    pub fn deref<'a>(&'a self, o: &'a Obj) -> Option<&'a Obj> {
        let mut cur = o;
        for _ in 0..8 {
            match cur { Obj::Ref(n, _) => cur = self.object(*n as u64)?, other => return Some(other) }
        }
        None
    }
    pub fn dict_get<'a>(&'a self, o: &'a Obj, key: &str) -> Option<&'a Obj> { self.deref(o)?.get(key).and_then(|v| self.deref(v)) }
    /// page objects in document order (walks /Root /Pages /Kids depth-first); Err = the tree is not walkable
    pub fn pages(&self) -> Result<Vec<u64>, String> {
        let tr = self.trailer.as_ref().ok_or("no trailer")?;
        let root = tr.get("Root").ok_or("no /Root")?;
        let pages = self.deref(root).ok_or("unresolvable /Root")?.get("Pages").ok_or("no /Pages")?;
        let Obj::Ref(n, _) = pages else { return Err("/Pages is not a reference".into()) };
        let mut out = Vec::new();
        let mut seen = BTreeSet::new();
        self.walk_pages(*n as u64, &mut out, &mut seen, 0)?;
        Ok(out)
    }
    fn walk_pages(&self, nr: u64, out: &mut Vec<u64>, seen: &mut BTreeSet<u64>, depth: usize) -> Result<(), String> {
        if depth > 32 || !seen.insert(nr) { return Err("page tree loops".into()); }
        let node = self.object(nr).ok_or(format!("page tree node {} undefined", nr))?;
        match node.get("Type") {
            Some(Obj::Name(t)) if t == b"Pages" => {
                let kids = node.get("Kids").and_then(|k| self.deref(k)).ok_or(format!("node {} has no /Kids", nr))?;
                let Obj::Arr(kids) = kids else { return Err("/Kids is not an array".into()) };
                let before = out.len();
                for k in kids {
                    let Obj::Ref(n, _) = k else { return Err("kid is not a reference".into()) };
                    self.walk_pages(*n as u64, out, seen, depth + 1)?;
                }
                match node.get("Count").and_then(|c| self.deref(c)) {
                    Some(Obj::Int(c)) if *c as usize == out.len() - before => Ok(()),
                    other => Err(format!("node {}: /Count {:?} but {} leaves below it", nr, other, out.len() - before)),
                }
            }
            Some(Obj::Name(t)) if t == b"Page" => { out.push(nr); Ok(()) }
            other => Err(format!("page tree node {} has /Type {:?}", nr, other)),
        }
    }
}

fn is_ws(c: u8) -> bool { matches!(c, 0 | 9 | 10 | 12 | 13 | 32) }
fn rfind(hay: &[u8], needle: &[u8]) -> Option<usize> {
    if hay.len() < needle.len() { return None; }
    (0..=hay.len() - needle.len()).rev().find(|&i| &hay[i..i + needle.len()] == needle)
}
fn find(hay: &[u8], needle: &[u8], from: usize) -> Option<usize> {
    if hay.len() < needle.len() || from > hay.len() - needle.len() { return None; }
    (from..=hay.len() - needle.len()).find(|&i| &hay[i..i + needle.len()] == needle)
}
fn int_of(o: Option<&Obj>) -> Option<i64> { match o { Some(Obj::Int(i)) => Some(*i), _ => None } }

/// What follows `n g obj <dictionary>` when the object is a stream.
pub struct RawStream { pub data_start: usize, pub endstream: usize }

/// One indirect object starting exactly at `off`. Returns (nr, gen, value, raw stream position, offset after `endobj`).
/// Stream data is delimited by the keywords, not by /Length (the /Length is judged separately).
pub fn read_indirect(b: &[u8], off: usize) -> Result<(u64, u64, Obj, Option<RawStream>, usize), String> {
    if off >= b.len() || !b[off].is_ascii_digit() { return Err(format!("no digit at offset {}", off)); }
    let mut p = P::new(b, off);
    let nr = p.uint()?;
    if p.i >= b.len() || !is_ws(b[p.i]) { return Err("object number not followed by white-space".into()); }
    let gen = p.uint()?;
    p.keyword(b"obj")?;
    if p.i < b.len() && !is_ws(b[p.i]) && !b"<[(/%".contains(&b[p.i]) { return Err("`obj` not followed by a delimiter".into()); }
    let o = p.object()?;
    p.skip_ws();
    let mut raw = None;
    if b[p.i..].starts_with(b"stream") {
        if !matches!(o, Obj::Dict(_)) { return Err("`stream` after a non-dictionary".into()); }
        let mut i = p.i + 6;
        // 7.3.8.1: `stream` is followed by CR LF or LF, not by CR alone
        if b.get(i) == Some(&b'\r') && b.get(i + 1) == Some(&b'\n') { i += 2; }
        else if b.get(i) == Some(&b'\n') { i += 1; }
        else { return Err(format!("`stream` at {} is not followed by CRLF or LF", p.i)); }
        // the end: first `endstream` that is followed by white-space and `endobj`
        let mut from = i;
        let es = loop {
            let e = find(b, b"endstream", from).ok_or("no `endstream`")?;
            let mut q = P::new(b, e + 9);
            q.skip_ws();
            if b[q.i..].starts_with(b"endobj") { break e; }
            from = e + 1;
        };
        raw = Some(RawStream { data_start: i, endstream: es });
        p.i = es + 9;
    }
    p.keyword(b"endobj")?;
    if p.i < b.len() && !is_ws(b[p.i]) && b[p.i] != b'%' { return Err("`endobj` runs into the next token".into()); }
    Ok((nr, gen, o, raw, p.i))
}

/// byte counts a /Length may legitimately have for the region between the `stream` EOL and `endstream`
fn acceptable_lengths(region: &[u8]) -> Vec<usize> {
    let n = region.len();
    if region.ends_with(b"\r\n") { vec![n - 2, n - 1] }       // CRLF marker, or data ending in CR + LF marker
    else if region.ends_with(b"\n") || region.ends_with(b"\r") { vec![n - 1] }
    else { vec![n] }                                          // no EOL marker ("should", not "shall")
}

fn png_unpredict(data: &[u8], columns: usize) -> Result<Vec<u8>, String> {
    let row = columns + 1;
    if row == 1 || data.len() % row != 0 { return Err("predictor rows do not divide the data".into()); }
    let mut prev = vec![0u8; columns];
    let mut out = Vec::new();
    for r in data.chunks(row) {
        let mut cur = r[1..].to_vec();
        for i in 0..columns {
            let a = if i >= 1 { cur[i - 1] } else { 0 };
            let bb = prev[i];
            let c = if i >= 1 { prev[i - 1] } else { 0 };
            let pred = match r[0] {
                0 => 0, 1 => a, 2 => bb, 3 => ((a as u16 + bb as u16) / 2) as u8,
                4 => { let p = a as i32 + bb as i32 - c as i32; let (pa, pb, pc) = ((p - a as i32).abs(), (p - bb as i32).abs(), (p - c as i32).abs());
                       if pa <= pb && pa <= pc { a } else if pb <= pc { bb } else { c } }
                t => return Err(format!("PNG row tag {}", t)),
            };
            cur[i] = cur[i].wrapping_add(pred);
        }
        out.extend_from_slice(&cur);
        prev = cur;
    }
    Ok(out)
}

/// decode the data of an xref stream: no filter, or FlateDecode with an optional PNG predictor
fn decode_xref_data(dict: &Obj, raw: &[u8]) -> Result<Vec<u8>, String> {
    let filter = match dict.get("Filter") {
        None | Some(Obj::Null) => None,
        Some(Obj::Name(n)) => Some(n.clone()),
        Some(Obj::Arr(a)) if a.is_empty() => None,
        Some(Obj::Arr(a)) if a.len() == 1 => match &a[0] { Obj::Name(n) => Some(n.clone()), _ => return Err("odd /Filter".into()) },
        _ => return Err("unsupported /Filter form".into()),
    };
    let Some(f) = filter else { return Ok(raw.to_vec()) };
    if f != b"FlateDecode" { return Err(format!("unsupported filter {}", String::from_utf8_lossy(&f))); }
    let data = super::codec::zlib_decode(raw)?;
    let parms = match dict.get("DecodeParms") { Some(Obj::Arr(a)) if a.len() == 1 => Some(&a[0]), Some(Obj::Arr(_)) => None, other => other };
    match parms {
        None | Some(Obj::Null) => Ok(data),
        Some(d @ Obj::Dict(_)) => {
            let pred = int_of(d.get("Predictor")).unwrap_or(1);
            if pred == 1 { return Ok(data); }
            if pred < 10 { return Err("TIFF predictor on an xref stream".into()); }
            let cols = int_of(d.get("Columns")).unwrap_or(1) as usize;
            png_unpredict(&data, cols)
        }
        _ => Err("odd /DecodeParms".into()),
    }
}

struct Section { entries: Vec<(u64, Entry)>, trailer: Obj, prev: Option<usize>, covered_max: Option<u64> }

fn read_xref_stream(b: &[u8], off: usize, rep: &mut Report) -> Option<Section> {
    let (nr, _gen, dict, raw, _) = match read_indirect(b, off) {
        Ok(t) => t,
        Err(e) => { rep.bad("startxref-not-at-xref", format!("offset {} is neither an `xref` table nor an object header: {}", off, e)); return None; }
    };
    if off > 0 && !is_ws(b[off - 1]) {
        rep.bad("startxref-not-at-xref", format!("offset {} is in the middle of a token (previous byte {:?})", off, b[off - 1] as char));
        return None;
    }
    match dict.get("Type") { Some(Obj::Name(t)) if t == b"XRef" => {}, _ => { rep.bad("startxref-not-at-xref", format!("object {} at offset {} is not /Type /XRef", nr, off)); return None; } }
    let Some(raw) = raw else { rep.bad("startxref-not-at-xref", format!("object {} at {} has /Type /XRef but is not a stream", nr, off)); return None; };
    rep.xref_is_stream = true;
    let region = &b[raw.data_start..raw.endstream];
    // the data of this very stream is needed before any reference could be resolved: /Length must be direct
    let len = match int_of(dict.get("Length")) { Some(l) if l >= 0 => l as usize, _ => { rep.bad("length-missing", format!("xref stream {} has no direct /Length", nr)); return None; } };
    // judge the /Length here (this object is also judged with all other streams later, where the class is reported once);
    // to keep going after a wrong /Length the data is taken by the keywords
    let ok = acceptable_lengths(region);
    let len = if ok.contains(&len) { len } else {
        rep.bad("length-mismatch", format!("xref stream {}: /Length {} but {} byte(s) stand between the `stream` EOL and the EOL before `endstream`", nr, len, ok[0]));
        ok[0]
    };
    let data = match decode_xref_data(&dict, &region[..len]) { Ok(d) => d, Err(e) => { rep.unsupported = Some(format!("xref stream: {}", e)); return None; } };
    let w: Vec<i64> = match dict.get("W") { Some(Obj::Arr(a)) if a.len() == 3 => a.iter().filter_map(|x| int_of(Some(x))).collect(), _ => vec![] };
    if w.len() != 3 || w.iter().any(|x| *x < 0 || *x > 8) { rep.bad("xref-stream-malformed", format!("/W is {:?}", dict.get("W"))); return None; }
    let Some(size) = int_of(dict.get("Size")) else { rep.bad("xref-stream-malformed", "no integer /Size".into()); return None; };
    let index: Vec<i64> = match dict.get("Index") {
        None => vec![0, size],
        Some(Obj::Arr(a)) if a.len() % 2 == 0 && a.iter().all(|x| matches!(x, Obj::Int(i) if *i >= 0)) => a.iter().filter_map(|x| int_of(Some(x))).collect(),
        other => { rep.bad("xref-stream-malformed", format!("/Index is {:?}", other)); return None; }
    };
    let row = (w[0] + w[1] + w[2]) as usize;
    let rows: i64 = index.chunks(2).map(|c| c[1]).sum();
    if row == 0 || data.len() != rows as usize * row {
        rep.bad("xref-stream-malformed", format!("/Index {:?} announces {} entries of {} bytes (/W {:?}) but the stream has {} bytes", index, rows, row, w, data.len()));
        return None;
    }
    let field = |s: &[u8]| s.iter().fold(0u64, |a, c| (a << 8) | *c as u64);
    let mut entries = Vec::new();
    let mut k = 0usize;
    let mut covered_max = None;
    for c in index.chunks(2) {
        for j in 0..c[1] {
            let r = &data[k * row..(k + 1) * row];
            k += 1;
            let t = if w[0] == 0 { 1 } else { field(&r[..w[0] as usize]) };
            let f2 = field(&r[w[0] as usize..(w[0] + w[1]) as usize]);
            let f3 = field(&r[(w[0] + w[1]) as usize..]);
            let n = (c[0] + j) as u64;
            covered_max = Some(covered_max.map_or(n, |m: u64| m.max(n)));
            let e = match t {
                0 => Entry::Free { next: f2, gen: f3 },
                1 => Entry::InUse { off: f2 as usize, gen: if w[2] == 0 { 0 } else { f3 } },
                2 => Entry::Compressed { stream: f2, index: f3 },
                _ => continue, // 7.5.8.3: any other type is a reference to the null object
            };
            entries.push((n, e));
        }
    }
    let prev = int_of(dict.get("Prev")).map(|p| p as usize);
    // the entry of the stream itself
    match entries.iter().find(|(n, _)| *n == nr) {
        Some((_, Entry::InUse { off: o, .. })) if *o == off => {}
        other => rep.bad("xref-self-entry", format!("xref stream is object {} at offset {}, its own entry says {:?}", nr, off, other.map(|e| &e.1))),
    }
    Some(Section { entries, trailer: dict, prev, covered_max })
}

fn read_xref_table(b: &[u8], off: usize, rep: &mut Report) -> Option<Section> {
    let mut p = P::new(b, off + 4);
    let mut entries = Vec::new();
    let mut covered_max = None;
    loop {
        p.skip_ws();
        if b[p.i..].starts_with(b"trailer") { p.i += 7; break; }
        let (first, n) = match (p.uint(), p.uint()) { (Ok(a), Ok(c)) => (a, c), _ => { rep.bad("startxref-not-at-xref", format!("malformed xref table at {}", p.i)); return None; } };
        for k in 0..n {
            let (Ok(a), Ok(g)) = (p.uint(), p.uint()) else { rep.bad("startxref-not-at-xref", format!("malformed xref entry at {}", p.i)); return None; };
            p.skip_ws();
            let t = b.get(p.i).copied();
            p.i += 1;
            let nr = first + k;
            covered_max = Some(covered_max.map_or(nr, |m: u64| m.max(nr)));
            match t { Some(b'n') => entries.push((nr, Entry::InUse { off: a as usize, gen: g })), Some(b'f') => entries.push((nr, Entry::Free { next: a, gen: g })),
                _ => { rep.bad("startxref-not-at-xref", format!("xref entry type at {}", p.i)); return None; } }
        }
    }
    let trailer = match p.object() { Ok(d @ Obj::Dict(_)) => d, _ => { rep.bad("startxref-not-at-xref", "no trailer dictionary after the xref table".into()); return None; } };
    let prev = int_of(trailer.get("Prev")).map(|p| p as usize);
    if trailer.get("XRefStm").is_some() { rep.unsupported = Some("hybrid-reference file (/XRefStm)".into()); }
    Some(Section { entries, trailer, prev, covered_max })
}

fn collect_refs(o: &Obj, out: &mut Vec<(u32, u16)>) {
    match o {
        Obj::Ref(n, g) => out.push((*n, *g)),
        Obj::Arr(a) => for e in a { collect_refs(e, out) },
        Obj::Dict(d) | Obj::Stream(d, _) => for (_, v) in d { collect_refs(v, out) },
        _ => {}
    }
}

pub fn validate(b: &[u8]) -> Report {
    let mut rep = Report::default();
    // 1. header
    if !b.starts_with(b"%PDF-") {
        rep.bad("header-not-at-0", format!("file starts with {:?}", String::from_utf8_lossy(&b[..b.len().min(12)])));
    } else if !(b.len() >= 8 && b[5].is_ascii_digit() && b[6] == b'.' && b[7].is_ascii_digit()) {
        rep.bad("header-not-at-0", "no version after %PDF-".into());
    }
    // 2. end of file
    let mut end = b.len();
    while end > 0 && (b[end - 1] == b'\n' || b[end - 1] == b'\r') { end -= 1; }
    if !b[..end].ends_with(b"%%EOF") { rep.bad("no-eof-marker", format!("file ends with {:?}", String::from_utf8_lossy(&b[end.saturating_sub(12)..]))); }
    // 3. startxref
    let Some(sx) = rfind(b, b"startxref") else { rep.bad("no-startxref", "keyword not found".into()); return rep; };
    let mut p = P::new(b, sx + 9);
    let Ok(xoff) = p.uint() else { rep.bad("no-startxref", "no offset after startxref".into()); return rep; };
    let xoff = xoff as usize;
    rep.startxref = Some(xoff);
    {   // only white-space may stand between the offset and %%EOF
        let mut i = p.i;
        while i < b.len() && is_ws(b[i]) { i += 1; }
        if !b[i..].starts_with(b"%%EOF") && !rep.classes().contains("no-eof-marker") { rep.bad("no-eof-marker", "startxref offset is not followed by %%EOF".into()); }
    }
    if xoff >= sx { rep.bad("startxref-not-at-xref", format!("offset {} lies behind the startxref keyword at {}", xoff, sx)); return rep; }
    // 4./5. sections, newest first
    let mut next = Some(xoff);
    let mut visited = BTreeSet::new();
    let mut covered_max: Option<u64> = None;
    while let Some(off) = next {
        if !visited.insert(off) { rep.bad("xref-stream-malformed", "/Prev chain loops".into()); break; }
        if off >= b.len() { rep.bad("startxref-not-at-xref", format!("section offset {} is outside the file ({} bytes)", off, b.len())); break; }
        let sec = if b[off..].starts_with(b"xref") { read_xref_table(b, off, &mut rep) } else { read_xref_stream(b, off, &mut rep) };
        let Some(sec) = sec else { break };
        rep.sections += 1;
        for (n, e) in sec.entries { rep.entries.entry(n).or_insert(e); }
        if let Some(m) = sec.covered_max { covered_max = Some(covered_max.map_or(m, |c| c.max(m))); }
        if rep.trailer.is_none() { rep.size = int_of(sec.trailer.get("Size")); rep.trailer = Some(sec.trailer); }
        next = sec.prev;
    }
    if rep.trailer.is_none() { return rep; }
    // 6. in-use entries point at their objects
    let inuse: Vec<(u64, usize, u64)> = rep.entries.iter().filter_map(|(n, e)| if let Entry::InUse { off, gen } = e { Some((*n, *off, *gen)) } else { None }).collect();
    let mut streams: Vec<(u64, Obj, usize, usize)> = Vec::new();
    let mut syntax_bad_at: BTreeSet<usize> = BTreeSet::new();
    for (n, off, gen) in &inuse {
        if *off >= b.len() { rep.bad("xref-offset-mismatch", format!("object {}: offset {} is outside the file", n, off)); continue; }
        // the header must start exactly here
        let head_ok = b[*off].is_ascii_digit() && (*off == 0 || is_ws(b[*off - 1])) && {
            let mut q = P::new(b, *off);
            matches!((q.uint(), q.uint(), q.keyword(b"obj")), (Ok(a), Ok(g), Ok(())) if a == *n && g == *gen)
        };
        if !head_ok {
            let s = &b[*off..(*off + 16).min(b.len())];
            rep.bad("xref-offset-mismatch", format!("entry {} {}: at offset {} stands {:?}, not `{} {} obj`", n, gen, off, String::from_utf8_lossy(s), n, gen));
            continue;
        }
        match read_indirect(b, *off) {
            Err(e) => { syntax_bad_at.insert(*off); rep.bad("object-syntax", format!("object {} at {}: {}", n, off, e)) }
            Ok((_, _, o, raw, _)) => {
                if let Some(r) = raw { streams.push((*n, o.clone(), r.data_start, r.endstream)); }
                rep.objects.insert(*n, (*gen, o, *off));
            }
        }
    }
    // 7. /Size
    match rep.size {
        None => rep.bad("xref-stream-malformed", "trailer has no integer /Size".into()),
        Some(size) => {
            let max_used = rep.entries.iter().filter(|(_, e)| !matches!(e, Entry::Free { .. })).map(|(n, _)| *n).max();
            if let Some(m) = max_used { if (m as i64) >= size { rep.bad("size-too-small", format!("/Size {} but object {} is in use", size, m)); } }
            if let Some(m) = covered_max {
                if (m as i64) >= size && max_used.map_or(true, |u| u < m) { rep.bad("size-too-small", format!("/Size {} but the cross-reference section covers object {}", size, m)); }
                let high = max_used.unwrap_or(0).max(m) as i64;
                if size > high + 1 { rep.notes.insert(format!("size-exceeds-highest+1 (by {})", size - high - 1)); }
            }
        }
    }
    match rep.entries.get(&0) {
        Some(Entry::Free { gen: 65535, .. }) => {}
        Some(Entry::Free { .. }) => { rep.notes.insert("object-0-free-but-generation-not-65535".into()); }
        _ => { rep.notes.insert("object-0-not-free".into()); }
    }
    // 8. stream lengths
    rep.n_streams = streams.len();
    for (n, dict, ds, es) in &streams {
        let region = &b[*ds..*es];
        let len = match dict.get("Length") {
            Some(Obj::Int(l)) if *l >= 0 => Some(*l as usize),
            Some(Obj::Ref(r, _)) => match rep.object(*r as u64) { Some(Obj::Int(l)) if *l >= 0 => Some(*l as usize), _ => None },
            _ => None,
        };
        match len {
            None => rep.bad("length-missing", format!("stream {}: /Length is {:?}", n, dict.get("Length"))),
            Some(l) => {
                let ok = acceptable_lengths(region);
                let already = rep.problems.iter().any(|p| p.class == "length-mismatch" && p.detail.starts_with(&format!("xref stream {}:", n)));
                if !ok.contains(&l) && !already { rep.bad("length-mismatch", format!("stream {}: /Length {} but {} byte(s) stand between the `stream` EOL and the EOL before `endstream`", n, l, ok[0])); }
            }
        }
    }
    // 9. references
    let mut refs = Vec::new();
    for (_, (_, o, _)) in rep.objects.iter() { collect_refs(o, &mut refs); }
    if let Some(t) = &rep.trailer { collect_refs(t, &mut refs); }
    rep.n_refs = refs.len();
    let mut dangling = BTreeSet::new();
    for (n, g) in refs {
        let ok = match rep.entries.get(&(n as u64)) {
            Some(Entry::InUse { gen, .. }) => *gen == g as u64, // an entry that misses its object is reported as xref-offset-mismatch
            Some(Entry::Compressed { .. }) => g == 0,
            _ => false,
        };
        if !ok { dangling.insert((n, g)); }
    }
    for (n, g) in dangling { rep.bad("dangling-reference", format!("`{} {} R` but the cross-reference entry is {:?}", n, g, rep.entries.get(&(n as u64)))); }
    if !matches!(rep.trailer.as_ref().and_then(|t| t.get("Root")), Some(Obj::Ref(..))) { rep.bad("root-missing", "trailer has no /Root reference".into()); }
    // 10. sequential scan of the body: every `n g obj` that is physically there
    let mut defs: BTreeMap<u64, Vec<usize>> = BTreeMap::new();
    let mut p = P::new(b, 0);
    loop {
        p.skip_ws();
        if p.i >= b.len() { break; }
        if b[p.i..].starts_with(b"startxref") { p.i += 9; let _ = p.uint(); continue; }
        if b[p.i..].starts_with(b"xref") {
            match find(b, b"trailer", p.i) { Some(t) => { p.i = t + 7; if p.object().is_err() { break; } continue; } None => break }
        }
        match read_indirect(b, p.i) {
            Ok((n, _g, _o, _raw, after)) => { defs.entry(n).or_default().push(p.i); p.i = after; }
            Err(_) if syntax_bad_at.contains(&p.i) => {
                // already reported through its cross-reference entry: resynchronise behind its `endobj`
                match find(b, b"endobj", p.i) { Some(e) => p.i = e + 6, None => break }
            }
            Err(e) => { rep.bad("body-syntax", format!("at offset {}: {}", p.i, e)); break; }
        }
    }
    for (n, offs) in &defs {
        if offs.len() > 1 && rep.sections <= 1 { rep.bad("duplicate-object", format!("object {} is defined {} times (offsets {:?})", n, offs.len(), offs)); }
        if let Some(size) = rep.size { if *n as i64 >= size && !rep.classes().contains("size-too-small") { rep.bad("size-too-small", format!("/Size {} but object {} is defined in the body", size, n)); } }
        match rep.entries.get(n) {
            Some(Entry::InUse { off, .. }) if offs.contains(off) => {}
            _ => { rep.notes.insert("object-in-body-without-in-use-entry".into()); }
        }
    }
    rep
}

/// Self-test on documents of the independent writer `mkpdf`: sound files (classic table, plain and Flate xref stream,
/// two sections) are accepted, and each hand-made defect is reported with its class. Returns the list of failures.
pub fn self_test() -> Vec<String> {
    use crate::mkpdf::*;
    let mut fails = Vec::new();
    let mut objs = skeleton(2);
    let content: &[u8] = b"q\n1 0 0 1 0 0 cm\nQ\n";
    objs.push((5, stream(vec![], content)));
    objs.push((6, dict(vec![("Title", st("t (x)")), ("Kids", Obj::Arr(vec![rf(3), rf(4)]))])));
    let build = |kind: u32, size: u32, len_delta: i64, xref_delta: i64, extra_ref: Option<u32>, dup: bool| -> Vec<u8> {
        let mut w = W::new(b"", "1.7");
        w.free(0, 0, 65535);
        for (n, o) in &objs {
            let mut o = o.clone();
            if *n == 5 && len_delta != 0 { o.set("Length", Obj::Int(content.len() as i64 + len_delta)); }
            if *n == 6 { if let Some(r) = extra_ref { o.set("X", rf(r)); } }
            w.obj(*n, 0, &o);
        }
        if dup { let keep = w.pending.clone(); w.obj(6, 0, &Obj::Int(1)); w.pending = keep; }
        let tr: Vec<(Vec<u8>, Obj)> = vec![(b"Root".to_vec(), rf(1)), (b"Info".to_vec(), rf(6))];
        let pos = match kind {
            0 => w.xref_table(tr, size, &[]),
            1 => w.xref_stream(7, tr, size, &[], &no_filter),
            _ => w.xref_stream(7, tr, size, &[], &flate_filter),
        };
        let mut b = w.buf;
        if xref_delta != 0 {
            let sx = rfind(&b, b"startxref").unwrap();
            b.truncate(sx);
            b.extend_from_slice(format!("startxref\n{}\n%%EOF\n", pos as i64 + xref_delta).as_bytes());
        }
        b
    };
    for kind in 0..3u32 {
        let size = if kind == 0 { 7 } else { 8 };
        let r = validate(&build(kind, size, 0, 0, None, false));
        if !r.ok() { fails.push(format!("kind {}: sound file rejected: {:?} {:?}", kind, r.problems, r.unsupported)); }
        if r.pages().map(|p| p.len()) != Ok(2) { fails.push(format!("kind {}: page walk {:?}", kind, r.pages())); }
        let mut expect = |label: &str, class: &str, b: Vec<u8>| {
            let r = validate(&b);
            if !r.classes().contains(class) { fails.push(format!("kind {}: {}: expected {}, got {:?}", kind, label, class, r.problems)); }
        };
        expect("size", "size-too-small", build(kind, size - 1, 0, 0, None, false));
        expect("length+1", "length-mismatch", build(kind, size, 1, 0, None, false));
        expect("length-1", "length-mismatch", build(kind, size, -1, 0, None, false));
        expect("startxref+1", "startxref-not-at-xref", build(kind, size, 0, 1, None, false));
        expect("startxref-3", "startxref-not-at-xref", build(kind, size, 0, -3, None, false));
        expect("dangling", "dangling-reference", build(kind, size, 0, 0, Some(9), false));
        expect("dangling-free", "dangling-reference", build(kind, size, 0, 0, Some(0), false));
        expect("duplicate", "duplicate-object", build(kind, size, 0, 0, None, true));
        let good = build(kind, size, 0, 0, None, false);
        let mut b = good.clone(); b.insert(0, b'\n'); expect("junk before header", "header-not-at-0", b);
        let mut b = good.clone(); let n = b.len(); b.truncate(n - 4); expect("cut", "no-eof-marker", b);
        // shift one object by a byte: its entry no longer points at the header
        let at = find(&good, b"3 0 obj", 0).unwrap();
        let mut b = good.clone(); b[at - 1] = b'3'; b[at] = b' ';   // "\n3 0 obj" -> "3  0 obj": header now one byte earlier
        expect("offset", "xref-offset-mismatch", b);
    }
    // two sections: object 6 redefined in an update is not a duplicate
    {
        let mut w = W::new(b"", "1.7");
        w.free(0, 0, 65535);
        for (n, o) in &objs { w.obj(*n, 0, o); }
        w.xref_table(vec![(b"Root".to_vec(), rf(1))], 7, &[]);
        w.obj(6, 0, &dict(vec![("Title", st("new"))]));
        w.xref_table(vec![(b"Root".to_vec(), rf(1)), (b"Info".to_vec(), rf(6))], 7, &[]);
        let r = validate(&w.buf);
        if !r.ok() { fails.push(format!("two sections rejected: {:?}", r.problems)); }
        if r.dict_get(r.trailer.as_ref().unwrap(), "Info").and_then(|i| i.get("Title")) != Some(&st("new")) { fails.push("two sections: newest object not used".into()); }
    }
    fails
}

#[cfg(test)]
mod tests {
    #[test]
    fn validator_self_test() { let f = super::self_test(); assert!(f.is_empty(), "{:#?}", f); }
}
