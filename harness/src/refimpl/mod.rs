//! Independent reference implementations (share no code with the `pdf` crate).
pub mod codec;
