//! Independent reference implementations (share no code with the `pdf` crate).
pub mod codec;
pub mod c20_walk;
pub mod c10_validate;
pub mod c19_ref;
pub mod c06_sec;
pub mod c06_read;
pub mod c15_date;
pub mod c07_walk;
pub mod c08_content;
