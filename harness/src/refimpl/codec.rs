//! Spec-level stream codecs: ASCIIHex, ASCII85, RunLength, LZW, Deflate (stored/fixed own
//! encoder, miniz_oxide for dynamic + for decoding), PNG/TIFF predictors.
use crate::tape::Src;

// ---------------------------------------------------------------- ASCIIHex
pub fn is_pdf_ws(b: u8) -> bool { matches!(b, 0 | 9 | 10 | 12 | 13 | 32) }

/// Encoder with free choices: digit case, white-space between digits, odd final digit
/// (only when the last nibble is 0), EOD marker.
pub fn hex_encode(data: &[u8], s: &mut Src) -> Vec<u8> {
    let mut out = Vec::new();
    let case = s.alt(3, &["lower", "hex_upper", "hex_mixedcase"]);
    let ws = s.alt(3, &["nows", "hex_ws"]);
    let n = data.len();
    let odd = n > 0 && data[n - 1] & 0xf == 0 && s.alt(2, &["even", "hex_odd_tail"]) == 1;
    let digit = |v: u8, s: &mut Src| -> u8 {
        let up = match case { 0 => false, 1 => true, _ => s.draw(2) == 1 };
        if v < 10 { b'0' + v } else if up { b'A' + v - 10 } else { b'a' + v - 10 }
    };
    for (i, &b) in data.iter().enumerate() {
        if ws == 1 && s.draw(4) == 0 { out.push(*s.pick(&[b' ', b'\n', b'\r', b'\t', 0x0c, 0])); }
        out.push(digit(b >> 4, s));
        if ws == 1 && s.draw(6) == 0 { out.push(*s.pick(&[b' ', b'\n', b'\r', b'\t'])); }
        if !(odd && i == n - 1) { out.push(digit(b & 0xf, s)); }
    }
    if ws == 1 && s.draw(3) == 0 { out.push(b'\n'); }
    out.push(b'>');
    out
}

/// Strict reference decoder (tolerates a missing '>' so as not to demand more than "decodable").
pub fn hex_decode(data: &[u8]) -> Result<Vec<u8>, String> {
    let mut out = Vec::new();
    let mut hi: Option<u8> = None;
    for &b in data {
        if is_pdf_ws(b) { continue; }
        if b == b'>' { break; }
        let v = match b { b'0'..=b'9' => b - b'0', b'a'..=b'f' => b - b'a' + 10, b'A'..=b'F' => b - b'A' + 10,
            _ => return Err(format!("bad hex digit {:#x}", b)) };
        match hi.take() { None => hi = Some(v), Some(h) => out.push(h << 4 | v) }
    }
    if let Some(h) = hi { out.push(h << 4); }
    Ok(out)
}

// ---------------------------------------------------------------- ASCII85
pub fn a85_group(v: u32) -> [u8; 5] {
    let mut g = [0u8; 5];
    let mut x = v;
    for i in (0..5).rev() { g[i] = (x % 85) as u8 + b'!'; x /= 85; }
    g
}
pub fn a85_encode(data: &[u8], s: &mut Src) -> Vec<u8> {
    let mut out = Vec::new();
    let use_z = s.alt(1, &["a85_z", "a85_no_z"]) == 0;
    let ws = s.alt(3, &["nows", "a85_ws"]);
    let mut push = |out: &mut Vec<u8>, b: u8, s: &mut Src| {
        out.push(b);
        if ws == 1 && s.draw(7) == 0 { out.push(*s.pick(&[b' ', b'\n', b'\r', b'\t'])); }
    };
    let mut it = data.chunks_exact(4);
    for c in it.by_ref() {
        let v = u32::from_be_bytes([c[0], c[1], c[2], c[3]]);
        if v == 0 && use_z { push(&mut out, b'z', s); } else { for b in a85_group(v) { push(&mut out, b, s); } }
    }
    let r = it.remainder();
    if !r.is_empty() {
        let mut c = [0u8; 4];
        c[..r.len()].copy_from_slice(r);
        let g = a85_group(u32::from_be_bytes(c));
        for &b in &g[..r.len() + 1] { push(&mut out, b, s); }
    }
    out.extend_from_slice(b"~>");
    out
}
pub fn a85_decode(data: &[u8]) -> Result<Vec<u8>, String> { a85_decode_opt(data, false) }
/// The reference for what an ENCODER may emit: the end-of-data marker is "the 2-character sequence ~>" (7.4.3), so
/// white-space between its two characters is not the standard format (a reader may still be lenient about it).
pub fn a85_decode_strict(data: &[u8]) -> Result<Vec<u8>, String> { a85_decode_opt(data, true) }
fn a85_decode_opt(data: &[u8], strict_eod: bool) -> Result<Vec<u8>, String> {
    let mut out = Vec::new();
    let mut grp: Vec<u8> = Vec::new();
    let mut i = 0;
    let mut eod = false;
    while i < data.len() {
        let b = data[i]; i += 1;
        if is_pdf_ws(b) { continue; }
        if b == b'~' { 
            if strict_eod && i < data.len() && is_pdf_ws(data[i]) { return Err("white-space inside the end-of-data marker ~>".into()); }
            while i < data.len() && is_pdf_ws(data[i]) { i += 1; }
            if i < data.len() && data[i] == b'>' { eod = true; break; }
            return Err("~ not followed by >".into());
        }
        if b == b'z' { if !grp.is_empty() { return Err("z inside group".into()); } out.extend_from_slice(&[0; 4]); continue; }
        if !(b'!'..=b'u').contains(&b) { return Err(format!("bad a85 char {:#x}", b)); }
        grp.push(b - b'!');
        if grp.len() == 5 {
            let v = grp.iter().fold(0u64, |a, &d| a * 85 + d as u64);
            if v > u32::MAX as u64 { return Err("group overflow".into()); }
            out.extend_from_slice(&(v as u32).to_be_bytes());
            grp.clear();
        }
    }
    if !eod { return Err("missing ~>".into()); }
    if grp.len() == 1 { return Err("single trailing char".into()); }
    if !grp.is_empty() {
        let n = grp.len();
        while grp.len() < 5 { grp.push(84); }
        let v = grp.iter().fold(0u64, |a, &d| a * 85 + d as u64);
        if v > u32::MAX as u64 { return Err("tail overflow".into()); }
        out.extend_from_slice(&(v as u32).to_be_bytes()[..n - 1]);
    }
    Ok(out)
}

// ---------------------------------------------------------------- RunLength
/// Arbitrary segmentation into literal runs (1..128) and repeat runs (2..128), then EOD (128).
pub fn rl_encode(data: &[u8], s: &mut Src) -> Vec<u8> {
    let mut out = Vec::new();
    let mut i = 0;
    let eod = s.alt(4, &["rl_eod", "rl_no_eod"]) == 0;
    while i < data.len() {
        // length of the run of equal bytes at i
        let mut run = 1;
        while i + run < data.len() && data[i + run] == data[i] && run < 128 { run += 1; }
        if run >= 2 && s.draw(4) != 0 {
            let n = if s.draw(3) == 0 { 2 + s.draw(run as u32 - 1) as usize } else { run };
            out.push((257 - n) as u8);
            out.push(data[i]);
            i += n;
        } else {
            let max = (data.len() - i).min(128);
            let n = match s.draw(4) { 0 => max, 1 => 1, _ => 1 + s.draw(max as u32) as usize };
            out.push((n - 1) as u8);
            out.extend_from_slice(&data[i..i + n]);
            i += n;
        }
    }
    if eod { out.push(128); }
    out
}
pub fn rl_decode(data: &[u8]) -> Result<Vec<u8>, String> {
    let mut out = Vec::new();
    let mut i = 0;
    while i < data.len() {
        let l = data[i] as usize; i += 1;
        if l == 128 { break; }
        if l < 128 {
            if i + l + 1 > data.len() { return Err("truncated literal run".into()); }
            out.extend_from_slice(&data[i..i + l + 1]); i += l + 1;
        } else {
            if i >= data.len() { return Err("truncated repeat run".into()); }
            out.extend(std::iter::repeat(data[i]).take(257 - l)); i += 1;
        }
    }
    Ok(out)
}

// ---------------------------------------------------------------- bit I/O
pub struct MsbWriter { pub out: Vec<u8>, acc: u64, n: u32 }
impl MsbWriter {
    pub fn new() -> Self { MsbWriter { out: Vec::new(), acc: 0, n: 0 } }
    pub fn put(&mut self, v: u32, bits: u32) {
        self.acc = (self.acc << bits) | (v as u64 & ((1u64 << bits) - 1));
        self.n += bits;
        while self.n >= 8 { self.out.push((self.acc >> (self.n - 8)) as u8); self.n -= 8; }
    }
    pub fn finish(mut self) -> Vec<u8> {
        if self.n > 0 { let pad = 8 - self.n; self.put(0, pad); }
        self.out
    }
}
pub struct MsbReader<'a> { d: &'a [u8], pos: usize, acc: u64, n: u32 }
impl<'a> MsbReader<'a> {
    pub fn new(d: &'a [u8]) -> Self { MsbReader { d, pos: 0, acc: 0, n: 0 } }
    pub fn get(&mut self, bits: u32) -> Option<u32> {
        while self.n < bits {
            if self.pos >= self.d.len() { return None; }
            self.acc = (self.acc << 8) | self.d[self.pos] as u64; self.pos += 1; self.n += 8;
        }
        let v = (self.acc >> (self.n - bits)) & ((1u64 << bits) - 1);
        self.n -= bits;
        Some(v as u32)
    }
}

// ---------------------------------------------------------------- LZW (PDF flavour)
fn bitlen(x: u32) -> u32 { 32 - x.leading_zeros() }
fn lzw_width(next: u32, early: u32) -> u32 {
    // `next` = encoder's next free code before the emission
    let l = if early != 0 { bitlen(next) } else { bitlen(next - 1) };
    l.clamp(9, 12)
}
/// `reset_at`: emit a clear-table code when the encoder's next free code reaches this value (<= 4096)
pub fn lzw_encode_with(data: &[u8], early: u32, reset_at: u32, initial_clear: bool, extra_clears: &[usize]) -> Vec<u8> {
    use std::collections::HashMap;
    let mut w = MsbWriter::new();
    let mut table: HashMap<(u32, u8), u32> = HashMap::new();
    let mut next: u32 = 258;
    if initial_clear { w.put(256, 9); }
    let mut cur: Option<u32> = None;
    for (idx, &b) in data.iter().enumerate() {
        if extra_clears.contains(&idx) {
            if let Some(c) = cur.take() { w.put(c, lzw_width(next, early)); if next < 4096 { next += 1; } }
            // note: the entry that would have been added is unknown to the decoder only if no next symbol; we add a dummy slot consistently
            w.put(256, lzw_width(next, early));
            table.clear(); next = 258;
        }
        match cur {
            None => cur = Some(b as u32),
            Some(c) => {
                if let Some(&code) = table.get(&(c, b)) { cur = Some(code); }
                else {
                    w.put(c, lzw_width(next, early));
                    if next < 4096 { table.insert((c, b), next); next += 1; }
                    cur = Some(b as u32);
                    if next >= reset_at {
                        w.put(256, lzw_width(next, early));
                        table.clear(); next = 258;
                    }
                }
            }
        }
    }
    if let Some(c) = cur { w.put(c, lzw_width(next, early)); if next < 4096 { next += 1; } }
    w.put(257, lzw_width(next, early));
    w.finish()
}
pub fn lzw_encode(data: &[u8], early: u32, s: &mut Src) -> Vec<u8> {
    // Domain: the encoder starts with a clear-table code (ISO 32000-1 7.4.4.2 requires it) and resets
    // no later than when its next free code is 4094 (what libtiff/Adobe-style encoders do; the behaviour
    // at 4095/4096 is implementation-defined folklore and deliberately left out).
    let reset_at = match s.alt(6, &["lzw_reset_4094", "lzw_reset_early"]) { 0 => 4094, _ => 300 + s.draw(3000) };
    lzw_encode_with(data, early, reset_at, true, &[])
}
pub fn lzw_decode(data: &[u8], early: u32) -> Result<Vec<u8>, String> {
    let mut r = MsbReader::new(data);
    let mut out: Vec<u8> = Vec::new();
    // table of (prefix code, last byte, first byte, len)
    let mut prefix: Vec<u32> = vec![0; 4096];
    let mut last: Vec<u8> = vec![0; 4096];
    let mut next: u32 = 258; // decoder's next free
    let mut prev: Option<u32> = None;
    fn expand(code: u32, prefix: &[u32], last: &[u8]) -> Vec<u8> {
        let mut v = Vec::new();
        let mut c = code;
        loop { if c < 256 { v.push(c as u8); break; } v.push(last[c as usize]); c = prefix[c as usize]; }
        v.reverse(); v
    }
    loop {
        // decoder lags the encoder by one entry, except right after a clear
        let enc_next = if prev.is_some() { next + 1 } else { next };
        let width = lzw_width(enc_next.min(4096), early);
        let Some(code) = r.get(width) else { return Err("lzw: data ended without EOD".into()) };
        if code == 256 { next = 258; prev = None; continue; }
        if code == 257 { break; }
        let entry: Vec<u8>;
        if code < 256 || code < next {
            if code >= 256 && code < 258 { return Err("lzw: bad code".into()); }
            entry = expand(code, &prefix, &last);
            if let Some(p) = prev { if next < 4096 { prefix[next as usize] = p; last[next as usize] = entry[0]; next += 1; } }
        } else if code == next && prev.is_some() {
            let p = prev.unwrap();
            let mut e = expand(p, &prefix, &last);
            e.push(e[0]);
            if next < 4096 { prefix[next as usize] = p; last[next as usize] = e[0]; next += 1; }
            entry = e;
        } else {
            return Err(format!("lzw: code {} beyond table {}", code, next));
        }
        out.extend_from_slice(&entry);
        prev = Some(code);
    }
    Ok(out)
}

// ---------------------------------------------------------------- Deflate
pub fn adler32(data: &[u8]) -> u32 {
    let (mut a, mut b) = (1u32, 0u32);
    for &x in data { a = (a + x as u32) % 65521; b = (b + a) % 65521; }
    (b << 16) | a
}
struct LsbWriter { out: Vec<u8>, acc: u64, n: u32 }
impl LsbWriter {
    fn new() -> Self { LsbWriter { out: Vec::new(), acc: 0, n: 0 } }
    fn put(&mut self, v: u32, bits: u32) {
        self.acc |= (v as u64) << self.n; self.n += bits;
        while self.n >= 8 { self.out.push(self.acc as u8); self.acc >>= 8; self.n -= 8; }
    }
    fn put_huff(&mut self, code: u32, bits: u32) { // huffman codes go MSB first
        let mut r = 0; for i in 0..bits { if code & (1 << i) != 0 { r |= 1 << (bits - 1 - i); } }
        self.put(r, bits);
    }
    fn align(&mut self) { if self.n > 0 { let pad = 8 - self.n; self.put(0, pad); } }
}
fn fixed_lit(w: &mut LsbWriter, sym: u32) {
    match sym {
        0..=143 => w.put_huff(0x30 + sym, 8),
        144..=255 => w.put_huff(0x190 + sym - 144, 9),
        256..=279 => w.put_huff(sym - 256, 7),
        _ => w.put_huff(0xC0 + sym - 280, 8),
    }
}
const LEN_BASE: [u32; 29] = [3,4,5,6,7,8,9,10,11,13,15,17,19,23,27,31,35,43,51,59,67,83,99,115,131,163,195,227,258];
const LEN_EXTRA: [u32; 29] = [0,0,0,0,0,0,0,0,1,1,1,1,2,2,2,2,3,3,3,3,4,4,4,4,5,5,5,5,0];
const DIST_BASE: [u32; 30] = [1,2,3,4,5,7,9,13,17,25,33,49,65,97,129,193,257,385,513,769,1025,1537,2049,3073,4097,6145,8193,12289,16385,24577];
const DIST_EXTRA: [u32; 30] = [0,0,0,0,1,1,2,2,3,3,4,4,5,5,6,6,7,7,8,8,9,9,10,10,11,11,12,12,13,13];
/// Own encoder: sequence of stored and fixed-Huffman blocks (with simple LZ77 matches).
pub fn deflate_own(data: &[u8], s: &mut Src) -> Vec<u8> {
    let mut w = LsbWriter::new();
    let mut i = 0;
    if data.is_empty() {
        if s.draw(2) == 0 { w.put(1, 1); w.put(0, 2); w.align(); w.out.extend_from_slice(&[0, 0, 0xff, 0xff]); }
        else { w.put(1, 1); w.put(1, 2); fixed_lit(&mut w, 256); }
        w.align();
        return w.out;
    }
    while i < data.len() {
        let remaining = data.len() - i;
        let blk = match s.draw(3) { 0 => remaining, 1 => 1 + s.draw(remaining.min(70) as u32) as usize, _ => remaining.min(1 + s.draw(5000) as usize) };
        let blk = blk.min(65535).min(remaining);
        let last = (i + blk == data.len()) as u32;
        if s.alt(1, &["deflate_fixed", "deflate_stored"]) == 1 {
            w.put(last, 1); w.put(0, 2); w.align();
            let n = blk as u16;
            w.out.extend_from_slice(&n.to_le_bytes()); w.out.extend_from_slice(&(!n).to_le_bytes());
            w.out.extend_from_slice(&data[i..i + blk]);
            i += blk;
        } else {
            w.put(last, 1); w.put(1, 2);
            let end = i + blk;
            while i < end {
                // naive longest match in a 300-byte window (matches may reach back across blocks)
                let mut best = (0usize, 0usize);
                let start = i.saturating_sub(300);
                for j in start..i {
                    let mut l = 0;
                    while i + l < end && l < 258 && data[j + l] == data[i + l] { l += 1; }
                    if l > best.0 { best = (l, i - j); }
                }
                if best.0 >= 3 && s.draw(5) != 0 {
                    let (l, d) = (best.0 as u32, best.1 as u32);
                    let li = (0..29).rev().find(|&k| LEN_BASE[k] <= l).unwrap();
                    fixed_lit(&mut w, 257 + li as u32); w.put(l - LEN_BASE[li], LEN_EXTRA[li]);
                    let di = (0..30).rev().find(|&k| DIST_BASE[k] <= d).unwrap();
                    w.put_huff(di as u32, 5); w.put(d - DIST_BASE[di], DIST_EXTRA[di]);
                    i += best.0;
                } else { fixed_lit(&mut w, data[i] as u32); i += 1; }
            }
            fixed_lit(&mut w, 256);
        }
    }
    w.align();
    w.out
}
pub fn zlib_wrap(raw: Vec<u8>, data: &[u8], s: &mut Src) -> Vec<u8> {
    let cmf = 0x78u8;
    let flevel = s.draw(4) as u8;
    let mut flg = flevel << 6;
    flg += (31 - ((cmf as u16 * 256 + flg as u16) % 31) as u8) % 31;
    let mut out = vec![cmf, flg];
    out.extend_from_slice(&raw);
    out.extend_from_slice(&adler32(data).to_be_bytes());
    out
}
/// Deflate with free choices: own stored/fixed blocks or miniz (dynamic), zlib or raw framing.
pub fn flate_encode(data: &[u8], s: &mut Src) -> Vec<u8> {
    let engine = s.alt(2, &["miniz", "own_deflate"]);
    let raw_framing = s.alt(4, &["zlib", "raw_deflate"]) == 1;
    if engine == 0 {
        let level = *s.pick(&[6u8, 1, 9, 0]);
        if raw_framing { miniz_oxide::deflate::compress_to_vec(data, level) } else { miniz_oxide::deflate::compress_to_vec_zlib(data, level) }
    } else {
        let raw = deflate_own(data, s);
        if raw_framing { raw } else { zlib_wrap(raw, data, s) }
    }
}
pub fn zlib_decode(data: &[u8]) -> Result<Vec<u8>, String> {
    miniz_oxide::inflate::decompress_to_vec_zlib_with_limit(data, 1 << 28).map_err(|e| format!("{:?}", e.status))
}
pub fn raw_inflate(data: &[u8]) -> Result<Vec<u8>, String> {
    miniz_oxide::inflate::decompress_to_vec_with_limit(data, 1 << 28).map_err(|e| format!("{:?}", e.status))
}

// ---------------------------------------------------------------- predictors
#[derive(Clone, Debug)]
pub struct Geometry { pub colors: u32, pub bpc: u32, pub columns: u32 }
impl Geometry {
    pub fn row_bytes(&self) -> usize { ((self.colors * self.bpc * self.columns + 7) / 8) as usize }
    pub fn bpp(&self) -> usize { ((self.colors * self.bpc + 7) / 8).max(1) as usize }
}
fn paeth(a: u8, b: u8, c: u8) -> u8 {
    let (ia, ib, ic) = (a as i32, b as i32, c as i32);
    let p = ia + ib - ic;
    let (pa, pb, pc) = ((p - ia).abs(), (p - ib).abs(), (p - ic).abs());
    if pa <= pb && pa <= pc { a } else if pb <= pc { b } else { c }
}
/// PNG-predict `data` (must be a whole number of rows); filter type per row chosen by `pick`.
pub fn png_predict(data: &[u8], g: &Geometry, mut pick: impl FnMut(usize) -> u8) -> Vec<u8> {
    let rb = g.row_bytes(); let bpp = g.bpp();
    let rows = data.len() / rb;
    let mut out = Vec::with_capacity(rows * (rb + 1));
    let zero = vec![0u8; rb];
    for r in 0..rows {
        let cur = &data[r * rb..(r + 1) * rb];
        let prev = if r == 0 { &zero[..] } else { &data[(r - 1) * rb..r * rb] };
        let ft = pick(r);
        out.push(ft);
        for i in 0..rb {
            let a = if i >= bpp { cur[i - bpp] } else { 0 };
            let b = prev[i];
            let c = if i >= bpp { prev[i - bpp] } else { 0 };
            let pred = match ft { 0 => 0, 1 => a, 2 => b, 3 => ((a as u16 + b as u16) / 2) as u8, _ => paeth(a, b, c) };
            out.push(cur[i].wrapping_sub(pred));
        }
    }
    out
}
/// TIFF predictor 2 (horizontal differencing) for bpc 8 and 16 and sub-byte depths.
pub fn tiff_predict(data: &[u8], g: &Geometry) -> Vec<u8> {
    let rb = g.row_bytes();
    let rows = data.len() / rb;
    let mut out = data.to_vec();
    let (colors, bpc, cols) = (g.colors as usize, g.bpc as usize, g.columns as usize);
    for r in 0..rows {
        let row = &data[r * rb..(r + 1) * rb];
        let o = &mut out[r * rb..(r + 1) * rb];
        match bpc {
            8 => { for i in (colors..rb).rev() { o[i] = row[i].wrapping_sub(row[i - colors]); } }
            16 => {
                for px in (1..cols).rev() { for c in 0..colors {
                    let i = (px * colors + c) * 2; let j = ((px - 1) * colors + c) * 2;
                    let v = u16::from_be_bytes([row[i], row[i + 1]]).wrapping_sub(u16::from_be_bytes([row[j], row[j + 1]]));
                    o[i..i + 2].copy_from_slice(&v.to_be_bytes());
                } }
            }
            _ => {
                // sub-byte samples, MSB first
                let get = |buf: &[u8], k: usize| -> u8 { let bit = k * bpc; (buf[bit / 8] >> (8 - bpc - bit % 8)) & ((1 << bpc) - 1) as u8 };
                let n = cols * colors;
                let mut vals: Vec<u8> = (0..n).map(|k| get(row, k)).collect();
                for k in (colors..n).rev() { vals[k] = vals[k].wrapping_sub(get(row, k - colors)) & ((1 << bpc) - 1) as u8; }
                for b in o.iter_mut() { *b = 0; }
                for (k, v) in vals.iter().enumerate() { let bit = k * bpc; o[bit / 8] |= v << (8 - bpc - bit % 8); }
            }
        }
    }
    out
}

#[cfg(test)]
mod tests {
    use super::*;
    use crate::rng::Rng;
    #[test]
    fn roundtrips() {
        for seed in 0..300u64 {
            let mut r = Rng::new(seed);
            let n = r.below(600) as usize;
            let data: Vec<u8> = if seed % 3 == 0 { r.bytes(n) } else { (0..n).map(|i| (r.below(3) as u8) * ((i / 7) as u8 % 3)).collect() };
            let mut s = Src::fresh(Rng::new(seed * 7 + 1));
            assert_eq!(hex_decode(&hex_encode(&data, &mut s)).unwrap(), data);
            assert_eq!(a85_decode(&a85_encode(&data, &mut s)).unwrap(), data);
            assert_eq!(rl_decode(&rl_encode(&data, &mut s)).unwrap(), data);
            for early in [0, 1] { assert_eq!(lzw_decode(&lzw_encode(&data, early, &mut s), early).unwrap(), data, "lzw seed {seed}"); }
            let raw = deflate_own(&data, &mut s);
            assert_eq!(raw_inflate(&raw).unwrap(), data, "deflate seed {seed}");
            let z = zlib_wrap(raw, &data, &mut s);
            assert_eq!(zlib_decode(&z).unwrap(), data);
        }
    }
    #[test]
    fn lzw_long() {
        let mut r = Rng::new(5);
        let data = r.bytes(40000);
        for early in [0, 1] { for reset in [4094u32, 4095, 4096, 600] {
            assert_eq!(lzw_decode(&lzw_encode_with(&data, early, reset, true, &[]), early).unwrap(), data);
        } }
    }
}
