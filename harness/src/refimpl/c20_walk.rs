//! C20 reference code: raw (primitive-level) reading of page attributes with inheritance, and the
//! SIMULTANEOUS WALK of an old and a new object graph that checks equal content and maintains the
//! relation old-reference <-> new-reference (must stay a bijection).
//! Only `Resolve::resolve` and `PdfStream::raw_data` of the library are used (as the "read interface"
//! of the two files); no typed model, nothing from `pdf::build`.
use pdf::object::{PlainRef, Resolve};
use pdf::primitive::{Dictionary, Primitive};
use std::collections::{BTreeMap, HashMap, HashSet};

#[derive(Clone, Debug)]
pub struct Finding {
    /// outcome class: resource-differs | copied-twice | conflated | dangling-reference | leaked-reference
    pub class: &'static str,
    /// stable structural locus, e.g. "XObject.Resources.ProcSet:key-lost"
    pub locus: String,
    pub detail: String,
}

/// (class, locus suffix) for a reference of the new file that does not resolve: "no such object" is a dangling
/// reference, anything else means the object is there but the library cannot read back what it wrote
pub fn unresolved_class(kind: &str) -> (&'static str, String) {
    match kind { "NullRef" | "FreeObject" | "UnspecifiedXRefEntry" => ("dangling-reference", "no-such-object".into()), k => ("reload-error", format!("object-unreadable:{}", k)) }
}

pub fn show_ref(r: PlainRef) -> String { format!("{} {} R", r.id, r.gen) }

/// resolve through (chains of) references; None when a reference cannot be resolved
pub fn deref<R: Resolve>(r: &R, p: &Primitive) -> Option<Primitive> {
    let mut cur = p.clone();
    for _ in 0..16 {
        match cur {
            Primitive::Reference(x) => match r.resolve(x) { Ok(v) => cur = v, Err(_) => return None },
            other => return Some(other),
        }
    }
    None
}
pub fn as_dict<R: Resolve>(r: &R, p: &Primitive) -> Option<Dictionary> {
    match deref(r, p)? { Primitive::Dictionary(d) => Some(d), Primitive::Stream(s) => Some(s.info), _ => None }
}
pub fn num(p: &Primitive) -> Option<f64> {
    match p { Primitive::Integer(i) => Some(*i as f64), Primitive::Number(x) => Some(*x as f64), _ => None }
}

/// Effective attributes of a page read from the raw object graph (PDF 32000-1 7.7.3.4: Resources, MediaBox,
/// CropBox and Rotate are inheritable; CropBox defaults to MediaBox, Rotate to 0).
#[derive(Debug, Clone)]
pub struct RawPage {
    pub dict: Dictionary,
    pub media: Option<[f64; 4]>,
    pub crop: Option<[f64; 4]>,
    pub rotate: i64,
    pub resources: Option<Dictionary>,
    /// which attributes came from an ancestor
    pub inherited: Vec<&'static str>,
}

fn rect<R: Resolve>(r: &R, p: &Primitive) -> Option<[f64; 4]> {
    match deref(r, p)? {
        Primitive::Array(a) if a.len() == 4 => {
            let mut v = [0f64; 4];
            for (i, e) in a.iter().enumerate() { v[i] = num(&deref(r, e)?)?; }
            // a rectangle is given by any two diagonally opposite corners: normalise
            Some([v[0].min(v[2]), v[1].min(v[3]), v[0].max(v[2]), v[1].max(v[3])])
        }
        _ => None,
    }
}

pub fn inherited<R: Resolve>(r: &R, page: &Dictionary, key: &str) -> Option<(Primitive, bool)> {
    let mut cur = page.clone();
    for level in 0..32 {
        if let Some(v) = cur.get(key) { if !matches!(deref(r, v), Some(Primitive::Null) | None) { return Some((v.clone(), level > 0)); } }
        match cur.get("Parent") { Some(p) => match as_dict(r, p) { Some(d) => cur = d, None => return None }, None => return None }
    }
    None
}

pub fn raw_page<R: Resolve>(r: &R, page_ref: PlainRef) -> Option<RawPage> {
    let dict = as_dict(r, &Primitive::Reference(page_ref))?;
    let mut inh = Vec::new();
    let media = inherited(r, &dict, "MediaBox").and_then(|(p, i)| { if i { inh.push("MediaBox"); } rect(r, &p) });
    let crop = match inherited(r, &dict, "CropBox") { Some((p, i)) => { if i { inh.push("CropBox"); } rect(r, &p) } None => media };
    let rotate = match inherited(r, &dict, "Rotate") { Some((p, i)) => { if i { inh.push("Rotate"); } deref(r, &p).and_then(|p| num(&p)).map(|x| x as i64).unwrap_or(0) } None => 0 };
    let resources = inherited(r, &dict, "Resources").and_then(|(p, i)| { if i { inh.push("Resources"); } as_dict(r, &p) });
    Some(RawPage { dict, media, crop, rotate, resources, inherited: inh })
}

/// resources[cat][name] with intermediate references resolved; the value itself is returned unresolved
pub fn resource_entry<R: Resolve>(r: &R, res: &Option<Dictionary>, cat: &str, name: &str) -> Option<Primitive> {
    let d = as_dict(r, res.as_ref()?.get(cat)?)?;
    let v = d.get(name)?.clone();
    if matches!(v, Primitive::Null) { None } else { Some(v) }
}

pub struct Walk<'a, RO: Resolve, RN: Resolve> {
    pub old: &'a RO,
    pub new: &'a RN,
    pub fwd: HashMap<PlainRef, PlainRef>,
    pub bwd: HashMap<PlainRef, PlainRef>,
    /// old reference whose copy is a direct object in the new file: locus of the first such place
    pub inlined: HashMap<PlainRef, String>,
    visited: HashSet<(PlainRef, PlainRef)>,
    pub findings: Vec<Finding>,
    pub counters: BTreeMap<String, u64>,
    /// compare content (true) or only maintain the reference relation (false)
    pub content: bool,
    pub nodes: u64,
    pub truncated: bool,
    path: Vec<String>,
}

const MAX_NODES: u64 = 400_000;
const MAX_DEPTH: usize = 400;

fn kind(p: &Primitive) -> &'static str {
    match p {
        Primitive::Null => "null", Primitive::Integer(_) | Primitive::Number(_) => "number", Primitive::Boolean(_) => "boolean", Primitive::String(_) => "string",
        Primitive::Name(_) => "name", Primitive::Array(_) => "array", Primitive::Dictionary(_) => "dictionary", Primitive::Stream(_) => "stream", Primitive::Reference(_) => "reference",
    }
}
fn brief(p: &Primitive) -> String { let s = format!("{:?}", p); s.chars().take(160).collect() }

impl<'a, RO: Resolve, RN: Resolve> Walk<'a, RO, RN> {
    pub fn new(old: &'a RO, new: &'a RN) -> Self {
        Walk { old, new, fwd: HashMap::new(), bwd: HashMap::new(), inlined: HashMap::new(), visited: HashSet::new(), findings: Vec::new(), counters: BTreeMap::new(), content: true, nodes: 0, truncated: false, path: Vec::new() }
    }
    fn count(&mut self, k: &str) { *self.counters.entry(k.to_string()).or_insert(0) += 1; }
    /// category + the last two keys (array levels kept as "[]"): stable and short, different routes stay different
    fn locus(&self) -> String {
        let named: Vec<usize> = (0..self.path.len()).filter(|i| self.path[*i] != "[]").collect();
        if named.len() <= 3 { return self.path.join(".").replace(".[]", "[]"); }
        let cut = named[named.len() - 2];
        format!("{}..{}", self.path[0], self.path[cut..].join(".").replace(".[]", "[]"))
    }
    pub fn full_path(&self) -> String { self.path.join(".").replace(".[]", "[]") }
    fn find(&mut self, class: &'static str, what: &str, detail: String) {
        if self.findings.len() < 40 { let locus = format!("{}:{}", self.locus(), what); let detail = format!("{} [at {}]", detail, self.full_path()); self.findings.push(Finding { class, locus, detail }); }
    }
    fn differs(&mut self, what: &str, detail: String) {
        if self.content { self.find("resource-differs", what, detail); } else { self.count("other_entry_differs"); }
    }

    /// Compare `o` (old graph) with `n` (new graph) below the locus `root`.
    pub fn compare(&mut self, root: &str, o: &Primitive, n: &Primitive) {
        self.path.clear();
        self.path.push(root.to_string());
        self.cmp(o, n, 0);
    }

    fn cmp(&mut self, o: &Primitive, n: &Primitive, depth: usize) {
        self.nodes += 1;
        if self.nodes > MAX_NODES || depth > MAX_DEPTH { self.truncated = true; return; }
        match (o, n) {
            (Primitive::Reference(a), Primitive::Reference(b)) => {
                let (a, b) = (*a, *b);
                match self.fwd.get(&a) {
                    Some(&b2) if b2 != b => { self.find("copied-twice", "ref", format!("old object {} is represented by new objects {} and {}", show_ref(a), show_ref(b2), show_ref(b))); }
                    Some(_) => {}
                    None => { self.fwd.insert(a, b); self.count("refs_paired"); }
                }
                match self.bwd.get(&b) {
                    Some(&a2) if a2 != a => { self.find("conflated", "ref", format!("old objects {} and {} are both represented by new object {}", show_ref(a2), show_ref(a), show_ref(b))); }
                    Some(_) => {}
                    None => { self.bwd.insert(b, a); }
                }
                if let Some(l) = self.inlined.get(&a).cloned() { self.find("copied-twice", "ref+inline", format!("old object {} is represented by new object {} and by a direct copy at {}", show_ref(a), show_ref(b), l)); }
                if !self.visited.insert((a, b)) { return; }
                let ov = match self.old.resolve(a) { Ok(v) => v, Err(_) => { self.count("old_reference_unresolvable"); return; } };
                let nv = match self.new.resolve(b) {
                    Ok(v) => v,
                    Err(e) => { let k = crate::doc::root_kind(&e); let (cl, what) = unresolved_class(&k); self.find(cl, &what, format!("new reference {} (copy of old {}) does not resolve: {}", show_ref(b), show_ref(a), k)); return; }
                };
                let before = self.findings.iter().filter(|f| f.class == "resource-differs").count() + *self.counters.get("other_entry_differs").unwrap_or(&0) as usize;
                self.cmp(&ov, &nv, depth + 1);
                if !self.content && a == b {
                    let after = self.findings.iter().filter(|f| f.class == "resource-differs").count() + *self.counters.get("other_entry_differs").unwrap_or(&0) as usize;
                    if after > before { self.find("leaked-reference", "ref", format!("reference {} appears unchanged in the new file and the object it designates there differs from the source object", show_ref(a))); }
                }
            }
            (Primitive::Reference(a), n) => {
                let a = *a;
                let here = self.locus();
                if let Some(&b) = self.fwd.get(&a) { self.find("copied-twice", "inline+ref", format!("old object {} is represented by new object {} and by a direct copy at {}", show_ref(a), show_ref(b), here)); }
                match self.inlined.get(&a).cloned() {
                    Some(l) => { self.find("copied-twice", "inline", format!("old object {} is copied as a direct object at {} and at {}", show_ref(a), l, here)); }
                    None => { self.inlined.insert(a, here); self.count("refs_inlined"); }
                }
                match self.old.resolve(a) { Ok(ov) => self.cmp(&ov, n, depth + 1), Err(_) => self.count("old_reference_unresolvable") }
            }
            (o, Primitive::Reference(b)) => {
                self.count("direct_became_indirect");
                match self.new.resolve(*b) {
                    Ok(nv) => self.cmp(o, &nv, depth + 1),
                    Err(e) => { let k = crate::doc::root_kind(&e); let (cl, what) = unresolved_class(&k); self.find(cl, &what, format!("new reference {} does not resolve: {}", show_ref(*b), k)) }
                }
            }
            (Primitive::Dictionary(od), Primitive::Dictionary(nd)) => self.cmp_dict(od, nd, depth, false),
            (Primitive::Stream(os), Primitive::Stream(ns)) => {
                // A tiling pattern is a content stream with its own /Resources. The importer rebuilds that dictionary from
                // the names the pattern's operations use (as it does for a page), so the statement's rule for pages applies:
                // every name the operations use must have an equal counterpart; entries nothing uses may be dropped.
                let tiling = matches!(os.info.get("PatternType").map(|p| match p { Primitive::Reference(r) => self.old.resolve(*r).unwrap_or(Primitive::Null), p => p.clone() }), Some(Primitive::Integer(1)));
                let old_ops = if tiling { os.raw_data(self.old).ok().and_then(|d| pdf::content::parse_ops(&d, self.old).ok()) } else { None };
                if let Some(ops) = &old_ops {
                    let mut oi = os.info.clone(); let mut ni = ns.info.clone();
                    let ores = oi.remove("Resources").and_then(|p| as_dict(self.old, &p));
                    let nres = ni.remove("Resources").and_then(|p| as_dict(self.new, &p));
                    self.cmp_dict(&oi, &ni, depth, true);
                    self.count("tiling_pattern_resources_compared_by_use");
                    for (cat, name) in crate::props::c20::used_resources(ops) {
                        match (resource_entry(self.old, &ores, cat, &name), resource_entry(self.new, &nres, cat, &name)) {
                            (None, _) => self.count("pattern_source_lacks_used_name"),
                            (Some(o), None) => { self.path.push("Resources".into()); self.path.push(cat.to_string()); self.differs("missing", format!("the pattern's operations use /{} of /{}; the source defines it ({}), the copy does not", name, cat, brief(&o))); self.path.pop(); self.path.pop(); }
                            (Some(o), Some(n)) => { self.path.push("Resources".into()); self.path.push(cat.to_string()); self.cmp(&o, &n, depth + 1); self.path.pop(); self.path.pop(); }
                        }
                    }
                } else {
                    self.cmp_dict(&os.info, &ns.info, depth, true);
                }
                self.cmp_filters(&os.info, &ns.info, depth);
                self.count("streams_compared");
                match (os.raw_data(self.old), ns.raw_data(self.new)) {
                    (Ok(od), Ok(nd)) => {
                        *self.counters.entry("stream_bytes_compared".into()).or_insert(0) += od.len() as u64;
                        // a content stream that the importer re-writes from its operations (tiling patterns) is equal when the
                        // operation sequences are equal, as for the page's own content
                        let same_ops = || -> bool {
                            let is_content = os.info.get("PatternType").is_some() || ns.info.get("PaintType").is_some();
                            if !is_content { return false; }
                            match (pdf::content::parse_ops(&od, self.old), pdf::content::parse_ops(&nd, self.new)) { (Ok(a), Ok(b)) => !a.is_empty() && crate::opsgen::ops_equal(&a, &b).is_ok(), _ => false }
                        };
                        if od[..] != nd[..] && same_ops() { self.count("streams_equal_as_operation_sequences"); }
                        else if od[..] != nd[..] {
                            let pos = od.iter().zip(nd.iter()).position(|(x, y)| x != y).unwrap_or(od.len().min(nd.len()));
                            self.differs("stream-data", format!("stream data differ: {} bytes in the source, {} bytes in the copy, first difference at offset {}", od.len(), nd.len(), pos));
                        }
                    }
                    (Err(_), _) => self.count("old_stream_unreadable"),
                    (Ok(od), Err(e)) => self.differs("stream-data", format!("stream data of the copy unreadable ({}), source has {} bytes", crate::doc::root_kind(&e), od.len())),
                }
            }
            (Primitive::Array(oa), Primitive::Array(na)) => {
                if oa.len() != na.len() { self.differs("array-length", format!("array of {} elements became {} elements: {} vs {}", oa.len(), na.len(), brief(o), brief(n))); return; }
                self.path.push("[]".into());
                for (x, y) in oa.iter().zip(na.iter()) { self.cmp(x, y, depth + 1); }
                self.path.pop();
            }
            (Primitive::Null, Primitive::Null) => {}
            (Primitive::Boolean(x), Primitive::Boolean(y)) => { if x != y { self.differs("value", format!("{} became {}", x, y)); } }
            (Primitive::Name(x), Primitive::Name(y)) => { if x.as_str() != y.as_str() { self.differs("value", format!("/{} became /{}", x.as_str(), y.as_str())); } }
            (Primitive::String(x), Primitive::String(y)) => { if x.as_bytes() != y.as_bytes() { self.differs("value", format!("string ({}) became ({})", crate::run::show(x.as_bytes()), crate::run::show(y.as_bytes()))); } }
            (a, b) if num(a).is_some() && num(b).is_some() => {
                // Integer 3 and Real 3.0 denote the same number; reals are compared as the f32 the library holds
                let (x, y) = (num(a).unwrap(), num(b).unwrap());
                if x as f32 != y as f32 { self.differs("value", format!("number {} became {}", x, y)); }
            }
            (a, b) => self.differs("type", format!("{} became {}: {} vs {}", kind(a), kind(b), brief(a), brief(b))),
        }
    }

    fn cmp_dict(&mut self, od: &Dictionary, nd: &Dictionary, depth: usize, stream: bool) {
        let mut keys: Vec<&str> = od.iter().map(|(k, _)| k.as_str()).collect();
        keys.sort();
        for k in keys {
            if stream && (k == "Length" || k == "Filter" || k == "DecodeParms") { continue; }
            let ov = od.get(k).unwrap();
            // an entry whose value is null is equivalent to an absent entry (7.3.7)
            let o_null = matches!(ov, Primitive::Null) || matches!(ov, Primitive::Reference(r) if matches!(self.old.resolve(*r), Ok(Primitive::Null)));
            match nd.get(k) {
                Some(nv) if !matches!(nv, Primitive::Null) => {
                    if o_null && !matches!(ov, Primitive::Reference(_)) { self.path.push(k.to_string()); self.differs("type", format!("null became {}", brief(nv))); self.path.pop(); continue; }
                    self.path.push(k.to_string());
                    self.cmp(ov, nv, depth + 1);
                    self.path.pop();
                }
                _ => {
                    if o_null { continue; }
                    if matches!(ov, Primitive::Reference(r) if self.old.resolve(*r).is_err()) { self.count("old_reference_unresolvable"); continue; }
                    self.path.push(k.to_string());
                    self.differs("key-lost", format!("entry /{} = {} of the source has no counterpart in the copy (keys of the copy: {:?})", k, brief(ov), nd.iter().map(|(k, _)| k.as_str().to_string()).collect::<Vec<_>>()));
                    self.path.pop();
                }
            }
        }
        for (k, nv) in nd.iter() {
            if od.get(k.as_str()).is_some() || matches!(nv, Primitive::Null) { continue; }
            if stream && (k.as_str() == "Length" || k.as_str() == "Filter" || k.as_str() == "DecodeParms") { continue; }
            // entries the copy has in addition (e.g. /Type, spelled-out defaults) are recorded, not judged
            self.count(&format!("added_key:{}", k.as_str()));
        }
    }

    /// /Filter + /DecodeParms decide how the (equal) raw data are interpreted: the filter chains must be equal, and so
    /// must the parameters after removing entries that spell out the default (Table 8 / Table 11 of PDF 32000-1).
    fn cmp_filters(&mut self, od: &Dictionary, nd: &Dictionary, depth: usize) {
        let (of, nf) = (filter_chain(self.old, od), filter_chain(self.new, nd));
        let (Some(of), nf) = (of, nf) else { self.count("old_filter_chain_unreadable"); return };
        let Some(nf) = nf else { self.path.push("Filter".into()); self.differs("value", "the filter chain of the copy is malformed".into()); self.path.pop(); return };
        let names = |f: &Vec<(String, Vec<(String, Primitive)>)>| f.iter().map(|(n, _)| n.clone()).collect::<Vec<_>>();
        if names(&of) != names(&nf) { self.path.push("Filter".into()); self.differs("value", format!("filter chain {:?} became {:?}", names(&of), names(&nf))); self.path.pop(); return; }
        self.path.push("DecodeParms".into());
        for ((_, op), (_, np)) in of.iter().zip(nf.iter()) {
            for (k, ov) in op {
                self.path.push(k.clone());
                match np.iter().find(|(k2, _)| k2 == k) { Some((_, nv)) => self.cmp(ov, nv, depth + 1), None => self.differs("key-lost", format!("decode parameter /{} = {} of the source is missing in the copy", k, brief(ov))) }
                self.path.pop();
            }
            for (k, nv) in np { if !op.iter().any(|(k2, _)| k2 == k) { self.path.push(k.clone()); self.differs("key-added", format!("the copy has the non-default decode parameter /{} = {} which the source lacks", k, brief(nv))); self.path.pop(); } }
        }
        self.path.pop();
    }
}

fn is_default_parm(filter: &str, key: &str, v: &Primitive) -> bool {
    let n = num(v);
    let b = if let Primitive::Boolean(b) = v { Some(*b) } else { None };
    match (filter, key) {
        ("FlateDecode" | "LZWDecode" | "Fl" | "LZW", "Predictor") | ("FlateDecode" | "LZWDecode" | "Fl" | "LZW", "Colors") | ("FlateDecode" | "LZWDecode" | "Fl" | "LZW", "Columns") | ("LZWDecode" | "LZW" | "FlateDecode" | "Fl", "EarlyChange") => n == Some(1.0),
        ("FlateDecode" | "LZWDecode" | "Fl" | "LZW", "BitsPerComponent") => n == Some(8.0),
        ("CCITTFaxDecode" | "CCF", "K") | ("CCITTFaxDecode" | "CCF", "Rows") | ("CCITTFaxDecode" | "CCF", "DamagedRowsBeforeError") => n == Some(0.0),
        ("CCITTFaxDecode" | "CCF", "Columns") => n == Some(1728.0),
        ("CCITTFaxDecode" | "CCF", "EndOfLine") | ("CCITTFaxDecode" | "CCF", "EncodedByteAlign") | ("CCITTFaxDecode" | "CCF", "BlackIs1") => b == Some(false),
        ("CCITTFaxDecode" | "CCF", "EndOfBlock") => b == Some(true),
        _ => false,
    }
}

/// [(filter name, non-default parameters sorted by key)] of a stream dictionary; None when malformed
pub fn filter_chain<R: Resolve>(r: &R, d: &Dictionary) -> Option<Vec<(String, Vec<(String, Primitive)>)>> {
    let names: Vec<String> = match d.get("Filter").map(|p| deref(r, p)) {
        None | Some(Some(Primitive::Null)) => vec![],
        Some(Some(Primitive::Name(n))) => vec![n.as_str().to_string()],
        Some(Some(Primitive::Array(a))) => { let mut v = Vec::new(); for e in &a { match deref(r, e)? { Primitive::Name(n) => v.push(n.as_str().to_string()), _ => return None } } v }
        _ => return None,
    };
    let parms: Vec<Option<Dictionary>> = match d.get("DecodeParms").or_else(|| d.get("DP")).map(|p| deref(r, p)) {
        None | Some(Some(Primitive::Null)) => vec![],
        Some(Some(Primitive::Dictionary(x))) => vec![Some(x)],
        Some(Some(Primitive::Array(a))) => { let mut v = Vec::new(); for e in &a { match deref(r, e)? { Primitive::Dictionary(x) => v.push(Some(x)), Primitive::Null => v.push(None), _ => return None } } v }
        _ => return None,
    };
    let mut out = Vec::new();
    for (i, n) in names.iter().enumerate() {
        let mut p: Vec<(String, Primitive)> = Vec::new();
        if let Some(Some(x)) = parms.get(i) {
            for (k, v) in x.iter() {
                let dv = deref(r, v).unwrap_or(Primitive::Null);
                if matches!(dv, Primitive::Null) || is_default_parm(n, k.as_str(), &dv) { continue; }
                p.push((k.as_str().to_string(), v.clone()));
            }
        }
        p.sort_by(|a, b| a.0.cmp(&b.0));
        out.push((n.clone(), p));
    }
    Some(out)
}

/// Every reference contained in any object of the file `r` (object numbers 0..size and everything reachable from
/// `roots`) must resolve. Returns (number of references checked, unresolvable ones).
pub fn closure<R: Resolve>(r: &R, size: u64, roots: &[PlainRef]) -> (u64, Vec<(PlainRef, String, String)>) {
    let mut seen: HashSet<PlainRef> = HashSet::new();
    let mut bad = Vec::new();
    let mut checked = 0u64;
    let mut stack: Vec<(PlainRef, String)> = roots.iter().map(|r| (*r, "trailer".to_string())).collect();
    // objects present in the file are additional starting points (their own absence is not a finding)
    let mut present = Vec::new();
    for id in 1..size.min(100_000) { let pr = PlainRef { id, gen: 0 }; if let Ok(p) = r.resolve(pr) { seen.insert(pr); present.push((pr, p)); } }
    fn refs_in(p: &Primitive, from: &str, out: &mut Vec<(PlainRef, String)>, depth: usize) {
        if depth > 200 { return; }
        match p {
            Primitive::Reference(r) => out.push((*r, from.to_string())),
            Primitive::Array(a) => for x in a { refs_in(x, from, out, depth + 1) },
            Primitive::Dictionary(d) => for (k, v) in d.iter() { refs_in(v, &format!("{}/{}", from, k.as_str()), out, depth + 1) },
            Primitive::Stream(s) => for (k, v) in s.info.iter() { refs_in(v, &format!("{}/{}", from, k.as_str()), out, depth + 1) },
            _ => {}
        }
    }
    for (pr, p) in &present { refs_in(p, &format!("obj {}", pr.id), &mut stack, 0); }
    while let Some((x, from)) = stack.pop() {
        checked += 1;
        if !seen.insert(x) { continue; }
        if seen.len() > 200_000 { break; }
        match r.resolve(x) {
            Ok(p) => refs_in(&p, &format!("obj {}", x.id), &mut stack, 0),
            Err(e) => bad.push((x, from, crate::doc::root_kind(&e))),
        }
    }
    (checked, bad)
}
