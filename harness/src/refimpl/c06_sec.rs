//! Reference implementation of the PDF *standard security handler*, written from the
//! specification (ISO 32000-1 §7.6, Adobe Supplement ExtensionLevel 3 for R5, ISO 32000-2 §7.6 for R6).
//! Encryptor and decryptor; shares no code with the `pdf` crate. Own RC4 and own CBC chaining; the block
//! primitives (MD5, SHA-2, AES block cipher) come from third-party crates.
//!
//! Algorithm numbers refer to ISO 32000-1 (1, 2, 3, 4, 5, 6, 7) and ISO 32000-2 (1.A, 2.A, 2.B, 8-13).
use aes::cipher::generic_array::GenericArray;
use aes::cipher::{BlockDecrypt, BlockEncrypt, KeyInit};
use sha2::{Digest, Sha256, Sha384, Sha512};

/// the 32-byte password padding string of Algorithm 2 step a)
pub const PAD: [u8; 32] = [
    0x28, 0xBF, 0x4E, 0x5E, 0x4E, 0x75, 0x8A, 0x41, 0x64, 0x00, 0x4E, 0x56, 0xFF, 0xFA, 0x01, 0x08,
    0x2E, 0x2E, 0x00, 0xB6, 0xD0, 0x68, 0x3E, 0x80, 0x2F, 0x0C, 0xA9, 0xFE, 0x64, 0x53, 0x69, 0x7A,
];

// ------------------------------------------------------------------ primitives

/// RC4 (own implementation: KSA + PRGA), returns data XOR keystream
pub fn rc4(key: &[u8], data: &[u8]) -> Vec<u8> {
    assert!(!key.is_empty() && key.len() <= 256, "refimpl rc4: key length {}", key.len());
    let mut s = [0u8; 256];
    for (i, v) in s.iter_mut().enumerate() { *v = i as u8; }
    let mut j = 0usize;
    for i in 0..256 {
        j = (j + s[i] as usize + key[i % key.len()] as usize) & 255;
        s.swap(i, j);
    }
    let (mut i, mut j) = (0usize, 0usize);
    let mut out = Vec::with_capacity(data.len());
    for &b in data {
        i = (i + 1) & 255;
        j = (j + s[i] as usize) & 255;
        s.swap(i, j);
        let k = s[(s[i] as usize + s[j] as usize) & 255];
        out.push(b ^ k);
    }
    out
}

pub fn md5(parts: &[&[u8]]) -> [u8; 16] {
    let mut c = md5::Context::new();
    for p in parts { c.consume(p); }
    c.compute().0
}
pub fn sha256(parts: &[&[u8]]) -> [u8; 32] {
    let mut h = Sha256::new();
    for p in parts { h.update(p); }
    h.finalize().into()
}

enum AesKey { K128(aes::Aes128), K256(aes::Aes256) }
impl AesKey {
    fn new(key: &[u8]) -> AesKey {
        match key.len() {
            16 => AesKey::K128(aes::Aes128::new(GenericArray::from_slice(key))),
            32 => AesKey::K256(aes::Aes256::new(GenericArray::from_slice(key))),
            n => panic!("refimpl aes: key length {}", n),
        }
    }
    fn enc(&self, b: &mut [u8; 16]) {
        let g = GenericArray::from_mut_slice(b);
        match self { AesKey::K128(c) => c.encrypt_block(g), AesKey::K256(c) => c.encrypt_block(g) }
    }
    fn dec(&self, b: &mut [u8; 16]) {
        let g = GenericArray::from_mut_slice(b);
        match self { AesKey::K128(c) => c.decrypt_block(g), AesKey::K256(c) => c.decrypt_block(g) }
    }
}

/// AES-CBC without padding (own chaining). data.len() must be a multiple of 16.
pub fn aes_cbc_enc_nopad(key: &[u8], iv: &[u8; 16], data: &[u8]) -> Vec<u8> {
    assert!(data.len() % 16 == 0);
    let k = AesKey::new(key);
    let mut prev = *iv;
    let mut out = Vec::with_capacity(data.len());
    for chunk in data.chunks(16) {
        let mut b = [0u8; 16];
        for i in 0..16 { b[i] = chunk[i] ^ prev[i]; }
        k.enc(&mut b);
        out.extend_from_slice(&b);
        prev = b;
    }
    out
}
pub fn aes_cbc_dec_nopad(key: &[u8], iv: &[u8; 16], data: &[u8]) -> Result<Vec<u8>, String> {
    if data.len() % 16 != 0 { return Err(format!("ciphertext length {} not a multiple of 16", data.len())); }
    let k = AesKey::new(key);
    let mut prev = *iv;
    let mut out = Vec::with_capacity(data.len());
    for chunk in data.chunks(16) {
        let mut b = [0u8; 16];
        b.copy_from_slice(chunk);
        let c = b;
        k.dec(&mut b);
        for i in 0..16 { b[i] ^= prev[i]; }
        out.extend_from_slice(&b);
        prev = c;
    }
    Ok(out)
}
/// PDF convention (Algorithm 1 / 1.A): 16-byte IV, then CBC ciphertext of the PKCS#7-padded plaintext
pub fn aes_pdf_encrypt(key: &[u8], iv: &[u8; 16], plain: &[u8]) -> Vec<u8> {
    let padn = 16 - plain.len() % 16; // 1..=16, always at least one byte
    let mut p = plain.to_vec();
    p.extend(std::iter::repeat(padn as u8).take(padn));
    let mut out = iv.to_vec();
    out.extend(aes_cbc_enc_nopad(key, iv, &p));
    out
}
pub fn aes_pdf_decrypt(key: &[u8], data: &[u8]) -> Result<Vec<u8>, String> {
    if data.len() < 32 { return Err(format!("AES data of {} bytes is shorter than IV + one block", data.len())); }
    let mut iv = [0u8; 16];
    iv.copy_from_slice(&data[..16]);
    let mut p = aes_cbc_dec_nopad(key, &iv, &data[16..])?;
    let n = *p.last().unwrap() as usize;
    if n == 0 || n > 16 || p[p.len() - n..].iter().any(|&b| b as usize != n) { return Err("bad PKCS#7 padding".into()); }
    p.truncate(p.len() - n);
    Ok(p)
}

// ------------------------------------------------------------------ parameters

#[derive(Clone, Copy, Debug, PartialEq, Eq)]
pub enum Cfm { Rc4, AesV2, AesV3 }

/// What a reader learns from the /Encrypt dictionary and the trailer /ID.
#[derive(Clone, Debug)]
pub struct EncDict {
    pub r: u32,
    /// file key length in bytes (5..=16 for R2-R4, 32 for R5/R6)
    pub key_bytes: usize,
    pub cfm: Cfm,
    pub p: i32,
    pub encrypt_metadata: bool,
    pub id0: Vec<u8>,
    pub o: Vec<u8>,
    pub u: Vec<u8>,
    pub oe: Vec<u8>,
    pub ue: Vec<u8>,
    pub perms: Vec<u8>,
}

fn pad_password(pw: &[u8]) -> [u8; 32] {
    let mut out = [0u8; 32];
    let n = pw.len().min(32);
    out[..n].copy_from_slice(&pw[..n]);
    out[n..].copy_from_slice(&PAD[..32 - n]);
    out
}

// ------------------------------------------------------------------ R2 - R4

/// Algorithm 2: file encryption key from the (user) password
pub fn alg2_file_key(r: u32, key_bytes: usize, pw: &[u8], o: &[u8], p: i32, id0: &[u8], encrypt_metadata: bool) -> Vec<u8> {
    let padded = pad_password(pw);
    let pbytes = (p as u32).to_le_bytes();
    let mut parts: Vec<&[u8]> = vec![&padded, o, &pbytes, id0];
    let ff = [0xffu8; 4];
    if r >= 4 && !encrypt_metadata { parts.push(&ff); }
    let mut h = md5(&parts);
    let n = if r == 2 { 5 } else { key_bytes };
    if r >= 3 {
        for _ in 0..50 { h = md5(&[&h[..n]]); }
    }
    h[..n].to_vec()
}

/// Algorithm 3 steps a)-d): RC4 key derived from the owner password
fn alg3_owner_rc4_key(r: u32, key_bytes: usize, owner_pw: &[u8]) -> Vec<u8> {
    let padded = pad_password(owner_pw);
    let mut h = md5(&[&padded]);
    if r >= 3 {
        for _ in 0..50 { h = md5(&[&h]); }
    }
    let n = if r == 2 { 5 } else { key_bytes };
    h[..n].to_vec()
}

/// Algorithm 3: the /O value. An empty owner password means "use the user password" (step a).
pub fn alg3_o(r: u32, key_bytes: usize, owner_pw: &[u8], user_pw: &[u8]) -> Vec<u8> {
    let opw = if owner_pw.is_empty() { user_pw } else { owner_pw };
    let key = alg3_owner_rc4_key(r, key_bytes, opw);
    let mut data = rc4(&key, &pad_password(user_pw));
    if r >= 3 {
        for i in 1u8..=19 {
            let k: Vec<u8> = key.iter().map(|b| b ^ i).collect();
            data = rc4(&k, &data);
        }
    }
    data
}

/// Algorithm 4 (R2) / Algorithm 5 (R3, R4): the /U value. `tail` = the 16 arbitrary bytes appended for R>=3.
pub fn alg45_u(r: u32, file_key: &[u8], id0: &[u8], tail: &[u8; 16]) -> Vec<u8> {
    if r == 2 {
        rc4(file_key, &PAD)
    } else {
        let h = md5(&[&PAD, id0]);
        let mut data = rc4(file_key, &h);
        for i in 1u8..=19 {
            let k: Vec<u8> = file_key.iter().map(|b| b ^ i).collect();
            data = rc4(&k, &data);
        }
        data.extend_from_slice(tail);
        data
    }
}

/// Algorithm 6: authenticate the user password; returns the file key
pub fn alg6_user(d: &EncDict, pw: &[u8]) -> Option<Vec<u8>> {
    let key = alg2_file_key(d.r, d.key_bytes, pw, &d.o, d.p, &d.id0, d.encrypt_metadata);
    let u = alg45_u(d.r, &key, &d.id0, &[0; 16]);
    let ok = if d.r == 2 { d.u == u } else { d.u.len() >= 16 && d.u[..16] == u[..16] };
    if ok { Some(key) } else { None }
}

/// Algorithm 7: authenticate the owner password; returns the file key
pub fn alg7_owner(d: &EncDict, pw: &[u8]) -> Option<Vec<u8>> {
    let key = alg3_owner_rc4_key(d.r, d.key_bytes, pw);
    let mut data = d.o.clone();
    if d.r == 2 {
        data = rc4(&key, &data);
    } else {
        for i in (0u8..=19).rev() {
            let k: Vec<u8> = key.iter().map(|b| b ^ i).collect();
            data = rc4(&k, &data);
        }
    }
    alg6_user(d, &data)
}

// ------------------------------------------------------------------ R5 / R6

/// Algorithm 2.B (R6 hash). `udata` is empty for the user password and the 48-byte /U for the owner password.
pub fn alg2b_hash(pw: &[u8], salt: &[u8], udata: &[u8]) -> [u8; 32] {
    let mut k: Vec<u8> = sha256(&[pw, salt, udata]).to_vec();
    let mut round = 0usize;
    loop {
        // a) K1 = 64 repetitions of (password || K || udata)
        let mut unit = Vec::with_capacity(pw.len() + k.len() + udata.len());
        unit.extend_from_slice(pw); unit.extend_from_slice(&k); unit.extend_from_slice(udata);
        let mut k1 = Vec::with_capacity(unit.len() * 64);
        for _ in 0..64 { k1.extend_from_slice(&unit); }
        // b) AES-128-CBC, no padding, key = K[0..16], iv = K[16..32]
        let mut iv = [0u8; 16];
        iv.copy_from_slice(&k[16..32]);
        let e = aes_cbc_enc_nopad(&k[..16], &iv, &k1);
        // c) first 16 bytes as big-endian integer modulo 3 (256 = 1 mod 3, so the byte sum works)
        let m = e[..16].iter().map(|&b| b as u32).sum::<u32>() % 3;
        // d) next K
        k = match m {
            0 => Sha256::digest(&e).to_vec(),
            1 => Sha384::digest(&e).to_vec(),
            _ => Sha512::digest(&e).to_vec(),
        };
        round += 1; // `round` rounds have been performed
        // e)/f) at least 64 rounds, then stop as soon as last byte of E <= (round number) - 32
        if round >= 64 && (*e.last().unwrap() as usize) <= round - 32 { break; }
    }
    let mut out = [0u8; 32];
    out.copy_from_slice(&k[..32]);
    out
}

fn hash56(r: u32, pw: &[u8], salt: &[u8], udata: &[u8]) -> [u8; 32] {
    if r == 5 { sha256(&[pw, salt, udata]) } else { alg2b_hash(pw, salt, udata) }
}
/// passwords for R5/R6: UTF-8 (SASLprep assumed to be the identity on the caller's strings), at most 127 bytes
fn trunc127(pw: &[u8]) -> &[u8] { &pw[..pw.len().min(127)] }

/// Algorithm 8: /U and /UE.  salts = validation salt || key salt
pub fn alg8_u_ue(r: u32, user_pw: &[u8], file_key: &[u8], salts: &[u8; 16]) -> (Vec<u8>, Vec<u8>) {
    let pw = trunc127(user_pw);
    let mut u = hash56(r, pw, &salts[..8], b"").to_vec();
    u.extend_from_slice(salts);
    let ik = hash56(r, pw, &salts[8..], b"");
    let ue = aes_cbc_enc_nopad(&ik, &[0; 16], file_key);
    (u, ue)
}
/// Algorithm 9: /O and /OE (needs the 48-byte /U)
pub fn alg9_o_oe(r: u32, owner_pw: &[u8], file_key: &[u8], salts: &[u8; 16], u: &[u8]) -> (Vec<u8>, Vec<u8>) {
    let pw = trunc127(owner_pw);
    let mut o = hash56(r, pw, &salts[..8], u).to_vec();
    o.extend_from_slice(salts);
    let ik = hash56(r, pw, &salts[8..], u);
    let oe = aes_cbc_enc_nopad(&ik, &[0; 16], file_key);
    (o, oe)
}
/// Algorithm 10: /Perms (AES-256 ECB of one block = CBC with zero IV of one block)
pub fn alg10_perms(p: i32, encrypt_metadata: bool, file_key: &[u8], rnd: &[u8; 4]) -> Vec<u8> {
    let mut b = [0u8; 16];
    b[..4].copy_from_slice(&(p as u32).to_le_bytes());
    b[4..8].copy_from_slice(&[0xff; 4]);
    b[8] = if encrypt_metadata { b'T' } else { b'F' };
    b[9] = b'a'; b[10] = b'd'; b[11] = b'b';
    b[12..].copy_from_slice(rnd);
    aes_cbc_enc_nopad(file_key, &[0; 16], &b)
}

/// Algorithm 2.A: authenticate a password (user first, then owner) and recover the file key.
/// Returns (file key, "user"|"owner").
pub fn alg2a(d: &EncDict, pw: &[u8]) -> Result<(Vec<u8>, &'static str), String> {
    if d.u.len() < 48 || d.o.len() < 48 || d.ue.len() != 32 || d.oe.len() != 32 {
        return Err(format!("bad lengths U={} O={} UE={} OE={}", d.u.len(), d.o.len(), d.ue.len(), d.oe.len()));
    }
    let pw = trunc127(pw);
    let u48 = &d.u[..48];
    if hash56(d.r, pw, &d.o[32..40], u48)[..] == d.o[..32] {
        let ik = hash56(d.r, pw, &d.o[40..48], u48);
        return Ok((aes_cbc_dec_nopad(&ik, &[0; 16], &d.oe)?, "owner"));
    }
    if hash56(d.r, pw, &d.u[32..40], b"")[..] == d.u[..32] {
        let ik = hash56(d.r, pw, &d.u[40..48], b"");
        return Ok((aes_cbc_dec_nopad(&ik, &[0; 16], &d.ue)?, "user"));
    }
    Err("password matches neither U nor O".into())
}
/// Algorithm 13: validate /Perms against /P and EncryptMetadata
pub fn alg13_check_perms(d: &EncDict, file_key: &[u8]) -> Result<(), String> {
    if d.perms.len() != 16 { return Err(format!("Perms has {} bytes", d.perms.len())); }
    let b = aes_cbc_dec_nopad(file_key, &[0; 16], &d.perms)?;
    if &b[9..12] != b"adb" { return Err("Perms: 'adb' marker missing".into()); }
    if b[..4] != (d.p as u32).to_le_bytes() { return Err("Perms: P mismatch".into()); }
    let want = if d.encrypt_metadata { b'T' } else { b'F' };
    if b[8] != want { return Err("Perms: EncryptMetadata flag mismatch".into()); }
    Ok(())
}

// ------------------------------------------------------------------ all revisions

/// Authenticate `pw` (as user or owner password) and return the file key.
pub fn authenticate(d: &EncDict, pw: &[u8]) -> Result<(Vec<u8>, &'static str), String> {
    if d.r >= 5 {
        alg2a(d, pw)
    } else if let Some(k) = alg6_user(d, pw) {
        Ok((k, "user"))
    } else if let Some(k) = alg7_owner(d, pw) {
        Ok((k, "owner"))
    } else {
        Err("password matches neither U nor O".into())
    }
}

/// Algorithm 1 steps a)-c): per-object key
pub fn object_key(file_key: &[u8], cfm: Cfm, nr: u32, gen: u16) -> Vec<u8> {
    if cfm == Cfm::AesV3 { return file_key.to_vec(); } // Algorithm 1.A uses the file key directly
    let nrb = nr.to_le_bytes();
    let gb = gen.to_le_bytes();
    let mut parts: Vec<&[u8]> = vec![file_key, &nrb[..3], &gb[..2]];
    if cfm == Cfm::AesV2 { parts.push(b"sAlT"); }
    let h = md5(&parts);
    h[..(file_key.len() + 5).min(16)].to_vec()
}
/// Algorithm 1 / 1.A, encrypt direction. `iv` is ignored for RC4.
pub fn encrypt_data(file_key: &[u8], cfm: Cfm, nr: u32, gen: u16, iv: &[u8; 16], plain: &[u8]) -> Vec<u8> {
    let k = object_key(file_key, cfm, nr, gen);
    match cfm { Cfm::Rc4 => rc4(&k, plain), _ => aes_pdf_encrypt(&k, iv, plain) }
}
/// Algorithm 1 / 1.A, decrypt direction
pub fn decrypt_data(file_key: &[u8], cfm: Cfm, nr: u32, gen: u16, data: &[u8]) -> Result<Vec<u8>, String> {
    let k = object_key(file_key, cfm, nr, gen);
    match cfm { Cfm::Rc4 => Ok(rc4(&k, data)), _ => aes_pdf_decrypt(&k, data) }
}

// ------------------------------------------------------------------ built-in known-answer tests

/// Known answers that do not depend on this file: RC4 (RFC 6229 / classic vectors), AES (FIPS-197), CBC (SP 800-38A).
pub fn primitive_kats() -> Result<(), String> {
    let h = |b: &[u8]| crate::run::hex(b);
    if h(&rc4(b"Key", b"Plaintext")) != "bbf316e8d940af0ad3" { return Err("RC4 KAT 1".into()); }
    if h(&rc4(b"Wiki", b"pedia")) != "1021bf0420" { return Err("RC4 KAT 2".into()); }
    if h(&rc4(b"Secret", b"Attack at dawn")) != "45a01f645fc35b383552544b9bf5" { return Err("RC4 KAT 3".into()); }
    // FIPS-197 C.1 and C.3 via one-block CBC with zero IV
    let pt = crate::run::unhex("00112233445566778899aabbccddeeff");
    let k128 = crate::run::unhex("000102030405060708090a0b0c0d0e0f");
    let k256 = crate::run::unhex("000102030405060708090a0b0c0d0e0f101112131415161718191a1b1c1d1e1f");
    if h(&aes_cbc_enc_nopad(&k128, &[0; 16], &pt)) != "69c4e0d86a7b0430d8cdb78070b4c55a" { return Err("AES-128 KAT".into()); }
    if h(&aes_cbc_enc_nopad(&k256, &[0; 16], &pt)) != "8ea2b7ca516745bfeafc49904b496089" { return Err("AES-256 KAT".into()); }
    // SP 800-38A F.2.1 CBC-AES128.Encrypt, first two blocks
    let key = crate::run::unhex("2b7e151628aed2a6abf7158809cf4f3c");
    let mut iv = [0u8; 16];
    iv.copy_from_slice(&crate::run::unhex("000102030405060708090a0b0c0d0e0f"));
    let p = crate::run::unhex("6bc1bee22e409f96e93d7e117393172aae2d8a571e03ac9c9eb76fac45af8e51");
    let c = aes_cbc_enc_nopad(&key, &iv, &p);
    if h(&c) != "7649abac8119b246cee98e9b12e9197d5086cb9b507219ee95db113a917678b2" { return Err("CBC KAT".into()); }
    if aes_cbc_dec_nopad(&key, &iv, &c)? != p { return Err("CBC decrypt KAT".into()); }
    if h(&md5(&[b"abc"])) != "900150983cd24fb0d6963f7d28e17f72" { return Err("MD5 KAT".into()); }
    Ok(())
}
