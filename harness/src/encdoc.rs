//! Encrypted documents from an object table, written with the reference security handler (refimpl/c06_sec.rs, the
//! one C06 validates against third-party fixtures): RC4-128 revision 3 or AES-128 crypt filter revision 4.
use crate::mkpdf::{arr, dict, name, rf, Obj, W};
use crate::refimpl::c06_sec::{self as sec, Cfm};

pub fn encrypted_doc(objs: &[(u32, Obj)], root: u32, aes: bool, upw: &[u8], opw: &[u8], xref_stream: bool) -> Vec<u8> {
    let (r, v, key_bytes, cfm) = if aes { (4u32, 4i64, 16usize, Cfm::AesV2) } else { (3u32, 2i64, 16usize, Cfm::Rc4) };
    let id0 = b"0123456789abcdef".to_vec();
    let p: i32 = -44;
    let o = sec::alg3_o(r, key_bytes, opw, upw);
    let file_key = sec::alg2_file_key(r, key_bytes, upw, &o, p, &id0, true);
    let u = sec::alg45_u(r, &file_key, &id0, &[7u8; 16]);
    let mut ed: Vec<(&str, Obj)> = vec![("Filter", name("Standard")), ("V", Obj::Int(v)), ("R", Obj::Int(r as i64)), ("Length", Obj::Int(128)), ("P", Obj::Int(p as i64))];
    if aes {
        ed.push(("CF", dict(vec![("StdCF", dict(vec![("AuthEvent", name("DocOpen")), ("CFM", name("AESV2")), ("Length", Obj::Int(16))]))])));
        ed.push(("StmF", name("StdCF")));
        ed.push(("StrF", name("StdCF")));
    }
    ed.push(("O", Obj::Str(o)));
    ed.push(("U", Obj::Str(u)));
    let enc_obj = dict(ed);
    let ctr = std::cell::Cell::new(0u32);
    let key = file_key.clone();
    let crypt = move |nr: u32, gen: u16, data: &[u8], _is_stream: bool| -> Vec<u8> {
        let k = ctr.get();
        ctr.set(k + 1);
        let mut iv = [0u8; 16];
        for (i, b) in iv.iter_mut().enumerate() { *b = (k as u8).wrapping_mul(31).wrapping_add(i as u8 * 7).wrapping_add(nr as u8); }
        sec::encrypt_data(&key, cfm, nr, gen, &iv, data)
    };
    let max = objs.iter().map(|(n, _)| *n).max().unwrap_or(1);
    let mut w = W::new(b"", "1.7");
    w.crypt = Some(&crypt);
    w.free(0, 0, 65535);
    for (n, o) in objs { w.obj(*n, 0, o); }
    w.obj_plain(max + 1, 0, &enc_obj);
    let tr: Vec<(Vec<u8>, Obj)> = vec![(b"Root".to_vec(), rf(root)), (b"Encrypt".to_vec(), rf(max + 1)), (b"ID".to_vec(), arr(vec![Obj::Str(id0.clone()), Obj::Str(id0.clone())]))];
    if xref_stream { w.xref_stream(max + 2, tr, max + 3, &[], &crate::mkpdf::flate_filter); } else { w.xref_table(tr, max + 2, &[]); }
    let bytes = std::mem::take(&mut w.buf);
    drop(w);
    bytes
}
