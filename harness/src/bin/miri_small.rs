//! Tiny deterministic workloads for the Miri lane (undefined behaviour / data races in the code they reach:
//! istring small/large transitions, AnySync transmute + downcast, SyncCache, Arc juggling).
//! usage: miri_small <parse|cache|threads> <seed>
use pdfmon::printer::Printer;
use pdfmon::rng::Rng;
use pdfmon::tape::Src;
use pdfmon::val::{gen_value, matches, to_primitive, GenOpts};
use pdf::file::FileOptions;
use pdf::object::{NoResolve, PlainRef, Ref, Resolve, Resources, Stream};
use pdf::parser::{parse, ParseFlags};
use pdf::primitive::Dictionary;

fn main() {
    let args: Vec<String> = std::env::args().collect();
    let part = args.get(1).map(|s| s.as_str()).unwrap_or("parse");
    let seed: u64 = args.get(2).and_then(|s| s.parse().ok()).unwrap_or(1);
    let mut n = 0u64;
    match part {
        "parse" => {
            // C03 + C04: conformant spellings parse to the value; serialised values parse back
            for i in 0..40u64 {
                let mut s = Src::fresh(Rng::derive(seed, 77, i));
                let v = gen_value(&mut s, &GenOpts { depth: 2, refs: true, max_str: 40, wide_names: true }, 0);
                // the interpreter is about a thousand times slower than the machine: the long values of the generator (strings of
                // 64 KiB, parentheses nested 70 000 deep) are left to the native and AddressSanitizer runs
                fn weight(v: &pdfmon::val::V) -> usize { use pdfmon::val::V; match v { V::Str(b) => b.len(), V::Name(n) => n.len(), V::Arr(a) => 1 + a.iter().map(weight).sum::<usize>(), V::Dict(d) => 1 + d.iter().map(|(k, x)| k.len() + weight(x)).sum::<usize>(), _ => 1 } }
                if weight(&v) > 2000 { continue; }
                let mut p = Printer::new(&mut s);
                p.first_token();
                p.value(&v);
                p.out.push(b' ');
                let text = std::mem::take(&mut p.out);
                let got = parse(&text, &NoResolve, ParseFlags::ANY).expect("parse");
                matches(&got, &v, true).expect("value");
                let mut out = Vec::new();
                to_primitive(&v).serialize(&mut out).expect("serialize");
                out.push(b' ');
                let back = parse(&out, &NoResolve, ParseFlags::ANY).expect("reparse");
                matches(&back, &v, false).expect("roundtrip");
                n += 1;
            }
        }
        "cache" => {
            // C12: typed loads of one key as different types through the real caches (AnySync paths)
            let bytes = pdfmon::props::c13::small_doc();
            let f = FileOptions::cached().load(bytes).expect("load");
            let r = f.resolver();
            for _ in 0..3 {
                let a = r.get::<Resources>(Ref::new(PlainRef { id: 5, gen: 0 })).expect("resources");
                let b = r.get::<Dictionary>(Ref::new(PlainRef { id: 5, gen: 0 })).expect("dictionary");
                assert_eq!(a.graphics_states.len(), 1);
                assert_eq!(b.len(), 1);
                let s = r.get::<Stream<()>>(Ref::new(PlainRef { id: 6, gen: 0 })).expect("stream");
                assert_eq!((**s.data()).data(&r).expect("data").len(), 18);
                assert!(r.get::<Resources>(Ref::new(PlainRef { id: 6, gen: 0 })).is_err());
                for i in 0..3 { f.get_page(i).expect("page"); }
                n += 1;
            }
        }
        "threads" => {
            // C13 miniature: two threads, one shared resolver, same and different keys
            let bytes = pdfmon::props::c13::small_doc();
            let f = FileOptions::cached().load(bytes).expect("load");
            let r = f.resolver();
            std::thread::scope(|sc| {
                for t in 0..2u64 {
                    let (r, f) = (&r, &f);
                    sc.spawn(move || {
                        for k in 0..3u64 {
                            let a = r.get::<Resources>(Ref::new(PlainRef { id: 5, gen: 0 })).expect("resources");
                            assert_eq!(a.graphics_states.len(), 1);
                            let p = f.get_root().pages.page(r, ((t + k) % 3) as u32).expect("page");
                            assert!(p.media_box().is_ok());
                            let _ = r.get::<Dictionary>(Ref::new(PlainRef { id: 5, gen: 0 })).expect("dict");
                        }
                    });
                }
            });
            n += 1;
        }
        _ => {}
    }
    println!("MIRI-OK part={} seed={} n={}", part, seed, n);
}
