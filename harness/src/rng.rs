//! Deterministic PRNG (splitmix64 seeding, xoshiro256**).
#[derive(Clone)]
pub struct Rng { s: [u64; 4] }

pub fn splitmix(x: &mut u64) -> u64 {
    *x = x.wrapping_add(0x9E3779B97F4A7C15);
    let mut z = *x;
    z = (z ^ (z >> 30)).wrapping_mul(0xBF58476D1CE4E5B9);
    z = (z ^ (z >> 27)).wrapping_mul(0x94D049BB133111EB);
    z ^ (z >> 31)
}

/// FNV-1a 64 over bytes – used for stable hashes of cases (no randomness per process).
pub fn fnv(data: &[u8]) -> u64 {
    let mut h: u64 = 0xcbf29ce484222325;
    for &b in data { h ^= b as u64; h = h.wrapping_mul(0x100000001b3); }
    h
}

impl Rng {
    pub fn new(seed: u64) -> Rng {
        let mut x = seed;
        Rng { s: [splitmix(&mut x), splitmix(&mut x), splitmix(&mut x), splitmix(&mut x)] }
    }
    /// independent stream for (seed, a, b)
    pub fn derive(seed: u64, a: u64, b: u64) -> Rng {
        let mut x = seed ^ a.wrapping_mul(0xD6E8FEB86659FD93) ^ b.wrapping_mul(0xA0761D6478BD642F);
        let y = splitmix(&mut x);
        Rng::new(y)
    }
    pub fn next_u64(&mut self) -> u64 {
        let r = self.s[1].wrapping_mul(5).rotate_left(7).wrapping_mul(9);
        let t = self.s[1] << 17;
        self.s[2] ^= self.s[0]; self.s[3] ^= self.s[1]; self.s[1] ^= self.s[2]; self.s[0] ^= self.s[3];
        self.s[2] ^= t; self.s[3] = self.s[3].rotate_left(45);
        r
    }
    pub fn below(&mut self, n: u64) -> u64 { if n == 0 { 0 } else { self.next_u64() % n } }
    pub fn range(&mut self, lo: i64, hi: i64) -> i64 { lo + self.below((hi - lo + 1) as u64) as i64 }
    pub fn chance(&mut self, num: u64, den: u64) -> bool { self.below(den) < num }
    pub fn pick<'a, T>(&mut self, xs: &'a [T]) -> &'a T { &xs[self.below(xs.len() as u64) as usize] }
    pub fn bytes(&mut self, n: usize) -> Vec<u8> { (0..n).map(|_| self.next_u64() as u8).collect() }
    pub fn shuffle<T>(&mut self, xs: &mut [T]) {
        for i in (1..xs.len()).rev() { let j = self.below(i as u64 + 1) as usize; xs.swap(i, j); }
    }
}
