//! C19 — glyph widths and Unicode maps follow the font dictionaries exactly.
//!
//! (a) composite fonts: /W arrays (random permutations of disjoint non-empty groups, both forms) + /DW,
//!     loaded through the real reader (mkpdf document → page resources → Type0 font → `widths`) and
//!     additionally built from the public struct fields; oracle: `Widths::get(c)` for EVERY code
//!     0..=65535 and a few beyond equals the model (array value, default elsewhere).
//! (b) simple fonts: /FirstChar /LastChar /Widths (+ optional FontDescriptor /MissingWidth).
//! (c) `write_cmap(map)` → stream → `Font::to_unicode` reads back the same map.
//! (d) conformant ToUnicode CMap texts from an independent generator → `Font::to_unicode` equals the
//!     map the specification defines (decided by refimpl::c19_ref::parse_tounicode and the generator's
//!     own bookkeeping, which must agree — otherwise the case is inconclusive).
//!
//! Every case is drawn from a choice tape. The generators keep a fixed number of draws per record
//! (group / item; texts and widths inside a record are a hash of a seed draw) so that the minimiser
//! can delete, zero and lower draws without shifting the meaning of the rest of the tape. Failing
//! cases are minimised on the real code (label knock-out + tape shrinking, same outcome class) and the
//! signature is `C19|<part>|<label set of the minimised case>|<outcome class>`; other failing cases
//! are attributed to a signature already found when they contain its labels and still fail that way
//! with every other optional feature switched off, otherwise they are minimised themselves.
use crate::doc::CFGS;
use crate::mkpdf::{self, arr, dict, name, rf, simple_doc, st, Obj};
use crate::panicmon::guard;
use crate::par::par_for;
use crate::refimpl::c19_ref as reference;
use crate::rng::{fnv, Rng};
use crate::run::{show, Run};
use crate::tape::{shrink, Src};
use crate::with_file;
use pdf::font::{write_cmap, CIDFont, Font, FontData, FontDescriptor, FontType, TFont, ToUnicodeMap, Type0Font, Widths};
use pdf::object::{MaybeRef, NoResolve, PlainRef, RcRef, Rectangle, Stream};
use pdf::primitive::{Dictionary, Name, PdfString, Primitive};
use serde_json::{json, Value};
use std::collections::BTreeMap;
use std::sync::{Arc, Mutex};

// ---------------------------------------------------------------------------------------------
// driver: evaluate n tape-generated cases; minimise failing ones (tape + label knock-out)
// ---------------------------------------------------------------------------------------------

enum Verdict { Ok, Fail { class: String, what: String }, Inconclusive(String) }

struct Eval {
    verdict: Verdict,
    labels: String,
    hash: u64,
    nontrivial: bool,
    feats: Vec<String>,
    witness: Value,
}

/// Choice source of the generators: the tape plus a set of *suppressed* labels. A labelled
/// alternative whose label is suppressed falls back to the plain alternative (the draw is still
/// consumed, so the rest of the tape keeps its meaning). Used to find a 1-minimal label set.
struct Gen { s: Src, sup: Vec<String> }
impl Gen {
    fn new(s: Src, sup: &[String]) -> Gen { Gen { s, sup: sup.to_vec() } }
    fn draw(&mut self, n: u32) -> u32 { self.s.draw(n) }
    fn pick_w(&mut self, w0: u32, n_other: u32) -> u32 { self.s.pick_w(w0, n_other) }
    fn pick<'a, T>(&mut self, xs: &'a [T]) -> &'a T { self.s.pick(xs) }
    fn alt(&mut self, w0: u32, opts: &[&'static str]) -> usize {
        let i = self.s.pick_w(w0, opts.len() as u32 - 1) as usize;
        if i == 0 || self.sup.iter().any(|x| x == opts[i]) { return 0; }
        self.s.labels.push(opts[i]);
        i
    }
    /// like `alt` but the caller records the label (only if the alternative ends up being used)
    fn alt_silent(&mut self, w0: u32, opts: &[&'static str]) -> usize {
        let i = self.s.pick_w(w0, opts.len() as u32 - 1) as usize;
        if i == 0 || self.sup.iter().any(|x| x == opts[i]) { 0 } else { i }
    }
    fn label(&mut self, l: &'static str) { self.s.labels.push(l); }
}

fn label_str(src: &Gen) -> String { let l = src.s.label_set(); if l.is_empty() { "-".into() } else { l } }
fn split_labels(l: &str) -> Vec<String> { if l == "-" { vec![] } else { l.split('+').map(|x| x.to_string()).collect() } }

/// Coarse-to-fine tape minimiser (tapes of the big cases have thousands of draws, so the chunk sizes
/// start at half the tape): truncation, chunk deletion, span zeroing, then the generic fine shrinker.
fn shrink_hard(tape: &[u32], fails: &dyn Fn(&[u32]) -> bool, budget: usize) -> Vec<u32> {
    let mut cur = tape.to_vec();
    let calls = std::cell::Cell::new(0usize);
    let try_it = |cand: &[u32]| -> bool { if calls.get() >= budget { return false; } calls.set(calls.get() + 1); fails(cand) };
    for _round in 0..4 {
        let before = cur.clone();
        // truncation (a replayed tape answers 0 = plainest after its end)
        let mut n = (cur.len() / 2).max(1);
        loop {
            while cur.len() >= n && n > 0 { let cand = cur[..cur.len() - n].to_vec(); if try_it(&cand) { cur = cand; } else { break; } }
            if n <= 1 { break; }
            n /= 2;
        }
        // chunk deletion at aligned offsets, chunk sizes = powers of two (the generators use records of 8 or 16 draws)
        let mut k = (cur.len() / 2).max(1).next_power_of_two();
        loop {
            let mut i = 0;
            while i + k <= cur.len() {
                let mut cand = cur.clone();
                cand.drain(i..i + k);
                if try_it(&cand) { cur = cand; } else { i += k; }
            }
            if k <= 1 { break; }
            k /= 2;
        }
        // span zeroing, halving span sizes
        let mut k = (cur.len() / 2).max(1).next_power_of_two();
        loop {
            let mut i = 0;
            while i < cur.len() {
                let end = (i + k).min(cur.len());
                if cur[i..end].iter().any(|v| *v != 0) {
                    let mut cand = cur.clone();
                    for v in &mut cand[i..end] { *v = 0; }
                    if try_it(&cand) { cur = cand; }
                }
                i = end;
            }
            if k <= 1 { break; }
            k /= 2;
        }
        // value descent: 0, 1, then bisection towards the smallest value that still fails
        for i in 0..cur.len() {
            if cur[i] == 0 { continue; }
            let mut cand = cur.clone(); cand[i] = 0;
            if try_it(&cand) { cur = cand; continue; }
            if cur[i] == 1 { continue; }
            cand = cur.clone(); cand[i] = 1;
            if try_it(&cand) { cur = cand; continue; }
            let (mut lo, mut hi) = (1u32, cur[i]);
            while hi - lo > 1 {
                let mid = lo + (hi - lo) / 2;
                cand = cur.clone(); cand[i] = mid;
                if try_it(&cand) { hi = mid; cur = cand; } else { lo = mid; }
            }
        }
        while cur.last() == Some(&0) { cur.pop(); }
        if cur == before || calls.get() >= budget { break; }
    }
    shrink(&cur, |t| fails(t), budget.min(800))
}

type CaseFn = dyn Fn(&mut Gen, u64) -> Eval + Sync;

fn replay(f: &CaseFn, tape: &[u32], sup: &[String], idx: u64) -> Eval {
    let mut g = Gen::new(Src::replay(tape), sup);
    f(&mut g, idx)
}
fn fails_as(ev: &Eval, class: &str) -> bool { matches!(ev.verdict, Verdict::Fail { class: ref c, .. } if c == class) }

/// tape shrinking and label knock-out until neither improves; returns (tape, suppressed labels)
fn minimise(f: &CaseFn, tape: &[u32], idx: u64, class: &str) -> (Vec<u32>, Vec<String>) {
    let mut tape = tape.to_vec();
    let mut sup: Vec<String> = Vec::new();
    for _ in 0..3 {
        let before = (tape.clone(), sup.clone());
        // knock out labels one at a time
        loop {
            let cur = split_labels(&replay(f, &tape, &sup, idx).labels);
            let mut progressed = false;
            for l in cur {
                if sup.contains(&l) { continue; }
                let mut cand = sup.clone(); cand.push(l);
                let ev = replay(f, &tape, &cand, idx);
                // (labels that follow from the structure of the case cannot be knocked out; the tape minimiser removes those)
                if fails_as(&ev, class) && !split_labels(&ev.labels).contains(cand.last().unwrap()) { sup = cand; progressed = true; break; }
            }
            if !progressed { break; }
        }
        let s2 = sup.clone();
        tape = shrink_hard(&tape, &|t: &[u32]| fails_as(&replay(f, t, &s2, idx), class), 2500);
        if before == (tape.clone(), sup.clone()) { break; }
    }
    (tape, sup)
}

fn drive(run: &Run, part: &str, stream: u64, n: u64, f: &CaseFn) {
    // (the tape of a failing case is not kept: it is regenerated from the seed when needed)
    struct Failing { idx: u64, class: String, labels: String }
    let failing: Mutex<Vec<Failing>> = Mutex::new(Vec::new());
    par_for(n, |i| {
        let mut g = Gen::new(Src::fresh(Rng::derive(run.seed, 19_000 + stream, i)), &[]);
        let ev = f(&mut g, i);
        run.eval();
        run.count(&format!("{}:cases", part));
        for k in &ev.feats { run.count(&format!("{}:{}", part, k)); }
        if ev.nontrivial { run.nontrivial(ev.hash ^ fnv(part.as_bytes())); }
        if i < 3 { run.sample(json!({"part": part, "case": ev.witness.clone()})); }
        match ev.verdict {
            Verdict::Ok => {}
            Verdict::Inconclusive(why) => run.inconclusive(format!("C19 {} case {}: {}", part, i, why)),
            Verdict::Fail { class, .. } => {
                run.count(&format!("{}:failing-cases", part));
                failing.lock().unwrap().push(Failing { idx: i, class, labels: ev.labels });
            }
        }
    });
    let mut failing = failing.into_inner().unwrap();
    failing.sort_by_key(|c| c.idx);
    let tape_of = |idx: u64| -> Vec<u32> {
        let mut g = Gen::new(Src::fresh(Rng::derive(run.seed, 19_000 + stream, idx)), &[]);
        let _ = f(&mut g, idx);
        g.s.tape
    };
    // signatures found so far: (class, label set)
    let mut found: Vec<(String, Vec<String>)> = Vec::new();
    // Is the failing case explained by a signature already found? = it has every label of that signature and,
    // with every other choice-label knocked out, it fails in that signature's class (which may differ from the
    // class of the full case: several defects, or one defect with several symptoms, can meet in one case).
    let explained = |c: &Failing, found: &[(String, Vec<String>)]| -> Option<usize> {
        let have = split_labels(&c.labels);
        for (k, (class, set)) in found.iter().enumerate() {
            if !set.iter().all(|l| have.contains(l)) { continue; }
            let sup: Vec<String> = have.iter().filter(|l| !set.contains(l)).cloned().collect();
            let ev = replay(f, &tape_of(c.idx), &sup, c.idx);
            // still failing in the same way with every other choice-label knocked out, and showing every label of the signature
            let now = split_labels(&ev.labels);
            if fails_as(&ev, class) && set.iter().all(|l| now.contains(l)) { return Some(k); }
        }
        None
    };
    let full = |c: &Failing, found: &mut Vec<(String, Vec<String>)>| {
        let (tape, sup) = minimise(f, &tape_of(c.idx), c.idx, &c.class);
        let ev = replay(f, &tape, &sup, c.idx);
        match ev.verdict {
            Verdict::Fail { class, what } => {
                let sig = format!("C19|{}|{}|{}", part, ev.labels, class);
                run.violation(&sig, &what, json!({"part": part, "case_index": c.idx, "tape": tape, "suppressed_labels": sup, "case": ev.witness}));
                run.count(&format!("{}:failing-cases-minimised", part));
                let set = split_labels(&ev.labels);
                if !found.iter().any(|(cl, s)| *cl == class && *s == set) { found.push((class, set)); }
            }
            _ => run.inconclusive(format!("C19 {} case {}: minimised case no longer fails (non-deterministic case function?)", part, c.idx)),
        }
    };
    // phase 1 (sequential, deterministic): the lowest-index case of each (class, label set) group
    let mut seen: std::collections::BTreeSet<(String, String)> = Default::default();
    let mut firsts: Vec<usize> = Vec::new();
    for (k, c) in failing.iter().enumerate() { if seen.insert((c.class.clone(), c.labels.clone())) { firsts.push(k); } }
    let mut done = vec![false; failing.len()];
    let mut fulls = 0;
    for &k in firsts.iter().take(400) {
        if explained(&failing[k], &found).is_none() {
            if fulls >= 12 { continue; }
            full(&failing[k], &mut found); fulls += 1;
        }
        done[k] = true;
    }
    // phase 2 (parallel): every other failing case must be explained by a signature found so far
    let rest: Vec<usize> = (0..failing.len()).filter(|k| !done[*k]).collect();
    let unexplained: Mutex<Vec<usize>> = Mutex::new(Vec::new());
    {
        let found_ref = &found;
        par_for(rest.len() as u64, |j| {
            let k = rest[j as usize];
            if explained(&failing[k], found_ref).is_none() { unexplained.lock().unwrap().push(k); }
        });
    }
    // phase 3: minimise what is left (lowest indices first; in parallel — the result of a minimisation does not
    // depend on the others — and registered in index order)
    let mut unexplained = unexplained.into_inner().unwrap();
    unexplained.sort();
    let left = unexplained.len().saturating_sub(400) as u64;
    unexplained.truncate(400);
    let results: Mutex<Vec<(usize, Vec<u32>, Vec<String>)>> = Mutex::new(Vec::new());
    par_for(unexplained.len() as u64, |j| {
        let k = unexplained[j as usize];
        let c = &failing[k];
        let (tape, sup) = minimise(f, &tape_of(c.idx), c.idx, &c.class);
        results.lock().unwrap().push((k, tape, sup));
    });
    let mut results = results.into_inner().unwrap();
    results.sort_by_key(|r| r.0);
    for (k, tape, sup) in results {
        let c = &failing[k];
        let ev = replay(f, &tape, &sup, c.idx);
        match ev.verdict {
            Verdict::Fail { class, what } => {
                let sig = format!("C19|{}|{}|{}", part, ev.labels, class);
                run.violation(&sig, &what, json!({"part": part, "case_index": c.idx, "tape": tape, "suppressed_labels": sup, "case": ev.witness}));
                run.count(&format!("{}:failing-cases-minimised", part));
                let set = split_labels(&ev.labels);
                if !found.iter().any(|(cl, s)| *cl == class && *s == set) { found.push((class, set)); }
            }
            _ => run.inconclusive(format!("C19 {} case {}: minimised case no longer fails (non-deterministic case function?)", part, c.idx)),
        }
    }
    if left > 0 {
        run.add(&format!("{}:failing-cases-not-minimised", part), left);
        run.inconclusive(format!("C19 {}: {} failing cases were not minimised (limit of 400 per part)", part, left));
    }
    // every failing case counts towards the signature that explains it
    for (class, set) in &found { run.count(&format!("{}:signature:{}|{}", part, if set.is_empty() { "-".to_string() } else { set.join("+") }, class.split('|').next().unwrap_or(""))); }
}

// ---------------------------------------------------------------------------------------------
// shared document pieces
// ---------------------------------------------------------------------------------------------

const EXTRA_CODES: [usize; 6] = [65536, 65537, 70000, 1 << 20, u32::MAX as usize, usize::MAX];

fn descriptor_obj(missing_width: Option<&Num>) -> Obj {
    let mut d = vec![
        ("Type", name("FontDescriptor")), ("FontName", name("AAAAAA+Mon")), ("Flags", Obj::Int(4)),
        ("FontBBox", mkpdf::ints(&[-100, -200, 1100, 900])), ("ItalicAngle", Obj::Int(0)), ("Ascent", Obj::Int(800)),
        ("Descent", Obj::Int(-200)), ("CapHeight", Obj::Int(700)), ("StemV", Obj::Int(80)),
    ];
    if let Some(m) = missing_width { d.push(("MissingWidth", m.obj())); }
    dict(d)
}
fn descriptor_struct(missing_width: f32) -> FontDescriptor {
    FontDescriptor {
        font_name: Name::from("AAAAAA+Mon".to_string()), font_family: None, font_stretch: None, font_weight: None, flags: 4,
        font_bbox: Rectangle { left: -100., bottom: -200., right: 1100., top: 900. }, italic_angle: 0., ascent: Some(800.),
        descent: Some(-200.), leading: 0., cap_height: Some(700.), xheight: 0., stem_v: 80., stem_h: 0., avg_width: 0., max_width: 0.,
        missing_width, font_file: None, font_file2: None, font_file3: None, char_set: None,
    }
}
/// catalog, pages, page with /Resources /Font /F1 `font_nr` 0 R
fn page_objs(font_nr: u32) -> Vec<(u32, Obj)> {
    vec![
        (1, dict(vec![("Type", name("Catalog")), ("Pages", rf(2))])),
        (2, dict(vec![("Type", name("Pages")), ("Count", Obj::Int(1)), ("Kids", arr(vec![rf(3)]))])),
        (3, dict(vec![("Type", name("Page")), ("Parent", rf(2)), ("MediaBox", mkpdf::ints(&[0, 0, 612, 792])),
            ("Resources", dict(vec![("Font", dict(vec![("F1", rf(font_nr))]))]))])),
    ]
}

/// a number as written into the file
#[derive(Clone, Debug)]
enum Num { I(i64), R(f64) }
impl Num {
    fn obj(&self) -> Obj { match self { Num::I(i) => Obj::Int(*i), Num::R(x) => Obj::Real(*x) } }
    /// the value of the decimal text that is written
    fn f32(&self) -> f32 { match self { Num::I(i) => *i as f32, Num::R(x) => mkpdf::fmt_real(*x).parse::<f32>().unwrap() } }
    fn prim(&self) -> Primitive { match self { Num::I(i) => Primitive::Integer(*i as i32), Num::R(_) => Primitive::Number(self.f32()) } }
    fn text(&self) -> String { match self { Num::I(i) => i.to_string(), Num::R(x) => mkpdf::fmt_real(*x) } }
}
/// k-th width of a record: a hash of (seed, k), not tape draws, so that every record of the
/// generators has a fixed number of draws (the tape minimiser relies on that alignment).
fn hash_width(seed: u32, k: u32, reals: bool) -> Num {
    let mut r = Rng::derive(seed as u64, 0x19a, k as u64);
    let v = r.below(3_000_000);
    if reals && r.below(2) == 0 { Num::R(v as f64 / 1000.0) } else { Num::I((v % 2001) as i64) }
}
/// draw until the number of draws used is a multiple of m (records are aligned for the minimiser)
fn pad(src: &mut Gen, m: usize) { while src.s.used() % m != 0 { src.draw(1); } }
fn close(a: f32, b: f32) -> bool { a == b || (a - b).abs() <= 4e-7 * b.abs().max(1.0) }

/// what the library answered for all queried codes
enum Got { Table(Vec<f32>, Vec<f32>), NoWidths, Error(String), Panic(String, String), Harness(String) }

fn table_of(w: &Widths, upto: usize) -> (Vec<f32>, Vec<f32>) {
    ((0..=upto).map(|c| w.get(c)).collect(), EXTRA_CODES.iter().map(|&c| w.get(c)).collect())
}

/// doc route: load the document, fetch font F1 of page 0 from the resources, ask for its widths
fn widths_via_file(bytes: Vec<u8>, cfg_idx: u64, upto: usize) -> Got {
    let cfg = CFGS[(cfg_idx % 4) as usize];
    let r = guard(|| {
        with_file!(bytes, cfg, b"", |file| {
            let file = match file { Ok(f) => f, Err(e) => return Got::Harness(format!("document does not load: {}", e)) };
            let page = match file.get_page(0) { Ok(p) => p, Err(e) => return Got::Harness(format!("page 0: {}", e)) };
            let res = match page.resources() { Ok(r) => r, Err(e) => return Got::Harness(format!("resources: {}", e)) };
            let lazy = match res.fonts.iter().next() { Some((_, l)) => l.clone(), None => return Got::Harness("no font in resources".into()) };
            let resolver = file.resolver();
            let font = match lazy.load(&resolver) { Ok(f) => f, Err(e) => return Got::Error(format!("font does not load: {}", e)) };
            match font.widths(&resolver) {
                Ok(Some(w)) => { let (t, x) = table_of(&w, upto); Got::Table(t, x) }
                Ok(None) => Got::NoWidths,
                Err(e) => Got::Error(format!("widths(): {}", e)),
            }
        })
    });
    match r { Ok(g) => g, Err(p) => Got::Panic(p.signature(), p.describe()) }
}
fn widths_via_struct(font: &Font, upto: usize) -> Got {
    match guard(|| font.widths(&NoResolve)) {
        Ok(Ok(Some(w))) => { let (t, x) = table_of(&w, upto); Got::Table(t, x) }
        Ok(Ok(None)) => Got::NoWidths,
        Ok(Err(e)) => Got::Error(format!("widths(): {}", e)),
        Err(p) => Got::Panic(p.signature(), p.describe()),
    }
}

/// compare an answer with the model; `assigned[c]` says whether the array assigns code c.
/// Returns None when the answer is right, Some((class, what)) otherwise; Err = harness trouble.
fn judge_widths(got: &Got, model: &[f32], assigned: &[bool], default: f32, route: &str) -> Result<Option<(String, String)>, String> {
    match got {
        Got::Harness(e) => Err(format!("{} route: {}", route, e)),
        Got::Panic(sig, d) => Ok(Some((sig.clone(), format!("{} route: panic {}", route, d)))),
        Got::Error(e) => Ok(Some(("error-instead-of-value".into(), format!("{} route: {}", route, e)))),
        Got::NoWidths => Ok(Some(("none-instead-of-value".into(), format!("{} route: widths() returned None", route)))),
        Got::Table(t, extra) => {
            let mut bad_assigned = Vec::new();
            let mut bad_default = Vec::new();
            for c in 0..model.len() {
                if !close(t[c], model[c]) {
                    let v = if assigned[c] { &mut bad_assigned } else { &mut bad_default };
                    if v.len() < 4 { v.push(format!("code {}: got {} want {}", c, t[c], model[c])); } else if v.len() == 4 { v.push("…".into()); }
                }
            }
            for (k, &c) in EXTRA_CODES.iter().enumerate() {
                if !close(extra[k], default) && bad_default.len() < 5 { bad_default.push(format!("code {}: got {} want default {}", c, extra[k], default)); }
            }
            if !bad_assigned.is_empty() {
                Ok(Some(("wrong-width-for-assigned-code".into(), format!("{} route: {}", route, bad_assigned.join("; ")))))
            } else if !bad_default.is_empty() {
                Ok(Some(("wrong-width-for-unassigned-code".into(), format!("{} route: {}", route, bad_default.join("; ")))))
            } else { Ok(None) }
        }
    }
}

// ---------------------------------------------------------------------------------------------
// (a) composite fonts
// ---------------------------------------------------------------------------------------------

#[derive(Clone, Debug)]
enum Form { List(Vec<Num>), Range(u32, Num) }
#[derive(Clone, Debug)]
struct Group { first: u32, form: Form }
impl Group {
    fn last(&self) -> u32 { match &self.form { Form::List(v) => self.first + v.len() as u32 - 1, Form::Range(l, _) => *l } }
}

/// header: 3 draws (caller pads to 8); one record of 8 draws per group; permutation draws last
fn gen_groups(src: &mut Gen) -> Vec<Group> {
    let mut groups: Vec<Group> = Vec::new();
    let full = src.alt(40, &["", "full-range-0-65535"]) == 1;
    let n_raw = src.draw(100);
    let permute = src.alt_silent(1, &["ascending-order", "permuted-order"]) == 1;
    pad(src, 8);
    let mut keys: Vec<u32> = Vec::new();
    // one draw, monotone (the minimiser lowers it step by step); the top values give the empty array
    let n = if full { 1 } else { match n_raw { 0..=34 => 1, 35..=64 => 2 + (n_raw - 35) / 4, 65..=94 => 10 + (n_raw - 65), _ => 0 } };
    let mut cursor: u32 = 0;
    for _ in 0..n {
        let gap_kind = src.pick_w(2, 4);
        let gap_val = src.draw(40000);
        let range = src.alt_silent(1, &["list-form", "range-form"]) == 1;
        let len_kind = src.pick_w(3, 3);
        let len_val = src.draw(65536);
        let wseed = src.draw(1 << 20);
        let reals = src.alt_silent(3, &["int-width", "real-width"]) == 1;
        let okey = src.draw(1000); // position of the group in the array = rank of this key (ties: ascending codes)
        pad(src, 8);
        if full { groups.push(Group { first: 0, form: Form::Range(65535, hash_width(wseed, 0, reals)) }); break; }
        let gap = match gap_kind { 0 => 0, 1 => 1 + gap_val % 8, 2 => gap_val % 300, 3 => gap_val % 5000, _ => gap_val };
        let start = cursor + gap;
        if start > 65535 { continue; }
        let len = if range {
            match len_kind { 0 => 1 + len_val % 6, 1 => 1 + len_val % 300, 2 => 1 + len_val % 6000, _ => 1 + len_val }
        } else {
            match len_kind { 0 => 1 + len_val % 6, 1 => 1 + len_val % 300, _ => 1 + len_val % 4000 }
        };
        let last = (start + len - 1).min(65535);
        let form = if range { Form::Range(last, hash_width(wseed, 0, reals)) } else { Form::List((0..=last - start).map(|k| hash_width(wseed, k, reals)).collect()) };
        groups.push(Group { first: start, form });
        keys.push(okey);
        cursor = last + 1;
    }
    // permutation: stable sort by the per-group keys (all keys 0 = ascending order); the keys live in the
    // group records so that deleting a record does not disturb the order of the others
    if permute && groups.len() > 1 {
        let mut idx: Vec<usize> = (0..groups.len()).collect();
        idx.sort_by_key(|i| keys[*i]);
        groups = idx.into_iter().map(|i| groups[i].clone()).collect();
    }
    groups
}

/// structural labels of the insertion order (which growth case of the table each group hits)
fn order_labels(src: &mut Gen, groups: &[Group]) {
    let mut span: Option<(u32, u32)> = None;
    for g in groups {
        match span {
            None => span = Some((g.first, g.last())),
            Some((lo, hi)) => {
                if g.first == hi + 1 { /* append */ }
                else if g.first > hi + 1 { src.label("gap-after-table"); }
                else if g.last() < lo { src.label("prepend"); if g.last() + 1 < lo { src.label("gap-before-table"); } }
                else { src.label("fill-inside-table"); }
                span = Some((lo.min(g.first), hi.max(g.last())));
            }
        }
    }
    if groups.is_empty() { src.label("empty-w"); }
    if groups.len() > 1 { src.label("multi-group"); }
    if groups.windows(2).any(|p| p[0].first > p[1].first) { src.label("permuted-order"); }
    if groups.iter().any(|g| matches!(g.form, Form::Range(..))) { src.label("range-form"); }
    if groups.iter().any(|g| match &g.form { Form::Range(_, w) => matches!(w, Num::R(_)), Form::List(v) => v.iter().any(|w| matches!(w, Num::R(_))) }) { src.label("real-width"); }
}

fn w_text(groups: &[Group]) -> String {
    let mut s = String::from("[");
    for (k, g) in groups.iter().enumerate() {
        if k > 0 { s.push(' '); }
        if s.len() > 600 { s.push_str(&format!("… ({} groups)", groups.len())); break; }
        match &g.form {
            Form::List(v) => {
                s.push_str(&format!("{} [", g.first));
                for (i, w) in v.iter().enumerate() { if i >= 8 { s.push_str(&format!(" …({} widths)", v.len())); break; } if i > 0 { s.push(' '); } s.push_str(&w.text()); }
                s.push(']');
            }
            Form::Range(l, w) => s.push_str(&format!("{} {} {}", g.first, l, w.text())),
        }
    }
    s.push(']');
    s
}

fn case_a(src: &mut Gen, idx: u64) -> Eval {
    // fixed-shape choices first, so that shrinking the variable part does not shift them on the tape
    let dw_pick = *src.pick(&[0i64, 1, 500, 1000, 777, 2048]);
    let dw: Option<Num> = match src.alt(2, &["dw-absent", "dw-given"]) { 0 => None, _ => Some(Num::I(dw_pick)) };
    let w_indirect = src.alt(5, &["", "w-indirect"]) == 1;
    let sub_indirect = src.alt(5, &["", "sub-array-indirect"]) == 1;
    let type0 = src.alt(2, &["cidfonttype2", "cidfonttype0"]) == 1;
    let groups = gen_groups(src); // 3 more header draws = 8, then records of 8
    order_labels(src, &groups);
    let default = dw.as_ref().map(|d| d.f32()).unwrap_or(1000.0);

    // model from the generator's bookkeeping
    let mut model = vec![default; 65536];
    let mut assigned = vec![false; 65536];
    let mut feats: Vec<String> = Vec::new();
    for g in &groups {
        match &g.form {
            Form::List(v) => { for (k, w) in v.iter().enumerate() { model[g.first as usize + k] = w.f32(); assigned[g.first as usize + k] = true; } feats.push("groups:list-form".into()); }
            Form::Range(l, w) => { for c in g.first..=*l { model[c as usize] = w.f32(); assigned[c as usize] = true; } feats.push("groups:range-form".into()); if *l - g.first >= 30000 { feats.push("groups:range>=30000-codes".into()); } }
        }
    }

    // the /W object (and side objects for indirect sub-arrays)
    let mut side: Vec<(u32, Obj)> = Vec::new();
    let mut next_nr = 8;
    let mut items: Vec<Obj> = Vec::new();
    let mut any_sub = false;
    for (k, g) in groups.iter().enumerate() {
        items.push(Obj::Int(g.first as i64));
        match &g.form {
            Form::List(v) => {
                let a = arr(v.iter().map(|w| w.obj()).collect());
                if sub_indirect && k % 2 == 0 { side.push((next_nr, a)); items.push(rf(next_nr)); next_nr += 1; any_sub = true; } else { items.push(a); }
            }
            Form::Range(l, w) => { items.push(Obj::Int(*l as i64)); items.push(w.obj()); }
        }
    }
    let w_arr = arr(items);
    let w_entry = if w_indirect { side.push((7, w_arr.clone())); rf(7) } else { w_arr.clone() };
    if sub_indirect && !any_sub { src.s.labels.retain(|l| *l != "sub-array-indirect"); }

    // generator ↔ reference interpreter cross-check
    let side_c = side.clone();
    let deref = move |n: u32| side_c.iter().find(|(k, _)| *k == n).map(|(_, o)| o.clone());
    let labels_then = label_str(src);
    let witness = json!({"W": w_text(&groups), "DW": dw.as_ref().map(|d| d.text()), "w_indirect": w_indirect, "sub_arrays_indirect": any_sub,
        "descendant": if type0 { "CIDFontType0" } else { "CIDFontType2" }, "groups": groups.len()});
    let mk = |verdict: Verdict, feats: Vec<String>| Eval { verdict, labels: labels_then.clone(), hash: fnv(format!("{:?}{:?}", groups, dw).as_bytes()), nontrivial: !groups.is_empty(), feats, witness: witness.clone() };
    match reference::interpret_w(&w_entry, &deref) {
        Err(e) => return mk(Verdict::Inconclusive(format!("generated /W rejected by the reference interpreter: {}", e)), feats),
        Ok(refm) => {
            for c in 0..65536 {
                let want = refm[c].map(|v| v as f32);
                if want.is_some() != assigned[c] || want.map(|v| !close(v, model[c])).unwrap_or(false) {
                    return mk(Verdict::Inconclusive(format!("generator model and reference interpreter disagree at code {}", c)), feats);
                }
            }
        }
    }

    // route 1: public struct fields (no indirection possible without a file)
    let cid = CIDFont {
        system_info: { let mut d = Dictionary::new(); d.insert("Registry", PdfString::from("Adobe")); d.insert("Ordering", PdfString::from("Identity")); d.insert("Supplement", 0); d },
        font_descriptor: descriptor_struct(0.0),
        default_width: default,
        widths: groups.iter().flat_map(|g| match &g.form {
            Form::List(v) => vec![Primitive::Integer(g.first as i32), Primitive::Array(v.iter().map(|w| w.prim()).collect())],
            Form::Range(l, w) => vec![Primitive::Integer(g.first as i32), Primitive::Integer(*l as i32), w.prim()],
        }).collect(),
        cid_to_gid_map: None,
        _other: Dictionary::new(),
    };
    let inner = Font { subtype: if type0 { FontType::CIDFontType0 } else { FontType::CIDFontType2 }, name: Some(Name::from("AAAAAA+Mon".to_string())),
        data: if type0 { FontData::CIDFontType0(cid) } else { FontData::CIDFontType2(cid) }, encoding: None, to_unicode: None, _other: Dictionary::new() };
    let outer = if idx % 2 == 0 { inner } else {
        Font { subtype: FontType::Type0, name: Some(Name::from("AAAAAA+Mon".to_string())),
            data: FontData::Type0(Type0Font { descendant_fonts: vec![MaybeRef::Direct(Arc::new(inner))], to_unicode: None }), encoding: None, to_unicode: None, _other: Dictionary::new() }
    };
    feats.push("route:struct".into());
    match judge_widths(&widths_via_struct(&outer, 65535), &model, &assigned, default, "struct") {
        Err(e) => return mk(Verdict::Inconclusive(e), feats),
        Ok(Some((class, what))) => return mk(Verdict::Fail { class, what }, feats),
        Ok(None) => {}
    }

    // route 2: a document read by the real reader
    let mut cidfont = vec![("Type", name("Font")), ("Subtype", name(if type0 { "CIDFontType0" } else { "CIDFontType2" })), ("BaseFont", name("AAAAAA+Mon")),
        ("CIDSystemInfo", dict(vec![("Registry", st("Adobe")), ("Ordering", st("Identity")), ("Supplement", Obj::Int(0))])),
        ("FontDescriptor", rf(6))];
    if let Some(d) = &dw { cidfont.push(("DW", d.obj())); }
    cidfont.push(("W", w_entry));
    if !type0 { cidfont.push(("CIDToGIDMap", name("Identity"))); }
    let mut objs = page_objs(4);
    objs.push((4, dict(vec![("Type", name("Font")), ("Subtype", name("Type0")), ("BaseFont", name("AAAAAA+Mon")), ("Encoding", name("Identity-H")),
        ("DescendantFonts", arr(vec![rf(5)]))])));
    objs.push((5, dict(cidfont)));
    objs.push((6, descriptor_obj(None)));
    objs.extend(side);
    objs.sort_by_key(|(n, _)| *n);
    let bytes = simple_doc(&objs, 1, vec![]);
    feats.push(format!("route:file:{}", CFGS[(idx % 4) as usize].name()));
    match judge_widths(&widths_via_file(bytes, idx, 65535), &model, &assigned, default, "file") {
        Err(e) => mk(Verdict::Inconclusive(e), feats),
        Ok(Some((class, what))) => mk(Verdict::Fail { class, what }, feats),
        Ok(None) => mk(Verdict::Ok, feats),
    }
}

// ---------------------------------------------------------------------------------------------
// (b) simple fonts
// ---------------------------------------------------------------------------------------------

const SIMPLE_UPTO: usize = 1023;

fn case_b(src: &mut Gen, idx: u64) -> Eval {
    let truetype = src.alt(1, &["type1", "truetype"]) == 1;
    let desc = src.alt(2, &["no-descriptor", "descriptor", "missing-width"]);
    let mw = 1 + src.draw(1500) as i64;
    let missing: Option<Num> = if desc == 2 { Some(Num::I(mw)) } else { None };
    let widths_indirect = src.alt(5, &["", "widths-indirect"]) == 1;
    let first = src.draw(256) as i64;
    let len_kind = src.pick_w(3, 2);
    let len_val = src.draw(301) as usize;
    let wseed = src.draw(1 << 20);
    let reals = src.alt_silent(3, &["int-width", "real-width"]) == 1;
    let len = match len_kind { 0 => 1 + len_val % 8, 1 => 1 + len_val % 256, _ => len_val };
    if len == 0 { src.label("empty-widths"); }
    if first as usize + len > 256 { src.label("table-beyond-code-255"); }
    let widths: Vec<Num> = (0..len).map(|k| hash_width(wseed, k as u32, reals)).collect();
    if widths.iter().any(|w| matches!(w, Num::R(_))) { src.label("real-width"); }
    // PDF 32000-1 §9.6.2.1 / Table 122: codes outside FirstChar..LastChar use /MissingWidth of the descriptor, default 0
    let default = missing.as_ref().map(|m| m.f32()).unwrap_or(0.0);
    let last = first + len as i64 - 1;

    let mut model = vec![default; SIMPLE_UPTO + 1];
    let mut assigned = vec![false; SIMPLE_UPTO + 1];
    for (k, w) in widths.iter().enumerate() { model[first as usize + k] = w.f32(); assigned[first as usize + k] = true; }

    let labels = label_str(src);
    let wtxt: Vec<String> = widths.iter().take(10).map(|w| w.text()).collect();
    let witness = json!({"Subtype": if truetype { "TrueType" } else { "Type1" }, "FirstChar": first, "LastChar": last, "Widths_len": len,
        "Widths_head": wtxt.join(" "), "FontDescriptor": desc > 0, "MissingWidth": missing.as_ref().map(|m| m.text()), "widths_indirect": widths_indirect});
    let feats_base = vec![format!("subtype:{}", if truetype { "TrueType" } else { "Type1" })];
    let mk = |verdict: Verdict, feats: Vec<String>| Eval { verdict, labels: labels.clone(),
        hash: fnv(format!("{} {} {:?} {:?}", first, truetype, widths, missing).as_bytes()), nontrivial: len > 0, feats, witness: witness.clone() };
    let mut feats = feats_base;

    // route 1: struct
    let tf = TFont { base_font: Some(Name::from("Mon".to_string())), first_char: Some(first as i32), last_char: Some(last as i32),
        widths: Some(widths.iter().map(|w| w.f32()).collect()), font_descriptor: if desc > 0 { Some(descriptor_struct(default)) } else { None } };
    let font = Font { subtype: if truetype { FontType::TrueType } else { FontType::Type1 }, name: Some(Name::from("Mon".to_string())),
        data: if truetype { FontData::TrueType(tf) } else { FontData::Type1(tf) }, encoding: None, to_unicode: None, _other: Dictionary::new() };
    feats.push("route:struct".into());
    match judge_widths(&widths_via_struct(&font, SIMPLE_UPTO), &model, &assigned, default, "struct") {
        Err(e) => return mk(Verdict::Inconclusive(e), feats),
        Ok(Some((class, what))) => return mk(Verdict::Fail { class, what }, feats),
        Ok(None) => {}
    }
    // route 2: file
    let warr = arr(widths.iter().map(|w| w.obj()).collect());
    let mut fd = vec![("Type", name("Font")), ("Subtype", name(if truetype { "TrueType" } else { "Type1" })), ("BaseFont", name("Mon")),
        ("FirstChar", Obj::Int(first)), ("LastChar", Obj::Int(last)), ("Widths", if widths_indirect { rf(6) } else { warr.clone() })];
    if desc > 0 { fd.push(("FontDescriptor", rf(5))); }
    let mut objs = page_objs(4);
    objs.push((4, dict(fd)));
    objs.push((5, descriptor_obj(missing.as_ref())));
    if widths_indirect { objs.push((6, warr)); }
    let bytes = simple_doc(&objs, 1, vec![]);
    feats.push(format!("route:file:{}", CFGS[(idx % 4) as usize].name()));
    match judge_widths(&widths_via_file(bytes, idx, SIMPLE_UPTO), &model, &assigned, default, "file") {
        Err(e) => mk(Verdict::Inconclusive(e), feats),
        Ok(Some((class, what))) => mk(Verdict::Fail { class, what }, feats),
        Ok(None) => mk(Verdict::Ok, feats),
    }
}

// ---------------------------------------------------------------------------------------------
// Unicode texts, reading a CMap back through the library, comparing maps
// ---------------------------------------------------------------------------------------------

/// Text generation is a hash of (seed, k) with two per-record switches (multi-character targets,
/// supplementary planes): fixed number of tape draws per record. Text 0 of a record always shows the
/// switched-on features.
fn hash_text(seed: u32, k: u32, multi: bool, supp: bool) -> String {
    let mut r = Rng::derive(seed as u64, 0x19c, k as u64);
    let n = if multi && (k == 0 || r.below(2) == 0) { 2 + r.below(3) as usize } else { 1 };
    let mut s = String::new();
    for i in 0..n {
        let v = r.below(0x100000) as u32;
        let c = if supp && ((k == 0 && i == 0) || r.below(3) == 0) { 0x10000 + v } else {
            match r.below(4) {
                0 | 1 => 0x41 + v % 0x3E,
                2 => 0xA0 + v % 0x2F60,
                _ => { let cp = 1 + v % 0xFFFF; if (0xD800..0xE000).contains(&cp) { 0x4E00 + (cp & 0x7FF) } else { cp } }
            }
        };
        s.push(char::from_u32(c).unwrap());
    }
    s
}
/// the three draws of a record that steer its texts
fn text_switches(src: &mut Gen) -> (u32, bool, bool) {
    let seed = src.draw(1 << 20);
    let multi = src.alt_silent(5, &["single-char", "multi-char-target"]) == 1;
    let supp = src.alt_silent(5, &["bmp", "supplementary-plane"]) == 1;
    (seed, multi, supp)
}
fn text_labels(src: &mut Gen, want: &BTreeMap<u16, String>) {
    if want.values().any(|s| s.chars().count() > 1) { src.label("multi-char-target"); }
    if want.values().any(|s| s.chars().any(|c| c as u32 >= 0x10000)) { src.label("supplementary-plane"); }
}
fn utf16be_bytes(s: &str) -> Vec<u8> { s.encode_utf16().flat_map(|u| [(u >> 8) as u8, u as u8]).collect() }

enum Read { Map(BTreeMap<u16, String>), NoMap, Error(String), Panic(String, String), Harness(String) }

fn collect_map(m: &ToUnicodeMap) -> Read {
    let mut out = BTreeMap::new();
    let mut n = 0;
    for (k, v) in m.iter() { out.insert(k, v.to_string()); n += 1; }
    // the lookup interface must agree with the iteration interface
    for (k, v) in out.iter() { if m.get(*k) != Some(v.as_str()) { return Read::Error(format!("get({}) disagrees with iter()", k)); } }
    if n != m.len() || m.is_empty() != (n == 0) { return Read::Error("len()/is_empty() disagree with iter()".into()); }
    Read::Map(out)
}

fn read_via_struct(text: &[u8]) -> Read {
    let stream: Stream<()> = Stream::new((), text.to_vec());
    let font = Font { subtype: FontType::Type1, name: Some(Name::from("Mon".to_string())), data: FontData::Other(Dictionary::new()), encoding: None,
        to_unicode: Some(RcRef::new(PlainRef { id: 9, gen: 0 }, Arc::new(stream))), _other: Dictionary::new() };
    match guard(|| font.to_unicode(&NoResolve)) {
        Ok(Some(Ok(m))) => collect_map(&m),
        Ok(Some(Err(e))) => Read::Error(format!("to_unicode(): {}", e)),
        Ok(None) => Read::NoMap,
        Err(p) => Read::Panic(p.signature(), p.describe()),
    }
}
fn read_via_file(text: &[u8], idx: u64, flate: bool) -> Read {
    let mut objs = page_objs(4);
    objs.push((4, dict(vec![("Type", name("Font")), ("Subtype", name("Type1")), ("BaseFont", name("Helvetica")), ("ToUnicode", rf(5))])));
    let (extra, data) = if flate { mkpdf::flate_filter(text) } else { mkpdf::no_filter(text) };
    objs.push((5, Obj::Stream(extra, data)));
    let bytes = simple_doc(&objs, 1, vec![]);
    let cfg = CFGS[(idx % 4) as usize];
    let r = guard(|| {
        with_file!(bytes, cfg, b"", |file| {
            let file = match file { Ok(f) => f, Err(e) => return Read::Harness(format!("document does not load: {}", e)) };
            let page = match file.get_page(0) { Ok(p) => p, Err(e) => return Read::Harness(format!("page 0: {}", e)) };
            let res = match page.resources() { Ok(r) => r, Err(e) => return Read::Harness(format!("resources: {}", e)) };
            let lazy = match res.fonts.iter().next() { Some((_, l)) => l.clone(), None => return Read::Harness("no font in resources".into()) };
            let resolver = file.resolver();
            let font = match lazy.load(&resolver) { Ok(f) => f, Err(e) => return Read::Harness(format!("font does not load: {}", e)) };
            match font.to_unicode(&resolver) {
                Some(Ok(m)) => collect_map(&m),
                Some(Err(e)) => Read::Error(format!("to_unicode(): {}", e)),
                None => Read::NoMap,
            }
        })
    });
    match r { Ok(g) => g, Err(p) => Read::Panic(p.signature(), p.describe()) }
}

fn judge_map(got: &Read, want: &BTreeMap<u16, String>, route: &str) -> Result<Option<(String, String)>, String> {
    let esc = |s: &str| -> String { s.chars().map(|c| format!("U+{:04X}", c as u32)).collect::<Vec<_>>().join(" ") };
    match got {
        Read::Harness(e) => Err(format!("{} route: {}", route, e)),
        Read::Panic(sig, d) => Ok(Some((sig.clone(), format!("{} route: panic {}", route, d)))),
        Read::Error(e) => Ok(Some(("error-instead-of-map".into(), format!("{} route: {}", route, e)))),
        Read::NoMap => Ok(Some(("none-instead-of-map".into(), format!("{} route: to_unicode() returned None", route)))),
        Read::Map(m) => {
            let mut wrong = Vec::new(); let mut missing = Vec::new(); let mut extra = Vec::new();
            for (k, v) in want { match m.get(k) { None => missing.push(*k), Some(g) if g != v => wrong.push(format!("<{:04X}>: got {} want {}", k, esc(g), esc(v))), _ => {} } }
            for k in m.keys() { if !want.contains_key(k) { extra.push(*k); } }
            let codes = |v: &[u16]| v.iter().take(6).map(|c| format!("<{:04X}>", c)).collect::<Vec<_>>().join(" ");
            if !wrong.is_empty() {
                Ok(Some(("wrong-text".into(), format!("{} route: {} codes map to the wrong text, e.g. {}", route, wrong.len(), wrong.iter().take(3).cloned().collect::<Vec<_>>().join("; ")))))
            } else if !missing.is_empty() {
                Ok(Some(("missing-entries".into(), format!("{} route: {} of {} codes are missing from the map that was read, e.g. {}", route, missing.len(), want.len(), codes(&missing)))))
            } else if !extra.is_empty() {
                Ok(Some(("extra-entries".into(), format!("{} route: {} codes were read that the text does not define, e.g. {}", route, extra.len(), codes(&extra)))))
            } else { Ok(None) }
        }
    }
}

/// read `text` back on both routes and judge
fn judge_text(text: &[u8], want: &BTreeMap<u16, String>, idx: u64, feats: &mut Vec<String>) -> Verdict {
    feats.push("route:struct".into());
    match judge_map(&read_via_struct(text), want, "struct") {
        Err(e) => return Verdict::Inconclusive(e),
        Ok(Some((class, what))) => return Verdict::Fail { class, what },
        Ok(None) => {}
    }
    let flate = idx % 3 == 0;
    feats.push(format!("route:file:{}{}", CFGS[(idx % 4) as usize].name(), if flate { ":flate" } else { "" }));
    match judge_map(&read_via_file(text, idx, flate), want, "file") {
        Err(e) => Verdict::Inconclusive(e),
        Ok(Some((class, what))) => Verdict::Fail { class, what },
        Ok(None) => Verdict::Ok,
    }
}

// ---------------------------------------------------------------------------------------------
// (c) writer → reader
// ---------------------------------------------------------------------------------------------

fn case_c(src: &mut Gen, idx: u64) -> Eval {
    // header of 8 draws, then one record of 8 draws per item
    let with_ffff = src.alt_silent(20, &["", "code-ffff"]) == 1;
    let n_raw = src.draw(100);
    let (fseed, fmulti, fsupp) = text_switches(src);
    pad(src, 8);
    // one draw, monotone; the top values give the empty map
    let n_items = match n_raw { 0..=49 => 1 + n_raw / 10, 50..=79 => 6 + (n_raw - 50) * 2, 80..=96 => 70 + (n_raw - 80) * 30, _ => 0 };
    let mut want: BTreeMap<u16, String> = BTreeMap::new();
    let mut next: u32 = 0; // lowest code that is not adjacent to anything placed so far
    let mut feats: Vec<String> = Vec::new();
    let mut seq_texts = false;
    for _ in 0..n_items {
        let gap_kind = src.pick_w(3, 2);
        let gap_val = src.draw(30000);
        let run = src.alt_silent(2, &["isolated-code", "consecutive-codes"]) == 1;
        let len_kind = src.pick_w(4, 1);
        let len_val = src.draw(400);
        let (tseed, multi, supp) = text_switches(src);
        pad(src, 8);
        let gap = match gap_kind { 0 => gap_val % 4, 1 => gap_val % 300, _ => gap_val };
        let start = next + gap;
        if start > 65535 { continue; }
        let run_len = if run { 2 + match len_kind { 0 => len_val % 6, _ => len_val } } else { 1 };
        let last = (start + run_len - 1).min(65535);
        // every third run maps consecutive codes to consecutive characters (identity and offset maps of real files): one BMP
        // character counting up from a base (the code itself now and then), after a constant prefix when `multi`
        if run && tseed % 3 == 0 {
            let n = last - start + 1;
            let mut base = if tseed % 12 == 0 { start.max(0x20) } else { 0x20 + (tseed >> 4) % 0xD7C0 };
            if base + n > 0xD800 { base = 0xD800 - n; }
            let prefix = if multi { hash_text(tseed, 0, false, supp) } else { String::new() };
            for c in start..=last { let mut t = prefix.clone(); t.push(char::from_u32(base + (c - start)).unwrap()); want.insert(c as u16, t); }
            feats.push("items:run-sequential-texts".into());
            seq_texts = true;
        } else {
            for c in start..=last { want.insert(c as u16, hash_text(tseed, c - start, multi, supp)); }
        }
        feats.push(if last > start { "items:run".into() } else { "items:single".into() });
        next = last + 2;
    }
    if with_ffff && !want.contains_key(&0xFFFE) && !want.contains_key(&0xFFFF) { want.insert(0xFFFF, hash_text(fseed, 0, fmulti, fsupp)); }
    // labels describe the case as generated
    if want.contains_key(&0xFFFF) { src.label("code-ffff"); }
    if want.keys().any(|k| *k < 0xFFFF && want.contains_key(&(k + 1))) { src.label("consecutive-codes"); }
    if seq_texts { src.label("sequential-texts"); }
    text_labels(src, &want);

    let map = if idx % 2 == 0 {
        ToUnicodeMap::create(want.iter().map(|(k, v)| (*k, v.as_str().into())))
    } else {
        let mut m = ToUnicodeMap::new();
        for (k, v) in want.iter().rev() { m.insert(*k, v.as_str().into()); }
        m
    };
    let labels = label_str(src);
    let written = guard(|| write_cmap(&map));
    let text = match &written { Ok(t) => t.clone(), Err(_) => String::new() };
    let witness = json!({"map_entries": want.len(), "map_head": want.iter().take(6).map(|(k, v)| format!("<{:04X}> -> {}", k, v.escape_unicode())).collect::<Vec<_>>(),
        "written_text": show(text.as_bytes())});
    let hash = fnv(format!("{:?}", want).as_bytes());
    let verdict = match written {
        Err(p) => Verdict::Fail { class: p.signature(), what: format!("write_cmap panicked: {}", p.describe()) },
        Ok(_) => judge_text(text.as_bytes(), &want, idx, &mut feats),
    };
    Eval { verdict, labels, hash, nontrivial: !want.is_empty(), feats, witness }
}

// ---------------------------------------------------------------------------------------------
// (d) conformant CMap texts
// ---------------------------------------------------------------------------------------------

#[derive(Clone, Debug)]
enum Item {
    Char { code: u32, w: usize, dst: String },
    RangeStr { lo: u32, hi: u32, w: usize, dst: Vec<u8> },
    RangeArr { lo: u32, hi: u32, w: usize, dsts: Vec<String> },
}
impl Item { fn is_char(&self) -> bool { matches!(self, Item::Char { .. }) } }

/// Formatting of a CMap text. The places where an optional formatting feature is applied are NOT
/// tape draws but a hash of (seed, running counter): density 0 = everywhere, so that shrinking the
/// entries never makes an enabled feature disappear from the text.
struct Fmt { eol: &'static str, lower: bool, inner_ws: bool, sep: &'static str, comments: u8, share_line: bool, tight: bool,
    seed: u32, density: u32, ctr: std::cell::Cell<u32> }
impl Fmt {
    fn h(&self) -> u64 { let c = self.ctr.get(); self.ctr.set(c + 1); fnv(&[self.seed.to_le_bytes(), c.to_le_bytes()].concat()) >> 7 }
    /// true everywhere when density is 0, otherwise with probability 1/den at pseudo-random places
    fn coin(&self, den: u64) -> bool { let h = self.h(); self.density == 0 || h % den == 0 }
    fn index(&self, n: usize) -> usize { (self.h() % n as u64) as usize }
}

fn hexstr(f: &Fmt, b: &[u8]) -> String {
    let mut s = String::from("<");
    for (i, x) in b.iter().enumerate() {
        if f.inner_ws && i > 0 && f.coin(3) { s.push(' '); }
        if f.lower { s.push_str(&format!("{:02x}", x)); } else { s.push_str(&format!("{:02X}", x)); }
    }
    s.push('>');
    s
}
fn code_bytes(code: u32, w: usize) -> Vec<u8> { if w == 1 { vec![code as u8] } else { vec![(code >> 8) as u8, code as u8] } }

const COMMENTS: [&str; 4] = ["% generated", "%", "%% glyph names follow", "% 100 entries"];
const KEYWORD_COMMENTS: [&str; 4] = ["% beginbfchar", "% 1 beginbfrange <0000> <0001> <0041>", "% endcmap", "% endbfchar endbfrange"];

fn case_d(src: &mut Gen, idx: u64) -> Eval {
    // formatting choices first (fixed shape), so that shrinking the entries does not shift them on the tape
    let f = Fmt {
        eol: ["\n", "\r\n", "\r"][src.alt(6, &["eol-lf", "eol-crlf", "eol-cr"])],
        lower: src.alt(4, &["", "hex-lowercase"]) == 1,
        inner_ws: src.alt(8, &["", "hex-inner-whitespace"]) == 1,
        sep: [" ", "\t", "\x0c", "  "][src.alt(8, &["", "tab-separator", "formfeed-separator", "double-space"])],
        comments: src.alt(5, &["", "comments", "comments-with-keywords"]) as u8,
        share_line: src.alt(8, &["", "entries-share-a-line"]) == 1,
        tight: src.alt(8, &["", "no-space-between-strings"]) == 1,
        seed: src.draw(1 << 16), density: src.draw(2), ctr: std::cell::Cell::new(0),
    };
    let mode = src.alt(3, &["two-byte-codes", "one-byte-codes", "mixed-width-codes"]);
    // zones of the code space: (lo, hi, width in bytes)
    let zones: Vec<(u32, u32, usize)> = match mode { 0 => vec![(0, 0xFFFF, 2)], 1 => vec![(0, 0xFF, 1)], _ => vec![(0, 0x7F, 1), (0x8000, 0xFFFF, 2)] };
    let n_raw = src.draw(100);
    let shuffle = src.alt_silent(1, &["ascending-entries", "shuffled-entries"]) == 1;
    let mut keys: Vec<u32> = Vec::new();
    pad(src, 16); // header = 16 draws, then one record of 16 draws per item
    let n_items = match n_raw { 0..=49 => 1 + n_raw / 9, 50..=79 => 7 + (n_raw - 50) * 2, _ => 70 + (n_raw - 80) * 17 };
    let mut items: Vec<Item> = Vec::new();
    let mut want: BTreeMap<u16, String> = BTreeMap::new();
    let mut cursors: Vec<u32> = zones.iter().map(|z| z.0).collect();
    for _ in 0..n_items {
        let z = src.draw(2) as usize % zones.len();
        let gap_kind = src.pick_w(3, 2);
        let gap_val = src.draw(20000);
        let kind = src.alt_silent(1, &["bfchar", "bfrange-string-form", "bfrange-array-form"]);
        let crossing = src.alt_silent(6, &["", "range-crosses-first-byte"]) == 1;
        let len_kind = src.pick_w(3, 1);
        let len_val = src.draw(256);
        let (tseed, multi, supp) = text_switches(src);
        let okey = src.draw(1000); // position of the entry in the text = rank of this key (ties: ascending codes)
        pad(src, 16);
        let (_, zhi, w) = zones[z];
        let gap = match gap_kind { 0 => gap_val % 3, 1 => gap_val % 200, _ => gap_val % if w == 1 { 60 } else { 20000 } };
        let start = cursors[z] + gap;
        if start > zhi { continue; }
        keys.push(okey);
        if kind == 0 {
            let dst = hash_text(tseed, 0, multi, supp);
            want.insert(start as u16, dst.clone());
            items.push(Item::Char { code: start, w, dst });
            cursors[z] = start + 1;
            continue;
        }
        // §9.10.3 examples and TN 5014 keep a range inside one value of the first byte; ranges that cross are a labelled extra
        let crossing = w == 2 && crossing;
        let room_byte = if w == 2 && !crossing { 0x100 - (start & 0xFF) } else { zhi - start + 1 };
        let mut maxlen = room_byte.min(zhi - start + 1);
        if kind == 1 {
            let dst = utf16be_bytes(&hash_text(tseed, 0, multi, supp));
            maxlen = maxlen.min(256 - *dst.last().unwrap() as u32);
            let len = (1 + match len_kind { 0 => len_val % 8, _ => len_val }).min(maxlen).max(1);
            for k in 0..len {
                let mut d = dst.clone();
                *d.last_mut().unwrap() += k as u8;
                match reference::utf16be(&d) { Ok(s) => { want.insert((start + k) as u16, s); } Err(e) => {
                    return Eval { verdict: Verdict::Inconclusive(format!("generator produced an invalid range destination: {}", e)), labels: label_str(src), hash: 0, nontrivial: false, feats: vec![], witness: json!(null) } } }
            }
            items.push(Item::RangeStr { lo: start, hi: start + len - 1, w, dst });
            cursors[z] = start + len;
        } else {
            let len = (1 + match len_kind { 0 => len_val % 5, _ => len_val % 60 }).min(maxlen).max(1);
            let dsts: Vec<String> = (0..len).map(|k| hash_text(tseed, k, multi, supp)).collect();
            for (k, d) in dsts.iter().enumerate() { want.insert((start + k as u32) as u16, d.clone()); }
            items.push(Item::RangeArr { lo: start, hi: start + len - 1, w, dsts });
            cursors[z] = start + len;
        }
    }
    // labels describe the case as generated
    if items.iter().any(|i| matches!(i, Item::RangeStr { .. })) { src.label("bfrange-string-form"); }
    if items.iter().any(|i| matches!(i, Item::RangeArr { .. })) { src.label("bfrange-array-form"); }
    if items.iter().any(|i| match i { Item::RangeStr { lo, hi, .. } | Item::RangeArr { lo, hi, .. } => lo >> 8 != hi >> 8, _ => false }) { src.label("range-crosses-first-byte"); }
    text_labels(src, &want);
    // order of the entries and of the sections: any (draws 0 = ascending codes)
    if shuffle && items.len() > 1 {
        let mut ix: Vec<usize> = (0..items.len()).collect();
        ix.sort_by_key(|i| keys[*i]);
        items = ix.into_iter().map(|i| items[i].clone()).collect();
        let first = |i: &Item| match i { Item::Char { code, .. } => *code, Item::RangeStr { lo, .. } | Item::RangeArr { lo, .. } => *lo };
        if items.windows(2).any(|p| first(&p[0]) > first(&p[1])) { src.label("shuffled-entries"); }
    }
    // blocks: maximal runs of the same kind, cut at 100 entries and at random places
    let mut blocks: Vec<Vec<Item>> = Vec::new();
    for it in items.iter() {
        let cut = match blocks.last() { None => true, Some(b) => b[0].is_char() != it.is_char() || b.len() >= 100 || (f.density > 0 && f.coin(12)) };
        if cut { blocks.push(vec![it.clone()]); } else { blocks.last_mut().unwrap().push(it.clone()); }
    }
    let e = f.eol;
    let mut t = String::new();
    let comment = |t: &mut String, f: &Fmt, at_line_start: bool| {
        if f.comments == 0 || !f.coin(4) { return; }
        let c = if f.comments == 2 && f.coin(2) { KEYWORD_COMMENTS[f.index(4)] } else { COMMENTS[f.index(4)] };
        if !at_line_start { t.push(' '); }
        t.push_str(c); t.push_str(f.eol);
    };
    t.push_str(&format!("/CIDInit /ProcSet findresource begin{e}12 dict begin{e}begincmap{e}"));
    comment(&mut t, &f, true);
    t.push_str(&format!("/CIDSystemInfo{e}<< /Registry (Adobe){e}/Ordering (UCS){e}/Supplement 0{e}>> def{e}/CMapName /Adobe-Identity-UCS def{e}/CMapType 2 def{e}"));
    t.push_str(&format!("{} begincodespacerange{e}", zones.len()));
    for (lo, hi, w) in &zones { let a = hexstr(&f, &code_bytes(*lo, *w)); let b = hexstr(&f, &code_bytes(*hi, *w)); t.push_str(&format!("{}{}{}{e}", a, f.sep, b)); }
    t.push_str(&format!("endcodespacerange{e}"));
    let mut feats: Vec<String> = Vec::new();
    for b in &blocks {
        comment(&mut t, &f, true);
        t.push_str(&format!("{}{}{}{e}", b.len(), f.sep, if b[0].is_char() { "beginbfchar" } else { "beginbfrange" }));
        for (k, it) in b.iter().enumerate() {
            let sep = if f.tight { "" } else { f.sep };
            match it {
                Item::Char { code, w, dst } => {
                    let a = hexstr(&f, &code_bytes(*code, *w)); let d = hexstr(&f, &utf16be_bytes(dst));
                    t.push_str(&format!("{}{}{}", a, sep, d)); feats.push("entries:bfchar".into());
                }
                Item::RangeStr { lo, hi, w, dst } => {
                    let a = hexstr(&f, &code_bytes(*lo, *w)); let h = hexstr(&f, &code_bytes(*hi, *w)); let d = hexstr(&f, dst);
                    t.push_str(&format!("{}{}{}{}{}", a, sep, h, sep, d)); feats.push("entries:bfrange-string".into());
                }
                Item::RangeArr { lo, hi, w, dsts } => {
                    let a = hexstr(&f, &code_bytes(*lo, *w)); let h = hexstr(&f, &code_bytes(*hi, *w));
                    t.push_str(&format!("{}{}{}{}[", a, sep, h, sep));
                    for (i, d) in dsts.iter().enumerate() { if i > 0 { t.push_str(sep); } let d = hexstr(&f, &utf16be_bytes(d)); t.push_str(&d); }
                    t.push(']'); feats.push("entries:bfrange-array".into());
                }
            }
            if f.share_line && k + 1 < b.len() && f.coin(2) { t.push_str(if f.sep == "\x0c" { " " } else { f.sep }); }
            else if f.comments > 0 && f.coin(6) { comment(&mut t, &f, false); if !t.ends_with(e) { t.push_str(e); } }
            else { t.push_str(e); }
        }
        t.push_str(&format!("{}{e}", if b[0].is_char() { "endbfchar" } else { "endbfrange" }));
    }
    comment(&mut t, &f, true);
    t.push_str(&format!("endcmap{e}CMapName currentdict /CMap defineresource pop{e}end{e}end{e}"));
    // labels of formatting features that did not materialise are dropped
    if !t.contains('%') { src.s.labels.retain(|l| *l != "comments" && *l != "comments-with-keywords"); }
    else if !KEYWORD_COMMENTS.iter().any(|k| t.contains(k)) { for l in src.s.labels.iter_mut() { if *l == "comments-with-keywords" { *l = "comments"; } } }

    let labels = label_str(src);
    let witness = json!({"cmap_text": show(t.as_bytes()), "entries": want.len(), "blocks": blocks.len()});
    let hash = fnv(t.as_bytes());
    let mk = |verdict: Verdict, feats: Vec<String>| Eval { verdict, labels: labels.clone(), hash, nontrivial: !want.is_empty(), feats, witness: witness.clone() };
    // conformance + meaning according to the independent reader must equal the generator's bookkeeping
    match reference::parse_tounicode(t.as_bytes()) {
        Err(e) => return mk(Verdict::Inconclusive(format!("generated CMap rejected by the reference reader: {}", e)), feats),
        Ok(info) => if info.map != want { return mk(Verdict::Inconclusive("generator bookkeeping and reference reader disagree".into()), feats); }
    }
    feats.push(format!("codes:{}", ["two-byte", "one-byte", "mixed"][mode]));
    let verdict = judge_text(t.as_bytes(), &want, idx, &mut feats);
    mk(verdict, feats)
}
// ---------------------------------------------------------------------------------------------
// self-test of the monitor's own machinery (hand-verified examples, doctored answers must fire)
// ---------------------------------------------------------------------------------------------

fn selftest() -> Result<(), String> {
    // /W [1 [500 600] 10 12 250 5 [0.5]]
    let w = arr(vec![Obj::Int(1), arr(vec![Obj::Int(500), Obj::Int(600)]), Obj::Int(10), Obj::Int(12), Obj::Int(250), Obj::Int(5), arr(vec![Obj::Real(0.5)])]);
    let m = reference::interpret_w(&w, &|_| None)?;
    let want: [(usize, Option<f64>); 9] = [(0, None), (1, Some(500.)), (2, Some(600.)), (3, None), (5, Some(0.5)), (9, None), (10, Some(250.)), (12, Some(250.)), (13, None)];
    for (c, v) in want { if m[c] != v { return Err(format!("reference /W interpreter wrong at code {}", c)); } }
    if reference::interpret_w(&arr(vec![Obj::Int(1), arr(vec![Obj::Int(5)]), Obj::Int(0), Obj::Int(3), Obj::Int(7)]), &|_| None).is_ok() { return Err("overlap not rejected".into()); }
    if reference::interpret_w(&arr(vec![Obj::Int(1), arr(vec![])]), &|_| None).is_ok() { return Err("empty group not rejected".into()); }
    // judge_widths must accept the right table and flag doctored ones
    let model: Vec<f32> = (0..65536).map(|c| m[c].map(|v| v as f32).unwrap_or(1000.)).collect();
    let assigned: Vec<bool> = m.iter().map(|v| v.is_some()).collect();
    let extra = vec![1000f32; EXTRA_CODES.len()];
    if judge_widths(&Got::Table(model.clone(), extra.clone()), &model, &assigned, 1000., "t") != Ok(None) { return Err("judge_widths rejects the right table".into()); }
    let mut shifted = model.clone(); shifted.rotate_right(1);
    if !matches!(judge_widths(&Got::Table(shifted, extra.clone()), &model, &assigned, 1000., "t"), Ok(Some((ref c, _))) if c == "wrong-width-for-assigned-code") { return Err("judge_widths misses a shifted table".into()); }
    let mut nodef = model.clone(); for c in 0..65536 { if !assigned[c] { nodef[c] = 0.0; } }
    if !matches!(judge_widths(&Got::Table(nodef, extra.clone()), &model, &assigned, 1000., "t"), Ok(Some((ref c, _))) if c == "wrong-width-for-unassigned-code") { return Err("judge_widths misses a wrong default".into()); }
    let mut bad_extra = extra.clone(); bad_extra[5] = 0.0;
    if judge_widths(&Got::Table(model.clone(), bad_extra), &model, &assigned, 1000., "t") == Ok(None) { return Err("judge_widths misses a wrong far code".into()); }
    // CMap reader on the example of PDF 32000-1 §9.10.3
    let txt = b"/CIDInit /ProcSet findresource begin\n12 dict begin\nbegincmap\n/CIDSystemInfo\n<< /Registry (Adobe)\n/Ordering (UCS)\n/Supplement 0\n>> def\n/CMapName /Adobe-Identity-UCS def\n/CMapType 2 def\n1 begincodespacerange\n<0000> <FFFF>\nendcodespacerange\n2 beginbfrange\n<0000> <005E> <0020>\n<005F> <0061> [<00660066> <00660069> <00660066006C>]\nendbfrange\n1 beginbfchar\n<3A51> <D840DC3E>\nendbfchar\nendcmap\nCMapName currentdict /CMap defineresource pop\nend\nend\n";
    let info = reference::parse_tounicode(txt)?;
    let mut hand: BTreeMap<u16, String> = (0u16..=0x5E).map(|c| (c, char::from_u32(0x20 + c as u32).unwrap().to_string())).collect();
    hand.insert(0x5F, "ff".into()); hand.insert(0x60, "fi".into()); hand.insert(0x61, "ffl".into()); hand.insert(0x3A51, "\u{2003E}".into());
    if info.map != hand { return Err("reference CMap reader wrong on the specification's example".into()); }
    if reference::parse_tounicode(&String::from_utf8_lossy(txt).replace("<005E> <0020>", "<005E> <00F0>").into_bytes()).is_ok() { return Err("overflowing range not rejected".into()); }
    if reference::parse_tounicode(&String::from_utf8_lossy(txt).replace("2 beginbfrange", "3 beginbfrange").into_bytes()).is_ok() { return Err("wrong count not rejected".into()); }
    // judge_map
    if judge_map(&Read::Map(hand.clone()), &hand, "t") != Ok(None) { return Err("judge_map rejects the right map".into()); }
    let mut d = hand.clone(); d.remove(&0x60);
    if !matches!(judge_map(&Read::Map(d), &hand, "t"), Ok(Some((ref c, _))) if c == "missing-entries") { return Err("judge_map misses a missing entry".into()); }
    let mut d = hand.clone(); d.insert(0x60, "if".into());
    if !matches!(judge_map(&Read::Map(d), &hand, "t"), Ok(Some((ref c, _))) if c == "wrong-text") { return Err("judge_map misses a wrong text".into()); }
    let mut d = hand.clone(); d.insert(0x7000, "x".into());
    if !matches!(judge_map(&Read::Map(d), &hand, "t"), Ok(Some((ref c, _))) if c == "extra-entries") { return Err("judge_map misses an extra entry".into()); }
    Ok(())
}

pub fn run(run: &Run) {
    run.rule("tape-generated cases, 4 parts. (a) CID fonts: /W = random permutation of disjoint non-empty groups (list form c [w…] and range form c1 c2 w, codes 0..65535, group sizes 1..65536, integer and real widths 0..3000), /DW given or absent, /W and list sub-arrays direct or indirect, CIDFontType0/2, queried through the Type0 font of a generated document read by the real reader (all four configurations) and through fonts built from public struct fields; oracle: Widths::get(c) for EVERY c in 0..=65535 plus 65536, 65537, 70000, 2^20, u32::MAX, usize::MAX equals array value / default. (b) simple fonts Type1/TrueType: FirstChar 0..255, Widths length 0..300, LastChar consistent, optional FontDescriptor with/without MissingWidth; oracle for every code 0..=1023 + far codes: table entry inside, MissingWidth (default 0) outside. (c) maps u16→non-empty Unicode strings (BMP, supplementary planes, multi-character; isolated codes and runs of consecutive codes, every third run with texts that count up character by character from any base) → write_cmap → Font::to_unicode (Stream::new and via a document stream, plain or Flate); oracle: same map. (d) conformant ToUnicode CMap texts (codespacerange, counted bfchar/bfrange blocks ≤100, string-form ranges without last-byte overflow, array-form ranges, 1-/2-byte/mixed codes, surrogate pairs, multi-char targets, comments, any entry/section order, EOL LF/CRLF/CR, hex case/inner white space); oracle: map per specification (independent strict reader, must agree with the generator's bookkeeping). distinct_nontrivial = distinct non-empty cases per part (hash of the case content). Widths inside a list group and texts inside an entry are a hash of one seed draw. Failing cases are minimised on the real code (label knock-out + tape shrinking); signature = part | labels of the minimised case | outcome class.");
    run.assume("reference /W interpreter and CMap reader in harness/src/refimpl/c19_ref.rs implement PDF 32000-1 §9.7.4.3 / §9.10.3 (self-tested on hand-verified examples at start-up)");
    run.assume("real widths are compared with a tolerance of 4e-7 relative (decimal text → f32)");
    run.assume("Font::widths returning Ok(None) for a Type1/TrueType font that has FirstChar and Widths counts as a failure; MMType1/Type3 are outside the generated domain");
    if let Err(e) = selftest() { run.inconclusive(format!("C19 self-test failed: {}", e)); return; }
    run.count("selftest:passed");
    let n_fonts = run.n(3000, 300_000);
    let n_maps = run.n(3000, 300_000);
    drive(run, "a", 1, n_fonts * 2 / 3, &case_a);
    drive(run, "b", 2, n_fonts - n_fonts * 2 / 3, &case_b);
    drive(run, "c", 3, n_maps / 2, &case_c);
    drive(run, "d", 4, n_maps - n_maps / 2, &case_d);
    // thorough: the same quick workload once more under the AddressSanitizer build (memory errors in the library or its dependencies)
    if !run.quick() { crate::lanes::asan_rerun(run); }
}
