//! C19 — not built yet.
use crate::run::Run;
pub fn run(_run: &Run) { eprintln!("C19: check not built yet"); std::process::exit(2); }
