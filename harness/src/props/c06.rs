//! C06 — encrypted documents yield their plaintext with either password, and only then.
//!
//! Generator: tape-driven documents written by `mkpdf` and encrypted by the reference security handler
//! (`refimpl::c06_sec`, validated at start-up against the ten third-party fixtures in /repo/files).
//! Every generated document is read back with the reference reader/decryptor before the library sees it.
//! Oracle: open with user / owner password in the four configurations; every string reached through
//! `resolve` and every stream's `raw_data` / `Stream::data` equals the plaintext; passwords the reference
//! rejects must be rejected with root cause `InvalidPassword`; the /Encrypt object's own strings and the
//! metadata stream (EncryptMetadata false) come back byte-identical.
use crate::doc::{root_kind, Cfg, CFGS};
use crate::mkpdf::*;
use crate::panicmon::guard;
use crate::par::par_for;
use crate::refimpl::c06_read as rd;
use crate::refimpl::c06_sec as sec;
use crate::refimpl::c06_sec::{Cfm, EncDict};
use crate::rng::{fnv, Rng};
use crate::run::{hex, show, Run};
use crate::tape::Src;
use crate::with_file;
use pdf::object::{PlainRef, Resolve, Stream};
use pdf::primitive::Primitive;
use serde_json::{json, Value};
use std::collections::BTreeMap;
use std::sync::Mutex;

// ------------------------------------------------------------------------------------------ handlers

#[derive(Clone, Copy, PartialEq, Eq, Debug)]
enum H { R2, R3, R4V2, R4Aes, R5, R6 }
const HS: [H; 6] = [H::R2, H::R3, H::R4V2, H::R4Aes, H::R5, H::R6];
impl H {
    fn r(self) -> u32 { match self { H::R2 => 2, H::R3 => 3, H::R4V2 | H::R4Aes => 4, H::R5 => 5, H::R6 => 6 } }
    fn cfm(self) -> Cfm { match self { H::R2 | H::R3 | H::R4V2 => Cfm::Rc4, H::R4Aes => Cfm::AesV2, H::R5 | H::R6 => Cfm::AesV3 } }
    fn name(self, key_bytes: usize) -> String {
        let fam = match self { H::R2 => "R2-RC4", H::R3 => "R3-RC4", H::R4V2 => "R4-V2", H::R4Aes => "R4-AESV2", H::R5 => "R5-AESV3", H::R6 => "R6-AESV3" };
        format!("{}-{}", fam, key_bytes * 8)
    }
    fn var_keylen(self) -> bool { matches!(self, H::R3 | H::R4V2) }
}

const KEY_LABELS: [&str; 12] = ["key-128", "key-40", "key-48", "key-56", "key-64", "key-72", "key-80", "key-88", "key-96", "key-104", "key-112", "key-120"];
const LEN_OPTS: [&str; 10] = ["len-short", "len0", "len1", "len15", "len16", "len17", "len31", "len32", "len33", "len-big"];
const NONASCII: [&str; 6] = ["\u{e9}", "\u{df}", "\u{436}", "\u{4e2d}", "\u{20ac}", "\u{fc}"]; // NFKC-stable, assigned in Unicode 3.2, not RandAL

// ------------------------------------------------------------------------------------------ case description

#[derive(Clone, Debug)]
struct Item {
    nr: u32,
    gen: u16,
    /// plaintext object; for streams the data is the *encoded* (filtered) data, i.e. what gets encrypted
    obj: Obj,
    /// for streams: the data after the filters
    decoded: Option<Vec<u8>>,
    in_objstm: bool,
    /// (is_stream, plaintext length) of every encrypted payload in this item, for the evidence counters
    lens: Vec<(bool, usize)>,
}

#[derive(Clone, Debug)]
struct Case {
    h: H, key_bytes: usize, v: u32,
    upw: Vec<u8>, opw: Vec<u8>, p: i32, id0: Vec<u8>, id1: Vec<u8>,
    encrypt_direct: bool, encmeta: bool, encmeta_explicit: bool,
    stm_identity: bool, str_identity: bool, cf_len: bool, enc_len: bool, cf_type: bool,
    near_miss: bool, xref_stream: bool,
    contents_nr: Option<u32>, info_nr: Option<u32>, meta_nr: Option<u32>, enc_nr: Option<u32>, objstm_nr: Option<u32>, xref_nr: Option<u32>,
    info_title: Vec<u8>, xmp: Vec<u8>, contents_decoded: Vec<u8>,
    items: Vec<Item>, seed32: u32, size: u32,
    labels: String,
}

fn alt_if(src: &mut Src, applicable: bool, w0: u32, opts: &[&'static str]) -> usize {
    let keep = src.labels.len();
    let i = src.alt(w0, opts);
    if applicable { i } else { src.labels.truncate(keep); 0 }
}

/// always two draws (positional tape: zeroing one entry never shifts the meaning of the others)
fn draw_len(src: &mut Src) -> usize {
    let a = src.alt(3, &LEN_OPTS);
    let v = src.draw(4064);
    match a {
        0 => 24, 1 => 0, 2 => 1, 3 => 15, 4 => 16, 5 => 17, 6 => 31, 7 => 32, 8 => 33,
        _ => if v % 64 == 0 { 4096 } else { 33 + v as usize },
    }
}
fn len_class(n: usize) -> &'static str {
    match n { 0 => "len0", 1 => "len1", 2..=14 => "len2-14", 15 => "len15", 16 => "len16", 17 => "len17", 18..=30 => "len18-30", 31 => "len31", 32 => "len32", 33 => "len33", 34..=4095 => "len34-4095", _ => "len>=4096" }
}

/// unique, recognisable plaintext of exactly `len` bytes (as far as `len` allows)
fn payload(seed32: u32, nr: u32, gen: u16, counter: &mut u32, len: usize, compressible: bool) -> Vec<u8> {
    *counter += 1;
    let mut v = format!("o{}g{}c{}:", nr, gen, *counter).into_bytes();
    let mut r = Rng::derive(seed32 as u64, nr as u64, *counter as u64);
    while v.len() < len {
        if compressible { v.extend_from_slice(b"pdf-verif "); } else { v.push(r.next_u64() as u8); }
    }
    v.truncate(len);
    v
}

/// always 40 draws; the first `chars` are used
fn draw_pw(src: &mut Src, chars: usize, utf8_ok: bool) -> Vec<u8> {
    let mut out = Vec::new();
    let mut non_ascii = false;
    for k in 0..40 {
        let v = src.draw(95 + 6);
        if k >= chars { continue; }
        if v < 95 { out.push(0x20 + v as u8); }
        else if utf8_ok { out.extend_from_slice(NONASCII[(v - 95) as usize].as_bytes()); non_ascii = true; }
        else { out.push(0x20 + (v % 95) as u8); }
    }
    if non_ascii { src.label("pw-nonascii"); }
    out
}

/// All draws happen in the same order for every handler, so one tape can be replayed under another handler.
fn gen_case(src: &mut Src, force_h: usize, huge_ok: bool) -> Case {
    let h = HS[force_h % 6];
    let seed32 = src.u32full();
    let r = h.r();
    let utf8_ok = r >= 5;
    // key length
    let ki = alt_if(src, h.var_keylen(), 3, &KEY_LABELS);
    let key_bytes = match h { H::R2 => 5, H::R3 | H::R4V2 => if ki == 0 { 16 } else { 4 + ki }, H::R4Aes => 16, H::R5 | H::R6 => 32 };
    let r3v1 = alt_if(src, h == H::R3 && key_bytes == 5, 3, &["v2", "r3-v1"]) == 1;
    let v = match h { H::R2 => 1, H::R3 => if r3v1 { 1 } else { 2 }, H::R4V2 | H::R4Aes => 4, H::R5 | H::R6 => 5 };
    // passwords (lengths in characters)
    let (ua, us, ul) = (src.alt(2, &["upw-empty", "upw-short", "upw-32", "upw-long"]), src.draw(31) as usize, src.draw(8) as usize);
    let upw = draw_pw(src, match ua { 0 => 0, 1 => 1 + us, 2 => 32, _ => 33 + ul }, utf8_ok);
    let (oc, os, ol) = (src.alt(3, &["opw-short", "opw-empty", "opw-32", "opw-long", "opw-eq-user"]), src.draw(31) as usize, src.draw(8) as usize);
    let opw_drawn = draw_pw(src, match oc { 0 => 1 + os, 1 => 0, 2 => 32, 3 => 33 + ol, _ => 0 }, utf8_ok);
    let opw = if oc == 4 { upw.clone() } else { opw_drawn };
    // permissions: reserved bits as the specification demands (1-2 zero, 7-8 one, 13-32 one; R2 keeps 9-12 one)
    let (pa, a, b) = (src.alt(2, &["p-all", "p-random"]), src.draw(16), src.draw(16));
    let p: i32 = if pa == 0 { -4 } else {
        let mut p = 0xFFFF_F0C0u32 | (a << 2);
        p |= if r == 2 { 0xF00 } else { b << 8 };
        p as i32
    };
    let (ia, is, il) = (src.alt(3, &["id16", "id-short", "id-long"]), src.draw(15) as usize, src.draw(16) as usize);
    let idn = match ia { 0 => 16, 1 => 1 + is, _ => 17 + il };
    let mut ir = Rng::derive(seed32 as u64, 0x1d, 0);
    let id0 = ir.bytes(idn);
    let id1 = ir.bytes(idn);
    let encrypt_direct = src.alt(3, &["encrypt-indirect", "encrypt-direct"]) == 1;
    let xref_stream = src.alt(3, &["xref-table", "xref-stream"]) == 1;
    let objstm = alt_if(src, xref_stream, 2, &["no-objstm", "objstm"]) == 1;
    let em = alt_if(src, r >= 4, 2, &["encmeta-default", "encmeta-true-explicit", "encmeta-false"]);
    let metadata = src.alt(1, &["no-metadata", "metadata"]) == 1;
    let info = src.alt(2, &["no-info", "info-dict"]) == 1;
    let contents = src.alt(2, &["no-contents", "page-contents"]) == 1;
    // Domain note: /StmF /Identity is rejected by the library at load ("missing crypt filter entry"), i.e. it is not a
    // variant the library accepts, so it is outside the statement and not generated; /StrF /Identity loads and is kept.
    let cfk = alt_if(src, r >= 4, 8, &["cf-std", "stmf-identity", "strf-identity"]);
    let lk = alt_if(src, r >= 4, 6, &["len-both", "cf-length-omitted", "enc-length-omitted"]);
    let l40 = alt_if(src, r <= 3 && key_bytes == 5, 1, &["length-40", "length-omitted"]) == 1;
    let cf_type = alt_if(src, r >= 4, 1, &["cf-plain", "cf-with-type"]) == 1;
    let near_miss = src.alt(11, &["normal", "u-near-miss"]) == 1;
    let enc_len = if r >= 4 { lk != 2 } else { !l40 };
    let cf_len = lk != 1;

    // object numbers
    let mut next = 4u32;
    let mut take = |c: bool| -> Option<u32> { if c { next += 1; Some(next - 1) } else { None } };
    let contents_nr = take(contents);
    let info_nr = take(info);
    let meta_nr = take(metadata);
    let enc_nr = take(!encrypt_direct);
    let mut used: Vec<u32> = (0..next).collect();
    let mut counter = 0u32;
    // item 0 is always a string object, item 1 always a stream object, then 0..4 further objects of any kind;
    // every item consumes the same number of draws
    let n_items = 2 + src.draw(5) as usize;
    let mut items = Vec::new();
    for k in 0..n_items {
        let kind = match k {
            0 => src.alt(2, &["bare-string", "str-in-dict", "str-in-array", "str-nested"]),
            1 => 4 + src.alt(2, &["plain-stream", "stream-flate", "str-in-stream-dict"]),
            _ => src.alt(2, &["bare-string", "str-in-dict", "str-in-array", "str-nested", "extra-stream", "stream-flate", "str-in-stream-dict"]),
        };
        // Domain note: object numbers stay below backend::MAX_ID (1,000,000), the library's deliberate resource limit.
        let nrk = src.alt(4, &["nr-next", "objnr-3byte"]);
        let nrv = src.draw(200_000);
        let is_stream = kind >= 4;
        let in_os = alt_if(src, objstm && !is_stream, 1, &["direct-obj", "in-objstm"]) == 1;
        let genk = alt_if(src, !in_os, 4, &["gen0", "gen-nonzero"]);
        let genv = src.draw(65534);
        let mut nr = match nrk { 0 => next, 1 => 65_536 + nrv, _ => if huge_ok { 8_388_607 - (nrv % 1000) } else { 65_536 + nrv } };
        while used.contains(&nr) { nr += 1; }
        if nrk == 0 { next = nr + 1; }
        used.push(nr);
        let gen = if genk == 1 { 1 + genv as u16 } else { 0 };
        // three length draws per item; only as many as the kind needs keep their labels
        let need = match kind { 0 | 4 | 5 => 1, 1 | 3 | 6 => 2, _ => 3 };
        let mut ls = [0usize; 3];
        for (j, l) in ls.iter_mut().enumerate() {
            let keep = src.labels.len();
            *l = draw_len(src);
            if j >= need { src.labels.truncate(keep); }
        }
        let mut lens: Vec<(bool, usize)> = Vec::new();
        let mut li = 0usize;
        let mut s = |lens: &mut Vec<(bool, usize)>, counter: &mut u32| -> Obj {
            let l = ls[li]; li += 1;
            lens.push((false, l));
            Obj::Str(payload(seed32, nr, gen, counter, l, false))
        };
        let (obj, decoded) = match kind {
            0 => (s(&mut lens, &mut counter), None),
            1 => (dict(vec![("A", s(&mut lens, &mut counter)), ("B", Obj::Int(nr as i64)), ("C", s(&mut lens, &mut counter))]), None),
            2 => (arr(vec![s(&mut lens, &mut counter), Obj::Int(7), s(&mut lens, &mut counter), arr(vec![s(&mut lens, &mut counter)])]), None),
            3 => (dict(vec![("K", arr(vec![dict(vec![("S", s(&mut lens, &mut counter))]), s(&mut lens, &mut counter)])), ("N", name("Nested"))]), None),
            _ => {
                let mut d: Vec<(&str, Obj)> = vec![("Kind", name("VerifStream"))];
                if kind == 6 { d.push(("Desc", s(&mut lens, &mut counter))); }
                let l = ls[if kind == 6 { 1 } else { 0 }];
                let dec = payload(seed32, nr, gen, &mut counter, l, kind == 5);
                let data = if kind == 5 { d.push(("Filter", name("FlateDecode"))); miniz_oxide::deflate::compress_to_vec_zlib(&dec, 6) } else { dec.clone() };
                lens.push((true, data.len()));
                (stream(d, &data), Some(dec))
            }
        };
        items.push(Item { nr, gen, obj, decoded, in_objstm: in_os, lens });
    }
    let any_os = items.iter().any(|i| i.in_objstm);
    let mut top = used.iter().cloned().max().unwrap_or(3) + 1;
    let objstm_nr = if any_os { top += 1; Some(top - 1) } else { None };
    let xref_nr = if xref_stream { top += 1; Some(top - 1) } else { None };
    let info_title = payload(seed32, info_nr.unwrap_or(0), 0, &mut counter, 24, false).iter().map(|b| 0x20 + b % 95).collect();
    let mut xmp = b"<?xpacket begin=\"\" id=\"W5M0MpCehiHzreSzNTczkc9d\"?><x:xmpmeta xmlns:x=\"adobe:ns:meta/\"><!-- ".to_vec();
    xmp.extend(payload(seed32, meta_nr.unwrap_or(0), 0, &mut counter, 20, true));
    xmp.extend_from_slice(b" --></x:xmpmeta><?xpacket end=\"w\"?>");
    let mut contents_decoded = b"BT /F1 12 Tf 72 700 Td (".to_vec();
    contents_decoded.extend(payload(seed32, contents_nr.unwrap_or(0), 0, &mut counter, 20, true));
    contents_decoded.extend_from_slice(b") Tj ET\n");
    // R5/R6 passwords are UTF-8 cut to 127 bytes (7.6.4.3.3): boundary lengths, the part beyond 127 must not matter
    let long = alt_if(src, r >= 5, 10, &["pw-short", "pw-127-bytes", "pw-128-bytes", "pw-200-bytes", "pw-2-byte-char-across-byte-127", "pw-3-byte-char-across-byte-127", "pw-4-byte-char-across-byte-127"]);
    // UTF-8 passwords in which the cut after 127 bytes falls inside a character: the cut is by bytes (7.6.4.3.3 step b)
    let across = |pw: Vec<u8>, ch: &str, salt: u8| -> Vec<u8> {
        // at most 40 bytes of the base password, cut between two characters
        let mut cut = pw.len().min(40);
        while cut > 0 && cut < pw.len() && (pw[cut] & 0xC0) == 0x80 { cut -= 1; }
        let mut v: Vec<u8> = pw[..cut].to_vec();
        let w = ch.len();
        // the character that contains byte 127 (index 126 is the last byte kept) starts at 127 - j for some 1 <= j < w
        let j = 1 + (salt as usize) % (w - 1);
        while (127 - j - v.len()) % w != 0 { v.push(b'a' + salt % 26); }
        while v.len() < 140 { v.extend_from_slice(ch.as_bytes()); }
        v
    };
    let stretch = |pw: Vec<u8>, n: usize, salt: u8| -> Vec<u8> { let mut v = pw; let mut k = 0u8; while v.len() < n { v.push(b'a' + (k.wrapping_mul(7).wrapping_add(salt)) % 26); k = k.wrapping_add(1); } v };
    let same_pw = opw == upw;
    let (upw, opw) = match long { 1 => (stretch(upw, 127, 1), stretch(opw, 127, 2)), 2 => (stretch(upw, 128, 1), stretch(opw, 128, 2)), 3 => (stretch(upw, 200, 1), stretch(opw, 200, 2)),
        4 => (across(upw, "\u{e9}", 1), across(opw, "\u{fc}", 2)), 5 => (across(upw, "\u{20ac}", 1), across(opw, "\u{6f22}", 2)), 6 => (across(upw, "\u{10400}", 1), across(opw, "\u{20000}", 3)), // assigned in Unicode 3.2, the repertoire of SASLprep (RFC 3454 table A.1)
        _ => (upw, opw) };
    let opw = if same_pw { upw.clone() } else { opw };
    Case {
        h, key_bytes, v, upw, opw, p, id0, id1, encrypt_direct, encmeta: em != 2, encmeta_explicit: em != 0,
        stm_identity: cfk == 1, str_identity: cfk == 2, cf_len, enc_len, cf_type, near_miss, xref_stream,
        contents_nr, info_nr, meta_nr, enc_nr, objstm_nr, xref_nr, info_title, xmp, contents_decoded,
        items, seed32, size: top, labels: src.label_set(),
    }
}

impl Case {
    fn variant(&self) -> String { self.h.name(self.key_bytes) }
    fn str_cfm(&self) -> Option<Cfm> { if self.str_identity { None } else { Some(self.h.cfm()) } }
    fn stm_cfm(&self) -> Option<Cfm> { if self.stm_identity { None } else { Some(self.h.cfm()) } }
    /// Algorithm 3 a): without an owner password the user password is used (R2-R4)
    fn eff_opw(&self) -> &[u8] { if self.h.r() <= 4 && self.opw.is_empty() { &self.upw } else { &self.opw } }
}

// ------------------------------------------------------------------------------------------ building

#[derive(Clone, Copy, PartialEq, Debug)]
enum Mode { Normal, Plain, MetaStream }

struct Rec { nr: u32, gen: u16, off: usize, obj: Obj, mode: Mode }

struct Built {
    bytes: Vec<u8>,
    file_key: Vec<u8>,
    /// strings of the /Encrypt dictionary as written
    enc_strings: Vec<(&'static str, Vec<u8>)>,
    recs: Vec<Rec>,
    objstm_members: Vec<(u32, Obj)>,
    objstm_off: Option<usize>,
    xref_off: usize,
}

fn iv16(seed32: u32, nr: u32, k: u32) -> [u8; 16] {
    let mut r = Rng::derive(seed32 as u64 ^ 0x1111_0000_0000, nr as u64, k as u64);
    let mut iv = [0u8; 16];
    iv.copy_from_slice(&r.bytes(16));
    iv
}

fn build(c: &Case) -> Built {
    let r = c.h.r();
    let mut rr = Rng::derive(c.seed32 as u64, 0x5ec, 0);
    let mut enc_strings: Vec<(&'static str, Vec<u8>)> = Vec::new();
    let file_key: Vec<u8>;
    if r <= 4 {
        let o = sec::alg3_o(r, c.key_bytes, &c.opw, &c.upw);
        file_key = sec::alg2_file_key(r, c.key_bytes, &c.upw, &o, c.p, &c.id0, c.encmeta);
        let mut tail = [0u8; 16];
        tail.copy_from_slice(&rr.bytes(16));
        let mut u = sec::alg45_u(r, &file_key, &c.id0, &tail);
        if c.near_miss { let k = if r == 2 { 31 } else { 15 }; u[k] ^= 0x01; }
        enc_strings.push(("O", o));
        enc_strings.push(("U", u));
    } else {
        file_key = rr.bytes(32);
        let mut us = [0u8; 16]; us.copy_from_slice(&rr.bytes(16));
        let mut os = [0u8; 16]; os.copy_from_slice(&rr.bytes(16));
        let mut pr = [0u8; 4]; pr.copy_from_slice(&rr.bytes(4));
        let (mut u, ue) = sec::alg8_u_ue(r, &c.upw, &file_key, &us);
        if c.near_miss { u[31] ^= 0x01; }
        let (o, oe) = sec::alg9_o_oe(r, &c.opw, &file_key, &os, &u);
        let perms = sec::alg10_perms(c.p, c.encmeta, &file_key, &pr);
        enc_strings.push(("O", o));
        enc_strings.push(("U", u));
        enc_strings.push(("OE", oe));
        enc_strings.push(("UE", ue));
        enc_strings.push(("Perms", perms));
    }
    // /Encrypt dictionary
    let bits = (c.key_bytes * 8) as i64;
    let mut ed: Vec<(&str, Obj)> = vec![("Filter", name("Standard")), ("V", Obj::Int(c.v as i64)), ("R", Obj::Int(r as i64))];
    if c.enc_len { ed.push(("Length", Obj::Int(bits))); }
    ed.push(("P", Obj::Int(c.p as i64)));
    if r >= 4 {
        let mut cf: Vec<(&str, Obj)> = Vec::new();
        if c.cf_type { cf.push(("Type", name("CryptFilter"))); }
        cf.push(("AuthEvent", name("DocOpen")));
        cf.push(("CFM", name(match c.h.cfm() { Cfm::Rc4 => "V2", Cfm::AesV2 => "AESV2", Cfm::AesV3 => "AESV3" })));
        if c.cf_len { cf.push(("Length", Obj::Int(c.key_bytes as i64))); }
        ed.push(("CF", dict(vec![("StdCF", dict(cf))])));
        ed.push(("StmF", name(if c.stm_identity { "Identity" } else { "StdCF" })));
        ed.push(("StrF", name(if c.str_identity { "Identity" } else { "StdCF" })));
        if c.encmeta_explicit { ed.push(("EncryptMetadata", Obj::Bool(c.encmeta))); }
    }
    for (k, v) in &enc_strings { ed.push((k, Obj::Str(v.clone()))); }
    let enc_obj = dict(ed);

    let ivctr = std::cell::Cell::new(0u32);
    let (str_cfm, stm_cfm) = (c.str_cfm(), c.stm_cfm());
    let exempt_meta = if c.encmeta { None } else { c.meta_nr };
    let key = file_key.clone();
    let seed32 = c.seed32;
    let crypt = move |nr: u32, gen: u16, data: &[u8], is_stream: bool| -> Vec<u8> {
        if is_stream && Some(nr) == exempt_meta { return data.to_vec(); }
        match if is_stream { stm_cfm } else { str_cfm } {
            None => data.to_vec(),
            Some(cfm) => {
                let k = ivctr.get();
                ivctr.set(k + 1);
                sec::encrypt_data(&key, cfm, nr, gen, &iv16(seed32, nr, k), data)
            }
        }
    };
    let mut w = W::new(b"", "1.7");
    w.crypt = Some(&crypt);
    w.free(0, 0, 65535);
    let mut recs: Vec<Rec> = Vec::new();
    let mut put = |w: &mut W, nr: u32, gen: u16, obj: Obj, mode: Mode| {
        let off = w.pos();
        if mode == Mode::Plain { w.obj_plain(nr, gen, &obj); } else { w.obj(nr, gen, &obj); }
        recs.push(Rec { nr, gen, off, obj, mode });
    };
    let mut cat = vec![("Type", name("Catalog")), ("Pages", rf(2))];
    if let Some(m) = c.meta_nr { cat.push(("Metadata", rf(m))); }
    put(&mut w, 1, 0, dict(cat), Mode::Normal);
    put(&mut w, 2, 0, dict(vec![("Type", name("Pages")), ("Count", Obj::Int(1)), ("Kids", arr(vec![rf(3)]))]), Mode::Normal);
    let mut page = vec![("Type", name("Page")), ("Parent", rf(2)), ("MediaBox", ints(&[0, 0, 612, 792]))];
    if let Some(n) = c.contents_nr { page.push(("Contents", rf(n))); }
    put(&mut w, 3, 0, dict(page), Mode::Normal);
    if let Some(n) = c.contents_nr {
        let data = miniz_oxide::deflate::compress_to_vec_zlib(&c.contents_decoded, 6);
        put(&mut w, n, 0, stream(vec![("Filter", name("FlateDecode"))], &data), Mode::Normal);
    }
    if let Some(n) = c.info_nr {
        put(&mut w, n, 0, dict(vec![("Title", Obj::Str(c.info_title.clone())), ("Producer", st("pdfmon C06"))]), Mode::Normal);
    }
    if let Some(n) = c.meta_nr {
        put(&mut w, n, 0, stream(vec![("Type", name("Metadata")), ("Subtype", name("XML"))], &c.xmp), if c.encmeta { Mode::Normal } else { Mode::MetaStream });
    }
    if let Some(n) = c.enc_nr { put(&mut w, n, 0, enc_obj.clone(), Mode::Plain); }
    let mut members: Vec<(u32, Obj)> = Vec::new();
    for it in &c.items {
        if it.in_objstm { members.push((it.nr, it.obj.clone())); } else { put(&mut w, it.nr, it.gen, it.obj.clone(), Mode::Normal); }
    }
    let mut objstm_off = None;
    if let Some(n) = c.objstm_nr {
        objstm_off = Some(w.pos());
        w.objstm(n, &members, b"\n", 0, &flate_filter);
    }
    let mut tr: Vec<(Vec<u8>, Obj)> = vec![(b"Root".to_vec(), rf(1))];
    if let Some(n) = c.info_nr { tr.push((b"Info".to_vec(), rf(n))); }
    tr.push((b"Encrypt".to_vec(), match c.enc_nr { Some(n) => rf(n), None => enc_obj.clone() }));
    tr.push((b"ID".to_vec(), arr(vec![Obj::Str(c.id0.clone()), Obj::Str(c.id1.clone())])));
    let xref_off = match c.xref_nr {
        Some(n) => w.xref_stream(n, tr, c.size, &[], &flate_filter),
        None => w.xref_table(tr, c.size, &[]),
    };
    let bytes = std::mem::take(&mut w.buf);
    drop(w);
    Built { bytes, file_key, enc_strings, recs, objstm_members: members, objstm_off, xref_off }
}

// ------------------------------------------------------------------------------------------ reference read-back

fn obj_int(o: Option<&Obj>) -> Option<i64> { match o { Some(Obj::Int(i)) => Some(*i), _ => None } }
fn obj_str(o: Option<&Obj>) -> Vec<u8> { match o { Some(Obj::Str(s)) => s.clone(), _ => Vec::new() } }
fn obj_name(o: Option<&Obj>) -> Option<&[u8]> { match o { Some(Obj::Name(n)) => Some(n), _ => None } }

/// What a reader derives from an /Encrypt dictionary (as parsed) and ID[0]; returns (dict, StmF is StdCF, StrF is StdCF)
fn encdict_from_obj(e: &Obj, id0: &[u8]) -> Result<(EncDict, bool, bool), String> {
    if obj_name(e.get("Filter")) != Some(b"Standard") { return Err("Filter is not /Standard".into()); }
    let v = obj_int(e.get("V")).ok_or("V missing")?;
    let r = obj_int(e.get("R")).ok_or("R missing")? as u32;
    let bits = obj_int(e.get("Length")).unwrap_or(40);
    let p = obj_int(e.get("P")).ok_or("P missing")? as i32;
    let encrypt_metadata = !matches!(e.get("EncryptMetadata"), Some(Obj::Bool(false)));
    let (mut cfm, mut key_bytes, mut stm, mut strf) = (Cfm::Rc4, if v == 1 { 5 } else { (bits / 8) as usize }, true, true);
    if v >= 4 {
        stm = obj_name(e.get("StmF")) == Some(b"StdCF");
        strf = obj_name(e.get("StrF")) == Some(b"StdCF");
        let cf = e.get("CF").and_then(|c| c.get("StdCF")).ok_or("CF/StdCF missing")?;
        cfm = match obj_name(cf.get("CFM")) { Some(b"V2") => Cfm::Rc4, Some(b"AESV2") => Cfm::AesV2, Some(b"AESV3") => Cfm::AesV3, other => return Err(format!("CFM {:?}", other)) };
        key_bytes = match cfm {
            Cfm::AesV3 => 32,
            Cfm::AesV2 => 16,
            Cfm::Rc4 => match obj_int(cf.get("Length")) { Some(n) => n as usize, None => (bits / 8) as usize },
        };
    }
    if r <= 4 && !(5..=16).contains(&key_bytes) { return Err(format!("key length {} bytes", key_bytes)); }
    Ok((EncDict { r, key_bytes, cfm, p, encrypt_metadata, id0: id0.to_vec(), o: obj_str(e.get("O")), u: obj_str(e.get("U")),
        oe: obj_str(e.get("OE")), ue: obj_str(e.get("UE")), perms: obj_str(e.get("Perms")) }, stm, strf))
}

fn decrypt_obj(o: &Obj, nr: u32, gen: u16, key: &[u8], str_cfm: Option<Cfm>, stm_cfm: Option<Cfm>) -> Result<Obj, String> {
    Ok(match o {
        Obj::Str(s) => Obj::Str(match str_cfm { Some(c) => sec::decrypt_data(key, c, nr, gen, s)?, None => s.clone() }),
        Obj::Arr(a) => Obj::Arr(a.iter().map(|e| decrypt_obj(e, nr, gen, key, str_cfm, stm_cfm)).collect::<Result<_, _>>()?),
        Obj::Dict(d) => Obj::Dict(d.iter().map(|(k, v)| Ok((k.clone(), decrypt_obj(v, nr, gen, key, str_cfm, stm_cfm)?))).collect::<Result<_, String>>()?),
        Obj::Stream(d, data) => {
            let mut dd = Vec::new();
            for (k, v) in d { if k != b"Length" { dd.push((k.clone(), decrypt_obj(v, nr, gen, key, str_cfm, stm_cfm)?)); } }
            Obj::Stream(dd, match stm_cfm { Some(c) => sec::decrypt_data(key, c, nr, gen, data)?, None => data.clone() })
        }
        other => other.clone(),
    })
}

/// §4.7 generator conformance: read the written bytes back with the reference reader and the reference
/// *decryptor* (starting from the written /Encrypt dictionary and the passwords only) and recover the description.
fn verify_readback(c: &Case, b: &Built) -> Result<(), String> {
    // trailer
    let tr = if c.xref_stream {
        let (_, _, o) = rd::P::new(&b.bytes, b.xref_off).indirect().map_err(|e| format!("xref stream: {}", e))?;
        o
    } else {
        let mut p = rd::P::new(&b.bytes, b.xref_off);
        p.keyword(b"xref")?;
        let pos = (p.i..b.bytes.len().saturating_sub(7)).find(|&i| &b.bytes[i..i + 7] == b"trailer").ok_or("no trailer")?;
        rd::P::new(&b.bytes, pos + 7).object()?
    };
    let id0 = match tr.get("ID") { Some(Obj::Arr(a)) if a.len() == 2 => obj_str(a.first()), _ => return Err("trailer /ID".into()) };
    if id0 != c.id0 { return Err("ID[0] differs".into()); }
    let enc = match tr.get("Encrypt") {
        Some(Obj::Ref(n, 0)) => {
            let rec = b.recs.iter().find(|r| r.nr == *n).ok_or("Encrypt ref target unknown")?;
            rd::P::new(&b.bytes, rec.off).indirect()?.2
        }
        Some(d @ Obj::Dict(_)) => d.clone(),
        _ => return Err("trailer /Encrypt".into()),
    };
    let (ed, stm_std, str_std) = encdict_from_obj(&enc, &id0)?;
    if ed.r != c.h.r() || ed.key_bytes != c.key_bytes || ed.cfm != c.h.cfm() || ed.encrypt_metadata != c.encmeta || stm_std == c.stm_identity || str_std == c.str_identity {
        return Err(format!("encryption dictionary reads back differently: r={} key_bytes={} cfm={:?}", ed.r, ed.key_bytes, ed.cfm));
    }
    if ed.r >= 5 {
        // Perms must validate with the generator's key
        sec::alg13_check_perms(&ed, &b.file_key)?;
    }
    let key = match sec::authenticate(&ed, &c.upw) {
        Ok((k, _)) => { if c.near_miss && c.upw != c.eff_opw() { return Err("near-miss document accepts the user password".into()); } Some(k) }
        Err(e) => { if !c.near_miss { return Err(format!("user password: {}", e)); } None }
    };
    let okey = match sec::authenticate(&ed, c.eff_opw()) {
        Ok((k, _)) => Some(k),
        Err(e) => { if !(c.near_miss && ed.r <= 4) { return Err(format!("owner password: {}", e)); } None }
    };
    for k in [&key, &okey].into_iter().flatten() { if *k != b.file_key { return Err("recovered file key differs from the generator's".into()); } }
    let key = &b.file_key;
    let (sc, tc) = (if str_std { Some(ed.cfm) } else { None }, if stm_std { Some(ed.cfm) } else { None });
    for rec in &b.recs {
        let (nr, gen, o) = rd::P::new(&b.bytes, rec.off).indirect().map_err(|e| format!("object {}: {}", rec.nr, e))?;
        if nr != rec.nr || gen != rec.gen { return Err(format!("object header {} {} != {} {}", nr, gen, rec.nr, rec.gen)); }
        let plain = match rec.mode {
            Mode::Normal => decrypt_obj(&o, nr, gen, key, sc, tc),
            Mode::Plain => decrypt_obj(&o, nr, gen, key, None, None),
            Mode::MetaStream => decrypt_obj(&o, nr, gen, key, sc, None),
        }.map_err(|e| format!("object {}: {}", nr, e))?;
        if plain != rec.obj { return Err(format!("object {} {} does not read back as written", nr, gen)); }
    }
    if let (Some(off), Some(osn)) = (b.objstm_off, c.objstm_nr) {
        let (nr, gen, o) = rd::P::new(&b.bytes, off).indirect()?;
        if nr != osn { return Err("objstm header".into()); }
        let Obj::Stream(d, data) = decrypt_obj(&o, nr, gen, key, sc, tc)? else { return Err("objstm not a stream".into()) };
        let body = crate::refimpl::codec::zlib_decode(&data)?;
        let first = d.iter().find(|(k, _)| k == b"First").and_then(|(_, v)| obj_int(Some(v))).ok_or("First")? as usize;
        let mut hp = rd::P::new(&body, 0);
        for (mnr, mobj) in &b.objstm_members {
            let n = hp.uint()? as u32;
            let o = hp.uint()? as usize;
            if n != *mnr { return Err("objstm member number".into()); }
            let got = rd::P::new(&body, first + o).object()?;
            if got != *mobj { return Err(format!("objstm member {} does not read back", n)); }
        }
    }
    Ok(())
}

// ------------------------------------------------------------------------------------------ oracle on the library

/// `class` = outcome class of the fixed vocabulary (or a panic signature), optionally followed by "~<root error kind>".
/// The part after '~' keeps shrinking on the same failure and separates selection groups; it is not part of the signature.
#[derive(Clone, Debug)]
struct Fail { class: String, detail: String }
fn outcome(class: &str) -> &str { class.split('~').next().unwrap_or(class) }

fn pr(nr: u32, gen: u16) -> PlainRef { PlainRef { id: nr as u64, gen: gen as u64 } }

/// compare a resolved primitive with the expected plaintext object; strings and structure
fn cmp_prim(p: &Primitive, o: &Obj, path: &str, wrong: &mut Vec<String>, structure: &mut Vec<String>) {
    match (p, o) {
        (Primitive::String(s), Obj::Str(e)) => if s.as_bytes() != &e[..] {
            wrong.push(format!("{}: string of {} bytes read as {} bytes: expected {} got {}", path, e.len(), s.as_bytes().len(), show(&e[..e.len().min(40)]), show(&s.as_bytes()[..s.as_bytes().len().min(40)])));
        },
        (Primitive::Integer(i), Obj::Int(e)) if *i as i64 == *e => {}
        (Primitive::Name(n), Obj::Name(e)) if n.as_bytes() == &e[..] => {}
        (Primitive::Boolean(b), Obj::Bool(e)) if b == e => {}
        (Primitive::Reference(r), Obj::Ref(n, g)) if r.id == *n as u64 && r.gen == *g as u64 => {}
        (Primitive::Array(a), Obj::Arr(e)) if a.len() == e.len() => for (k, (x, y)) in a.iter().zip(e).enumerate() { cmp_prim(x, y, &format!("{}[{}]", path, k), wrong, structure); },
        (Primitive::Dictionary(d), Obj::Dict(e)) => cmp_dict(d, e, path, wrong, structure),
        (Primitive::Stream(s), Obj::Stream(e, _)) => cmp_dict(&s.info, e, path, wrong, structure),
        _ => structure.push(format!("{}: expected {:?}, found {}", path, std::mem::discriminant(o), p.get_debug_name())),
    }
}
fn cmp_dict(d: &pdf::primitive::Dictionary, e: &[(Vec<u8>, Obj)], path: &str, wrong: &mut Vec<String>, structure: &mut Vec<String>) {
    for (k, v) in e {
        let ks = String::from_utf8_lossy(k).to_string();
        match d.get(&ks) { Some(x) => cmp_prim(x, v, &format!("{}/{}", path, ks), wrong, structure), None => structure.push(format!("{}/{} missing", path, ks)) }
    }
}

fn check_stream<R: Resolve>(res: &R, p: Primitive, raw: &[u8], decoded: &[u8], what: &str, cls_wrong: &str, cls_err: &str, fails: &mut Vec<Fail>) {
    let Primitive::Stream(ps) = p else { return };
    match guard(|| ps.raw_data(res)) {
        Err(pn) => fails.push(Fail { class: pn.signature(), detail: format!("{}: raw_data panicked: {}", what, pn.describe()) }),
        Ok(Err(e)) => fails.push(Fail { class: format!("{}~{}", cls_err, root_kind(&e)), detail: format!("{}: raw_data: {} ({} plaintext bytes)", what, root_kind(&e), raw.len()) }),
        Ok(Ok(d)) => if &d[..] != raw { fails.push(Fail { class: cls_wrong.into(), detail: format!("{}: raw_data returns {} bytes, expected {}: got {} want {}", what, d.len(), raw.len(), show(&d[..d.len().min(32)]), show(&raw[..raw.len().min(32)])) }); },
    }
    match guard(|| Stream::<()>::from_stream(ps.clone(), res).and_then(|s| s.data(res))) {
        Err(pn) => fails.push(Fail { class: pn.signature(), detail: format!("{}: Stream::data panicked: {}", what, pn.describe()) }),
        Ok(Err(e)) => fails.push(Fail { class: format!("{}~{}", cls_err, root_kind(&e)), detail: format!("{}: Stream::data: {} ({} decoded bytes)", what, root_kind(&e), decoded.len()) }),
        Ok(Ok(d)) => if &d[..] != decoded { fails.push(Fail { class: cls_wrong.into(), detail: format!("{}: Stream::data returns {} bytes, expected {}", what, d.len(), decoded.len()) }); },
    }
}

/// everything observed on a successfully opened file
fn inspect<R: Resolve>(res: &R, title: Option<Vec<u8>>, meta_ref: Option<PlainRef>, c: &Case, b: &Built, harness: &mut Vec<String>) -> Vec<Fail> {
    let mut fails = Vec::new();
    for it in &c.items {
        let what = format!("object {} {}", it.nr, it.gen);
        let is_stream = matches!(it.obj, Obj::Stream(..));
        let p = match guard(|| res.resolve(pr(it.nr, it.gen))) {
            Err(pn) => { fails.push(Fail { class: pn.signature(), detail: format!("{}: resolve panicked: {}", what, pn.describe()) }); continue; }
            Ok(Err(e)) => {
                let has_str = it.lens.iter().any(|(s, _)| !*s);
                fails.push(Fail { class: format!("{}~{}", if has_str { "string-error" } else { "stream-error" }, root_kind(&e)), detail: format!("{}: resolve: {} (string lengths {:?})", what, root_kind(&e), it.lens.iter().filter(|l| !l.0).map(|l| l.1).collect::<Vec<_>>()) });
                continue;
            }
            Ok(Ok(p)) => p,
        };
        let (mut wrong, mut st) = (Vec::new(), Vec::new());
        cmp_prim(&p, &it.obj, &what, &mut wrong, &mut st);
        for w in wrong { fails.push(Fail { class: "wrong-string".into(), detail: w }); }
        harness.extend(st);
        if is_stream {
            let Obj::Stream(_, raw) = &it.obj else { unreachable!() };
            check_stream(res, p, raw, it.decoded.as_ref().unwrap(), &what, "wrong-stream", "stream-error", &mut fails);
        }
    }
    if let Some(n) = c.contents_nr {
        match guard(|| res.resolve(pr(n, 0))) {
            Err(pn) => fails.push(Fail { class: pn.signature(), detail: format!("contents: resolve panicked: {}", pn.describe()) }),
            Ok(Err(e)) => fails.push(Fail { class: format!("stream-error~{}", root_kind(&e)), detail: format!("contents: resolve: {}", root_kind(&e)) }),
            Ok(Ok(p)) => {
                let raw = match b.recs.iter().find(|r| r.nr == n).map(|r| &r.obj) { Some(Obj::Stream(_, d)) => d.clone(), _ => Vec::new() };
                check_stream(res, p, &raw, &c.contents_decoded, "page contents", "wrong-stream", "stream-error", &mut fails);
            }
        }
    }
    if let Some(n) = c.info_nr {
        // the Info strings through resolve (like any other object), then /Title through the typed trailer
        let expect = b.recs.iter().find(|r| r.nr == n).map(|r| r.obj.clone()).unwrap_or(Obj::Null);
        match guard(|| res.resolve(pr(n, 0))) {
            Err(pn) => fails.push(Fail { class: pn.signature(), detail: format!("Info: resolve panicked: {}", pn.describe()) }),
            Ok(Err(e)) => fails.push(Fail { class: format!("string-error~{}", root_kind(&e)), detail: format!("Info dictionary: resolve: {}", root_kind(&e)) }),
            Ok(Ok(p)) => {
                let (mut wrong, mut st) = (Vec::new(), Vec::new());
                cmp_prim(&p, &expect, "Info", &mut wrong, &mut st);
                let ok = wrong.is_empty();
                for w in wrong { fails.push(Fail { class: "wrong-string".into(), detail: w }); }
                harness.extend(st);
                match title {
                    None => if ok { fails.push(Fail { class: "string-error~title-unavailable".into(), detail: "trailer.info_dict.title is None although the Info object resolves with the right strings".into() }); },
                    Some(t) => if t != c.info_title && ok { fails.push(Fail { class: "wrong-string".into(), detail: format!("trailer.info_dict.title: got {} want {}", show(&t), show(&c.info_title)) }); },
                }
            }
        }
    }
    if let Some(n) = c.meta_nr {
        let (cw, ce) = if c.encmeta { ("wrong-stream", "stream-error") } else { ("metadata-modified", "metadata-modified") };
        match guard(|| res.resolve(pr(n, 0))) {
            Err(pn) => fails.push(Fail { class: pn.signature(), detail: format!("metadata: resolve panicked: {}", pn.describe()) }),
            Ok(Err(e)) => fails.push(Fail { class: format!("{}~{}", ce, root_kind(&e)), detail: format!("metadata: resolve: {}", root_kind(&e)) }),
            Ok(Ok(p)) => check_stream(res, p, &c.xmp, &c.xmp, "metadata stream", cw, ce, &mut fails),
        }
        match meta_ref {
            None => harness.push("catalog has no /Metadata reference".into()),
            Some(mr) => match guard(|| res.get(pdf::object::Ref::<Stream<()>>::new(mr)).and_then(|s| (**s.data()).data(res))) {
                Err(pn) => fails.push(Fail { class: pn.signature(), detail: format!("catalog.metadata data panicked: {}", pn.describe()) }),
                Ok(Err(e)) => fails.push(Fail { class: format!("{}~{}", ce, root_kind(&e)), detail: format!("catalog.metadata: {}", root_kind(&e)) }),
                Ok(Ok(d)) => if &d[..] != &c.xmp[..] { fails.push(Fail { class: cw.into(), detail: format!("catalog.metadata data: {} bytes, expected {}", d.len(), c.xmp.len()) }); },
            },
        }
    }
    if let Some(n) = c.enc_nr {
        match guard(|| res.resolve(pr(n, 0))) {
            Err(pn) => fails.push(Fail { class: pn.signature(), detail: format!("/Encrypt object: resolve panicked: {}", pn.describe()) }),
            Ok(Err(e)) => fails.push(Fail { class: format!("encrypt-dict-modified~{}", root_kind(&e)), detail: format!("/Encrypt object: resolve: {}", root_kind(&e)) }),
            Ok(Ok(Primitive::Dictionary(d))) => for (k, v) in &b.enc_strings {
                match d.get(k) {
                    Some(Primitive::String(s)) if s.as_bytes() == &v[..] => {}
                    Some(Primitive::String(s)) => fails.push(Fail { class: "encrypt-dict-modified".into(), detail: format!("/Encrypt /{}: got {} want {}", k, hex(s.as_bytes()), hex(v)) }),
                    _ => harness.push(format!("/Encrypt /{} is not a string", k)),
                }
            },
            Ok(Ok(_)) => harness.push("/Encrypt object is not a dictionary".into()),
        }
    }
    fails
}

/// one open + everything read through it. `expect_ok`: the reference accepts this password.
fn eval_open(c: &Case, b: &Built, pw: &[u8], expect_ok: bool, cfg: Cfg, harness: &mut Vec<String>) -> Vec<Fail> {
    let bytes = b.bytes.clone();
    let mut hv: Vec<String> = Vec::new();
    let r = guard(|| with_file!(bytes, cfg, pw, |f| match f {
        Ok(f) => {
            if expect_ok {
                let res = f.resolver();
                let title = f.trailer.info_dict.as_ref().and_then(|i| i.title.as_ref()).map(|t| t.as_bytes().to_vec());
                let mref = f.get_root().metadata.map(|m| m.get_inner());
                Ok(inspect(&res, title, mref, c, b, &mut hv))
            } else { Ok(Vec::new()) }
        }
        Err(e) => Err((root_kind(&e), format!("{:?}", crate::doc::root_cause(&e)).chars().take(240).collect::<String>())),
    }));
    harness.extend(hv);
    match (r, expect_ok) {
        (Err(pn), _) => vec![Fail { class: pn.signature(), detail: format!("load panicked: {}", pn.describe()) }],
        (Ok(Ok(f)), true) => f,
        (Ok(Err((kind, msg))), true) => vec![Fail { class: format!("load-error~{}", kind), detail: format!("load with a correct password fails: {} ({})", kind, msg) }],
        (Ok(Ok(_)), false) => vec![Fail { class: "wrong-password-accepted".into(), detail: "load succeeds with a password the specification's algorithm rejects".into() }],
        (Ok(Err((kind, msg))), false) => if kind == "InvalidPassword" { vec![] } else {
            vec![Fail { class: format!("wrong-password-other-error~{}", kind), detail: format!("wrong password is rejected with {} ({}) instead of InvalidPassword", kind, msg) }]
        },
    }
}

#[derive(Clone, Copy, PartialEq, Eq, Debug, PartialOrd, Ord)]
enum PwKind { User, Owner, Wrong }
impl PwKind { fn name(self) -> &'static str { match self { PwKind::User => "user", PwKind::Owner => "owner", PwKind::Wrong => "wrong" } } }

/// passwords that differ from both real ones; only those the reference rejects are used
fn wrong_passwords(c: &Case, ed: &EncDict) -> Vec<Vec<u8>> {
    let flip = |b: u8| if b == b'a' { b'b' } else { b'a' };
    let mut v: Vec<Vec<u8>> = vec![b"wrong-password".to_vec(), Vec::new()];
    let ascii_tail = |p: &[u8]| p.last().map(|b| *b < 0x80).unwrap_or(false);
    if !c.upw.is_empty() && ascii_tail(&c.upw[..c.upw.len().min(32)]) {
        let mut w = c.upw.clone(); let k = w.len().min(32) - 1; w[k] = flip(w[k]); v.push(w);
        let mut w = c.upw.clone(); w.truncate(c.upw.len().min(32) - 1); v.push(w);
    }
    if !c.opw.is_empty() && c.opw[0] < 0x80 { let mut w = c.opw.clone(); w[0] = flip(w[0]); v.push(w); }
    if c.upw.len() < 32 { let mut w = c.upw.clone(); w.push(b'z'); v.push(w); }
    if c.opw.len() < 32 { let mut w = c.opw.clone(); w.push(b'z'); v.push(w); }
    v.retain(|w| w != &c.upw && w != &c.opw && sec::authenticate(ed, w).is_err());
    v.dedup();
    v
}

fn gen_enc_dict(c: &Case, b: &Built) -> EncDict {
    let g = |k: &str| b.enc_strings.iter().find(|(n, _)| *n == k).map(|(_, v)| v.clone()).unwrap_or_default();
    EncDict { r: c.h.r(), key_bytes: c.key_bytes, cfm: c.h.cfm(), p: c.p, encrypt_metadata: c.encmeta, id0: c.id0.clone(), o: g("O"), u: g("U"), oe: g("OE"), ue: g("UE"), perms: g("Perms") }
}

/// all opens of one kind in one configuration; returns the failures
fn eval_kind(c: &Case, b: &Built, ed: &EncDict, kind: PwKind, cfg: Cfg, harness: &mut Vec<String>, run: Option<&Run>) -> Vec<Fail> {
    let pws: Vec<Vec<u8>> = match kind { PwKind::User => vec![c.upw.clone()], PwKind::Owner => vec![c.eff_opw().to_vec()], PwKind::Wrong => wrong_passwords(c, ed) };
    let mut out = Vec::new();
    for pw in pws {
        let expect_ok = sec::authenticate(ed, &pw).is_ok();
        if let Some(run) = run {
            run.eval();
            run.count(&format!("open:{}:{}:{}", c.variant(), kind.name(), if expect_ok { "accept" } else { "reject" }));
            run.count(&format!("cfg:{}", cfg.name()));
        }
        let mut fs = eval_open(c, b, &pw, expect_ok, cfg, harness);
        if kind == PwKind::Wrong && fs.iter().any(|f| f.class.starts_with("wrong-password-other-error")) && sec::authenticate(ed, &c.upw).is_ok() {
            // the document does not open with the right password either, with the same error: that is the load-error
            // finding of the user-password open, not a second one
            let base = eval_open(c, b, &c.upw, true, cfg, &mut Vec::new());
            fs.retain(|f| !base.iter().any(|g| g.class.starts_with("load-error") && g.class.split('~').nth(1) == f.class.split('~').nth(1)));
        }
        out.extend(fs);
    }
    out
}

// ------------------------------------------------------------------------------------------ fixtures self-test

fn looks_like_content_stream(d: &[u8]) -> bool {
    d.len() > 20 && d.iter().all(|&b| b == b'\n' || b == b'\r' || b == b'\t' || (0x20..0x7f).contains(&b))
        && d.windows(2).any(|w| w == b"BT") && d.windows(2).any(|w| w == b"ET")
}

/// The reference handler must open the ten third-party fixtures, reproduce their O/U/UE/OE/Perms values in the
/// *encrypt* direction and decrypt their content stream.
fn selftest(run: &Run) -> Result<(), String> {
    sec::primitive_kats()?;
    let files: [(&str, &[u8], Option<&[u8]>); 10] = [
        ("encrypted_rc4_rev2.pdf", b"", None), ("encrypted_rc4_rev3.pdf", b"", None), ("encrypted_aes_128.pdf", b"", None),
        ("encrypted_aes_256.pdf", b"", None), ("encrypted_aes_256_hardened.pdf", b"", None),
        ("password_protected/passwords_rc4_rev2.pdf", b"userpassword", Some(b"ownerpassword")),
        ("password_protected/passwords_rc4_rev3.pdf", b"userpassword", Some(b"ownerpassword")),
        ("password_protected/passwords_aes_128.pdf", b"userpassword", Some(b"ownerpassword")),
        ("password_protected/passwords_aes_256.pdf", b"userpassword", Some(b"ownerpassword")),
        ("password_protected/passwords_aes_256_hardened.pdf", b"userpassword", Some(b"ownerpassword")),
    ];
    for (f, upw, opw) in files {
        let path = format!("/repo/files/{}", f);
        let bytes = std::fs::read(&path).map_err(|e| format!("{}: {}", path, e))?;
        let (tr, objs) = rd::read_classic(&bytes).map_err(|e| format!("{}: {}", f, e))?;
        let id0 = match tr.get("ID") { Some(Obj::Arr(a)) => obj_str(a.first()), _ => return Err(format!("{}: no ID", f)) };
        let Some(Obj::Ref(en, _)) = tr.get("Encrypt") else { return Err(format!("{}: Encrypt not a reference", f)) };
        let enc = &objs.iter().find(|o| o.0 == *en).ok_or(format!("{}: Encrypt object missing", f))?.2;
        let (ed, _, _) = encdict_from_obj(enc, &id0).map_err(|e| format!("{}: {}", f, e))?;
        let (key, who) = sec::authenticate(&ed, upw).map_err(|e| format!("{}: user password: {}", f, e))?;
        // (the encrypted_* files have empty user AND owner passwords, so either role is right for them)
        if who != "user" && opw.is_some() { return Err(format!("{}: user password authenticated as {}", f, who)); }
        if sec::authenticate(&ed, b"definitely-wrong").is_ok() { return Err(format!("{}: wrong password accepted by the reference", f)); }
        // encrypt direction: reproduce the stored check values
        if ed.r <= 4 {
            let mut tail = [0u8; 16];
            if ed.r >= 3 { tail.copy_from_slice(&ed.u[16..32]); }
            if sec::alg45_u(ed.r, &key, &id0, &tail) != ed.u { return Err(format!("{}: U is not reproduced", f)); }
        } else {
            let mut salts = [0u8; 16];
            salts.copy_from_slice(&ed.u[32..48]);
            let (u, ue) = sec::alg8_u_ue(ed.r, upw, &key, &salts);
            if u != ed.u[..48] || ue != ed.ue { return Err(format!("{}: U/UE are not reproduced", f)); }
            sec::alg13_check_perms(&ed, &key).map_err(|e| format!("{}: {}", f, e))?;
            let dp = sec::aes_cbc_dec_nopad(&key, &[0; 16], &ed.perms)?;
            let mut rnd = [0u8; 4];
            rnd.copy_from_slice(&dp[12..16]);
            if dp[4..8] == [0xff; 4] && sec::alg10_perms(ed.p, ed.encrypt_metadata, &key, &rnd) != ed.perms { return Err(format!("{}: Perms is not reproduced", f)); }
        }
        if let Some(opw) = opw {
            let (okey, who) = sec::authenticate(&ed, opw).map_err(|e| format!("{}: owner password: {}", f, e))?;
            if who != "owner" || okey != key { return Err(format!("{}: owner password gives {} / key equal: {}", f, who, okey == key)); }
            if ed.r <= 4 {
                if sec::alg3_o(ed.r, ed.key_bytes, opw, upw) != ed.o { return Err(format!("{}: O is not reproduced", f)); }
            } else {
                let mut salts = [0u8; 16];
                salts.copy_from_slice(&ed.o[32..48]);
                let (o, oe) = sec::alg9_o_oe(ed.r, opw, &key, &salts, &ed.u[..48]);
                if o != ed.o[..48] || oe != ed.oe { return Err(format!("{}: O/OE are not reproduced", f)); }
            }
            run.count("selftest:owner-password-fixtures");
        }
        // a stream whose plaintext is recognisable
        let mut seen = 0;
        for (nr, gen, o) in &objs {
            if let Obj::Stream(_, data) = o {
                let plain = sec::decrypt_data(&key, ed.cfm, *nr, *gen, data).map_err(|e| format!("{}: stream {}: {}", f, nr, e))?;
                if !looks_like_content_stream(&plain) { return Err(format!("{}: stream {} does not decrypt to a content stream: {}", f, nr, show(&plain[..plain.len().min(40)]))); }
                // encrypt direction reproduces the stored ciphertext
                let mut iv = [0u8; 16];
                if ed.cfm != Cfm::Rc4 { iv.copy_from_slice(&data[..16]); }
                if sec::encrypt_data(&key, ed.cfm, *nr, *gen, &iv, &plain) != *data { return Err(format!("{}: stream {} is not reproduced by the encryptor", f, nr)); }
                seen += 1;
            }
        }
        if seen == 0 { return Err(format!("{}: no stream found", f)); }
        run.count("selftest:fixtures-decrypted");
    }
    Ok(())
}

// ------------------------------------------------------------------------------------------ driver

struct Found { idx: u64, tape: std::sync::Arc<Vec<u32>>, force_h: usize, huge: bool, kind: PwKind, cfg: Cfg, fail: Fail }

fn prepare(tape: &[u32], force_h: usize, huge: bool) -> Result<(Case, Built, EncDict), String> {
    let mut src = Src::replay(tape);
    let c = gen_case(&mut src, force_h, huge);
    let b = build(&c);
    verify_readback(&c, &b)?;
    let ed = gen_enc_dict(&c, &b);
    Ok((c, b, ed))
}

/// Shrinker for positional tapes: zero blocks of entries (64, 16, 4, 1), then lower the surviving entries.
fn shrink_pos(tape: &[u32], mut fails: impl FnMut(&[u32]) -> bool, budget: usize) -> Vec<u32> {
    let mut cur = tape.to_vec();
    let mut calls = 0usize;
    loop {
        let mut improved = false;
        for bs in [64usize, 16, 4, 1] {
            let mut i = 0;
            while i < cur.len() {
                let j = (i + bs).min(cur.len());
                if cur[i..j].iter().any(|&v| v != 0) && calls < budget {
                    let mut cand = cur.clone();
                    for v in &mut cand[i..j] { *v = 0; }
                    calls += 1;
                    if fails(&cand) { cur = cand; improved = true; }
                }
                i = j;
            }
        }
        for i in 0..cur.len() {
            if cur[i] > 1 && cur[i] < 16 {
                for nv in [1, cur[i] - 1] {
                    if nv >= cur[i] || calls >= budget { continue; }
                    let mut cand = cur.clone();
                    cand[i] = nv;
                    calls += 1;
                    if fails(&cand) { cur = cand; improved = true; }
                }
            }
        }
        if !improved || calls >= budget { break; }
    }
    while cur.last() == Some(&0) { cur.pop(); }
    cur
}

static HUGE_LOCK: Mutex<()> = Mutex::new(());

/// classes of all failures of one (password kind, configuration) evaluation; None when the case does not build
fn classes_of(tape: &[u32], force_h: usize, huge: bool, kind: PwKind, cfg: Cfg) -> Option<Vec<String>> {
    let (c, b, ed) = prepare(tape, force_h, huge).ok()?;
    let _g = if huge { Some(HUGE_LOCK.lock().unwrap()) } else { None };
    let mut h = Vec::new();
    Some(eval_kind(&c, &b, &ed, kind, cfg, &mut h, None).into_iter().map(|f| f.class).collect())
}
fn has_class(tape: &[u32], force_h: usize, huge: bool, kind: PwKind, cfg: Cfg, class: &str) -> bool {
    classes_of(tape, force_h, huge, kind, cfg).map(|v| v.iter().any(|c| c == class)).unwrap_or(false)
}
/// no failure of any class
fn is_clean(tape: &[u32], force_h: usize, huge: bool, kind: PwKind, cfg: Cfg) -> bool {
    classes_of(tape, force_h, huge, kind, cfg).map(|v| v.is_empty()).unwrap_or(false)
}

/// a reported signature, in the form needed to decide whether it explains another raw failure
struct SigInfo { class: String, handlers: Vec<usize>, labels: Vec<String>, sig: String }

fn explains(s: &SigInfo, f: &Found, raw_labels: &[&str]) -> bool {
    // a document that does not load with error K whatever the password also "rejects a wrong password with K": same finding
    let same = s.class == f.fail.class
        || (s.class.starts_with("load-error~") && f.fail.class.starts_with("wrong-password-other-error~") && s.class.split('~').nth(1) == f.fail.class.split('~').nth(1));
    if !same || !s.handlers.contains(&f.force_h) { return false; }
    s.labels.iter().all(|l| match l.as_str() {
        "as-owner" => f.kind == PwKind::Owner,
        "as-user" => f.kind == PwKind::User,
        "cfg-strict" => !f.cfg.tolerant,
        "cfg-tolerant" => f.cfg.tolerant,
        "cfg-cached" => f.cfg.cached,
        "cfg-uncached" => !f.cfg.cached,
        l if l.starts_with("cfg-") => l[4..].split(',').any(|n| n == f.cfg.name()),
        l => raw_labels.contains(&l),
    })
}

fn report(run: &Run, fd: &Found, budget: usize) -> Option<SigInfo> {
    let class = fd.fail.class.clone();
    let shrunk = shrink_pos(&fd.tape, |t| has_class(t, fd.force_h, fd.huge, fd.kind, fd.cfg, &class), budget);
    let Ok((c, b, _ed)) = prepare(&shrunk, fd.force_h, fd.huge) else { run.inconclusive("shrunk case no longer builds".into()); return None };
    // which handlers fail identically on the shrunk tape. Another handler only counts when the shrunk case is minimal
    // under it as well (zeroing any remaining choice makes the failure disappear); otherwise it fails for a reason of
    // its own that needs fewer features.
    let minimal_under = |h: usize| -> bool {
        (0..shrunk.len()).filter(|&i| shrunk[i] != 0).all(|i| { let mut t = shrunk.clone(); t[i] = 0; !has_class(&t, h, fd.huge, fd.kind, fd.cfg, &class) })
    };
    let failing: Vec<usize> = (0..6).filter(|&h| h == fd.force_h || (has_class(&shrunk, h, fd.huge, fd.kind, fd.cfg, &class) && minimal_under(h))).collect();
    let variant = if failing.len() == 6 { "all".to_string() } else {
        failing.iter().map(|&h| { let mut s = Src::replay(&shrunk); gen_case(&mut s, h, fd.huge).variant() }).collect::<Vec<_>>().join("+")
    };
    // which password kinds / configurations fail on the shrunk case
    let mut labels: Vec<String> = if c.labels.is_empty() { vec![] } else { c.labels.split('+').map(|s| s.to_string()).collect() };
    if fd.kind != PwKind::Wrong {
        let other = if fd.kind == PwKind::User { PwKind::Owner } else { PwKind::User };
        // only when the other password opens the shrunk document without any failure
        // (under at least one handler of the group, so that another defect of one handler does not change the signature)
        if failing.iter().any(|&h| is_clean(&shrunk, h, fd.huge, other, fd.cfg)) { labels.push(format!("as-{}", fd.kind.name())); }
    }
    // a configuration restricts the signature only when the shrunk document is completely clean in it
    let cf: Vec<Cfg> = CFGS.iter().cloned().filter(|&g| g == fd.cfg || !failing.iter().any(|&h| is_clean(&shrunk, h, fd.huge, fd.kind, g))).collect();
    if cf.len() != 4 {
        let strict_only = cf.iter().all(|g| !g.tolerant) && cf.len() == 2;
        let tol_only = cf.iter().all(|g| g.tolerant) && cf.len() == 2;
        let cached_only = cf.iter().all(|g| g.cached) && cf.len() == 2;
        let unc_only = cf.iter().all(|g| !g.cached) && cf.len() == 2;
        labels.push(if strict_only { "cfg-strict".into() } else if tol_only { "cfg-tolerant".into() } else if cached_only { "cfg-cached".into() } else if unc_only { "cfg-uncached".into() }
            else { format!("cfg-{}", cf.iter().map(|g| g.name()).collect::<Vec<_>>().join(",")) });
    }
    labels.sort(); labels.dedup();
    let sig = format!("C06|{}|{}|{}", variant, labels.join("+"), outcome(&class));
    // detail of the shrunk case
    let mut h = Vec::new();
    let ed = gen_enc_dict(&c, &b);
    let detail = eval_kind(&c, &b, &ed, fd.kind, fd.cfg, &mut h, None).into_iter().find(|f| f.class == class).map(|f| f.detail).unwrap_or_else(|| fd.fail.detail.clone());
    let mut wit = json!({
        "case_index": fd.idx, "tape": shrunk, "forced_handler_index": fd.force_h, "huge_object_numbers": fd.huge,
        "variant": c.variant(), "labels": c.labels, "password_kind": fd.kind.name(), "cfg": fd.cfg.name(),
        "user_password": show(&c.upw), "owner_password": show(&c.opw), "user_password_hex": hex(&c.upw), "owner_password_hex": hex(c.eff_opw()),
        "P": c.p, "detail": detail, "original_detail": fd.fail.detail, "pdf_len": b.bytes.len(),
    });
    if b.bytes.len() <= 8192 { wit["pdf_hex"] = Value::String(hex(&b.bytes)); }
    run.violation(&sig, &format!("[{} as {} in {}] {}", c.variant(), fd.kind.name(), fd.cfg.name(), detail), wit);
    Some(SigInfo { class, handlers: failing, labels, sig })
}

pub fn run(run: &Run) {
    run.rule("documents = tape-driven mkpdf files encrypted by the reference standard security handler: handler round-robin over {R2-RC4-40, R3-RC4-(40..128 step 8), R4-V2-(40..128), R4-AESV2-128, R5-AESV3-256, R6-AESV3-256}; user/owner password length classes {0,1..31,32,33..40} (ASCII; UTF-8 with SASLprep-neutral non-ASCII for R5/R6); P; ID length; /Encrypt direct|indirect; xref table|stream; object streams; EncryptMetadata default|true|false with XMP stream; Info dict; Flate page contents; 1-6 test objects (bare/nested strings, streams plain/Flate/with dictionary string) with plaintext lengths {24,0,1,15,16,17,31,32,33,34..4096}, object numbers consecutive | 65536+ | near 2^23-1, generation 0 | 1..65534; StmF/StrF Identity and omitted /Length entries as labelled rare choices; near-miss /U documents (one bit flipped in the last compared byte) for the rejection side. Each document is opened with user and owner password in 4 configurations and with up to 7 reference-rejected passwords. evaluation = one open + everything read through it; distinct_nontrivial = distinct document bytes opened with a reference-accepted password");
    run.assume("reference security handler refimpl/c06_sec.rs is correct: at start-up it opens the 10 third-party fixtures with user and owner passwords, reproduces their O/U/UE/OE/Perms and stream ciphertexts in the encrypt direction and decrypts their content streams; RC4/AES/CBC/MD5 known-answer tests");
    run.assume("generated passwords are SASLprep-neutral (printable ASCII plus U+00E9 U+00DF U+0436 U+4E2D U+20AC U+00FC), so the reference omits SASLprep");
    run.assume("md5, sha2 and aes crates are trusted block primitives (shared with the library); RC4, CBC chaining, padding and all PDF algorithms are independent code");
    if let Err(e) = selftest(run) {
        run.inconclusive(format!("reference security handler self-test failed: {}", e));
        return;
    }
    let n = run.n(900, 21_000);
    let found: Mutex<Vec<Found>> = Mutex::new(Vec::new());
    par_for(n, |i| {
        let force_h = (i % 6) as usize;
        let huge = i % 97 == 5;
        let mut src = Src::fresh(Rng::derive(run.seed, 6, i));
        let c = gen_case(&mut src, force_h, huge);
        let tape = std::sync::Arc::new(src.tape.clone());
        let b = build(&c);
        if let Err(e) = verify_readback(&c, &b) {
            run.eval();
            run.inconclusive(format!("case {} ({} {}): generated document fails the reference read-back: {}", i, c.variant(), c.labels, e));
            return;
        }
        let ed = gen_enc_dict(&c, &b);
        let _g = if huge { Some(HUGE_LOCK.lock().unwrap()) } else { None };
        let mut harness = Vec::new();
        let mut any = false;
        for (k, kind) in [PwKind::User, PwKind::Owner, PwKind::Wrong].into_iter().enumerate() {
            for (j, cfg) in CFGS.iter().enumerate() {
                // wrong passwords: one configuration per document (rotating); near-miss and correct ones: all four
                if kind == PwKind::Wrong && j as u64 != (i / 6) % 4 { continue; }
                let fails = eval_kind(&c, &b, &ed, kind, *cfg, &mut harness, Some(run));
                for f in fails {
                    any = true;
                    found.lock().unwrap().push(Found { idx: i, tape: tape.clone(), force_h, huge, kind, cfg: *cfg, fail: f });
                }
            }
            let _ = k;
        }
        if !harness.is_empty() {
            harness.sort(); harness.dedup();
            run.inconclusive(format!("case {} ({}): structure differs outside strings/streams: {}", i, c.variant(), harness[0]));
        }
        if sec::authenticate(&ed, &c.upw).is_ok() || sec::authenticate(&ed, c.eff_opw()).is_ok() { run.nontrivial(fnv(&b.bytes)); }
        run.count(&format!("docs:{}", c.variant()));
        if c.near_miss { run.count(&format!("docs-near-miss:{}", c.variant())); }
        if huge { run.count("docs:huge-object-numbers-enabled"); }
        for l in c.labels.split('+').filter(|l| !l.is_empty() && !l.starts_with("len")) { run.count(&format!("feature:{}", l)); }
        for cls in ["upw", "opw"] {
            let p = if cls == "upw" { &c.upw } else { &c.opw };
            let n = String::from_utf8_lossy(p).chars().count();
            run.count(&format!("{}-chars:{}:{}", cls, c.variant().split('-').next().unwrap_or(""), match n { 0 => "0", 1..=31 => "1-31", 32 => "32", _ => "33-40" }));
        }
        for it in &c.items { for (s, l) in &it.lens { run.count(&format!("{}:{}:{}", if *s { "stream" } else { "string" }, c.h.name(c.key_bytes).rsplitn(2, '-').last().unwrap_or(""), len_class(*l))); } }
        if i < 6 {
            run.sample(json!({"variant": c.variant(), "labels": c.labels, "user_password": show(&c.upw), "owner_password": show(&c.opw), "P": c.p,
                "objects": c.items.iter().map(|it| format!("{} {}{}", it.nr, it.gen, if it.in_objstm { " (objstm)" } else { "" })).collect::<Vec<_>>(), "pdf_len": b.bytes.len(), "failed": any}));
        }
    });
    // phase 2: shrink a bounded, deterministic selection of failures per rough key; failures that the signatures
    // found so far explain (same class and error kind, handler in the group, signature labels present in the
    // document) are only counted; the unexplained rest is selected again, up to four rounds.
    let mut found = found.into_inner().unwrap();
    found.sort_by(|a, b| (a.idx, a.kind, a.cfg.name(), &a.fail.class).cmp(&(b.idx, b.kind, b.cfg.name(), &b.fail.class)));
    let mut raw_labels: BTreeMap<u64, String> = BTreeMap::new();
    for f in &found {
        raw_labels.entry(f.idx).or_insert_with(|| { let mut s = Src::replay(&f.tape); gen_case(&mut s, f.force_h, f.huge).labels });
    }
    let per_key = run.n(3, 8) as usize;
    let budget = 300;
    let mut sigs: Vec<SigInfo> = Vec::new();
    let mut rest = found;
    let mut deferred: Vec<Found> = Vec::new();
    for round in 0..4 {
        let mut groups: BTreeMap<String, Vec<Found>> = BTreeMap::new();
        for f in rest {
            let rl: Vec<&str> = raw_labels[&f.idx].split('+').collect();
            if let Some(s) = sigs.iter().find(|s| explains(s, &f, &rl)) { run.count(&format!("failures-explained-by:{}", s.sig)); continue; }
            // wrong-password-other-error waits for the load-error signatures of the first round
            if round == 0 && f.fail.class.starts_with("wrong-password-other-error") { deferred.push(f); continue; }
            let key = format!("{}|{}|{}|{}", HS[f.force_h].name(0).rsplitn(2, '-').last().unwrap_or(""), f.kind.name(), if f.cfg.tolerant { "tolerant" } else { "strict" }, f.fail.class);
            groups.entry(key).or_default().push(f);
        }
        if groups.is_empty() && deferred.is_empty() { rest = Vec::new(); break; }
        let mut todo: Vec<Found> = Vec::new();
        rest = std::mem::take(&mut deferred);
        for (_, v) in groups {
            let mut seen_idx = Vec::new();
            for f in v {
                if !seen_idx.contains(&f.idx) && seen_idx.len() < per_key { seen_idx.push(f.idx); todo.push(f); } else { rest.push(f); }
            }
        }
        run.add(&format!("failures:shrunk-in-round-{}", round + 1), todo.len() as u64);
        let new: Mutex<Vec<SigInfo>> = Mutex::new(Vec::new());
        par_for(todo.len() as u64, |k| if let Some(s) = report(run, &todo[k as usize], budget) { new.lock().unwrap().push(s); });
        let mut new = new.into_inner().unwrap();
        new.sort_by(|a, b| a.sig.cmp(&b.sig));
        sigs.extend(new);
    }
    if !rest.is_empty() {
        let rl_rest = rest.iter().filter(|f| { let rl: Vec<&str> = raw_labels[&f.idx].split('+').collect(); !sigs.iter().any(|s| explains(s, f, &rl)) }).count();
        run.add("failures:neither-shrunk-nor-explained", rl_rest as u64);
    }
    // thorough: the same quick workload once more under the AddressSanitizer build (memory errors in the library or its dependencies)
    if !run.quick() { crate::lanes::asan_rerun(run); }
}
