//! C02 — the newest cross-reference entry for an object always wins.
use crate::casecheck::check_case;
use crate::doc::{root_kind, CFGS};
use crate::mkpdf::{self, dict, name, rf, Obj, W};
use crate::panicmon::guard;
use crate::par::par_for;
use crate::rng::{fnv, Rng};
use crate::run::{show, Run};
use crate::tape::Src;
use crate::with_file;
use pdf::object::{PlainRef, Resolve};
use pdf::primitive::Primitive;
use serde_json::{json, Value};
use std::collections::BTreeMap;

#[derive(Clone, Copy, Debug, PartialEq, Eq)]
pub enum Mention { Direct, Compressed, Free }
#[derive(Clone, Debug)]
pub struct SecPlan { stream_format: bool, mentions: Vec<(u32, Mention)>, split: bool, filter: u8, new_root: bool, grow: u32, /// generation written for an entry that frees an object: 0 = old generation + 1, 1 = old generation, 2 = 65535 (number never to be re-used)
    free_gen: u8,
    /// an update in stream format writes its cross-reference stream as a new version of the previous section's cross-reference stream object
    reuse_xref_nr: bool,
    /// a stream-format section whose entries are all ordinary in-use entries is written with /W [0 n m] (type field omitted)
    omit_type_field: bool,
    /// /Index left out when it would be the default [0 Size]; 8-byte fields
    omit_default_index: bool, wide_fields: bool }
#[derive(Clone, Debug)]
pub struct Plan { n_objs: u32, sections: Vec<SecPlan> }

#[derive(Clone, Copy, Debug, PartialEq)]
pub enum State { Undefined, Value { rev: u32, gen: u16 }, Free { gen: u16 } }

pub struct Built { pub bytes: Vec<u8>, model: BTreeMap<u32, State>, size: u32, root: u32, id0: Vec<u8>, info_title: String, prev: Option<usize>, labels: Vec<String>, mentions_per_obj: usize }

impl Built {
    /// object numbers below /Size that designate no object in the newest revision: (number, Some(generation of the free entry) | None = no entry at all)
    pub fn unused_numbers(&self) -> Vec<(u32, Option<u16>)> {
        (1..self.size).filter_map(|n| match self.model.get(&n) { Some(State::Free { gen }) => Some((n, Some(*gen))), None | Some(State::Undefined) => Some((n, None)), _ => None }).collect()
    }
}

fn tracked(n: u32, rev: u32, extra: Option<Obj>) -> Obj {
    let mut items = vec![("N", Obj::Int(n as i64)), ("Rev", Obj::Int(rev as i64)), ("Tag", mkpdf::st(&format!("obj {} written by section {}", n, rev)))];
    if let Some(Obj::Dict(d)) = extra { let mut o = dict(items); if let Obj::Dict(ref mut dd) = o { for (k, v) in d { dd.insert(0, (k, v)); } } return o; }
    dict(items.drain(..).collect())
}

/// Build the file for a plan. Object 1 = catalog, 2 = page tree root (both may be rewritten by updates);
/// tracked objects 3..=n_objs; helper objects (object streams, xref streams, new catalogs, info dicts) get fresh numbers.
pub fn build(plan: &Plan) -> Built {
    let mut w = W::new(b"", "1.6");
    let mut state: BTreeMap<u32, State> = BTreeMap::new();
    let mut next_free_nr = plan.n_objs + 1;
    let mut last_xref_nr: Option<u32> = None;
    let mut root = 1u32;
    let mut size = 0u32;
    let mut labels: Vec<String> = Vec::new();
    let mut last_trailer = (Vec::new(), String::new());
    let mut hist: BTreeMap<u32, Vec<(Mention, bool)>> = BTreeMap::new();
    for (si, sec) in plan.sections.iter().enumerate() {
        let rev = si as u32;
        let mut members: Vec<(u32, Obj)> = Vec::new();
        let mut free_changed = si == 0;
        let mut mentions = sec.mentions.clone();
        if si == 0 {
            // the base section defines catalog and page tree
            mentions.retain(|(k, m)| !(*k <= 2 && *m == Mention::Free));
            for n in [1u32, 2] { if !mentions.iter().any(|(k, _)| *k == n) { mentions.push((n, Mention::Direct)); } }
        }
        for (n, m) in mentions {
            let cur = *state.get(&n).unwrap_or(&State::Undefined);
            let body = |n: u32| -> Obj {
                match n {
                    1 => tracked(1, rev, Some(dict(vec![("Type", name("Catalog")), ("Pages", rf(2))]))),
                    2 => tracked(2, rev, Some(dict(vec![("Type", name("Pages")), ("Count", Obj::Int(0)), ("Kids", Obj::Arr(vec![]))]))),
                    _ => tracked(n, rev, None),
                }
            };
            match (m, cur) {
                (Mention::Free, State::Value { gen, .. }) if n > 2 => {
                    // writers differ on the generation of a free entry (most add one; some, e.g. for objects that lived in an
                    // object stream, write the old generation): either way the object is free now
                    state.insert(n, State::Free { gen: match sec.free_gen { 1 => gen, 2 => 65535, _ => gen + 1 } }); free_changed = true;
                    if sec.free_gen == 1 { labels.push("free-entry-keeps-generation".into()); }
                    if sec.free_gen == 2 { labels.push("free-entry-generation-65535".into()); }
                    hist.entry(n).or_default().push((m, sec.stream_format));
                }
                (Mention::Free, State::Undefined) if si == 0 && n > 2 => {
                    // a never-used number listed as free in the base table
                    state.insert(n, State::Free { gen: 0 }); free_changed = true;
                    hist.entry(n).or_default().push((m, sec.stream_format));
                }
                (Mention::Free, _) => {}
                // a number freed with generation 65535 is never used again (7.5.4)
                (_, State::Free { gen: 65535 }) => {}
                (Mention::Compressed, State::Undefined) | (Mention::Compressed, State::Value { gen: 0, .. }) if sec.stream_format => {
                    members.push((n, body(n)));
                    state.insert(n, State::Value { rev, gen: 0 });
                    hist.entry(n).or_default().push((m, true));
                }
                (Mention::Compressed, _) | (Mention::Direct, _) => {
                    let gen = match cur { State::Value { gen, .. } => gen, State::Free { gen } => { free_changed = true; gen }, State::Undefined => 0 };
                    w.obj(n, gen, &body(n));
                    state.insert(n, State::Value { rev, gen });
                    hist.entry(n).or_default().push((Mention::Direct, sec.stream_format));
                }
            }
        }
        if !members.is_empty() {
            let stm = next_free_nr; next_free_nr += 1;
            let enc: &dyn Fn(&[u8]) -> (Vec<(Vec<u8>, Obj)>, Vec<u8>) = match sec.filter { 0 => &mkpdf::no_filter, _ => &mkpdf::flate_filter };
            w.objstm(stm, &members, b"\n", 0, enc);
            state.insert(stm, State::Value { rev: 1000 + rev, gen: 0 });
        }
        if sec.new_root && si > 0 {
            let nr = next_free_nr; next_free_nr += 1;
            w.obj(nr, 0, &tracked(nr, rev, Some(dict(vec![("Type", name("Catalog")), ("Pages", rf(2))]))));
            state.insert(nr, State::Value { rev, gen: 0 });
            root = nr;
        }
        // info dictionary of this section
        let info_nr = next_free_nr; next_free_nr += 1;
        let title = format!("info of section {}", si);
        w.obj(info_nr, 0, &dict(vec![("Title", mkpdf::st(&title))]));
        state.insert(info_nr, State::Value { rev: 2000 + rev, gen: 0 });
        if free_changed {
            // re-emit the free list: head 0 -> ascending free numbers -> 0
            let frees: Vec<(u32, u16)> = state.iter().filter_map(|(n, s)| if let State::Free { gen } = s { Some((*n, *gen)) } else { None }).collect();
            let first = frees.first().map(|f| f.0).unwrap_or(0);
            w.free(0, first, 65535);
            for (i, (n, gen)) in frees.iter().enumerate() { w.free(*n, frees.get(i + 1).map(|f| f.0).unwrap_or(0), *gen); }
        }
        let xref_nr = if sec.stream_format {
            match last_xref_nr { Some(n) if sec.reuse_xref_nr && si > 0 => { labels.push("xref-stream-number-reused".into()); Some(n) } _ => { let n = next_free_nr; next_free_nr += 1; Some(n) } }
        } else { None };
        if xref_nr.is_some() { last_xref_nr = xref_nr; }
        size = size.max(next_free_nr) + sec.grow;
        next_free_nr = next_free_nr.max(size - sec.grow); // numbers in the slack stay undefined
        let id0 = format!("id-{}-{}", si, plan.n_objs).into_bytes();
        let tr: Vec<(Vec<u8>, Obj)> = vec![(b"Root".to_vec(), rf(root)), (b"Info".to_vec(), rf(info_nr)),
            (b"ID".to_vec(), Obj::Arr(vec![Obj::Str(id0.clone()), Obj::Str(b"second".to_vec())]))];
        let split: Vec<u32> = if sec.split { w.pending.keys().cloned().filter(|k| k % 2 == 1).collect() } else { vec![] };
        w.omit_type_field = sec.omit_type_field; w.omit_index_when_default = sec.omit_default_index; w.wide_fields = sec.wide_fields;
        if sec.wide_fields && xref_nr.is_some() { labels.push("xref-stream-8-byte-fields".into()); }
        if sec.omit_type_field && xref_nr.is_some() && w.pending.values().all(|e| matches!(e, mkpdf::XEntry::InUse { .. })) { labels.push("xref-stream-without-type-field".into()); }
        match xref_nr {
            Some(nr) => {
                let enc: &dyn Fn(&[u8]) -> (Vec<(Vec<u8>, Obj)>, Vec<u8>) = match sec.filter { 2 => &mkpdf::no_filter, _ => &mkpdf::flate_filter };
                w.xref_stream(nr, tr, size, &split, enc);
                state.insert(nr, State::Value { rev: 3000 + rev, gen: 0 });
            }
            None => { w.xref_table(tr, size, &split); }
        }
        last_trailer = (id0, title);
    }
    // labels: per object with >= 2 mentions, the newest transition
    let mut multi = 0;
    for (_, h) in hist.iter() {
        if h.len() >= 2 {
            multi += 1;
            let (m_new, f_new) = h[h.len() - 1];
            let (m_old, f_old) = h[h.len() - 2];
            labels.push(format!("{:?}@{}<-{:?}@{}", m_new, if f_new { "stream" } else { "table" }, m_old, if f_old { "stream" } else { "table" }));
        }
    }
    labels.sort(); labels.dedup();
    let prev = if plan.sections.len() > 1 { Some(0) } else { None };
    Built { bytes: w.buf, model: state, size, root, id0: last_trailer.0, info_title: last_trailer.1, prev, labels, mentions_per_obj: multi }
}

pub fn gen_plan(s: &mut Src, max_objs: u32, max_updates: u32) -> Plan {
    let n_objs = 3 + s.draw(max_objs - 2);
    let n_sec = 1 + s.draw(max_updates + 1);
    let mut sections = Vec::new();
    for si in 0..n_sec {
        let stream_format = s.draw(2) == 1;
        let mut mentions = Vec::new();
        for n in 1..=n_objs {
            let p = if si == 0 { 4 } else { 2 };
            if s.draw(5) < p {
                let m = match s.draw(6) { 0 | 1 => Mention::Compressed, 2 => Mention::Free, _ => Mention::Direct };
                mentions.push((n, m));
            }
        }
        // random order inside the section
        for i in (1..mentions.len()).rev() { let j = s.draw(i as u32 + 1) as usize; mentions.swap(i, j); }
        sections.push(SecPlan { stream_format, mentions, split: s.draw(3) == 0, filter: s.draw(3) as u8, new_root: s.draw(6) == 0, grow: if s.draw(4) == 0 { 1 + s.draw(3) } else { 0 }, free_gen: [0u8, 0, 0, 1, 1, 2][s.draw(6) as usize], reuse_xref_nr: s.draw(4) == 0, omit_type_field: s.draw(3) == 0, omit_default_index: s.draw(2) == 0, wide_fields: s.draw(5) == 0 });
    }
    Plan { n_objs, sections }
}

fn err_line(e: &pdf::PdfError) -> String { format!("{}", crate::doc::root_cause(e)).lines().next().unwrap_or("").chars().take(90).collect() }

fn oracle(plan: &Plan) -> Option<(String, String)> {
    let b = build(plan);
    for cfg in CFGS {
        let r = guard(|| -> Option<(String, String)> { with_file!(b.bytes.clone(), cfg, b"", |f| {
            let f = match f { Ok(f) => f, Err(e) => return Some(("load-error".into(), format!("{}: {}", root_kind(&e), err_line(&e)))) };
            let res = f.resolver();
            for n in 0..b.size + 3 {
                let st = *b.model.get(&n).unwrap_or(&State::Undefined);
                let gen = match st { State::Value { gen, .. } | State::Free { gen } => gen as u64, _ => 0 };
                let got = res.resolve(PlainRef { id: n as u64, gen });
                match (st, got) {
                    (State::Value { rev, .. }, Ok(p)) => {
                        if rev >= 1000 { continue; } // helper objects (object/xref streams, info): only that they resolve
                        let d = match &p { Primitive::Dictionary(d) => d, Primitive::Stream(s) => &s.info, _ => return Some(("wrong-value".into(), format!("object {} is not a dictionary", n))) };
                        let (gn, gr) = (d.get("N").and_then(|x| x.as_integer().ok()), d.get("Rev").and_then(|x| x.as_integer().ok()));
                        if gn != Some(n as i32) { return Some(("wrong-value".into(), format!("object {}: /N is {:?}", n, gn))); }
                        if gr != Some(rev as i32) {
                            let cls = if gr.map(|g| (g as u32) < rev).unwrap_or(false) { "stale-value" } else { "wrong-value" };
                            return Some((cls.into(), format!("object {}: newest section {} but /Rev {:?} was returned", n, rev, gr)));
                        }
                    }
                    (State::Value { rev, .. }, Err(e)) => return Some(("error-instead-of-value".into(), format!("object {} (section {}): {}: {}", n, rev, root_kind(&e), err_line(&e)))),
                    (_, Ok(p)) => {
                        let rev = match &p { Primitive::Dictionary(d) => d.get("Rev").and_then(|x| x.as_integer().ok()), _ => None };
                        return Some(("value-instead-of-error".into(), format!("object {} is {:?} in the newest mention but resolve returned a value (/Rev {:?})", n, st, rev)));
                    }
                    (_, Err(e)) => {
                        let k = root_kind(&e);
                        if !["FreeObject", "NullRef", "UnspecifiedXRefEntry"].contains(&k.as_str()) {
                            return Some(("wrong-error-kind".into(), format!("object {} ({:?}): {}: {}", n, st, k, err_line(&e))));
                        }
                    }
                }
            }
            // trailer of the newest section
            let t = &f.trailer;
            if t.root.get_ref().get_inner().id != b.root as u64 { return Some(("wrong-trailer".into(), format!("trailer root is {} expected {}", t.root.get_ref().get_inner().id, b.root))); }
            if t.size != b.size as i32 { return Some(("wrong-trailer".into(), format!("trailer size {} expected {}", t.size, b.size))); }
            if t.id.get(0).map(|s| s.as_bytes().to_vec()) != Some(b.id0.clone()) { return Some(("wrong-trailer".into(), "trailer /ID is not the newest section's".into())); }
            match &t.info_dict { Some(i) if i.title.as_ref().map(|s| s.to_string_lossy()) == Some(b.info_title.clone()) => {}, _ => return Some(("wrong-trailer".into(), "trailer /Info is not the newest section's".into())) }
            if t.prev_trailer_pos.is_some() != b.prev.is_some() { return Some(("wrong-trailer".into(), format!("trailer /Prev {:?}", t.prev_trailer_pos))); }
            None
        }) });
        match r {
            Ok(None) => {}
            Ok(Some((c, d))) => return Some((c, format!("[{}] {}", cfg.name(), d))),
            Err(p) => return Some((p.signature(), p.describe())),
        }
    }
    None
}

fn witness(plan: &Plan) -> Value {
    let b = build(plan);
    json!({"plan": format!("{:?}", plan), "transitions": b.labels, "file": show(&b.bytes[..b.bytes.len().min(3000)])})
}

/// like check_case but the signature uses the transition labels of the shrunk plan
fn check_plan(run: &Run, s: Src, max_objs: u32, max_updates: u32, sample: bool) {
    let gen = move |s: &mut Src| { let p = gen_plan(s, max_objs, max_updates); let b = build(&p); for l in b.labels { s.label(Box::leak(l.into_boxed_str())); } p };
    let params = json!({"max_objs": max_objs, "max_updates": max_updates});
    check_case(run, "C02", "history", s, &gen, &oracle, &witness, &|p, _| {
        let b = build(p);
        run.nontrivial(fnv(&b.bytes));
        if b.mentions_per_obj > 0 { run.count("histories_with_object_mentioned_by_>=2_sections"); }
        for l in &b.labels { run.count(&format!("transition:{}", l)); }
        run.count(&format!("sections:{}", p.sections.len()));
        if sample { run.sample(json!({"plan": format!("{:?}", p), "transitions": b.labels})); }
    }, params);
}

/// Re-run a stored witness (choice tape + generator parameters) against the current tree.
pub fn replay(_prefix: &str, tape: &[u32], params: &Value) -> Option<Option<(String, String)>> {
    let (mo, mu) = (params["max_objs"].as_u64()? as u32, params["max_updates"].as_u64()? as u32);
    let mut s = Src::replay(tape);
    let plan = gen_plan(&mut s, mo, mu);
    Some(oracle(&plan))
}

fn exhaustive(run: &Run, n_sections: usize) {
    // 2 tracked objects (3 and 4) x n sections x {absent, direct, compressed, free} x 2 formats
    let opts = [None, Some(Mention::Direct), Some(Mention::Compressed), Some(Mention::Free)];
    let per_sec = 2 * 4 * 4; // format x obj3 x obj4
    let total = (per_sec as u64).pow(n_sections as u32) * 3u64.pow(n_sections as u32) * (1 << n_sections);
    par_for(total, |code| {
        let k3 = 3u64.pow(n_sections as u32);
        let code_keep = code % k3;
        let code_reuse = (code / k3) % (1 << n_sections);
        let mut code = code / k3 >> n_sections;
        let mut sections = Vec::new();
        for _ in 0..n_sections {
            let c = code % per_sec as u64; code /= per_sec as u64;
            let stream_format = c % 2 == 1;
            let (a, b) = (opts[((c / 2) % 4) as usize], opts[((c / 8) % 4) as usize]);
            let mut mentions = Vec::new();
            if let Some(m) = a { mentions.push((3, m)); }
            if let Some(m) = b { mentions.push((4, m)); }
            sections.push(SecPlan { stream_format, mentions, split: false, filter: 0, new_root: false, grow: 0, free_gen: ((code_keep / 3u64.pow(sections.len() as u32)) % 3) as u8, reuse_xref_nr: (code_reuse >> sections.len()) & 1 == 1, omit_type_field: sections.len() % 2 == 1, omit_default_index: sections.len() % 2 == 0, wide_fields: false });
        }
        let plan = Plan { n_objs: 4, sections };
        // well-formedness: skip plans whose mentions would be dropped by build (compressed in a table section)
        if plan.sections.iter().any(|s| !s.stream_format && s.mentions.iter().any(|(_, m)| *m == Mention::Compressed)) { return; }
        // the re-use flag means something only for a stream-format update that follows a stream-format section; the keep flag only where a section frees
        if plan.sections.iter().enumerate().any(|(i, s)| s.reuse_xref_nr && (i == 0 || !s.stream_format || !plan.sections[..i].iter().any(|p| p.stream_format))) { return; }
        if plan.sections.iter().any(|s| s.free_gen != 0 && !s.mentions.iter().any(|(_, m)| *m == Mention::Free)) { return; }
        run.eval();
        let b = build(&plan);
        run.nontrivial(fnv(&b.bytes));
        for l in &b.labels { run.count(&format!("transition:{}", l)); }
        if let Some((cls, detail)) = oracle(&plan) {
            let sig = format!("C02|history|{}|{}", b.labels.join("+"), cls);
            run.violation(&sig, &detail, witness(&plan));
        }
    });
    run.exhaustive(&format!("2 tracked objects x {} sections x {{absent, direct, compressed, free}} x {{table, stream}} x {{free entry adds one to the generation / keeps it / writes 65535}} x {{fresh / re-used xref stream number}} (well-formed subset)", n_sections), true);
}

pub fn run(run: &Run) {
    run.rule("update histories: base + 0-4 incremental sections, each a classic table or xref stream, mentioning objects as direct / compressed (fresh object stream, optional Flate) / free with spec-conformant generation numbers, free list, subsection splitting, /Size growth, changing /Root, per-section /ID and /Info; every written value carries (/N, /Rev) so a read identifies the write; model = replay oldest→newest; all object numbers 0..Size+2 resolved in 4 configurations; trailer compared with the newest section. distinct_nontrivial = distinct files; transition counters show which (newer<-older) storage pairs occurred");
    run.assume("generated files are well-formed incremental updates (mkpdf); free entries of helper numbers and the free-list links follow ISO 32000-1 7.5.4");
    exhaustive(run, 2);
    if !run.quick() { exhaustive(run, 3); }
    let n = run.n(40_000, 600_000);
    let (mo, mu) = if run.quick() { (10, 3) } else { (22, 3) };
    par_for(n, |i| {
        run.eval();
        check_plan(run, Src::fresh(Rng::derive(run.seed, 2, i)), mo, mu, i < 5);
    });
    // thorough: the same quick workload once more under the AddressSanitizer build (memory errors in the library or its dependencies)
    if !run.quick() { crate::lanes::asan_rerun(run); }
}
