//! C02 — not built yet.
use crate::run::Run;
pub fn run(_run: &Run) { eprintln!("C02: check not built yet"); std::process::exit(2); }
