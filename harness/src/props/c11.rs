//! C11 — an object's value does not depend on how it is stored.
use crate::casecheck::check_case;
use crate::doc::{root_kind, CFGS};
use crate::mkpdf::{self, name, rf, Obj, W};
use crate::panicmon::guard;
use crate::par::par_for;
use crate::printer::Printer;
use crate::refimpl::codec;
use crate::rng::{fnv, Rng};
use crate::run::{show, Run};
use crate::tape::Src;
use crate::val::{brief_v, gen_value, matches, GenOpts, V};
use crate::with_file;
use pdf::object::{PlainRef, Ref, Resolve, Stream};
use pdf::primitive::Primitive;
use serde_json::{json, Value};
use std::cell::RefCell;

fn plain(v: &V) -> Vec<u8> { let mut s = Src::replay(&[]); let mut p = Printer::new(&mut s); p.first_token(); p.value(v); p.out }

#[derive(Debug)]
struct Case {
    v: V, position: u8, n_members: usize, trailing_ws: u8, pad_first: usize, header_tight: bool, long_run: bool, filters: Vec<u8>, filter_tape: Vec<u32>,
    // stream part
    stream_data: Vec<u8>, length_mode: u8,
}
const FNAMES: [&str; 5] = ["ASCIIHexDecode", "ASCII85Decode", "RunLengthDecode", "LZWDecode", "FlateDecode"];

fn gen_case(s: &mut Src) -> Case {
    let v = gen_value(s, &GenOpts { depth: 2, refs: true, max_str: 10, wide_names: false }, 0);
    // containers nested around the depth the reader supports (20): the limit must be the same for both storage forms
    let v = match s.alt(12, &["v_ordinary_depth", "v_nested_18", "v_nested_19", "v_nested_20"]) {
        0 => v,
        k => { let depth = 17 + k; let mut x = V::Int(7); for i in 0..depth { x = if i % 2 == 0 { V::Arr(vec![x]) } else { V::Dict(vec![("K".into(), x)]) }; } x }
    };
    // an object whose whole value is a reference to one of this document's own objects could form a reference loop
    // (an error by design); keep top-level references pointing outside the document
    let v = match v { V::Ref(n, g) if n < 64 => V::Ref(n + 1000, g), v => v };
    let kind = match &v { V::Int(_) => "v_int", V::Real(_) => "v_real", V::Ref(..) => "v_ref", V::Name(_) => "v_name", V::Bool(_) | V::Null => "v_keyword", V::Str(_) => "v_string", V::Arr(_) => "v_array", V::Dict(_) => "v_dict" };
    if kind != "v_int" { s.label(kind); }
    // a handful of members most of the time; now and then hundreds or thousands (object streams of real files hold up to a few thousand)
    let n_members = if s.alt(30, &["few_members", "many_members"]) == 1 { *s.pick(&[100usize, 255, 256, 257, 511, 512, 513, 1023, 1024, 1025, 1026, 2000, 4095, 4096, 4097]) } else { 1 + s.draw(4) as usize };
    let position = if n_members == 1 { 2 } else { s.alt(1, &["pos_first", "pos_middle", "pos_last"]) as u8 };
    // members may also follow each other without any white-space: the offsets in the header delimit them
    let trailing_ws = match s.alt(2, &["trailing_ws", "no_trailing_ws", "members_not_separated"]) { 0 => 0u8, 1 => 1, _ => 2 };
    let pad_first = if s.alt(3, &["first_tight", "first_padded"]) == 1 { 1 + s.draw(3) as usize } else { 0 };
    let header_tight = s.alt(3, &["header_then_space", "header_touches_first_object"]) == 1;
    // one more member in front: a string of 200 equal bytes (a maximal run for RunLength, a long match for LZW/Flate)
    let long_run = s.alt(3, &["members_short", "member_with_long_run"]) == 1;
    let nf = s.alt(2, &["objstm_unfiltered", "objstm_one_filter", "objstm_two_filters"]);
    let mut filters = Vec::new();
    for _ in 0..nf { let k = s.draw(6) as u8; s.label(["f_AHx", "f_A85", "f_RL", "f_LZW", "f_Flate", "f_LZW_early0_with_parms"][k as usize]); filters.push(k); }
    let filter_tape: Vec<u32> = (0..24).map(|_| s.draw(64)).collect();
    let stream_data = s.bytes(50);
    let length_mode = s.alt(2, &["length_direct", "length_ref_direct", "length_ref_compressed"]) as u8;
    Case { v, position, n_members, trailing_ws, pad_first, header_tight, long_run, filters, filter_tape, stream_data, length_mode }
}

fn encode_chain(filters: &[u8], tape: &[u32], data: &[u8]) -> (Vec<(Vec<u8>, Obj)>, Vec<u8>) {
    if filters.is_empty() { return (vec![], data.to_vec()); }
    let mut s = Src::replay(tape);
    let mut cur = data.to_vec();
    for &k in filters.iter().rev() {
        // 5 = LZW written with /EarlyChange 0, which the reader only decodes with the filter's own /DecodeParms entry
        cur = match k { 0 => codec::hex_encode(&cur, &mut s), 1 => codec::a85_encode(&cur, &mut s), 2 => codec::rl_encode(&cur, &mut s), 3 => codec::lzw_encode(&cur, 1, &mut s), 5 => codec::lzw_encode(&cur, 0, &mut s), _ => codec::flate_encode(&cur, &mut s) };
    }
    let fname = |k: u8| name(if k == 5 { "LZWDecode" } else { FNAMES[k as usize] });
    let f = if filters.len() == 1 { fname(filters[0]) } else { Obj::Arr(filters.iter().map(|&k| fname(k)).collect()) };
    let mut d = vec![(b"Filter".to_vec(), f)];
    if filters.contains(&5) {
        let parm = |k: u8| if k == 5 { mkpdf::dict(vec![("EarlyChange", Obj::Int(0))]) } else { Obj::Null };
        d.push((b"DecodeParms".to_vec(), if filters.len() == 1 { parm(filters[0]) } else { Obj::Arr(filters.iter().map(|&k| parm(k)).collect()) }));
    }
    (d, cur)
}

/// twin documents: (direct, compressed). Object 5 is the value; object 10 the stream; 11 its length when indirect.
fn build(c: &Case) -> (Vec<u8>, Vec<u8>) {
    let sk = mkpdf::skeleton(1);
    let val = Obj::Raw(plain(&c.v));
    let stream_obj = |len: Obj| Obj::Stream(vec![(b"Length".to_vec(), len), (b"Kind".to_vec(), name("Test"))], c.stream_data.clone());
    // twin A: everything direct, classic table
    let a = {
        let mut objs = sk.clone();
        objs.push((5, val.clone()));
        objs.push((10, stream_obj(Obj::Int(c.stream_data.len() as i64))));
        mkpdf::simple_doc(&objs, 1, vec![])
    };
    // twin B: value inside an object stream; stream length per length_mode
    let b = {
        let mut w = W::new(b"", "1.5");
        w.free(0, 0, 65535);
        for (n, o) in &sk { w.obj(*n, 0, o); }
        let mut members: Vec<(u32, Obj)> = Vec::new();
        let idx = match c.position { 0 => 0, 1 => c.n_members / 2, _ => c.n_members - 1 };
        for i in 0..c.n_members {
            if i == idx { members.push((5, val.clone())); }
            else { members.push((20 + i as u32, if (i % 2 == 0) != c.header_tight { Obj::Int(i as i64 * 7) } else { mkpdf::dict(vec![("F", Obj::Int(i as i64))]) })); }
        }
        if c.long_run { members.insert(0, (19, Obj::Str(vec![b'a'; 200]))); }
        // enough incompressible bytes for the LZW code width to change (only then /EarlyChange matters)
        if c.filters.contains(&5) { members.insert(0, (18, Obj::Str((0..700u32).map(|i| (i.wrapping_mul(2654435761) >> 13) as u8).collect()))); }
        if c.length_mode == 2 { members.insert(0, (11, Obj::Int(c.stream_data.len() as i64))); }
        let tape = RefCell::new(c.filter_tape.clone());
        let enc = |d: &[u8]| encode_chain(&c.filters, &tape.borrow(), d);
        match c.trailing_ws { 2 => objstm_ws(&mut w, 6, &members, None, c.pad_first, c.header_tight, &enc), 0 => objstm_ws(&mut w, 6, &members, Some(b"\n"), c.pad_first, c.header_tight, &enc), _ => objstm_ws(&mut w, 6, &members, Some(b""), c.pad_first, c.header_tight, &enc) }
        match c.length_mode {
            0 => w.obj(10, 0, &stream_obj(Obj::Int(c.stream_data.len() as i64))),
            1 => { w.obj(11, 0, &Obj::Int(c.stream_data.len() as i64)); w.obj(10, 0, &stream_obj(rf(11))); }
            _ => w.obj(10, 0, &stream_obj(rf(11))),
        }
        w.xref_stream(30, vec![(b"Root".to_vec(), rf(1))], 31, &[], &mkpdf::flate_filter);
        w.buf
    };
    (a, b)
}

/// object stream with full control over the white-space: `sep` between members (None = members back to back, the last one
/// followed by nothing), `header_tight` = no white-space between the last integer of the header and the first object
/// (legal when that object starts with a delimiter; `/First` then equals the length of the header text)
fn objstm_ws(w: &mut W, nr: u32, members: &[(u32, Obj)], sep: Option<&[u8]>, pad_first: usize, header_tight: bool, encode: &dyn Fn(&[u8]) -> (Vec<(Vec<u8>, Obj)>, Vec<u8>)) {
    let mut body = Vec::new();
    let mut offs = Vec::new();
    for (i, (n, o)) in members.iter().enumerate() {
        offs.push((*n, body.len()));
        body.extend_from_slice(&mkpdf::obj_bytes(o));
        match sep { None => {}, Some(s) => { if i + 1 < members.len() { body.extend_from_slice(if s.is_empty() { b" " } else { s }); } else { body.extend_from_slice(s); } } }
    }
    let mut head = Vec::new();
    for (i, (n, o)) in offs.iter().enumerate() { if i > 0 { head.push(b' '); } head.extend_from_slice(format!("{} {}", n, o).as_bytes()); }
    let delim_first = body.first().map(|b| b"[<(/".contains(b)).unwrap_or(false);
    if !(header_tight && pad_first == 0 && delim_first) { head.push(b' '); }
    for _ in 0..pad_first { head.push(b'\n'); }
    let first = head.len();
    let mut plain = head; plain.extend_from_slice(&body);
    let (mut extra, data) = encode(&plain);
    let mut d: Vec<(Vec<u8>, Obj)> = vec![(b"Type".to_vec(), name("ObjStm")), (b"N".to_vec(), Obj::Int(members.len() as i64)), (b"First".to_vec(), Obj::Int(first as i64))];
    d.append(&mut extra);
    w.obj(nr, 0, &Obj::Stream(d, data));
    for (i, (n, _)) in members.iter().enumerate() { w.pending.insert(*n, mkpdf::XEntry::Compressed { stm: nr, idx: i as u32 }); }
}

fn el(e: &pdf::PdfError) -> String { format!("{}: {}", root_kind(e), format!("{}", crate::doc::root_cause(e)).lines().next().unwrap_or("")).chars().take(110).collect() }

fn oracle(c: &Case) -> Option<(String, String)> {
    let (a, b) = build(c);
    for cfg in CFGS {
        let r = guard(|| -> Option<(String, String)> {
            let mut results: Vec<Primitive> = Vec::new();
            for (which, bytes) in [("direct", &a), ("compressed", &b)] {
                let out = with_file!(bytes.clone(), cfg, b"", |f| {
                    let f = match f { Ok(f) => f, Err(e) => return Some(("load-error".into(), format!("{} twin: {}", which, el(&e)))) };
                    let res = f.resolver();
                    let p = match res.resolve(PlainRef { id: 5, gen: 0 }) { Ok(p) => p, Err(e) => return Some(("value-error".into(), format!("{} twin: resolve(5): {}", which, el(&e)))) };
                    if let Err(m) = matches(&p, &c.v, true) { return Some(("wrong-value".into(), format!("{} twin: {}", which, m))); }
                    // the stream
                    let st = match res.get::<Stream<()>>(Ref::new(PlainRef { id: 10, gen: 0 })) { Ok(s) => s, Err(e) => return Some(("stream-error".into(), format!("{} twin: get stream: {}", which, el(&e)))) };
                    match (**st.data()).data(&res) { Ok(d) if &d[..] == &c.stream_data[..] => {}, Ok(d) => return Some(("wrong-stream-data".into(), format!("{} twin: {} bytes instead of {}", which, d.len(), c.stream_data.len()))), Err(e) => return Some(("stream-error".into(), format!("{} twin: data: {}", which, el(&e)))) }
                    match res.resolve(PlainRef { id: 10, gen: 0 }) {
                        Ok(Primitive::Stream(ps)) => match ps.raw_data(&res) { Ok(d) if &d[..] == &c.stream_data[..] => {}, Ok(_) => return Some(("wrong-stream-data".into(), format!("{} twin: raw_data differs", which))), Err(e) => return Some(("stream-error".into(), format!("{} twin: raw_data: {}", which, el(&e)))) },
                        Ok(_) => return Some(("stream-error".into(), format!("{} twin: object 10 is not a stream", which))),
                        Err(e) => return Some(("stream-error".into(), format!("{} twin: resolve(10): {}", which, el(&e)))),
                    }
                    p
                });
                results.push(out);
            }
            if results[0] != results[1] { return Some(("twins-differ".into(), "resolve(5) differs between direct and compressed storage".into())); }
            None
        });
        match r { Ok(None) => {}, Ok(Some((k, d))) => return Some((k, format!("[{}] {}", cfg.name(), d))), Err(p) => return Some((p.signature(), p.describe())) }
    }
    None
}

fn witness(c: &Case) -> Value { let (_, b) = build(c); json!({"value": brief_v(&c.v), "case": format!("{:?}", c).chars().take(400).collect::<String>(), "compressed_twin": show(&b[..b.len().min(1500)])}) }

/// Re-run a stored witness (choice tape) against the current tree.
pub fn replay(prefix: &str, tape: &[u32], _params: &Value) -> Option<Option<(String, String)>> {
    if prefix != "twin" { return None; }
    let mut s = Src::replay(tape);
    let c = gen_case(&mut s);
    Some(oracle(&c))
}

pub fn run(run: &Run) {
    run.rule("twin documents per value (every Primitive kind incl. integers, reals, names, null, booleans, references, nested containers): stored as ordinary indirect object vs member of an object stream of 1-5 members (one case in 31: 100 to 4097 members) at first/middle/last position, with/without trailing white-space, /First tight or padded, object stream unfiltered or with 1-2 filters from {ASCIIHex, ASCII85, RunLength, LZW, Flate}; plus a stream whose /Length is direct, a reference to a direct integer, or to an integer inside an object stream. resolve() must agree between twins and with the written value; Stream::data/raw_data with the written bytes. 4 configurations. distinct_nontrivial = distinct compressed-twin files");
    run.assume("object-stream filters are encoded by the reference encoders of C05; values printed in the plain spelling");
    let n = run.n(40_000, 2_000_000);
    par_for(n, |i| {
        run.eval();
        check_case(run, "C11", "twin", Src::fresh(Rng::derive(run.seed, 11, i)), &gen_case, &oracle, &witness, &|c, s| {
            let (_, b) = build(c);
            run.nontrivial(fnv(&b));
            run.count_labels(&s.labels);
            if i < 5 { run.sample(json!({"value": brief_v(&c.v), "position": c.position, "members": c.n_members, "trailing_ws": c.trailing_ws, "filters": c.filters, "length_mode": c.length_mode})); }
        }, json!({}));
    });
    // thorough: the same quick workload once more under the AddressSanitizer build (memory errors in the library or its dependencies)
    if !run.quick() { crate::lanes::asan_rerun(run); }
}
