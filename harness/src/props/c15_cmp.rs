//! C15 — comparison of primitives: structural equivalence through the object store (`seq`) and the
//! schema-directed comparison that (1) names the innermost typed model / entry where two primitives
//! differ and (2) in `Covers` mode applies exactly the relaxations the statement allows
//! (omitted defaults, integer ≡ real of equal value) plus representation changes that the PDF
//! specification defines as equivalent (bare value ≡ one-element array for one-or-many entries,
//! equivalent spellings of one date, direct ≡ indirect object, null ≡ absent, empty map ≡ absent).
use super::c15_gen::{params_model, St};
use super::c15_schema::*;
use crate::refimpl::c15_date;
use pdf::object::Resolve;
use pdf::primitive::{Dictionary, PdfStream, Primitive};
use std::collections::BTreeMap;

#[derive(Clone, Copy, PartialEq, Eq, Debug)]
pub enum Mode { Exact, Covers }

#[derive(Clone, Debug)]
pub struct Diff {
    pub owner: String,
    pub field: String,
    /// "lost" | "changed" | "gained"
    pub class: &'static str,
    pub detail: String,
}

pub struct Cmp<'a> { pub st: &'a St }

/// PDF-like rendering for witnesses (streams with their dictionary and data)
pub fn render(p: &Primitive) -> String {
    match p {
        Primitive::Null => "null".into(),
        Primitive::Integer(i) => i.to_string(),
        Primitive::Number(f) => format!("{:?}", f),
        Primitive::Boolean(b) => b.to_string(),
        Primitive::String(s) => format!("({})", crate::run::show(s.as_bytes())),
        Primitive::Name(n) => format!("/{}", n.as_str()),
        Primitive::Reference(r) => format!("{} {} R", r.id, r.gen),
        Primitive::Array(v) => format!("[{}]", v.iter().map(render).collect::<Vec<_>>().join(" ")),
        Primitive::Dictionary(d) => render_dict(d),
        Primitive::Stream(s) => format!("{} stream[{}]", render_dict(&s.info),
            s.raw_data(&pdf::object::NoResolve).map(|d| crate::run::show(&d)).unwrap_or_else(|_| "in-file".into())),
    }
}
fn render_dict(d: &Dictionary) -> String { format!("<<{}>>", d.iter().map(|(k, v)| format!("/{} {}", k.as_str(), render(v))).collect::<Vec<_>>().join(" ")) }
fn short(p: &Primitive) -> String { let s = render(p); if s.chars().count() > 200 { format!("{}…", s.chars().take(200).collect::<String>()) } else { s } }

impl<'a> Cmp<'a> {
    /// follow references; an unresolvable reference stays a reference
    pub fn resolve(&self, p: &Primitive) -> Primitive {
        let mut cur = p.clone();
        for _ in 0..8 {
            match cur {
                Primitive::Reference(r) => match self.st.resolver().resolve(r) { Ok(v) => cur = v, Err(_) => return cur },
                _ => return cur,
            }
        }
        cur
    }
    fn data(&self, s: &PdfStream) -> Option<Vec<u8>> { s.raw_data(&self.st.resolver()).ok().map(|d| d.to_vec()) }

    /// structural equivalence: references are followed unless both sides name the same object, Integer(n) ≡ Number(n),
    /// dictionary order is irrelevant
    pub fn seq(&self, a: &Primitive, b: &Primitive, depth: u32) -> bool {
        use Primitive::*;
        if depth > 40 { return true; }
        match (a, b) {
            (Reference(x), Reference(y)) if x == y => true,
            (Reference(_), _) => { let ra = self.resolve(a); if matches!(ra, Reference(_)) { false } else { self.seq(&ra, b, depth + 1) } }
            (_, Reference(_)) => { let rb = self.resolve(b); if matches!(rb, Reference(_)) { false } else { self.seq(a, &rb, depth + 1) } }
            (Null, Null) => true,
            (Integer(i), Integer(j)) => i == j,
            (Integer(i), Number(f)) | (Number(f), Integer(i)) => (*i as f64) == (*f as f64),
            (Number(x), Number(y)) => x == y || (x.is_nan() && y.is_nan()),
            (Boolean(x), Boolean(y)) => x == y,
            (String(x), String(y)) => x == y,
            (Name(x), Name(y)) => x == y,
            (Array(x), Array(y)) => x.len() == y.len() && x.iter().zip(y).all(|(p, q)| self.seq(p, q, depth + 1)),
            (Dictionary(x), Dictionary(y)) => self.seq_dict(x, y, depth),
            (Stream(x), Stream(y)) => self.seq_dict(&x.info, &y.info, depth) && self.data(x).is_some() && self.data(x) == self.data(y),
            _ => false,
        }
    }
    fn seq_dict(&self, x: &Dictionary, y: &Dictionary, depth: u32) -> bool {
        x.len() == y.len() && x.iter().all(|(k, v)| y.get(k.as_str()).map(|w| self.seq(v, w, depth + 1)).unwrap_or(false))
    }

    fn fail<T>(&self, owner: &str, field: &str, class: &'static str, a: &Primitive, b: &Primitive) -> Result<T, Diff> {
        Err(Diff { owner: owner.into(), field: field.into(), class, detail: format!("{}  vs  {}", short(a), short(b)) })
    }

    /// schema-directed comparison of `a` (earlier form) against `b` (later form)
    pub fn cmp(&self, k: &K, a: &Primitive, b: &Primitive, mode: Mode, owner: &str, field: &str) -> Result<(), Diff> {
        if self.seq(a, b, 0) { return Ok(()); }
        let ra = self.resolve(a);
        let rb = self.resolve(b);
        let (owner, field) = match kind_owner(k) { Some(o) => (o, ""), None => (owner, field) };
        match k {
            K::M(n) | K::MT(n) => match (&ra, &rb) {
                (Primitive::Dictionary(da), Primitive::Dictionary(db)) => self.model(model(n), da, db, mode, &[]),
                _ => self.fail(owner, field, "changed", &ra, &rb),
            },
            K::Font | K::FontSub(_) => match (&ra, &rb) {
                (Primitive::Dictionary(da), Primitive::Dictionary(db)) => {
                    let sub = da.get("Subtype").and_then(|p| p.as_name().ok()).unwrap_or("");
                    match MODELS.get(format!("Font:{}", sub).as_str()) {
                        Some(m) => self.model(m, da, db, mode, &[]).map_err(|mut d| { if d.owner.starts_with("Font:") { d.owner = "Font".into(); } d }),
                        None => self.fail("Font", "Subtype", "changed", &ra, &rb),
                    }
                }
                _ => self.fail("Font", "", "changed", &ra, &rb),
            },
            K::PagesNode => match (&ra, &rb) {
                (Primitive::Dictionary(da), Primitive::Dictionary(db)) => {
                    let m = if da.get("Type").and_then(|p| p.as_name().ok()) == Some("Pages") { "PageTree" } else { "Page" };
                    self.model(model(m), da, db, mode, &[])
                }
                _ => self.fail("PagesNode", "", "changed", &ra, &rb),
            },
            K::Map(inner) => match (&ra, &rb) {
                (Primitive::Dictionary(da), Primitive::Dictionary(db)) => {
                    for (key, va) in da.iter() {
                        match db.get(key.as_str()) {
                            Some(vb) => self.cmp(inner, va, vb, mode, owner, field)?,
                            None => return self.fail(owner, field, "lost", va, &Primitive::Null),
                        }
                    }
                    if mode == Mode::Exact && da.len() != db.len() { return self.fail(owner, field, "gained", &ra, &rb); }
                    Ok(())
                }
                _ => self.fail(owner, field, "changed", &ra, &rb),
            },
            K::Many(inner, _) => {
                let list = |p: &Primitive| -> Option<Vec<Primitive>> {
                    match p { Primitive::Array(v) => Some(v.clone()), other => if mode == Mode::Covers { Some(vec![other.clone()]) } else { None } }
                };
                match (list(&ra), list(&rb)) {
                    (Some(va), Some(vb)) if va.len() == vb.len() => { for (x, y) in va.iter().zip(&vb) { self.cmp(inner, x, y, mode, owner, field)?; } Ok(()) }
                    _ => self.fail(owner, field, "changed", &ra, &rb),
                }
            }
            K::Pair(x, y) => match (&ra, &rb) {
                (Primitive::Array(va), Primitive::Array(vb)) if va.len() == 2 && vb.len() == 2 => {
                    self.cmp(x, &va[0], &vb[0], mode, owner, field)?;
                    self.cmp(y, &va[1], &vb[1], mode, owner, field)
                }
                _ => self.fail(owner, field, "changed", &ra, &rb),
            },
            K::Ref(inner, _) | K::MaybeRef(inner) | K::Lazy(inner) => self.cmp(inner, &ra, &rb, mode, owner, field),
            K::Stream(info, _) => match (&ra, &rb) {
                (Primitive::Stream(sa), Primitive::Stream(sb)) => self.stream(info, sa, sb, mode),
                _ => self.fail("Stream", "", "changed", &ra, &rb),
            },
            K::XObject => match (&ra, &rb) {
                (Primitive::Stream(sa), Primitive::Stream(sb)) => {
                    let info = match sa.info.get("Subtype").and_then(|p| p.as_name().ok()) { Some("Image") => "ImageDict", Some("Form") => "FormDict", _ => "PostScriptDict" };
                    self.stream(info, sa, sb, mode)
                }
                _ => self.fail("XObject", "", "changed", &ra, &rb),
            },
            K::Pattern => match (&ra, &rb) {
                (Primitive::Dictionary(da), Primitive::Dictionary(db)) => self.model(model("PatternDict"), da, db, mode, &[]),
                (Primitive::Stream(sa), Primitive::Stream(sb)) => self.stream("PatternDict", sa, sb, mode),
                _ => self.fail("Pattern", "", "changed", &ra, &rb),
            },
            K::ApEntry => match (&ra, &rb) {
                (Primitive::Stream(sa), Primitive::Stream(sb)) => self.stream("FormDict", sa, sb, mode),
                (Primitive::Dictionary(_), Primitive::Dictionary(_)) => self.cmp(&K::Map(Box::new(K::ApEntry)), &ra, &rb, mode, "AppearanceStreamEntry", ""),
                _ => self.fail("AppearanceStreamEntry", "", "changed", &ra, &rb),
            },
            K::Content => {
                let list = |p: &Primitive| -> Vec<Primitive> { match p { Primitive::Array(v) => v.clone(), other => vec![other.clone()] } };
                let (va, vb) = (list(&ra), list(&rb));
                let shape_ok = mode == Mode::Covers || matches!(ra, Primitive::Array(_)) == matches!(rb, Primitive::Array(_));
                if va.len() != vb.len() || !shape_ok { return self.fail("Content", "", "changed", &ra, &rb); }
                for (x, y) in va.iter().zip(&vb) { self.cmp(&K::Stream("", true), x, y, mode, "Content", "")?; }
                Ok(())
            }
            K::NumberTree(inner) => match (&ra, &rb) {
                (Primitive::Dictionary(da), Primitive::Dictionary(db)) => {
                    for (key, va) in da.iter() {
                        let vb = match db.get(key.as_str()) { Some(v) => v, None => return self.fail("NumberTree", key.as_str(), "lost", va, &Primitive::Null) };
                        if key.as_str() == "Nums" {
                            match (self.resolve(va), self.resolve(vb)) {
                                (Primitive::Array(x), Primitive::Array(y)) if x.len() == y.len() => {
                                    for (i, (p, q)) in x.iter().zip(&y).enumerate() {
                                        if i % 2 == 0 { if !self.seq(p, q, 0) { return self.fail("NumberTree", "Nums", "changed", p, q); } }
                                        else { self.cmp(inner, p, q, mode, "NumberTree", "Nums")?; }
                                    }
                                }
                                (x, y) => return self.fail("NumberTree", "Nums", "changed", &x, &y),
                            }
                        } else if !self.seq(va, vb, 0) { return self.fail("NumberTree", key.as_str(), "changed", va, vb); }
                    }
                    if mode == Mode::Exact && da.len() != db.len() { return self.fail("NumberTree", "", "gained", &ra, &rb); }
                    Ok(())
                }
                _ => self.fail("NumberTree", "", "changed", &ra, &rb),
            },
            K::Date if mode == Mode::Covers => match (&ra, &rb) {
                (Primitive::String(x), Primitive::String(y)) => match (c15_date::parse(x.as_bytes()), c15_date::parse(y.as_bytes())) {
                    (Ok(dx), Ok(dy)) if dx == dy => Ok(()),
                    _ => self.fail("Date", "", "changed", &ra, &rb),
                },
                _ => self.fail("Date", "", "changed", &ra, &rb),
            },
            K::ColorSpace if mode == Mode::Covers => {
                let (sa, sb) = (self.cs_sem(&ra, 0), self.cs_sem(&rb, 0));
                if sa.is_some() && sa == sb { Ok(()) } else { self.fail("ColorSpace", "", "changed", &ra, &rb) }
            }
            K::Encoding | K::CMapEncoding if mode == Mode::Covers => {
                if enc_sem(&ra).is_some() && enc_sem(&ra) == enc_sem(&rb) { Ok(()) } else { self.fail("Encoding", "", "changed", &ra, &rb) }
            }
            _ => {
                // leaf kinds and hand-written array/dictionary shapes: name the first differing key when both are dictionaries
                if let (Primitive::Dictionary(da), Primitive::Dictionary(db)) = (&ra, &rb) {
                    for (key, va) in da.iter() {
                        match db.get(key.as_str()) {
                            Some(vb) => if !self.seq(va, vb, 0) { return self.fail(owner, if field.is_empty() { key.as_str() } else { field }, "changed", va, vb); },
                            None => return self.fail(owner, if field.is_empty() { key.as_str() } else { field }, "lost", va, &Primitive::Null),
                        }
                    }
                    return self.fail(owner, field, "gained", &ra, &rb);
                }
                self.fail(owner, field, "changed", &ra, &rb)
            }
        }
    }

    /// meaning of a (writable) colour space: the /Indexed lookup table may be a string or a stream with the same bytes
    fn cs_sem(&self, p: &Primitive, depth: u32) -> Option<String> {
        match self.resolve(p) {
            Primitive::Name(n) => Some(format!("/{}", n.as_str())),
            Primitive::Array(v) if depth < 4 && v.len() == 4 && self.resolve(&v[0]).as_name().ok() == Some("Indexed") => {
                let base = self.cs_sem(&v[1], depth + 1)?;
                let hival = match self.resolve(&v[2]) { Primitive::Integer(i) => i, _ => return None };
                let bytes = match self.resolve(&v[3]) {
                    Primitive::String(s) => s.as_bytes().to_vec(),
                    Primitive::Stream(s) if s.info.get("Filter").is_none() => self.data(&s)?,
                    _ => return None,
                };
                Some(format!("Indexed {} {} {}", base, hival, crate::run::hex(&bytes)))
            }
            _ => None,
        }
    }

    fn absent_ok(&self, f: Option<&Field>, va: &Primitive) -> bool {
        let rv = self.resolve(va);
        if matches!(rv, Primitive::Null) { return true; }
        let Some(f) = f else { return false };
        if let Req::Def(dv) = &f.req {
            let d = match dv { Dv::I(i) => Primitive::Integer(*i), Dv::F(x) => Primitive::Number(*x), Dv::B(b) => Primitive::Boolean(*b) };
            if self.seq(&rv, &d, 0) { return true; }
        }
        if let (K::Map(_), Primitive::Dictionary(d)) = (&f.k, &rv) { if d.is_empty() { return true; } }
        false
    }

    /// dictionaries of one struct model; `skip` = keys handled by the caller
    pub fn model(&self, m: &Model, da: &Dictionary, db: &Dictionary, mode: Mode, skip: &[&str]) -> Result<(), Diff> {
        for (key, va) in da.iter() {
            let key = key.as_str();
            if skip.contains(&key) { continue; }
            let f = m.field(key);
            let fname = if f.is_some() || m.is_tag_key(key) { key } else if m.is_spec_extra(key) { "<spec-key>" } else { "<unknown>" };
            match db.get(key) {
                Some(vb) => match f {
                    Some(f) => self.cmp(&f.k, va, vb, mode, m.name, key)?,
                    None => if !self.seq(va, vb, 0) { return self.fail(m.name, fname, "changed", va, vb); },
                },
                None => {
                    if mode == Mode::Covers && self.absent_ok(f, va) { continue; }
                    return self.fail(m.name, fname, "lost", va, &Primitive::Null);
                }
            }
        }
        if mode == Mode::Exact {
            for (key, vb) in db.iter() {
                let key = key.as_str();
                if skip.contains(&key) { continue; }
                if da.get(key).is_none() {
                    let fname = if m.field(key).is_some() || m.is_tag_key(key) { key } else { "<unknown>" };
                    return self.fail(m.name, fname, "gained", &Primitive::Null, vb);
                }
            }
        }
        Ok(())
    }

    fn stream(&self, info: &str, sa: &PdfStream, sb: &PdfStream, mode: Mode) -> Result<(), Diff> {
        let (da, db) = (&sa.info, &sb.info);
        match (self.data(sa), self.data(sb)) {
            (Some(x), Some(y)) if x == y => {}
            _ => return Err(Diff { owner: "Stream".into(), field: "<data>".into(), class: "changed", detail: "stream data differs".into() }),
        }
        const SKEYS: &[&str] = &["Length", "Filter", "DecodeParms", "F", "FFilter", "FDecodeParms"];
        for &key in SKEYS {
            match (da.get(key), db.get(key)) {
                (None, None) => {}
                (None, Some(vb)) => if mode == Mode::Exact { return self.fail("Stream", key, "gained", &Primitive::Null, vb); },
                (Some(va), None) => {
                    let rv = self.resolve(va);
                    let trivially_absent = matches!(rv, Primitive::Null) || matches!(&rv, Primitive::Dictionary(d) if d.is_empty())
                        || matches!(&rv, Primitive::Array(v) if v.iter().all(|p| matches!(self.resolve(p), Primitive::Null)));
                    if !(mode == Mode::Covers && trivially_absent) { return self.fail("Stream", key, "lost", va, &Primitive::Null); }
                }
                (Some(va), Some(vb)) => match key {
                    "Filter" | "FFilter" => self.cmp(&K::Many(Box::new(K::Name), true), va, vb, mode, "Stream", key)?,
                    "DecodeParms" if mode == Mode::Covers => self.parms_cover(da, va, vb)?,
                    _ => if !self.seq(va, vb, 0) { return self.fail("Stream", key, "changed", va, vb); },
                },
            }
        }
        if info.is_empty() {
            // Stream<()> keeps nothing else
            if mode == Mode::Exact {
                for (key, va) in da.iter() {
                    if SKEYS.contains(&key.as_str()) { continue; }
                    match db.get(key.as_str()) { Some(vb) if self.seq(va, vb, 0) => {}, other => return self.fail("Stream", "<unknown>", "changed", va, other.unwrap_or(&Primitive::Null)) }
                }
                for (key, vb) in db.iter() { if !SKEYS.contains(&key.as_str()) && da.get(key.as_str()).is_none() { return self.fail("Stream", "<unknown>", "gained", &Primitive::Null, vb); } }
            }
            Ok(())
        } else {
            self.model(model(info), da, db, mode, SKEYS)
        }
    }

    /// every decode-parameter dictionary of the input must still belong to the same filter afterwards
    fn parms_cover(&self, da: &Dictionary, va: &Primitive, vb: &Primitive) -> Result<(), Diff> {
        let list = |p: &Primitive| -> Vec<Primitive> { match self.resolve(p) { Primitive::Array(v) => v, other => vec![other] } };
        let filters: Vec<String> = da.get("Filter").map(|f| list(f).iter().map(|p| self.resolve(p).as_name().unwrap_or("").to_string()).collect()).unwrap_or_default();
        let (pa, pb) = (list(va), list(vb));
        for (i, x) in pa.iter().enumerate() {
            let rx = self.resolve(x);
            match &rx {
                Primitive::Null => continue,
                Primitive::Dictionary(d) if d.is_empty() => continue,
                Primitive::Dictionary(dx) => {
                    let ry = pb.get(i).map(|y| self.resolve(y)).unwrap_or(Primitive::Null);
                    let Primitive::Dictionary(dy) = &ry else { return self.fail("Stream", "DecodeParms", "changed", va, vb) };
                    match filters.get(i).and_then(|f| params_model(f)) {
                        Some(pm) => self.model(model(pm), dx, dy, Mode::Covers, &[])?,
                        None => for (k, v) in dx.iter() { if !dy.get(k.as_str()).map(|w| self.seq(v, w, 0)).unwrap_or(false) { return self.fail("Stream", "DecodeParms", "changed", va, vb); } },
                    }
                }
                _ => return self.fail("Stream", "DecodeParms", "changed", va, vb),
            }
        }
        Ok(())
    }
}

/// owner name for kinds that are typed values of their own (hand-written pairs)
fn kind_owner(k: &K) -> Option<&'static str> {
    Some(match k {
        K::Rect => "Rectangle", K::Matrix => "Matrix", K::Date => "Date", K::Dest | K::MaybeNamedDest => "Dest", K::Action => "Action",
        K::Encoding | K::CMapEncoding => "Encoding", K::ColorSpace => "ColorSpace", K::CidToGid => "CidToGidMap",
        _ => return None,
    })
}

/// meaning of an /Encoding value of a simple font: (base encoding, code → glyph name); `None` for anything else (e.g. a CMap stream)
fn enc_sem(p: &Primitive) -> Option<(Option<String>, BTreeMap<i64, String>)> {
    let base = |n: &str| if n == "None" { None } else { Some(n.to_string()) };
    match p {
        Primitive::Name(n) => Some((base(n.as_str()), BTreeMap::new())),
        Primitive::Dictionary(d) => {
            let b = match d.get("BaseEncoding") { Some(Primitive::Name(n)) => base(n.as_str()), Some(_) => return None, None => None };
            let mut map = BTreeMap::new();
            if let Some(Primitive::Array(v)) = d.get("Differences") {
                let mut code = 0i64;
                for e in v {
                    match e { Primitive::Integer(i) => code = *i as i64, Primitive::Name(n) => { map.insert(code, n.as_str().to_string()); code += 1; } _ => return None }
                }
            } else if d.get("Differences").is_some() { return None; }
            Some((b, map))
        }
        _ => None,
    }
}
