//! C17 — bytes before the header do not change what is read.
use crate::corpus::{digest, valid_files, Sample};
use crate::doc::{root_kind, Cfg};
use crate::panicmon::guard;
use crate::par::par_for;
use crate::rng::{fnv, Rng};
use crate::run::{show, Run};
use crate::tape::Src;
use crate::with_file;
use pdf::file::ScanItem;
use pdf::object::{PlainRef, Resolve};
use serde_json::json;

/// everything observable that the statement mentions, as a list of (what, rendering)
fn observe(bytes: &[u8], pw: &[u8], cfg: Cfg, with_scan: bool) -> Result<Vec<(String, String)>, String> {
    let r = guard(|| -> Result<Vec<(String, String)>, String> { with_file!(bytes.to_vec(), cfg, pw, |f| {
        let f = f.map_err(|e| format!("load: {}: {}", root_kind(&e), format!("{}", crate::doc::root_cause(&e)).lines().next().unwrap_or("").to_string()))?;
        let res = f.resolver();
        let mut out = Vec::new();
        let t = &f.trailer;
        out.push(("trailer".to_string(), format!("size={} prev={:?} root={} id={:?} info={:?} encrypt={}", t.size, t.prev_trailer_pos, t.root.get_ref().get_inner().id,
            t.id.iter().map(|s| crate::run::hex(s.as_bytes())).collect::<Vec<_>>(), t.info_dict.as_ref().map(|i| format!("{:?}", i.title)), t.encrypt_dict.is_some())));
        out.push(("version".into(), format!("{:?}", f.version().map_err(|e| root_kind(&e)))));
        let size = t.size.max(0) as u64;
        for n in 0..size.min(3000) + 2 {
            let d = match res.resolve(PlainRef { id: n, gen: 0 }) { Ok(p) => digest(&p, &res), Err(e) => format!("Err({})", root_kind(&e)) };
            out.push((format!("obj {}", n), d));
        }
        let np = f.num_pages();
        out.push(("num_pages".into(), np.to_string()));
        for i in 0..np.min(12) {
            let d = match f.get_page(i) {
                Err(e) => format!("Err({})", root_kind(&e)),
                Ok(p) => {
                    let ops = match &p.contents { None => "none".to_string(), Some(c) => match c.operations(&res) { Ok(ops) => format!("{} ops #{:016x}", ops.len(), fnv(format!("{:?}", ops).as_bytes())), Err(e) => format!("Err({})", root_kind(&e)) } };
                    format!("media={:?} crop={:?} rotate={} ops={}", p.media_box().map_err(|e| root_kind(&e)), p.crop_box().map_err(|e| root_kind(&e)), p.rotate, ops)
                }
            };
            out.push((format!("page {}", i), d));
        }
        if with_scan {
            let mut items = Vec::new();
            for (k, it) in f.scan().enumerate() {
                if k > 5000 { break; }
                match it {
                    Ok(ScanItem::Object(r, p)) => items.push(format!("obj {} {}: {}", r.id, r.gen, digest(&p, &res))),
                    Ok(ScanItem::Trailer(d)) => items.push(format!("trailer {}", digest(&pdf::primitive::Primitive::Dictionary(d), &res))),
                    Err(e) => { items.push(format!("Err({})", root_kind(&e))); break; }
                }
            }
            out.push(("scan".into(), format!("{} items #{:016x}", items.len(), fnv(items.join("\n").as_bytes()))));
            out.push(("scan-first".into(), items.first().cloned().unwrap_or_default().chars().take(200).collect()));
        }
        Ok(out)
    }) });
    match r { Ok(x) => x, Err(p) => Err(format!("PANIC {}", p.signature())) }
}

fn make_prefix(kind: u64, len: usize, r: &mut Rng) -> Vec<u8> {
    let mut v: Vec<u8> = match kind % 6 {
        0 => vec![0u8; len],
        1 => vec![0xffu8; len],
        2 => r.bytes(len),
        3 => { let t = b"startxref 0\n%%EOF\nxref\n0 1\ntrailer << /Size 1 >>\n1 0 obj << /A 1 >> endobj\n"; (0..len).map(|i| t[i % t.len()]).collect() }
        4 => { let t = b"\r\n \t% junk mail header: From foo@bar\r\n"; (0..len).map(|i| t[i % t.len()]).collect() }
        // look-alikes of the header marker (without the dash) and of other structural keywords; ends in a partial marker
        _ => { let t = b"%PDF 1.4\n%PDF\n%PD %PDF_ %%EOF startxref\n"; let mut v: Vec<u8> = (0..len).map(|i| t[i % t.len()]).collect(); let tail = b"%PDF"; if len >= 4 { let n = v.len(); v[n - 4..].copy_from_slice(tail); } v }
    };
    // must not contain the header marker
    while let Some(p) = v.windows(5).position(|w| w == b"%PDF-") { v[p] = b'#'; }
    v
}

fn generated(seed: u64, k: u64) -> Sample {
    let mut s = Src::fresh(Rng::derive(seed, 1700, k));
    let plan = crate::props::c02::gen_plan(&mut s, 8, 3);
    let b = crate::props::c02::build(&plan);
    Sample { name: format!("generated-history-{}", k), bytes: b.bytes, password: vec![] }
}

/// A file laid out the way linearized files are: `startxref` names a cross-reference section near the start of the file whose
/// /Prev points FORWARD to the main section near the end (append-style histories only ever point backwards).
fn forward_prev(seed: u64, k: u64) -> Sample {
    let mut r = Rng::derive(seed, 1701, k);
    let mut out: Vec<u8> = b"%PDF-1.4\n%\xe2\xe3\xcf\xd3\n".to_vec();
    let mut off = [0usize; 6];
    let content = format!("BT /F1 {} Tf ({}) Tj ET", 8 + r.below(20), k);
    let put = |out: &mut Vec<u8>, off: &mut [usize; 6], n: usize, body: String| { off[n] = out.len(); out.extend_from_slice(format!("{} 0 obj\n{}\nendobj\n", n, body).as_bytes()); };
    put(&mut out, &mut off, 3, format!("<< /Type /Page /Parent 2 0 R /MediaBox [0 0 {} 792] /Contents 4 0 R /Resources << >> >>", 500 + r.below(200)));
    put(&mut out, &mut off, 4, format!("<< /Length {} >>\nstream\n{}\nendstream", content.len(), content));
    put(&mut out, &mut off, 5, format!("<< /Marker {} /Text (forward) >>", r.below(100000)));
    let a_at = out.len();
    let a_patch; // where the /Prev value goes (fixed width)
    {
        let mut t = String::from("xref\n3 3\n");
        for n in 3..6 { t.push_str(&format!("{:010} 00000 n \n", off[n])); }
        t.push_str("trailer\n<< /Size 6 /Root 1 0 R /Prev ");
        out.extend_from_slice(t.as_bytes());
        a_patch = out.len();
        out.extend_from_slice(b"0000000000 >>\n");
    }
    // distance between the two sections: anything from a few bytes to beyond the longest prefix
    let pad = match r.below(4) { 0 => r.below(40), 1 => r.below(2000), _ => r.below(800) } as usize;
    out.extend_from_slice(b"%");
    out.extend(std::iter::repeat(b'p').take(pad));
    out.extend_from_slice(b"\n");
    put(&mut out, &mut off, 1, "<< /Type /Catalog /Pages 2 0 R >>".to_string());
    put(&mut out, &mut off, 2, "<< /Type /Pages /Kids [3 0 R] /Count 1 >>".to_string());
    let b_at = out.len();
    let mut t = String::from("xref\n0 3\n0000000000 65535 f \n");
    for n in 1..3 { t.push_str(&format!("{:010} 00000 n \n", off[n])); }
    t.push_str("trailer\n<< /Size 3 >>\n");
    out.extend_from_slice(t.as_bytes());
    out[a_patch..a_patch + 10].copy_from_slice(format!("{:010}", b_at).as_bytes());
    out.extend_from_slice(format!("startxref\n{}\n%%EOF\n", a_at).as_bytes());
    Sample { name: format!("generated-forward-prev-{}-distance-{}", k, b_at - a_at), bytes: out, password: vec![] }
}

pub fn run(run: &Run) {
    run.rule("every loadable corpus file and generated multi-section files (classic/stream xref, /Prev chains, object streams; also files laid out like linearized ones: startxref names a section near the start whose /Prev points forward, at distances from a few bytes to 2 KB) x prefixes of every length 1..1019 (files up to 30 KB quick / 200 KB thorough; {1..16, 255, 256, 512, 1000, 1018, 1019} + random lengths otherwise) x contents {zeros, 0xFF, random, PDF-token-like text, mail-header-like, header look-alikes without the dash} never containing %PDF-; the prefixed file must load and give identical trailer, version, resolve(n) for all n (streams as dictionary + raw data), page boxes/ops and scan() items. distinct_nontrivial = distinct (file, prefix) pairs with prefix length > 0");
    run.assume("baseline = the same file without prefix read by the same library build; files whose unprefixed baseline does not load are skipped and listed");
    let mut samples = valid_files();
    let ngen = run.n(12, 400);
    for k in 0..ngen { samples.push(generated(run.seed, k)); }
    for k in 0..run.n(8, 60) { samples.push(forward_prev(run.seed, k)); }
    let cfg = Cfg { cached: false, tolerant: false };
    // baselines
    let mut work: Vec<(usize, usize, u64)> = Vec::new(); // (sample, len, kind)
    let fixed_lens: Vec<usize> = (1..=16).chain([255, 256, 512, 1000, 1018, 1019]).collect();
    let mut r = Rng::derive(run.seed, 17, 0);
    let mut exhaustive_files = 0;
    for (si, s) in samples.iter().enumerate() {
        let big = s.bytes.len() > 60_000;
        let lens: Vec<usize> = if big { vec![1, 7, 1019] } else if run.quick() { let mut v = fixed_lens.clone(); for _ in 0..3 { v.push(1 + r.below(1019) as usize); } v } else { let mut v = fixed_lens.clone(); for _ in 0..30 { v.push(1 + r.below(1019) as usize); } v };
        for (j, l) in lens.iter().enumerate() {
            let kinds: Vec<u64> = if run.quick() && !(j % 4 == 0) { vec![(si + j) as u64 % 6] } else { vec![0, 1, 2, 3, 4, 5] };
            for k in kinds { work.push((si, *l, k)); }
        }
        // every prefix length 1..=1019 (one content kind each): a slip between header-relative and absolute positions may
        // show for a single length only (e.g. the distance between two cross-reference sections)
        if s.bytes.len() <= if run.quick() { 30_000 } else { 200_000 } {
            for l in 1..=1019usize { if !lens.contains(&l) { work.push((si, l, (l as u64 + si as u64) % 6)); } }
            exhaustive_files += 1;
        }
    }
    run.exhaustive(&format!("all prefix lengths 1..=1019 for each of {} files (corpus files up to {} bytes and the generated files)", exhaustive_files, if run.quick() { 30_000 } else { 200_000 }), true);
    let baselines: Vec<Result<Vec<(String, String)>, String>> = {
        let slots: Vec<std::sync::Mutex<Option<Result<Vec<(String, String)>, String>>>> = samples.iter().map(|_| std::sync::Mutex::new(None)).collect();
        par_for(samples.len() as u64, |i| { let s = &samples[i as usize]; *slots[i as usize].lock().unwrap() = Some(observe(&s.bytes, &s.password, cfg, true)); });
        slots.into_iter().map(|m| m.into_inner().unwrap().unwrap()).collect()
    };
    for (s, b) in samples.iter().zip(&baselines) { if let Err(e) = b { run.count("baseline_not_loadable"); run.extra(&format!("skipped:{}", s.name), json!(e)); } else { run.count("baseline_loadable"); } }
    par_for(work.len() as u64, |wi| {
        let (si, len, kind) = work[wi as usize];
        let s = &samples[si];
        // domain: the header must stay within the first kilobyte (some corpus files already have junk before it)
        let own = s.bytes.windows(5).position(|w| w == b"%PDF-").unwrap_or(0);
        let len = len.min(1019usize.saturating_sub(own));
        if len == 0 { return; }
        let Ok(base) = &baselines[si] else { return };
        let mut r = Rng::derive(run.seed, 171, wi);
        let prefix = make_prefix(kind, len, &mut r);
        let mut bytes = prefix.clone();
        bytes.extend_from_slice(&s.bytes);
        run.eval();
        run.nontrivial(fnv(&prefix) ^ fnv(s.name.as_bytes()));
        run.count(&format!("prefix_kind:{}", kind));
        if wi < 4 { run.sample(json!({"file": s.name, "prefix_len": len, "prefix": show(&prefix[..prefix.len().min(40)])})); }
        let family = if s.name.starts_with("generated") { "generated" } else { s.name.as_str() };
        let wit = || json!({"file": s.name, "prefix_len": len, "prefix_kind": kind, "prefix_hex": crate::run::hex(&prefix[..prefix.len().min(64)])});
        match observe(&bytes, &s.password, cfg, true) {
            Err(e) if e.starts_with("PANIC ") => run.violation(&format!("C17|{}", &e[6..]), &format!("{} with {}-byte prefix: {}", s.name, len, e), wit()),
            Err(e) => run.violation("C17|prefixed-file-does-not-load", &format!("{} with {}-byte prefix: {}", s.name, len, e), wit()),
            Ok(obs) => {
                for ((what, a), (_, b)) in base.iter().zip(obs.iter()) {
                    if a != b {
                        let w = what.split(' ').next().unwrap_or("");
                        run.violation(&format!("C17|differs|{}", w), &format!("{} ({}) with {}-byte prefix: {}: {} vs {}", s.name, family, len, what, a.chars().take(100).collect::<String>(), b.chars().take(100).collect::<String>()), wit());
                        break;
                    }
                }
                if base.len() != obs.len() { run.violation("C17|differs|shape", &format!("{}: {} observations vs {}", s.name, base.len(), obs.len()), wit()); }
            }
        }
    });
    // thorough: the same quick workload once more under the AddressSanitizer build (memory errors in the library or its dependencies)
    if !run.quick() { crate::lanes::asan_rerun(run); }
}
