//! C16 — every encoder is inverted by its decoder and emits the standard format.
use crate::panicmon::guard;
use crate::par::{par_chunks, par_for};
use crate::refimpl::codec;
use crate::rng::{fnv, Rng};
use crate::run::{show, Run};
use pdf::enc::{decode, encode, LZWFlateParams, StreamFilter};
use serde_json::json;

fn filters() -> Vec<(&'static str, StreamFilter)> {
    let lzw = LZWFlateParams { early_change: 0, ..Default::default() };
    vec![
        ("ASCIIHex", StreamFilter::ASCIIHexDecode),
        ("ASCII85", StreamFilter::ASCII85Decode),
        ("LZW", StreamFilter::LZWDecode(lzw)),
        ("Flate", StreamFilter::FlateDecode(LZWFlateParams::default())),
    ]
}

fn ref_decode(name: &str, enc: &[u8]) -> Result<Vec<u8>, String> {
    match name {
        "ASCIIHex" => codec::hex_decode(enc),
        "ASCII85" => codec::a85_decode_strict(enc),
        "LZW" => codec::lzw_decode(enc, 0),
        "Flate" => codec::zlib_decode(enc),
        _ => unreachable!(),
    }
}

fn size_class(n: usize) -> &'static str {
    match n { 0 => "len0", 1..=3 => "len1-3", 4..=64 => "len4-64", 65..=4096 => "len65-4k", _ => "len>4k" }
}

/// one (filter, input) evaluation against both oracles
fn check_one(run: &Run, name: &str, f: &StreamFilter, x: &[u8]) {
    run.eval();
    let wit = || json!({"filter": name, "input_hex": crate::run::hex(&x[..x.len().min(256)]), "input_len": x.len()});
    let enc = match guard(|| encode(x, f)) {
        Err(p) => { run.violation(&format!("C16|{}|encode|{}", name, p.signature()), &format!("encode panicked: {}", p.describe()), wit()); return; }
        Ok(Err(e)) => { run.violation(&format!("C16|{}|encode-error", name), &format!("encode returned error: {}", e), wit()); return; }
        Ok(Ok(v)) => v,
    };
    match guard(|| decode(&enc, f)) {
        Err(p) => run.violation(&format!("C16|{}|decode|{}", name, p.signature()), &format!("decode(encode(x)) panicked: {}", p.describe()), wit()),
        Ok(Err(_)) => run.violation(&format!("C16|{}|own-decoder-rejects", name), "decode(encode(x)) is an error", wit()),
        Ok(Ok(d)) => if d != x {
            let cls = if d.is_empty() { "empty-output" } else if d.len() != x.len() { "wrong-length" } else { "wrong-bytes" };
            run.violation(&format!("C16|{}|own-roundtrip|{}|{}", name, cls, if x.is_empty() {"empty-input"} else {"nonempty-input"}),
                &format!("decode(encode(x)) != x ({} bytes in, {} out)", x.len(), d.len()), wit());
        }
    }
    match ref_decode(name, &enc) {
        Ok(d) => if d != x {
            run.violation(&format!("C16|{}|reference-decoder-differs", name), &format!("reference decoder yields {} bytes for {} input bytes; encoded={}", d.len(), x.len(), show(&enc[..enc.len().min(60)])), wit());
        },
        Err(e) => {
            // classify only: is it at least raw deflate?
            let cls = if name == "Flate" && codec::raw_inflate(&enc).map(|d| d == x).unwrap_or(false) { "raw-deflate-not-zlib" } else { "undecodable" };
            run.violation(&format!("C16|{}|reference-decoder-rejects|{}", name, cls), &format!("reference decoder rejects encoder output ({}); encoded={}", e, show(&enc[..enc.len().min(60)])), wit());
        }
    }
}

fn structured(r: &mut Rng, kind: u64, n: usize) -> Vec<u8> {
    match kind % 7 {
        0 => r.bytes(n),
        1 => { let b = r.next_u64() as u8; vec![b; n] }
        2 => (0..n).map(|i| b"the quick brown fox jumps over the lazy dog\n"[i % 44]).collect(),
        3 => { let k = 1 + r.below(8) as usize; let a = r.bytes(k); (0..n).map(|i| a[i % a.len()]).collect() }
        4 => (0..n).map(|_| if r.below(10) == 0 { r.next_u64() as u8 } else { 0 }).collect(),
        5 => { let mut v = Vec::new(); while v.len() < n { let b = r.next_u64() as u8; let k = 1 + r.below(300) as usize; v.extend(std::iter::repeat(b).take(k)); } v.truncate(n); v }
        // long runs (zero most of the time) of any length and alignment, separated by a few other bytes
        _ => { let mut v = Vec::new(); while v.len() < n { let b = if r.below(3) > 0 { 0 } else { r.next_u64() as u8 }; let k = match r.below(4) { 0 => 1 + r.below(8), 1 => 1000 + r.below(60), _ => r.below(9000) } as usize; v.extend(std::iter::repeat(b).take(k)); let t = r.below(6) as usize; v.extend(r.bytes(t)); } v.truncate(n); v }
    }
}

pub fn run(run: &Run) {
    run.rule("inputs: all byte strings up to length L (L=2 quick, 3 thorough) + every byte value in runs of length 1..300 and selected lengths to 64KiB + one long run (0x00, 0xff, 'z', 0x80) of length 2^e-3..2^e+4 (e=2..16) behind 0-3 lead-in bytes and before 1-5 trailing bytes + seeded random/structured data up to 64KiB, x {ASCIIHex, ASCII85, LZW(EarlyChange 0), Flate}; oracle: decode(encode(x))==x and independent reference decoder (strict zlib for Flate) yields x; distinct_nontrivial = distinct (filter, input-hash) pairs with non-empty input");
    run.assume("reference decoders in harness/src/refimpl/codec.rs are correct (self-tested against own encoders and miniz_oxide)");
    let fs = filters();
    // exhaustive small lengths
    let maxlen = if run.quick() { 2 } else { 3 };
    for (name, f) in &fs {
        for len in 0..=maxlen {
            let total: u64 = 256u64.pow(len);
            par_chunks(total, 4096, |lo, hi| {
                for v in lo..hi {
                    let x: Vec<u8> = (0..len).map(|k| (v >> (8 * k)) as u8).collect();
                    check_one(run, name, f, &x);
                    if len <= 2 || v % 4099 == 0 { run.nontrivial(fnv(&x) ^ fnv(name.as_bytes())); }
                }
            });
        }
        run.count(&format!("exhaustive_len<={}:{}", maxlen, name));
    }
    run.exhaustive(&format!("all byte strings of length <= {}", maxlen), true);
    // runs of every byte value
    let lens: Vec<usize> = { let mut v: Vec<usize> = (1..=300).collect(); v.extend([511, 512, 513, 1023, 1024, 4095, 4096, 4097, 16384, 65535, 65536]); v };
    let lens = if run.quick() { lens.iter().cloned().filter(|l| *l <= 40 || l % 37 == 0 || *l > 300).collect::<Vec<_>>() } else { lens };
    for (name, f) in &fs {
        par_for(256, |b| {
            for &l in &lens {
                if l > 4097 && b % 51 != 0 { continue; }
                let x = vec![b as u8; l];
                check_one(run, name, f, &x);
                run.nontrivial(fnv(&x) ^ fnv(name.as_bytes()));
            }
        });
    }
    // one long run at every alignment, ended by other bytes: lead-in of 0-3 bytes, run length around every power of two up to 64 KiB, 1-5 trailing bytes
    let mut run_lens: Vec<usize> = Vec::new();
    for e in 2..=16u32 { let p = 1usize << e; for d in 0..8 { run_lens.push(p - 3 + d); } }
    run_lens.extend([1000, 1001, 1002, 1003, 3000, 3001, 3002, 3003, 10000, 10001, 10002, 10003]);
    if run.quick() { run_lens.retain(|l| *l < 5000 || l % 5 == 0); }
    for (name, f) in &fs {
        par_for(run_lens.len() as u64, |k| {
            let l = run_lens[k as usize];
            for b in [0u8, 0xff, b'z', 0x80] { for lead in 0..4usize { for tail in [1usize, 2, 3, 5] {
                let mut x: Vec<u8> = (0..lead).map(|i| 0x31 + i as u8).collect();
                x.extend(std::iter::repeat(b).take(l));
                x.extend((0..tail).map(|i| 0x41 + i as u8));
                check_one(run, name, f, &x);
                run.nontrivial(fnv(&x) ^ fnv(name.as_bytes()));
                run.count("aligned_run_cases");
            } } }
        });
    }
    // random / structured
    let n = run.n(3000, 200_000);
    par_for(n, |i| {
        let mut r = Rng::derive(run.seed, 16, i);
        let len = match r.below(10) { 0 => r.below(65537) as usize, 1..=3 => r.below(4096) as usize, _ => r.below(200) as usize };
        let x = structured(&mut r, i, len);
        for (name, f) in &fs {
            check_one(run, name, f, &x);
            if !x.is_empty() { run.nontrivial(fnv(&x) ^ fnv(name.as_bytes())); }
            run.count(&format!("{}:{}", name, size_class(x.len())));
        }
        if i < 4 { run.sample(json!({"input": show(&x[..x.len().min(48)]), "len": x.len(), "kind": i % 7})); }
    });
    // thorough: the same quick workload once more under the AddressSanitizer build (memory errors in the library or its dependencies)
    if !run.quick() { crate::lanes::asan_rerun(run); }
}
