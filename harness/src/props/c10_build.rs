//! C10 — turn a `DocSpec` into builder input (typed library values, auxiliary objects created in the builder's own
//! storage), run `PdfBuilder::build`, and compare a reloaded `File` with the description.
use super::c10_gen::*;
use crate::opsgen::{ops_equal, prim_eq};
use pdf::any::AnySync;
use pdf::build::{CatalogBuilder, PageBuilder, PdfBuilder};
use pdf::content::{serialize_ops, FormXObject, Matrix};
use pdf::encoding::{BaseEncoding, Encoding};
use pdf::error::PdfError;
use pdf::file::{Cache, File, FileOptions, NoLog};
use pdf::font::{CIDFont, CidToGidMap, Font, FontData, FontDescriptor, FontType, TFont, Type0Font};
use pdf::object::*;
use pdf::primitive::{Date, Dictionary, Name, Primitive, TimeRel};
use std::collections::HashMap;
use std::sync::Arc;

/// object numbers of what was created in the builder's storage before `build`
#[derive(Default, Debug, Clone)]
pub struct Made { pub ids: HashMap<(usize, String), PlainRef> }

pub enum Fail {
    /// the description could not be turned into library values (not the builder's fault): inconclusive
    Prepare(String),
    /// `Storage::create` or `PdfBuilder::build` returned an error
    Lib(&'static str, String),
}

fn rectangle(r: &[f32; 4]) -> Rectangle { Rectangle { left: r[0], bottom: r[1], right: r[2], top: r[3] } }
fn mat(m: &[f32; 6]) -> Matrix { Matrix { a: m[0], b: m[1], c: m[2], d: m[3], e: m[4], f: m[5] } }
fn lib<T>(what: &'static str, r: Result<T, PdfError>) -> Result<T, Fail> { r.map_err(|e| Fail::Lib(what, format!("{}", e))) }
fn prep<T>(what: &str, r: Result<T, PdfError>) -> Result<T, Fail> { r.map_err(|e| Fail::Prepare(format!("{}: {}", what, e))) }

fn descriptor(name: &str, d: &FdSpec) -> FontDescriptor {
    FontDescriptor { font_name: Name::from(name), font_family: None, font_stretch: None, font_weight: None, flags: d.flags, font_bbox: rectangle(&d.bbox),
        italic_angle: d.italic, ascent: d.ascent, descent: d.descent, leading: 0.0, cap_height: d.cap_height, xheight: 0.0, stem_v: d.stem_v, stem_h: 0.0,
        avg_width: 0.0, max_width: 0.0, missing_width: d.missing_width, font_file: None, font_file2: None, font_file3: None, char_set: None }
}

fn make_font(u: &mut impl Updater, f: &FontSpec) -> Result<Font, Fail> {
    let to_unicode = match &f.to_unicode { Some(b) => Some(lib("create-error", u.create(Stream::new((), b.clone())))?), None => None };
    let name = Name::from(f.base.as_str());
    if f.kind < 2 {
        let tf = TFont { base_font: Some(name.clone()), first_char: f.first, last_char: f.last, widths: f.widths.clone(), font_descriptor: f.descriptor.as_ref().map(|d| descriptor(&f.base, d)) };
        let encoding = f.encoding.as_ref().map(|(b, diffs)| Encoding {
            base: match ENCODINGS[*b] { "StandardEncoding" => BaseEncoding::StandardEncoding, "WinAnsiEncoding" => BaseEncoding::WinAnsiEncoding, "MacRomanEncoding" => BaseEncoding::MacRomanEncoding,
                "MacExpertEncoding" => BaseEncoding::MacExpertEncoding, _ => BaseEncoding::SymbolEncoding },
            differences: diffs.iter().map(|(c, n)| (*c, n.as_str().into())).collect() });
        Ok(Font { subtype: if f.kind == 0 { FontType::Type1 } else { FontType::TrueType }, name: Some(name),
            data: if f.kind == 0 { FontData::Type1(tf) } else { FontData::TrueType(tf) }, encoding, to_unicode, _other: Dictionary::new() })
    } else {
        let mut si = Dictionary::new();
        si.insert("Registry", Primitive::String(pdf_string(b"Adobe"))); si.insert("Ordering", Primitive::String(pdf_string(b"Identity"))); si.insert("Supplement", Primitive::Integer(0));
        let cid = CIDFont { system_info: si, font_descriptor: descriptor(&f.base, f.descriptor.as_ref().expect("type0 has descriptor")), default_width: f.dw, widths: f.w.clone(),
            cid_to_gid_map: if f.cid_to_gid_identity { Some(CidToGidMap::Identity) } else { None }, _other: Dictionary::new() };
        let desc = Font { subtype: if f.cid_type0 { FontType::CIDFontType0 } else { FontType::CIDFontType2 }, name: Some(name.clone()),
            data: if f.cid_type0 { FontData::CIDFontType0(cid) } else { FontData::CIDFontType2(cid) }, encoding: None, to_unicode: None, _other: Dictionary::new() };
        let rc = lib("create-error", u.create(desc))?;
        Ok(Font { subtype: FontType::Type0, name: Some(name), data: FontData::Type0(Type0Font { descendant_fonts: vec![MaybeRef::Indirect(rc)], to_unicode: None }),
            encoding: Some(Encoding { base: BaseEncoding::IdentityH, differences: HashMap::new() }), to_unicode, _other: Dictionary::new() })
    }
}

fn color_space(c: &CsSpec) -> ColorSpace {
    match c {
        CsSpec::Rgb => ColorSpace::DeviceRGB,
        CsSpec::Cmyk => ColorSpace::DeviceCMYK,
        CsSpec::Indexed { cmyk_base, hival, lookup } => ColorSpace::Indexed(Box::new(if *cmyk_base { ColorSpace::DeviceCMYK } else { ColorSpace::DeviceRGB }), *hival, Arc::from(lookup.clone())),
        CsSpec::Gray => ColorSpace::DeviceGray,
        CsSpec::PatternCs => ColorSpace::Pattern,
        CsSpec::Named(n) => ColorSpace::Named(Name::from(n.as_str())),
        CsSpec::CalRgb { gamma } => ColorSpace::CalRGB(cal_dict(*gamma)),
        CsSpec::CalGray => ColorSpace::CalGray(cal_dict(false)),
        CsSpec::Lab => ColorSpace::Other(vec![Primitive::name("Lab"), Primitive::Dictionary(cal_dict(false))]),
    }
}
fn cal_dict(gamma: bool) -> Dictionary {
    let mut d = Dictionary::new();
    d.insert("WhitePoint", Primitive::Array(vec![Primitive::Number(0.9505), Primitive::Integer(1), Primitive::Number(1.089)]));
    if gamma { d.insert("Gamma", Primitive::Array(vec![Primitive::Number(2.2), Primitive::Number(2.2), Primitive::Number(2.2)])); }
    d
}
fn dict_eq(a: &Dictionary, b: &Dictionary) -> bool { crate::opsgen::prim_eq(&Primitive::Dictionary(a.clone()), &Primitive::Dictionary(b.clone())) }

fn make_resources(u: &mut impl Updater, page: usize, r: &ResSpec, made: &mut Made) -> Result<Resources, Fail> {
    let mut res = Resources::default();
    let mut first_font: Option<PlainRef> = None;
    for (name, f) in &r.fonts {
        let font = make_font(u, f)?;
        let lazy: Lazy<Font> = if f.indirect || (first_font.is_none() && r.gs.iter().any(|g| g.2.is_some())) {
            let rc = lib("create-error", u.create(font))?;
            let id = rc.get_ref().get_inner();
            made.ids.insert((page, format!("font:{}", name)), id);
            if first_font.is_none() { first_font = Some(id); }
            Lazy::from(rc)
        } else {
            let p = prep("Font::to_primitive", font.to_primitive(u))?;
            prep("Lazy::from_primitive", Lazy::<Font>::from_primitive(p, &NoResolve))?
        };
        res.fonts.insert(Name::from(name.as_str()), lazy);
    }
    for (name, d, font) in &r.gs {
        let mut d = d.clone();
        if let (Some(size), Some(id)) = (font, first_font) { d.insert("Font", Primitive::Array(vec![Primitive::Reference(id), Primitive::Number(*size)])); }
        let gs = prep("GraphicsStateParameters::from_primitive", GraphicsStateParameters::from_primitive(Primitive::Dictionary(d), &NoResolve))?;
        res.graphics_states.insert(Name::from(name.as_str()), gs);
    }
    for (name, c) in &r.cs { res.color_spaces.insert(Name::from(name.as_str()), color_space(c)); }
    for (name, x) in &r.xobjects {
        let xo = match x {
            XoSpec::Image { w, h, mask, cmyk, data, interpolate } => {
                let dict = ImageDict { width: *w, height: *h, color_space: if *mask { None } else { Some(if *cmyk { ColorSpace::DeviceCMYK } else { ColorSpace::DeviceRGB }) },
                    bits_per_component: Some(if *mask { 1 } else { 8 }), image_mask: *mask, interpolate: *interpolate, ..Default::default() };
                XObject::Image(ImageXObject { inner: Stream::new(dict, data.clone()) })
            }
            XoSpec::Form { bbox, ops, own_resources, matrix } => {
                let resources = if *own_resources { Some(MaybeRef::Indirect(lib("create-error", u.create(Resources::default()))?)) } else { None };
                let dict = FormDict { form_type: 1, bbox: rectangle(bbox), matrix: matrix.map(|m| Primitive::Array(m.iter().map(|v| Primitive::Number(*v)).collect())), resources, ..Default::default() };
                let data = prep("serialize_ops(form)", serialize_ops(ops))?;
                XObject::Form(FormXObject { stream: Stream::new(dict, data) })
            }
        };
        let rc = lib("create-error", u.create(xo))?;
        made.ids.insert((page, format!("xobject:{}", name)), rc.get_ref().get_inner());
        res.xobjects.insert(Name::from(name.as_str()), rc.get_ref());
    }
    for (name, p) in &r.patterns {
        let rres = lib("create-error", u.create(Resources::default()))?.get_ref();
        let dict = PatternDict { paint_type: Some(p.paint), tiling_type: Some(p.tiling), bbox: rectangle(&p.bbox), x_step: p.xstep, y_step: p.ystep, resources: rres, matrix: p.matrix.as_ref().map(mat) };
        let pat = if p.stream { Pattern::Stream(dict, p.ops.clone()) } else { Pattern::Dict(dict) };
        let rc = lib("create-error", u.create(pat))?;
        made.ids.insert((page, format!("pattern:{}", name)), rc.get_ref().get_inner());
        res.pattern.insert(Name::from(name.as_str()), rc.get_ref());
    }
    for (name, d, indirect) in &r.props {
        let v = if *indirect {
            let rc = lib("create-error", u.create(d.clone()))?;
            made.ids.insert((page, format!("props:{}", name)), rc.get_ref().get_inner());
            MaybeRef::Indirect(rc)
        } else { MaybeRef::Direct(Arc::new(d.clone())) };
        res.properties.insert(Name::from(name.as_str()), v);
    }
    Ok(res)
}

fn date(d: &DateSpec) -> Date {
    Date { year: d.year, month: d.month, day: d.day, hour: d.hour, minute: d.minute, second: d.second,
        rel: match d.rel { '+' => TimeRel::Later, '-' => TimeRel::Earlier, _ => TimeRel::Universal }, tz_hour: d.tz_hour, tz_minute: d.tz_minute }
}

fn info(i: &InfoSpec) -> InfoDict {
    let s = |k: usize| i.strings[k].as_ref().map(|b| pdf_string(b));
    InfoDict { title: s(0), author: s(1), subject: s(2), keywords: s(3), creator: s(4), producer: s(5), creation_date: i.creation.as_ref().map(date), mod_date: i.modified.as_ref().map(date),
        trapped: i.trapped.map(|t| match t { 0 => Trapped::True, 1 => Trapped::False, _ => Trapped::Unknown }) }
}

/// Everything the property quantifies over happens here: objects created in the builder's storage, then `build`.
pub fn build_doc<OC, SC>(opts: FileOptions<'static, OC, SC, NoLog>, spec: &DocSpec) -> Result<(Vec<u8>, Made), Fail>
where OC: Cache<Result<AnySync, Arc<PdfError>>>, SC: Cache<Result<Arc<[u8]>, Arc<PdfError>>>
{
    let mut builder = PdfBuilder::new(opts);
    let mut made = Made::default();
    let mut pages = Vec::new();
    for (i, p) in spec.pages.iter().enumerate() {
        let resources = make_resources(&mut builder.storage, i, &p.res, &mut made)?;
        let metadata = match &p.metadata {
            Some(bytes) => {
                let rc = lib("create-error", builder.storage.create(Stream::new((), bytes.clone())))?;
                made.ids.insert((i, "metadata".into()), rc.get_ref().get_inner());
                Some(Primitive::Reference(rc.get_ref().get_inner()))
            }
            None => None,
        };
        let mut other = Dictionary::new();
        for (k, v) in &p.other { other.insert(Name::from(k.as_str()), v.clone()); }
        pages.push(PageBuilder { ops: p.ops.clone(), media_box: p.media.as_ref().map(rectangle), crop_box: p.crop.as_ref().map(rectangle), trim_box: p.trim.as_ref().map(rectangle),
            resources, rotate: p.rotate, metadata, lgi: p.lgi.clone(), vp: p.vp.clone(), other });
    }
    if let Some(i) = &spec.info { builder = builder.info(info(i)); }
    let bytes = lib("build-error", builder.build(CatalogBuilder::from_pages(pages)))?;
    Ok((bytes, made))
}

// ------------------------------------------------------------------------------------------------
// reload comparison
// ------------------------------------------------------------------------------------------------

pub type Diff = (&'static str, String);

fn rect_eq(a: &Option<[f32; 4]>, b: &Option<Rectangle>) -> bool {
    match (a, b) { (None, None) => true, (Some(a), Some(b)) => a[0] == b.left && a[1] == b.bottom && a[2] == b.right && a[3] == b.top, _ => false }
}

fn cmp_font(page: usize, name: &str, f: &FontSpec, got: &Font, resolve: &impl Resolve, out: &mut Vec<Diff>) {
    let mut bad = |what: String| out.push(("wrong-resource-content", format!("page {} font /{}: {}", page, name, what)));
    if got.name.as_ref().map(|n| n.as_str()) != Some(f.base.as_str()) { bad(format!("name {:?}, expected {}", got.name, f.base)); }
    match (&got.data, f.kind) {
        (FontData::Type1(t), 0) | (FontData::TrueType(t), 1) => {
            if t.first_char != f.first || t.last_char != f.last { bad(format!("FirstChar/LastChar {:?}/{:?}, expected {:?}/{:?}", t.first_char, t.last_char, f.first, f.last)); }
            if t.widths != f.widths { bad(format!("Widths {:?}, expected {:?}", t.widths, f.widths)); }
            match (&t.font_descriptor, &f.descriptor) {
                (None, None) => {}
                (Some(g), Some(e)) => {
                    if g.font_name.as_str() != f.base || g.flags != e.flags || g.missing_width != e.missing_width || g.italic_angle != e.italic || g.ascent != e.ascent || g.descent != e.descent
                        || g.cap_height != e.cap_height || g.stem_v != e.stem_v || !rect_eq(&Some(e.bbox), &Some(g.font_bbox)) { bad(format!("FontDescriptor {:?}, expected {:?}", g, e)); }
                }
                (g, e) => bad(format!("FontDescriptor present: {}, expected present: {}", g.is_some(), e.is_some())),
            }
            match (&got.encoding, &f.encoding) {
                (None, None) => {}
                (Some(g), Some((b, diffs))) => {
                    let base_ok = format!("{:?}", g.base) == ENCODINGS[*b];
                    let want: HashMap<u32, String> = diffs.iter().cloned().collect();
                    let have: HashMap<u32, String> = g.differences.iter().map(|(k, v)| (*k, v.as_str().to_string())).collect();
                    if !base_ok || want != have { bad(format!("Encoding {:?}, expected {} + {:?}", g, ENCODINGS[*b], diffs)); }
                }
                (g, e) => bad(format!("Encoding {:?}, expected {:?}", g, e)),
            }
        }
        (FontData::Type0(t0), 2) => {
            if !matches!(got.encoding, Some(Encoding { base: BaseEncoding::IdentityH, .. })) { bad(format!("Encoding {:?}, expected Identity-H", got.encoding)); }
            if t0.descendant_fonts.len() != 1 { bad(format!("{} descendant fonts", t0.descendant_fonts.len())); return; }
            let d = &*t0.descendant_fonts[0];
            match (&d.data, f.cid_type0) {
                (FontData::CIDFontType0(c), true) | (FontData::CIDFontType2(c), false) => {
                    let e = f.descriptor.as_ref().unwrap();
                    if c.default_width != f.dw { bad(format!("DW {}, expected {}", c.default_width, f.dw)); }
                    if c.widths.len() != f.w.len() || !c.widths.iter().zip(&f.w).all(|(a, b)| prim_eq(a, b)) { bad(format!("W {:?}, expected {:?}", c.widths, f.w)); }
                    if matches!(c.cid_to_gid_map, Some(CidToGidMap::Identity)) != f.cid_to_gid_identity { bad(format!("CIDToGIDMap {:?}", c.cid_to_gid_map)); }
                    if c.font_descriptor.flags != e.flags || c.font_descriptor.missing_width != e.missing_width || c.font_descriptor.font_name.as_str() != f.base { bad(format!("descendant FontDescriptor {:?}", c.font_descriptor)); }
                    if !matches!(c.system_info.get("Ordering"), Some(Primitive::String(s)) if s.as_bytes() == b"Identity") { bad(format!("CIDSystemInfo {:?}", c.system_info)); }
                }
                _ => bad(format!("descendant is {:?}", d.subtype)),
            }
        }
        _ => bad(format!("subtype {:?}, expected kind {}", got.subtype, f.kind)),
    }
    match (&got.to_unicode, &f.to_unicode) {
        (None, None) => {}
        (Some(s), Some(b)) => match (**s).data(resolve) { Ok(d) if &*d == &b[..] => {}, other => bad(format!("ToUnicode data {:?}", other.map(|d| d.len()))) },
        (g, e) => bad(format!("ToUnicode present: {}, expected present: {}", g.is_some(), e.is_some())),
    }
}

fn cmp_gs(page: usize, name: &str, d: &Dictionary, font: Option<(PlainRef, f32)>, g: &GraphicsStateParameters, out: &mut Vec<Diff>) {
    let mut bad = |what: String| out.push(("wrong-resource-content", format!("page {} ExtGState /{}: {}", page, name, what)));
    let num = |k: &str| d.get(k).and_then(|p| p.as_number().ok());
    let boolean = |k: &str| d.get(k).and_then(|p| p.as_bool().ok());
    let int = |k: &str| d.get(k).and_then(|p| p.as_integer().ok());
    if g.line_width != num("LW") { bad(format!("LW {:?}", g.line_width)); }
    if g.line_cap.map(|c| c as i32) != int("LC") { bad(format!("LC {:?}", g.line_cap)); }
    if g.line_join.map(|c| c as i32) != int("LJ") { bad(format!("LJ {:?}", g.line_join)); }
    if g.miter_limit != num("ML") { bad(format!("ML {:?}", g.miter_limit)); }
    match (&g.dash_pattern, d.get("D")) { (None, None) => {}, (Some(a), Some(Primitive::Array(b))) if a.len() == b.len() && a.iter().zip(b).all(|(x, y)| prim_eq(x, y)) => {}, (a, b) => bad(format!("D {:?}, expected {:?}", a, b)) }
    if g.rendering_intent.as_ref().map(|n| n.as_str().to_string()) != d.get("RI").and_then(|p| p.as_name().ok()).map(|s| s.to_string()) { bad(format!("RI {:?}", g.rendering_intent)); }
    if g.overprint != boolean("OP") { bad(format!("OP {:?}", g.overprint)); }
    if g.overprint_fill != boolean("op") { bad(format!("op {:?}", g.overprint_fill)); }
    if g.overprint_mode != int("OPM") { bad(format!("OPM {:?}", g.overprint_mode)); }
    match (&g.blend_mode, d.get("BM")) { (None, None) => {}, (Some(a), Some(b)) if prim_eq(a, b) => {}, (a, b) => bad(format!("BM {:?}, expected {:?}", a, b)) }
    match (&g.smask, d.get("SMask")) { (None, None) => {}, (Some(a), Some(b)) if prim_eq(a, b) => {}, (a, b) => bad(format!("SMask {:?}, expected {:?}", a, b)) }
    if g.stroke_alpha != num("CA") { bad(format!("CA {:?}", g.stroke_alpha)); }
    if g.fill_alpha != num("ca") { bad(format!("ca {:?}", g.fill_alpha)); }
    if g.alpha_is_shape != boolean("AIS") { bad(format!("AIS {:?}", g.alpha_is_shape)); }
    if g.text_knockout != boolean("TK") { bad(format!("TK {:?}", g.text_knockout)); }
    match (&g.font, font) {
        (None, None) => {}
        (Some((r, s)), Some((id, size))) if r.get_inner() == id && *s == size => {}
        (a, b) => bad(format!("Font {:?}, expected {:?}", a.as_ref().map(|(r, s)| (r.get_inner(), *s)), b)),
    }
}

fn keys_differ<'a, V>(page: usize, what: &str, got: &HashMap<Name, V>, want: impl Iterator<Item = &'a String>, out: &mut Vec<Diff>) -> bool {
    let mut w: Vec<String> = want.cloned().collect(); w.sort();
    let mut g: Vec<String> = got.keys().map(|k| k.as_str().to_string()).collect(); g.sort();
    if w != g { out.push(("wrong-resources", format!("page {} /{}: keys {:?}, expected {:?}", page, what, g, w))); true } else { false }
}

fn cmp_resources(page: usize, spec: &ResSpec, made: &Made, res: &Resources, resolve: &impl Resolve, out: &mut Vec<Diff>) {
    let id = |k: String| made.ids.get(&(page, k)).copied();
    if !keys_differ(page, "Font", &res.fonts, spec.fonts.iter().map(|f| &f.0), out) {
        for (name, f) in &spec.fonts {
            match res.fonts[&Name::from(name.as_str())].load(resolve) {
                Err(e) => out.push(("resource-load-error", format!("page {} font /{}: {}", page, name, e))),
                Ok(m) => {
                    let want = id(format!("font:{}", name));
                    if m.as_ref().map(|r| r.get_inner()) != want { out.push(("wrong-resource-content", format!("page {} font /{}: stored as {:?}, expected {:?}", page, name, m.as_ref().map(|r| r.get_inner()), want))); }
                    cmp_font(page, name, f, &m, resolve, out);
                }
            }
        }
    }
    if !keys_differ(page, "ExtGState", &res.graphics_states, spec.gs.iter().map(|g| &g.0), out) {
        let first_font = spec.fonts.first().and_then(|f| id(format!("font:{}", f.0)));
        for (name, d, font) in &spec.gs {
            let font = match (font, first_font) { (Some(s), Some(i)) => Some((i, *s)), _ => None };
            cmp_gs(page, name, d, font, &res.graphics_states[&Name::from(name.as_str())], out);
        }
    }
    if !keys_differ(page, "ColorSpace", &res.color_spaces, spec.cs.iter().map(|c| &c.0), out) {
        for (name, c) in &spec.cs {
            let g = &res.color_spaces[&Name::from(name.as_str())];
            let ok = match (c, g) {
                (CsSpec::Rgb, ColorSpace::DeviceRGB) | (CsSpec::Cmyk, ColorSpace::DeviceCMYK) => true,
                (CsSpec::Indexed { cmyk_base, hival, lookup }, ColorSpace::Indexed(b, h, l)) => h == hival && &l[..] == &lookup[..] && matches!((&**b, cmyk_base), (ColorSpace::DeviceCMYK, true) | (ColorSpace::DeviceRGB, false)),
                (CsSpec::Gray, ColorSpace::DeviceGray) | (CsSpec::PatternCs, ColorSpace::Pattern) => true,
                (CsSpec::Named(n), ColorSpace::Named(m)) => n.as_str() == m.as_str(),
                (CsSpec::CalRgb { gamma }, ColorSpace::CalRGB(d)) => dict_eq(d, &cal_dict(*gamma)),
                (CsSpec::CalGray, ColorSpace::CalGray(d)) => dict_eq(d, &cal_dict(false)),
                (CsSpec::Lab, ColorSpace::Other(v)) => v.len() == 2 && matches!(&v[0], Primitive::Name(n) if n.as_str() == "Lab") && matches!(&v[1], Primitive::Dictionary(d) if dict_eq(d, &cal_dict(false))),
                _ => false,
            };
            if !ok { out.push(("wrong-resource-content", format!("page {} colour space /{}: {:?}, expected {:?}", page, name, g, c))); }
        }
    }
    if !keys_differ(page, "XObject", &res.xobjects, spec.xobjects.iter().map(|x| &x.0), out) {
        for (name, x) in &spec.xobjects {
            let r = res.xobjects[&Name::from(name.as_str())];
            if Some(r.get_inner()) != id(format!("xobject:{}", name)) { out.push(("wrong-resource-content", format!("page {} XObject /{}: reference {:?}", page, name, r.get_inner()))); continue; }
            match resolve.get(r) {
                Err(e) => out.push(("resource-load-error", format!("page {} XObject /{}: {}", page, name, e))),
                Ok(rc) => match (&*rc, x) {
                    (XObject::Image(im), XoSpec::Image { w, h, mask, cmyk, data, interpolate }) => {
                        let cs_ok = match (&im.color_space, mask, cmyk) { (None, true, _) => true, (Some(ColorSpace::DeviceCMYK), false, true) | (Some(ColorSpace::DeviceRGB), false, false) => true, _ => false };
                        if im.width != *w || im.height != *h || im.image_mask != *mask || im.interpolate != *interpolate || !cs_ok || im.bits_per_component != Some(if *mask { 1 } else { 8 }) {
                            out.push(("wrong-resource-content", format!("page {} image /{}: {:?}", page, name, im.inner.info.info)));
                        }
                        match im.inner.data(resolve) { Ok(d) if &*d == &data[..] => {}, other => out.push(("wrong-resource-content", format!("page {} image /{}: data {:?}, expected {} bytes", page, name, other.map(|d| crate::run::show(&d)), data.len()))) }
                    }
                    (XObject::Form(fo), XoSpec::Form { bbox, ops, own_resources, matrix }) => {
                        let d = fo.dict();
                        let m_ok = match (&d.matrix, matrix) { (None, None) => true, (Some(Primitive::Array(a)), Some(m)) => a.len() == 6 && a.iter().zip(m.iter()).all(|(p, v)| p.as_number().ok() == Some(*v)), _ => false };
                        if !rect_eq(&Some(*bbox), &Some(d.bbox)) || d.form_type != 1 || d.resources.is_some() != *own_resources || !m_ok { out.push(("wrong-resource-content", format!("page {} form /{}: {:?}", page, name, d))); }
                        match fo.operations(resolve) { Ok(g) => if let Err(e) = ops_equal(ops, &g) { out.push(("wrong-resource-content", format!("page {} form /{} operations: {}", page, name, e))) }, Err(e) => out.push(("resource-load-error", format!("page {} form /{} operations: {}", page, name, e))) }
                    }
                    (o, _) => out.push(("wrong-resource-content", format!("page {} XObject /{}: wrong kind {:?}", page, name, std::mem::discriminant(o)))),
                },
            }
        }
    }
    if !keys_differ(page, "Pattern", &res.pattern, spec.patterns.iter().map(|x| &x.0), out) {
        for (name, p) in &spec.patterns {
            let r = res.pattern[&Name::from(name.as_str())];
            if Some(r.get_inner()) != id(format!("pattern:{}", name)) { out.push(("wrong-resource-content", format!("page {} pattern /{}: reference {:?}", page, name, r.get_inner()))); continue; }
            match resolve.get(r) {
                Err(e) => out.push(("resource-load-error", format!("page {} pattern /{}: {}", page, name, e))),
                Ok(rc) => {
                    let d = rc.dict();
                    let m_ok = match (&d.matrix, &p.matrix) { (None, None) => true, (Some(a), Some(b)) => *a == mat(b), _ => false };
                    if d.paint_type != Some(p.paint) || d.tiling_type != Some(p.tiling) || !rect_eq(&Some(p.bbox), &Some(d.bbox)) || d.x_step != p.xstep || d.y_step != p.ystep || !m_ok {
                        out.push(("wrong-resource-content", format!("page {} pattern /{}: {:?}", page, name, d)));
                    }
                    match (&*rc, p.stream) {
                        (Pattern::Stream(_, g), true) => if let Err(e) = ops_equal(&p.ops, g) { out.push(("wrong-resource-content", format!("page {} pattern /{} operations: {}", page, name, e))) },
                        (Pattern::Dict(_), false) => {}
                        _ => out.push(("wrong-resource-content", format!("page {} pattern /{}: stream/dictionary kind changed", page, name))),
                    }
                }
            }
        }
    }
    if !keys_differ(page, "Properties", &res.properties, spec.props.iter().map(|x| &x.0), out) {
        for (name, d, indirect) in &spec.props {
            let g = &res.properties[&Name::from(name.as_str())];
            if g.as_ref().is_some() != *indirect || !prim_eq(&Primitive::Dictionary((**g).clone()), &Primitive::Dictionary(d.clone())) {
                out.push(("wrong-resource-content", format!("page {} properties /{}: {:?}, expected {:?}", page, name, **g, d)));
            }
        }
    }
}

/// compare one reloaded page with the i-th description
fn cmp_page(i: usize, spec: &PageSpec, made: &Made, page: &Page, resolve: &impl Resolve, out: &mut Vec<Diff>) {
    // identity first: a page standing in another page's place is an order problem, whatever else differs then
    match page.other.get(MARKER) {
        Some(Primitive::Integer(k)) if *k as usize == i => {}
        Some(Primitive::Integer(k)) => { out.push(("wrong-page-order", format!("position {} holds the page given at position {}", i, k))); return; }
        other => { out.push(("other-entry-lost", format!("page {}: marker entry /{} reads {:?}", i, MARKER, other))); }
    }
    if !rect_eq(&spec.media, &page.media_box) { out.push(("wrong-box", format!("page {} MediaBox {:?}, expected {:?}", i, page.media_box, spec.media))); }
    if !rect_eq(&spec.crop, &page.crop_box) { out.push(("wrong-box", format!("page {} CropBox {:?}, expected {:?}", i, page.crop_box, spec.crop))); }
    if !rect_eq(&spec.trim, &page.trim_box) { out.push(("wrong-box", format!("page {} TrimBox {:?}, expected {:?}", i, page.trim_box, spec.trim))); }
    if page.rotate != spec.rotate { out.push(("wrong-rotate", format!("page {} Rotate {}, expected {}", i, page.rotate, spec.rotate))); }
    for (k, v) in &spec.other {
        if k == MARKER { continue; }
        match page.other.get(k) {
            None => out.push(("other-entry-lost", format!("page {}: entry {:?} is gone", i, k))),
            Some(g) if prim_eq(g, v) => {}
            Some(g) => out.push(("other-entry-changed", format!("page {}: entry {:?} reads {:?}, expected {:?}", i, k, g, v))),
        }
    }
    for (k, v) in page.other.iter() {
        // the reader leaves /Type in `other` (it checks the key without consuming it)
        if k.as_str() == "Type" { continue; }
        if !spec.other.iter().any(|(kk, _)| kk == k.as_str()) { out.push(("other-entry-extra", format!("page {}: entry {:?} = {:?} was never given", i, k.as_str(), v))); }
    }
    for (what, given, got) in [("LGIDict", &spec.lgi, &page.lgi), ("VP", &spec.vp, &page.vp)] {
        match (given, got) { (None, None) => {}, (Some(a), Some(b)) if prim_eq(a, b) => {}, (a, b) => out.push(("other-entry-changed", format!("page {} /{}: {:?}, expected {:?}", i, what, b, a))) }
    }
    match (&spec.metadata, &page.metadata) {
        (None, None) => {}
        (Some(bytes), Some(Primitive::Reference(r))) if Some(*r) == made.ids.get(&(i, "metadata".into())).copied() => {
            match resolve.resolve(*r) {
                Ok(Primitive::Stream(s)) => match s.raw_data(resolve) { Ok(d) if &*d == &bytes[..] => {}, other => out.push(("wrong-stream-data", format!("page {} metadata stream reads {:?}, expected {:?}", i, other.map(|d| crate::run::show(&d)), crate::run::show(bytes)))) },
                other => out.push(("wrong-stream-data", format!("page {} metadata object is {:?}", i, other.map(|p| p.get_debug_name())))),
            }
        }
        (a, b) => out.push(("other-entry-changed", format!("page {} /Metadata: {:?}, expected a reference to the stream holding {:?} bytes", i, b, a.as_ref().map(|m| m.len())))),
    }
    match &page.contents {
        None => out.push(("wrong-ops", format!("page {} has no /Contents", i))),
        Some(c) => match c.operations(resolve) {
            Err(e) => out.push(("ops-error", format!("page {} operations(): {}", i, e))),
            Ok(got) => if let Err(e) = ops_equal(&spec.ops, &got) { out.push(("wrong-ops", format!("page {}: {}", i, e))); },
        },
    }
    match &page.resources {
        None => out.push(("wrong-resources", format!("page {} has no /Resources", i))),
        Some(r) => cmp_resources(i, &spec.res, made, r, resolve, out),
    }
}

fn date_eq(a: &DateSpec, b: &Date) -> bool { date(a) == *b }

pub fn compare<OC, SC>(file: &File<Vec<u8>, OC, SC, NoLog>, spec: &DocSpec, made: &Made) -> Vec<Diff>
where OC: Cache<Result<AnySync, Arc<PdfError>>>, SC: Cache<Result<Arc<[u8]>, Arc<PdfError>>>
{
    let mut out = Vec::new();
    let n = file.num_pages() as usize;
    if n != spec.pages.len() { out.push(("wrong-page-count", format!("num_pages() = {}, {} pages were given", n, spec.pages.len()))); }
    let resolver = file.resolver();
    for (i, p) in spec.pages.iter().enumerate().take(n) {
        match file.get_page(i as u32) {
            Err(e) => out.push(("page-error", format!("get_page({}): {}", i, e))),
            Ok(page) => cmp_page(i, p, made, &page, &resolver, &mut out),
        }
    }
    if n == spec.pages.len() && file.get_page(n as u32).is_ok() { out.push(("wrong-page-count", format!("get_page({}) succeeds although {} pages were given", n, n))); }
    match (&spec.info, &file.trailer.info_dict) {
        (None, None) => {}
        (Some(want), Some(got)) => {
            let have = [&got.title, &got.author, &got.subject, &got.keywords, &got.creator, &got.producer];
            for k in 0..6 {
                if have[k].as_ref().map(|s| s.as_bytes()) != want.strings[k].as_deref() { out.push(("info-differs", format!("/{} reads {:?}, expected {:?}", INFO_KEYS[k], have[k].as_ref().map(|s| crate::run::show(s.as_bytes())), want.strings[k].as_ref().map(|s| crate::run::show(s))))); }
            }
            for (key, w, g) in [("CreationDate", &want.creation, &got.creation_date), ("ModDate", &want.modified, &got.mod_date)] {
                match (w, g) { (None, None) => {}, (Some(a), Some(b)) if date_eq(a, b) => {}, (a, b) => out.push(("info-differs", format!("/{} reads {:?}, expected {:?}", key, b, a))) }
            }
            let t = got.trapped.as_ref().map(|t| match t { Trapped::True => 0u8, Trapped::False => 1, Trapped::Unknown => 2 });
            if t != want.trapped { out.push(("info-differs", format!("/Trapped reads {:?}, expected {:?}", t, want.trapped))); }
        }
        (w, g) => out.push(("info-differs", format!("info dictionary present: {}, given: {}", g.is_some(), w.is_some()))),
    }
    out
}
