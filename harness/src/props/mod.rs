pub mod c01; pub mod c02; pub mod c03; pub mod c04; pub mod c05; pub mod c06; pub mod c07; pub mod c08; pub mod c09; pub mod c10; pub mod c10_gen; pub mod c10_build; pub mod c10_min;
pub mod c11; pub mod c12; pub mod c13; pub mod c14; pub mod c15; pub mod c15_schema; pub mod c15_gen; pub mod c15_cmp; pub mod c16; pub mod c17; pub mod c18; pub mod c19; pub mod c20; pub mod c20_gen;
