pub mod c16;
