//! C03 — not built yet.
use crate::run::Run;
pub fn run(_run: &Run) { eprintln!("C03: check not built yet"); std::process::exit(2); }
