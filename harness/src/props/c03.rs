//! C03 — every spec-conformant spelling of an object parses to the value it denotes.
use crate::casecheck::check_case;
use crate::panicmon::guard;
use crate::par::par_for;
use crate::printer::Printer;
use crate::rng::{fnv, Rng};
use crate::run::{show, Run};
use crate::tape::Src;
use crate::val::{gen_value, matches, GenOpts, V};
use pdf::error::PdfError;
use pdf::object::{NoResolve, PlainRef, Resolve};
use pdf::parser::{parse, parse_indirect_object, parse_stream, parse_with_lexer, Context, Lexer, ParseFlags};
use pdf::primitive::Primitive;
use serde_json::{json, Value};
use std::sync::Arc;

/// Resolver that serves stream bytes out of the buffer being parsed (Resolve is a public trait).
struct BufResolve<'a> { buf: &'a [u8] }
impl<'a> Resolve for BufResolve<'a> {
    fn resolve_flags(&self, _: PlainRef, _: ParseFlags, _: usize) -> pdf::error::Result<Primitive> { Err(PdfError::Reference) }
    fn get<T: pdf::object::Object + datasize::DataSize>(&self, _: pdf::object::Ref<T>) -> pdf::error::Result<pdf::object::RcRef<T>> { Err(PdfError::Reference) }
    fn options(&self) -> &pdf::object::ParseOptions { NoResolve.options() }
    fn stream_data(&self, _: PlainRef, range: std::ops::Range<usize>) -> pdf::error::Result<Arc<[u8]>> {
        self.buf.get(range).map(|s| s.into()).ok_or(PdfError::EOF)
    }
    fn get_data_or_decode(&self, id: PlainRef, range: std::ops::Range<usize>, _: &[pdf::enc::StreamFilter]) -> pdf::error::Result<Arc<[u8]>> { self.stream_data(id, range) }
}

struct SeqCase { text: Vec<u8>, items: Vec<(V, usize, usize)> }

fn gen_seq(s: &mut Src, max_items: u32, depth: u32) -> SeqCase {
    let n = 1 + s.draw(max_items);
    let opts = GenOpts { depth, refs: true, max_str: 10, wide_names: s.draw(4) == 0 };
    let vals: Vec<V> = (0..n).map(|_| gen_value(s, &opts, 0)).collect();
    let mut p = Printer::new(s);
    p.first_token();
    let lead = p.s.alt(3, &["no_leading_ws", "leading_ws"]);
    if lead == 1 { p.out.extend_from_slice(b" \n"); }
    let mut items = Vec::new();
    for v in vals { let (a, b) = p.value(&v); items.push((v, a, b)); }
    // end of buffer directly after the last token is the plain form; trailing white-space is the alternative
    match p.s.alt(2, &["eob_tight", "trailing_sp", "trailing_lf"]) { 1 => p.out.push(b' '), 2 => p.out.push(b'\n'), _ => {} }
    let text = std::mem::take(&mut p.out);
    SeqCase { text, items }
}

fn run_seq(c: &SeqCase) -> Option<(String, String)> {
    let r = guard(|| {
        let mut lx = Lexer::new(&c.text);
        for (k, (v, _start, end)) in c.items.iter().enumerate() {
            let next_start = c.items.get(k + 1).map(|x| x.1).unwrap_or(c.text.len());
            match parse_with_lexer(&mut lx, &NoResolve, ParseFlags::ANY) {
                Err(e) => return Some(("error-instead-of-value".to_string(), format!("item {}: {}", k, first_line(&e)))),
                Ok(p) => {
                    if let Err(m) = matches(&p, v, true) { return Some(("wrong-value".to_string(), format!("item {}: {}", k, m))); }
                    let pos = lx.get_pos();
                    if pos < *end || pos > next_start { return Some(("wrong-position".to_string(), format!("item {}: lexer at {} but the value's text is [..{}) and the next starts at {}", k, pos, end, next_start))); }
                }
            }
        }
        None
    });
    match r { Ok(x) => x, Err(p) => Some((p.signature(), p.describe())) }
}
fn first_line(e: &PdfError) -> String {
    let k = crate::doc::root_kind(e);
    let s = format!("{}", crate::doc::root_cause(e));
    format!("{}: {}", k, s.lines().next().unwrap_or("").chars().take(80).collect::<String>())
}

// ---- indirect objects and streams
struct IndCase { text: Vec<u8>, nr: u64, gen: u64, val: V, stream: Option<Vec<u8>>, use_parse_stream: bool }

fn gen_ind(s: &mut Src) -> IndCase {
    let nr = 1 + s.draw(100000) as u64;
    let gen = if s.draw(4) == 0 { s.draw(65536) as u64 } else { 0 };
    let is_stream = s.draw(3) == 0;
    let opts = GenOpts { depth: 2, refs: true, max_str: 8, wide_names: false };
    if !is_stream {
        let val = gen_value(s, &opts, 0);
        let mut p = Printer::new(s);
        p.first_token();
        p.tok(nr.to_string().as_bytes(), true, true);
        p.tok(gen.to_string().as_bytes(), true, true);
        p.tok(b"obj", true, true);
        p.value(&val);
        p.tok(b"endobj", true, true);
        p.out.push(b'\n');
        let text = std::mem::take(&mut p.out);
        IndCase { text, nr, gen, val, stream: None, use_parse_stream: false }
    } else {
        let data = s.bytes(40);
        let mut items: Vec<(String, V)> = vec![("Length".into(), V::Int(data.len() as i32))];
        let extra = s.draw(3);
        for i in 0..extra { items.insert(s.draw(items.len() as u32 + 1) as usize, (format!("K{}", i), gen_value(s, &GenOpts { depth: 1, refs: false, max_str: 6, wide_names: false }, 0))); }
        let val = V::Dict(items);
        let use_parse_stream = s.alt(2, &["via_indirect_object", "via_parse_stream"]) == 1;
        let mut p = Printer::new(s);
        p.first_token();
        if !use_parse_stream {
            p.tok(nr.to_string().as_bytes(), true, true);
            p.tok(gen.to_string().as_bytes(), true, true);
            p.tok(b"obj", true, true);
        }
        p.value(&val);
        // a comment may stand between the dictionary and the keyword like between any two tokens (7.2.3), not after it
        p.tok(b"stream", true, true);
        p.allow_comments = false;
        let eol = p.s.alt(2, &["stream_lf", "stream_crlf"]);
        p.raw(if eol == 0 { b"\n" } else { b"\r\n" });
        p.raw(&data);
        match p.s.alt(2, &["endstream_after_lf", "endstream_tight", "endstream_after_crlf", "endstream_after_cr"]) { 0 => p.raw(b"\n"), 2 => p.raw(b"\r\n"), 3 => p.raw(b"\r"), _ => {} }
        p.raw(b"endstream");
        p.allow_comments = true;
        if !use_parse_stream { p.after_regular(); p.tok(b"endobj", true, true); }
        p.out.push(b'\n');
        let text = std::mem::take(&mut p.out);
        IndCase { text, nr, gen, val, stream: Some(data), use_parse_stream }
    }
}

fn run_ind(c: &IndCase) -> Option<(String, String)> {
    let r = guard(|| {
        let res = BufResolve { buf: &c.text };
        let parsed: Result<Primitive, PdfError> = if c.use_parse_stream {
            let ctx = Context { decoder: None, id: PlainRef { id: c.nr, gen: c.gen } };
            parse_stream(&c.text, &res, &ctx).map(Primitive::Stream)
        } else {
            let mut lx = Lexer::new(&c.text);
            parse_indirect_object(&mut lx, &res, None, ParseFlags::ANY).and_then(|(r, p)| {
                if r.id != c.nr || r.gen != c.gen { Err(PdfError::Other { msg: format!("wrong object id {} {}", r.id, r.gen) }) } else { Ok(p) }
            })
        };
        match parsed {
            Err(e) => Some(("error-instead-of-value".to_string(), first_line(&e))),
            Ok(Primitive::Stream(st)) => {
                let Some(data) = &c.stream else { return Some(("wrong-value".into(), "got a stream for a non-stream object".into())) };
                if let Err(m) = matches(&Primitive::Dictionary(st.info.clone()), &c.val, true) { return Some(("wrong-value".into(), format!("stream dictionary: {}", m))); }
                match st.raw_data(&res) {
                    Ok(d) if &d[..] == &data[..] => None,
                    Ok(d) => Some(("wrong-stream-data".into(), format!("stream data {:?} expected {:?}", show(&d), show(data)))),
                    Err(e) => Some(("stream-data-error".into(), first_line(&e))),
                }
            }
            Ok(p) => {
                if c.stream.is_some() { return Some(("wrong-value".into(), "stream object parsed as non-stream".into())); }
                matches(&p, &c.val, true).err().map(|m| ("wrong-value".to_string(), m))
            }
        }
    });
    match r { Ok(x) => x, Err(p) => Some((p.signature(), p.describe())) }
}

// ---- exhaustive adjacency matrix: every pair of token kinds with every separator, in three contexts
fn token_samples() -> Vec<(&'static str, V)> {
    vec![
        ("int", V::Int(12)), ("negint", V::Int(-7)), ("real", V::Real("3.25".into())), ("name", V::Name("Nm".into())), ("emptyname", V::Name("".into())),
        ("lit", V::Str(b"a(b)c".to_vec())), ("hex", V::Str(vec![0x01, 0xfe])), ("true", V::Bool(true)), ("false", V::Bool(false)), ("null", V::Null),
        ("ref", V::Ref(4, 0)), ("arr", V::Arr(vec![V::Int(1)])), ("emptyarr", V::Arr(vec![])), ("dict", V::Dict(vec![("K".into(), V::Int(2))])), ("emptydict", V::Dict(vec![])),
    ]
}
const SEPS: [&str; 12] = ["sp", "sep_lf", "sep_cr", "sep_crlf", "sep_tab", "sep_ff", "sep_nul", "sep_run", "comment_lf", "comment_cr", "comment_crlf", "no_sep"];

fn plain_text(v: &V) -> Vec<u8> {
    let mut s = Src::replay(&[]);
    let mut p = Printer::new(&mut s);
    p.first_token();
    p.value(v);
    p.out
}
fn sep_bytes(name: &str) -> &'static [u8] {
    match name { "sp" => b" ", "sep_lf" => b"\n", "sep_cr" => b"\r", "sep_crlf" => b"\r\n", "sep_tab" => b"\t", "sep_ff" => b"\x0c", "sep_nul" => b"\0",
        "sep_run" => b" \n\t ", "comment_lf" => b"%c 1 0 obj (\n", "comment_cr" => b"%c ] >>\r", "comment_crlf" => b" %\r\n", _ => b"" }
}
fn regular_end(v: &V) -> bool { matches!(v, V::Int(_) | V::Real(_) | V::Name(_) | V::Bool(_) | V::Null | V::Ref(..)) }
fn regular_start(v: &V) -> bool { matches!(v, V::Int(_) | V::Real(_) | V::Bool(_) | V::Null | V::Ref(..)) }

fn adjacency(run: &Run) {
    let toks = token_samples();
    let mut n = 0u64;
    for (an, a) in &toks { for (bn, b) in &toks { for sep in SEPS {
        if sep == "no_sep" && regular_end(a) && regular_start(b) { continue; }
        for ctx in ["seq", "array", "dict"] {
            let (ta, tb) = (plain_text(a), plain_text(b));
            let sb = sep_bytes(sep);
            let (text, expect): (Vec<u8>, Vec<V>) = match ctx {
                "seq" => ([&ta[..], sb, &tb[..]].concat(), vec![a.clone(), b.clone()]),
                "array" => ([b"[", &ta[..], sb, &tb[..], b"]"].concat(), vec![V::Arr(vec![a.clone(), b.clone()])]),
                _ => ([b"<</A ", &ta[..], sb, b"/B ", &tb[..], sb, b">>"].concat(), vec![V::Dict(vec![("A".into(), a.clone()), ("B".into(), b.clone())])]),
            };
            run.eval(); n += 1;
            run.nontrivial(fnv(&text));
            let out = guard(|| {
                let mut lx = Lexer::new(&text);
                for (k, v) in expect.iter().enumerate() {
                    match parse_with_lexer(&mut lx, &NoResolve, ParseFlags::ANY) {
                        Err(e) => return Some(("error-instead-of-value".to_string(), format!("item {}: {}", k, first_line(&e)))),
                        Ok(p) => if let Err(m) = matches(&p, v, true) { return Some(("wrong-value".to_string(), format!("item {}: {}", k, m))); }
                    }
                }
                None
            });
            let out = match out { Ok(x) => x, Err(p) => Some((p.signature(), p.describe())) };
            if let Some((cls, detail)) = out {
                // signature by separator + whether the left token ends regular / is an integer-like token + outcome
                let left = if matches!(a, V::Int(_) | V::Ref(..)) { "after-int" } else if regular_end(a) { "after-regular" } else { "after-delimited" };
                let right_eob = ctx == "seq" && matches!(b, V::Int(_));
                let sig = format!("C03|adjacency|{}|{}{}|{}", sep, left, if right_eob { "+int-at-eob" } else { "" }, cls);
                run.violation(&sig, &format!("{} {} {} in {}: {}", an, sep, bn, ctx, detail), json!({"text": show(&text), "context": ctx}));
            }
        }
    } } }
    run.add("adjacency_cases", n);
    run.exhaustive("15x15 token kinds x 12 separators x {sequence, array, dictionary}", true);
}

fn single_bytes(run: &Run) {
    // all 256 one-byte strings in every spelling the printer knows; all #xx names
    for b in 0..=255u8 {
        let spellings: Vec<(&str, Vec<u8>)> = {
            let mut v = vec![("octal3", format!("(\\{:03o})", b).into_bytes()), ("hexU", format!("<{:02X}>", b).into_bytes()), ("hexL", format!("<{:02x}>", b).into_bytes()),
                ("hex_ws", format!("< {:X}\n{:X} >", b >> 4, b & 15).into_bytes())];
            if b < 0o100 { v.push(("octal-short", format!("(\\{:o})", b).into_bytes())); }
            if b & 15 == 0 { v.push(("hex_odd", format!("<{:X}>", b >> 4).into_bytes())); }
            if !b"()\\\r".contains(&b) { v.push(("raw", [b"(", &[b][..], b")"].concat())); }
            if b"()\\".contains(&b) { v.push(("backslash", vec![b'(', b'\\', b, b')'])); }
            if b == b'\n' { v.push(("raw_cr", b"(\r)".to_vec())); v.push(("raw_crlf", b"(\r\n)".to_vec())); v.push(("esc_n", b"(\\n)".to_vec())); }
            if b == b'\r' { v.push(("esc_r", b"(\\r)".to_vec())); }
            if b == b'\t' { v.push(("esc_t", b"(\\t)".to_vec())); }
            if b == 8 { v.push(("esc_b", b"(\\b)".to_vec())); }
            if b == 12 { v.push(("esc_f", b"(\\f)".to_vec())); }
            if (0x20..0x7f).contains(&b) && !b"nrtbf()\\01234567".contains(&b) { v.push(("backslash_ignored", vec![b'(', b'\\', b, b')'])); }
            v
        };
        for (sp, text) in spellings {
            run.eval(); run.nontrivial(fnv(&text));
            let r = guard(|| parse(&text, &NoResolve, ParseFlags::ANY));
            let bad = match &r { Ok(Ok(Primitive::String(s))) if s.as_bytes() == [b] => None, Ok(Ok(p)) => Some(("wrong-value", crate::val::brief_p(p))), Ok(Err(e)) => Some(("error-instead-of-value", first_line(e))), Err(p) => Some(("panic", p.describe())) };
            if let Some((cls, d)) = bad {
                let class = match b { b'\n' | b'\r' => "eol-byte", 0x80..=0xff => "high-byte", 0..=0x1f => "ctrl-byte", _ => "printable" };
                run.violation(&format!("C03|one-byte-string|{}|{}|{}", sp, if sp == "raw" || sp == "backslash_ignored" { class } else { "any" }, cls), &format!("{} -> {}", show(&text), d), json!({"text": show(&text), "byte": b}));
            }
        }
        if b != 0 {
            for text in [format!("/A#{:02X}B", b).into_bytes(), format!("/#{:02x}", b).into_bytes()] {
                run.eval(); run.nontrivial(fnv(&text));
                let mut exp: Vec<u8> = Vec::new();
                if text[1] == b'A' { exp.push(b'A'); exp.push(b); exp.push(b'B'); } else { exp.push(b); }
                let Ok(exp_s) = String::from_utf8(exp) else { continue }; // non-UTF-8 names are outside the domain (names are text in this library)
                let r = guard(|| parse(&text, &NoResolve, ParseFlags::ANY));
                let bad = match &r { Ok(Ok(Primitive::Name(n))) if n.as_str() == exp_s => None, Ok(Ok(p)) => Some(("wrong-value", crate::val::brief_p(p))), Ok(Err(e)) => Some(("error-instead-of-value", first_line(e))), Err(p) => Some(("panic", p.describe())) };
                if let Some((cls, d)) = bad { run.violation(&format!("C03|name-hash-escape|{}", cls), &format!("{} -> {}", show(&text), d), json!({"text": show(&text)})); }
            }
        }
    }
    run.exhaustive("all 256 one-byte strings in each spelling; all #xx name escapes (UTF-8 results)", true);
}

fn witness_seq(c: &SeqCase) -> Value { json!({"text": show(&c.text), "values": c.items.iter().map(|(v, a, b)| json!({"v": crate::val::brief_v(v), "start": a, "end": b})).collect::<Vec<_>>()}) }
fn witness_ind(c: &IndCase) -> Value { json!({"text": show(&c.text), "nr": c.nr, "gen": c.gen, "value": crate::val::brief_v(&c.val), "stream": c.stream.as_ref().map(|d| show(d))}) }

/// Re-run a stored witness (choice tape + generator parameters) against the current tree.
pub fn replay(prefix: &str, tape: &[u32], params: &Value) -> Option<Option<(String, String)>> {
    let mut s = Src::replay(tape);
    match prefix {
        "seq" => { let c = gen_seq(&mut s, params["max_items"].as_u64()? as u32, params["depth"].as_u64()? as u32); Some(run_seq(&c)) }
        "indirect" => { let c = gen_ind(&mut s); Some(run_ind(&c)) }
        _ => None,
    }
}

pub fn run(run: &Run) {
    run.rule("values (all Primitive kinds, depth<=4, i32 ints, reals <=7 significant digits, strings over all bytes, UTF-8 names) printed by a conformant randomized printer (separators: every white-space char, runs, comments ended by LF/CR/CRLF, none where legal; literal escapes, octal 1-3 digits, line continuations, balanced parens, raw EOLs; hex strings with ws/odd digits; names with #xx; +/leading-zero/fraction-only numbers; references; LF/CRLF after stream) as single values, sequences on one lexer (position checked) and indirect objects/streams; plus exhaustive token-adjacency matrix and all one-byte strings / #xx names. Failing cases are tape-shrunk; distinct_nontrivial = distinct texts");
    run.assume("the printer in harness/src/printer.rs emits only spellings ISO 32000-1 7.2-7.3 permits; names restricted to valid UTF-8 without NUL");
    adjacency(run);
    single_bytes(run);
    let n = run.n(600_000, 10_000_000);
    let depth = if run.quick() { 3 } else { 4 };
    par_for(n, |i| {
        let s = Src::fresh(Rng::derive(run.seed, 3, i));
        run.eval();
        let max_items = if i % 3 == 0 { 1 } else { 6 };
        check_case(run, "C03", "seq", s, &|s| gen_seq(s, max_items, depth), &run_seq, &witness_seq,
            &|c, s| { run.nontrivial(fnv(&c.text)); run.count_labels(&s.labels); if i < 5 { run.sample(witness_seq(c)); } }, json!({"max_items": max_items, "depth": depth}));
    });
    if !run.quick() { crate::lanes::miri(run, "parse", &[1, 2, 3, 4, 5, 6, 7, 8], None); }
    let n2 = run.n(300_000, 5_000_000);
    par_for(n2, |i| {
        let s = Src::fresh(Rng::derive(run.seed, 33, i));
        run.eval();
        check_case(run, "C03", "indirect", s, &gen_ind, &run_ind, &witness_ind,
            &|c, s| { run.nontrivial(fnv(&c.text)); run.count(if c.stream.is_some() { "indirect:stream" } else { "indirect:value" }); run.count_labels(&s.labels); if i < 3 { run.sample(witness_ind(c)); } }, json!({}));
    });
    // thorough: the same quick workload once more under the AddressSanitizer build (memory errors in the library or its dependencies)
    if !run.quick() { crate::lanes::asan_rerun(run); }
}
