//! C15 — schema-driven generator of primitive-level inputs plus the backing object store.
use super::c15_schema::*;
use crate::tape::Src;
use pdf::file::{NoCache, NoLog, Storage};
use pdf::object::{PlainRef, Stream, Updater};
use pdf::primitive::{Dictionary, PdfStream, PdfString, Primitive};
use std::collections::HashMap;

pub type St = Storage<Vec<u8>, NoCache, NoCache, NoLog>;
pub fn new_store() -> St { Storage::empty(NoCache, NoCache, NoLog) }

pub fn name(s: &str) -> Primitive { Primitive::name(s) }
pub fn pstr(b: &[u8]) -> Primitive { Primitive::String(PdfString::new(b.into())) }
pub fn int(i: i32) -> Primitive { Primitive::Integer(i) }
pub fn num(f: f32) -> Primitive { Primitive::Number(f) }
pub fn arr(v: Vec<Primitive>) -> Primitive { Primitive::Array(v) }

/// a primitive stream object with in-memory data (the only public way to get `StreamInner::Pending`)
pub fn mk_stream(st: &mut St, mut info: Dictionary, data: &[u8]) -> PdfStream {
    let mut s = Stream::new((), data.to_vec()).to_pdf_stream(st).expect("Stream<()>::to_pdf_stream");
    info.insert("Length", int(data.len() as i32));
    s.info = info;
    s
}

const NAMES: &[&str] = &["A", "Foo", "Bar.Baz", "X1", "F1", "Im0", "GS1", "Helvetica", "ABCDEF+Times-Roman", "Adobe.PPKLite"];
const MAP_KEYS: &[&str] = &["A", "B0", "Im1", "F1", "GS0", "Cs1", "P2", "On", "Off"];
/// keys that no model in the table recognises
const EXTRA_KEYS: &[&str] = &["XX_Custom", "ZzPrivate", "PieceInfoX", "AAPL_Key", "Q9"];
const STRS: &[&[u8]] = &[b"Hello", b"", b"\xfe\xff\x00A\x00\xe4", b"(paren) \\ back", b"/Helv 12 Tf 0 g", b"\x00\x01\xff"];
const REALS: &[f32] = &[0.1, 595.28, 841.89, -3.25, 1000.0, 0.001, 12.75, 2.5e-3, 72.0, -0.5];
const OPS: &[&[u8]] = &[b"", b"q\nQ\n", b"0 0 m\n10 10 l\nS\n", b"BT\n/F1 12 Tf\n(Hi) Tj\nET\n", b"1 0 0 1 5 5 cm\n/Im0 Do\n"];
const PARAM_FILTERS: &[&str] = &["FlateDecode", "LZWDecode", "DCTDecode", "CCITTFaxDecode"];
const PLAIN_FILTERS: &[&str] = &["ASCIIHexDecode", "ASCII85Decode", "RunLengthDecode", "JPXDecode"];
pub const WRITABLE_FONT_SUBTYPES: &[&str] = &["Type1", "TrueType", "Type0", "CIDFontType0", "CIDFontType2"];

pub fn params_model(filter: &str) -> Option<&'static str> {
    match filter {
        "FlateDecode" | "LZWDecode" => Some("LZWFlateParams"),
        "DCTDecode" => Some("DCTDecodeParams"),
        "CCITTFaxDecode" => Some("CCITTFaxDecodeParams"),
        "JBIG2Decode" => Some("JBIG2DecodeParams"),
        _ => None,
    }
}

pub struct Gen<'a> {
    pub src: &'a mut Src,
    pub st: &'a mut St,
    depth: u32,
    pool: HashMap<String, Vec<PlainRef>>,
    pub n_objects: u32,
}

impl<'a> Gen<'a> {
    pub fn new(src: &'a mut Src, st: &'a mut St) -> Gen<'a> { Gen { src, st, depth: 0, pool: HashMap::new(), n_objects: 0 } }

    /// store an object, return a reference to it
    pub fn put(&mut self, p: Primitive) -> Primitive {
        self.n_objects += 1;
        let r = self.st.create(p).expect("create primitive in store");
        Primitive::Reference(r.get_ref().get_inner())
    }
    fn deep(&self) -> bool { self.depth >= 3 }
    fn pick_s(&mut self, xs: &[&'static str]) -> &'static str { xs[self.src.draw(xs.len() as u32) as usize] }
    fn pick_b(&mut self, xs: &[&'static [u8]]) -> &'static [u8] { xs[self.src.draw(xs.len() as u32) as usize] }

    /// top-level value of a target
    pub fn top(&mut self, k: &K) -> Primitive { self.direct(k, true) }

    /// value in field / element position
    pub fn value(&mut self, k: &K) -> Primitive {
        let v = self.direct(k, false);
        let den = if matches!(k, K::M(..) | K::MT(..) | K::Dict) { 4 } else { 16 };
        if wrap_ok(k) && !matches!(v, Primitive::Reference(_)) && self.src.chance(1, den) {
            self.src.label("indirect-value");
            return self.put(v);
        }
        v
    }

    fn reference(&mut self, inner: &K) -> Primitive {
        let key = format!("{:?}", inner);
        if let Some(ids) = self.pool.get(&key) {
            if !ids.is_empty() && self.src.chance(1, 4) {
                let i = self.src.draw(ids.len() as u32) as usize;
                return Primitive::Reference(self.pool[&key][i]);
            }
        }
        self.depth += 1;
        let v = self.direct(inner, false);
        self.depth -= 1;
        let r = match v { Primitive::Reference(_) => v, other => self.put(other) };
        if let Primitive::Reference(id) = r { self.pool.entry(key).or_default().push(id); }
        r
    }

    fn direct(&mut self, k: &K, top: bool) -> Primitive {
        match k {
            K::Int(lo, hi) => { let span = ((*hi as i64 - *lo as i64) as u32).min(1 << 16); int(*lo + self.src.draw(span + 1) as i32) }
            K::UInt(max) => { let span = (*max as u32).min(1 << 16); int(self.src.draw(span + 1) as i32) }
            K::Real => self.real(),
            K::Bool => Primitive::Boolean(self.src.draw(2) == 1),
            K::Name => name(self.pick_s(NAMES)),
            K::NameEnum(vars, other) => {
                if *other && self.src.chance(1, 6) { self.src.label("enum-other-variant"); name("CustomVariantXyz") } else { name(self.pick_s(vars)) }
            }
            K::IntEnum(vals) => int(*self.src.pick(vals)),
            K::Str => { if self.src.chance(1, 5) { let b = self.src.bytes(8); pstr(&b) } else { pstr(self.pick_b(STRS)) } }
            K::Date => self.date(),
            K::Rect => { let v = self.distinct_numbers(4); arr(v) }
            K::Matrix => { let v = self.distinct_numbers(6); arr(v) }
            K::Prim => self.prim(0, true),
            K::Dict => Primitive::Dictionary(self.dict(0)),
            K::Many(inner, bare) => {
                let n = if self.deep() { [1usize, 0][self.src.draw(2) as usize] } else { [1usize, 0, 2, 3][self.src.draw(4) as usize] };
                if n == 1 && *bare && self.src.chance(1, 3) { self.src.label("bare-single"); return self.value(inner); }
                let v = (0..n).map(|_| self.value(inner)).collect();
                arr(v)
            }
            K::Map(inner) => {
                let n = if self.deep() { [1usize, 0][self.src.draw(2) as usize] } else { [1usize, 0, 2, 3][self.src.draw(4) as usize] };
                let mut d = Dictionary::new();
                let start = self.src.draw(MAP_KEYS.len() as u32) as usize;
                for i in 0..n { let v = self.value(inner); d.insert(MAP_KEYS[(start + i) % MAP_KEYS.len()], v); }
                Primitive::Dictionary(d)
            }
            K::Pair(a, b) => { let x = self.value(a); let y = self.value(b); arr(vec![x, y]) }
            K::M(n) => Primitive::Dictionary(self.model(n, false, top)),
            K::MT(n) => Primitive::Dictionary(self.model(n, true, top)),
            K::Ref(inner, _) => self.reference(inner),
            K::MaybeRef(inner) | K::Lazy(inner) => {
                let must_ref = matches!(**inner, K::Stream(..) | K::XObject | K::Pattern | K::Content);
                if must_ref || self.src.chance(1, 2) { self.reference(inner) } else { self.depth += 1; let v = self.direct(inner, false); self.depth -= 1; v }
            }
            K::Stream(info, decodes) => {
                let s = self.stream(info, *decodes, top);
                if top { Primitive::Stream(s) } else { self.put(Primitive::Stream(s)) }
            }
            K::Dest => self.dest(),
            K::MaybeNamedDest => { if self.src.chance(1, 3) { pstr(b"chapter.1") } else { self.dest() } }
            K::Action => self.action(),
            K::Encoding => self.encoding(),
            K::CMapEncoding => match self.src.alt(3, &["cmap-identity", "cmap-other-name", "cmap-stream"]) {
                0 => name("Identity-H"),
                1 => name("UniJIS-UCS2-H"),
                _ => {
                    let mut d = Dictionary::new();
                    d.insert("Type", name("CMap"));
                    d.insert("CMapName", name("Custom-H"));
                    let s = mk_stream(self.st, d, b"%!PS-Adobe-3.0 Resource-CMap\n");
                    self.put(Primitive::Stream(s))
                }
            },
            K::NumberTree(inner) => self.number_tree(inner),
            K::Font => { let sub = *self.src.pick(WRITABLE_FONT_SUBTYPES); self.font(sub, top) }
            K::FontSub(sub) => self.font(sub, top),
            K::CidToGid => {
                if self.src.chance(1, 2) { name("Identity") } else {
                    let n = self.src.draw(5) as usize * 2;
                    let data: Vec<u8> = (0..n).map(|_| self.src.byte()).collect();
                    let s = mk_stream(self.st, Dictionary::new(), &data);
                    self.put(Primitive::Stream(s))
                }
            }
            K::XObject => {
                let info = ["ImageDict", "FormDict", "PostScriptDict"][self.src.alt(2, &["xobject-image", "xobject-form", "xobject-ps"])];
                let s = self.stream(info, false, top);
                Primitive::Stream(s)
            }
            K::Pattern => {
                let mut d = self.model("PatternDict", false, top);
                if self.src.chance(1, 2) { d.insert("PatternType", int(1)); }
                if self.src.alt(2, &["pattern-dict", "pattern-stream"]) == 0 { Primitive::Dictionary(d) } else {
                    let ops = *self.src.pick(OPS);
                    Primitive::Stream(mk_stream(self.st, d, ops))
                }
            }
            K::ColorSpace => self.colorspace(),
            K::Content => {
                let one = |g: &mut Gen| { let ops = *g.src.pick(OPS); let s = mk_stream(g.st, Dictionary::new(), ops); g.put(Primitive::Stream(s)) };
                if self.src.alt(2, &["content-single", "content-array"]) == 0 { one(self) } else {
                    let n = [2usize, 1, 0, 3][self.src.draw(4) as usize];
                    let v = (0..n).map(|_| one(self)).collect();
                    arr(v)
                }
            }
            K::ApEntry => {
                if self.src.alt(2, &["ap-stream", "ap-state-dict"]) == 0 { Primitive::Stream(self.stream("FormDict", false, false)) } else {
                    let n = if self.src.alt(8, &["ap-states", "ap-empty-state-dict"]) == 0 { 1 + self.src.draw(2) as usize } else { 0 };
                    let mut d = Dictionary::new();
                    for i in 0..n {
                        let s = self.stream("FormDict", false, false);
                        let r = self.put(Primitive::Stream(s));
                        d.insert(["On", "Off"][i], r);
                    }
                    Primitive::Dictionary(d)
                }
            }
            K::PagesNode => {
                if self.src.alt(2, &["node-page", "node-pages"]) == 0 { Primitive::Dictionary(self.model("Page", true, top)) }
                else { Primitive::Dictionary(self.model("PageTree", true, top)) }
            }
        }
    }

    fn real(&mut self) -> Primitive {
        match self.src.draw(3) {
            0 => num(self.src.draw(400) as f32 / 4.0),
            1 => int(self.src.draw(1000) as i32 - 100),
            _ => num(*self.src.pick(REALS)),
        }
    }
    fn distinct_numbers(&mut self, n: usize) -> Vec<Primitive> {
        // pairwise distinct values so that a swapped or dropped coordinate is visible
        let mut seen: Vec<f32> = Vec::new();
        let mut out = Vec::new();
        for i in 0..n {
            let mut p = self.real();
            let mut v = match p { Primitive::Integer(i) => i as f32, Primitive::Number(f) => f, _ => 0.0 };
            if seen.contains(&v) { v = 2000.5 + i as f32; p = num(v); }
            seen.push(v);
            out.push(p);
        }
        out
    }

    fn date(&mut self) -> Primitive {
        let y = 1990 + self.src.draw(50);
        let (mo, d) = (1 + self.src.draw(12), 1 + self.src.draw(28));
        let (h, mi, s) = (self.src.draw(24), self.src.draw(60), self.src.draw(60));
        let sign = ["+", "-"][self.src.draw(2) as usize];
        let (th, tm) = (self.src.draw(13), [0u32, 30, 45][self.src.draw(3) as usize]);
        let text = match self.src.alt(4, &["date-full", "date-pdf17-apostrophe", "date-no-zone", "date-partial", "date-z"]) {
            0 => format!("D:{:04}{:02}{:02}{:02}{:02}{:02}{}{:02}'{:02}", y, mo, d, h, mi, s, sign, th, tm),
            1 => format!("D:{:04}{:02}{:02}{:02}{:02}{:02}{}{:02}'{:02}'", y, mo, d, h, mi, s, sign, th, tm),
            2 => format!("D:{:04}{:02}{:02}{:02}{:02}{:02}", y, mo, d, h, mi, s),
            3 => match self.src.draw(4) {
                0 => format!("D:{:04}", y),
                1 => format!("D:{:04}{:02}", y, mo),
                2 => format!("D:{:04}{:02}{:02}", y, mo, d),
                _ => format!("D:{:04}{:02}{:02}{:02}{:02}", y, mo, d, h, mi),
            },
            _ => format!("D:{:04}{:02}{:02}{:02}{:02}{:02}Z", y, mo, d, h, mi, s),
        };
        pstr(text.as_bytes())
    }

    /// arbitrary primitive (for `Primitive`-typed fields and unknown entries)
    pub fn prim(&mut self, depth: u32, allow_null: bool) -> Primitive {
        let n = if depth >= 2 { 6 } else { 9 };
        match self.src.draw(n) {
            0 => int(self.src.draw(2000) as i32 - 1000),
            1 => num(*self.src.pick(REALS)),
            2 => Primitive::Boolean(self.src.draw(2) == 1),
            3 => name(self.pick_s(NAMES)),
            4 => pstr(self.pick_b(STRS)),
            5 => if allow_null { Primitive::Null } else { int(7) },
            6 => { let k = self.src.draw(4) as usize; let v = (0..k).map(|_| self.prim(depth + 1, true)).collect(); arr(v) }
            7 => Primitive::Dictionary(self.dict(depth + 1)),
            _ => { let v = self.prim(depth + 1, false); self.put(v) }
        }
    }
    pub fn dict(&mut self, depth: u32) -> Dictionary {
        let n = self.src.draw(4) as usize;
        let mut d = Dictionary::new();
        let start = self.src.draw(MAP_KEYS.len() as u32) as usize;
        for i in 0..n { let v = self.prim(depth + 1, false); d.insert(MAP_KEYS[(start + i) % MAP_KEYS.len()], v); }
        d
    }

    /// dictionary of a struct model: presence bits of all non-required fields are drawn FIRST (so that a tape prefix
    /// enumerates the optional-field subsets of the top-level model), then the tag, the values and the unknown entries
    pub fn model(&mut self, mname: &str, force_type: bool, top: bool) -> Dictionary {
        let m = model(mname);
        let deep = self.deep();
        let present: Vec<bool> = m.fields.iter().map(|f| match f.req {
            Req::Req => true,
            _ => if top { self.src.chance(1, 2) } else if deep { false } else { self.src.chance(1, 3) },
        }).collect();
        self.depth += 1;
        let mut d = Dictionary::new();
        if let Some((t, required)) = m.ty {
            if required || force_type || self.src.alt(5, &["type-tag", "no-type-tag"]) == 0 { d.insert("Type", name(t)); }
        }
        for (k, v) in &m.checks { d.insert(*k, name(v)); }
        for (f, p) in m.fields.iter().zip(present) {
            if !p { continue; }
            let v = match &f.req {
                Req::Def(dv) if self.src.chance(1, 2) => { self.src.label("explicit-default"); match dv { Dv::I(i) => int(*i), Dv::F(x) => num(*x), Dv::B(b) => Primitive::Boolean(*b) } }
                _ => self.value(&f.k),
            };
            d.insert(f.key, v);
        }
        for (key, k) in &m.spec_extra {
            if !deep && self.src.alt(3, &["declared-entries-only", "spec-key-not-in-model"]) == 1 { let v = self.value(k); d.insert(*key, v); }
        }
        if m.other {
            let n = self.src.pick_w(2, 2) as usize;
            for _ in 0..n {
                let key = *self.src.pick(EXTRA_KEYS);
                if d.get(key).is_none() { let v = self.prim(1, true); d.insert(key, v); self.src.label("unknown-entry"); }
            }
        }
        self.depth -= 1;
        d
    }

    /// `Stream<I>`: info dictionary from the model, /Filter and /DecodeParms in the shapes the specification allows
    pub fn stream(&mut self, info: &str, decodes: bool, top: bool) -> PdfStream {
        let mut d = if info.is_empty() { Dictionary::new() } else { self.model(info, false, top) };
        let mut data: Vec<u8> = { let n = self.src.draw(12) as usize; (0..n).map(|_| self.src.byte()).collect() };
        if decodes {
            if self.src.alt(3, &["unfiltered", "asciihex-data"]) == 1 {
                let mut enc: Vec<u8> = data.iter().flat_map(|b| format!("{:02x}", b).into_bytes()).collect();
                enc.push(b'>');
                data = enc;
                d.insert("Filter", name("ASCIIHexDecode"));
            }
        } else {
            let filters: Vec<&'static str> = match self.src.alt(8, &["unfiltered", "one-filter", "one-plain-filter", "filter-chain", "two-param-filters"]) {
                0 => vec![],
                1 => vec![*self.src.pick(PARAM_FILTERS)],
                2 => vec![*self.src.pick(PLAIN_FILTERS)],
                3 => vec![*self.src.pick(&["ASCII85Decode", "ASCIIHexDecode"]), *self.src.pick(PARAM_FILTERS)],
                _ => vec![*self.src.pick(&["FlateDecode", "LZWDecode"]), *self.src.pick(&["DCTDecode", "CCITTFaxDecode", "FlateDecode"])],
            };
            if !filters.is_empty() {
                let as_array = filters.len() > 1 || self.src.chance(1, 3);
                if as_array { d.insert("Filter", arr(filters.iter().map(|f| name(f)).collect())); } else { d.insert("Filter", name(filters[0])); }
                if filters.iter().any(|f| params_model(f).is_some()) && self.src.chance(2, 3) {
                    let mut parms: Vec<Primitive> = Vec::new();
                    for f in &filters {
                        match params_model(f) {
                            Some(pm) if self.src.chance(3, 4) => { self.depth += 1; let pd = self.model(pm, false, false); self.depth -= 1; parms.push(Primitive::Dictionary(pd)); }
                            _ => parms.push(Primitive::Null),
                        }
                    }
                    if as_array { d.insert("DecodeParms", arr(parms)); }
                    else if !matches!(parms[0], Primitive::Null) { d.insert("DecodeParms", parms.remove(0)); }
                }
            }
        }
        let mut s = mk_stream(self.st, d, &data);
        if self.src.alt(5, &["length-direct", "length-indirect"]) == 1 { let r = self.put(int(data.len() as i32)); s.info.insert("Length", r); }
        s
    }

    fn page_ref(&mut self) -> Primitive {
        if self.src.chance(1, 4) { Primitive::Null } else { self.reference(&K::MT("Page")) }
    }
    fn dest_array(&mut self) -> Primitive {
        let page = self.page_ref();
        let mut v = vec![page];
        let numornull = |g: &mut Gen| if g.src.chance(1, 3) { Primitive::Null } else { g.real() };
        match self.src.draw(7) {
            0 => { v.push(name("XYZ")); let (l, t, z) = (numornull(self), numornull(self), numornull(self)); v.extend([l, t, z]); }
            1 => v.push(name("Fit")),
            2 => { v.push(name("FitH")); v.push(self.real()); }
            3 => { v.push(name("FitV")); v.push(self.real()); }
            4 => { v.push(name("FitR")); let r = self.distinct_numbers(4); v.extend(r); }
            5 => v.push(name("FitB")),
            _ => { v.push(name("FitBH")); v.push(self.real()); }
        }
        arr(v)
    }
    fn dest(&mut self) -> Primitive {
        let a = self.dest_array();
        if self.src.alt(4, &["dest-array", "dest-dict-form"]) == 0 { a } else { let mut d = Dictionary::new(); d.insert("D", a); Primitive::Dictionary(d) }
    }
    fn action(&mut self) -> Primitive {
        let mut d = Dictionary::new();
        if self.src.chance(1, 2) { d.insert("Type", name("Action")); }
        match self.src.alt(2, &["action-goto", "action-uri", "action-named"]) {
            0 => { d.insert("S", name("GoTo")); let dest = if self.src.chance(1, 3) { pstr(b"chapter.1") } else { self.dest_array() }; d.insert("D", dest); }
            1 => { d.insert("S", name("URI")); d.insert("URI", pstr(b"http://example.org/")); }
            _ => { d.insert("S", name("Named")); d.insert("N", name("NextPage")); }
        }
        Primitive::Dictionary(d)
    }
    fn encoding(&mut self) -> Primitive {
        let base = |g: &mut Gen| if g.src.chance(1, 6) { g.src.label("enum-other-variant"); name("CustomEncodingXyz") } else { name(g.pick_s(&BASE_ENCODING[..5])) };
        if self.src.alt(2, &["encoding-name", "encoding-dict"]) == 0 { return base(self); }
        let mut d = Dictionary::new();
        if self.src.chance(1, 2) { d.insert("Type", name("Encoding")); }
        if self.src.chance(1, 2) { let b = base(self); d.insert("BaseEncoding", b); }
        if self.src.chance(3, 4) {
            let mut v = Vec::new();
            let runs = 1 + self.src.draw(3);
            let mut code = self.src.draw(40) as i32;
            for _ in 0..runs {
                v.push(int(code));
                let k = 1 + self.src.draw(3);
                for _ in 0..k { v.push(name(self.pick_s(&["quotesingle", "grave", "Adieresis", "Aring", "bullet", "Euro"]))); code += 1; }
                code += 1 + self.src.draw(60) as i32;
            }
            d.insert("Differences", arr(v));
        }
        Primitive::Dictionary(d)
    }
    fn number_tree(&mut self, inner: &K) -> Primitive {
        let leaf = |g: &mut Gen, limits: bool| {
            let n = [2usize, 1, 0, 3][g.src.draw(4) as usize];
            let mut nums = Vec::new();
            let mut key = g.src.draw(5) as i32;
            let first = key;
            let mut last = key;
            for _ in 0..n { nums.push(int(key)); last = key; let v = g.value(inner); nums.push(v); key += 1 + g.src.draw(9) as i32; }
            let mut d = Dictionary::new();
            d.insert("Nums", arr(nums));
            if limits && n > 0 { d.insert("Limits", arr(vec![int(first), int(last)])); }
            d
        };
        if self.deep() || self.src.alt(3, &["numtree-leaf", "numtree-kids"]) == 0 {
            Primitive::Dictionary(leaf(self, false))
        } else {
            let n = 1 + self.src.draw(2);
            let mut kids = Vec::new();
            for _ in 0..n { self.depth += 1; let l = leaf(self, true); self.depth -= 1; let r = self.put(Primitive::Dictionary(l)); kids.push(r); }
            let mut d = Dictionary::new();
            d.insert("Kids", arr(kids));
            Primitive::Dictionary(d)
        }
    }
    fn font(&mut self, sub: &str, top: bool) -> Primitive {
        let mname: &'static str = match sub {
            "Type1" => "Font:Type1", "TrueType" => "Font:TrueType", "Type0" => "Font:Type0",
            "CIDFontType0" => "Font:CIDFontType0", _ => "Font:CIDFontType2",
        };
        Primitive::Dictionary(self.model(mname, true, top))
    }
    fn colorspace(&mut self) -> Primitive { self.colorspace_depth(0) }
    fn colorspace_depth(&mut self, depth: usize) -> Primitive {
        let wp = || { let mut d = Dictionary::new(); d.insert("WhitePoint", arr(vec![real(0.9505), real(1.0), real(1.089)])); d };
        match self.src.alt(2, &["cs-rgb", "cs-cmyk", "cs-indexed", "cs-gray", "cs-pattern", "cs-named", "cs-calgray", "cs-calrgb", "cs-calcmyk", "cs-icc", "cs-lab-other"]) {
            0 => name("DeviceRGB"),
            1 => name("DeviceCMYK"),
            3 => name("DeviceGray"),
            4 => name("Pattern"),
            5 => name(["Cs0", "DefaultRGB", "My Space"][self.src.draw(3) as usize]),
            6 => { let mut d = wp(); if self.src.chance(1, 2) { d.insert("Gamma", real(2.2)); } arr(vec![name("CalGray"), Primitive::Dictionary(d)]) }
            7 => { let mut d = wp(); if self.src.chance(1, 2) { d.insert("Gamma", arr(vec![real(2.2), real(2.2), real(2.2)])); d.insert("Matrix", arr((0..9).map(|i| real(i as f32 * 0.125)).collect())); } arr(vec![name("CalRGB"), Primitive::Dictionary(d)]) }
            8 => arr(vec![name("CalCMYK"), Primitive::Dictionary(wp())]),
            9 => {
                // ICCBased: always an indirect stream (RcRef in the model)
                let n = [3i32, 1, 4][self.src.draw(3) as usize];
                let mut d = Dictionary::new();
                d.insert("N", int(n));
                if depth < 2 && self.src.chance(1, 2) { d.insert("Alternate", name(["DeviceGray", "DeviceRGB", "DeviceCMYK"][match n { 1 => 0, 3 => 1, _ => 2 }])); }
                if self.src.chance(1, 3) { d.insert("Range", arr((0..2 * n).map(|i| real((i % 2) as f32)).collect())); }
                let s = mk_stream(self.st, d, b"not a real profile");
                let r = self.put(Primitive::Stream(s));
                arr(vec![name("ICCBased"), r])
            }
            10 => { let mut d = wp(); d.insert("Range", arr(vec![int(-100), int(100), int(-100), int(100)])); arr(vec![name("Lab"), Primitive::Dictionary(d)]) }
            _ => {
                let (base, ncomp) = if self.src.chance(1, 2) { ("DeviceRGB", 3) } else { ("DeviceCMYK", 4) };
                let hival = [1i32, 0, 15, 49, 255][self.src.draw(5) as usize];
                let n = (hival as usize + 1) * ncomp;
                let data: Vec<u8> = (0..n).map(|i| (i * 7 + hival as usize) as u8).collect();
                let lookup = if self.src.alt(2, &["lookup-string", "lookup-stream"]) == 0 { pstr(&data) } else {
                    let s = mk_stream(self.st, Dictionary::new(), &data);
                    self.put(Primitive::Stream(s))
                };
                arr(vec![name("Indexed"), name(base), int(hival), lookup])
            }
        }
    }
}

fn real(x: f32) -> Primitive { Primitive::Number(x) }

/// kinds whose reader resolves a reference given in place of the value (so the value may be made indirect)
fn wrap_ok(k: &K) -> bool {
    matches!(k, K::Int(..) | K::UInt(..) | K::Real | K::Bool | K::Name | K::Str | K::Date | K::Rect | K::Dict | K::Many(..) | K::Map(..)
        | K::Pair(..) | K::M(..) | K::MT(..) | K::ColorSpace | K::Encoding | K::NumberTree(..) | K::Action)
}
