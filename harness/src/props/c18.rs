//! C18 — references to missing or free objects read as null.
//!
//! Tier 1 (schema sweep): for every typed model of the C15 schema table and every declared entry, a valid container is
//! generated (C15 generator, real `Storage`), exported together with everything it references into a real file written by
//! `mkpdf`, and ONE reference to a dangling object number is planted: as the entry's value, as an element of an array-valued
//! entry, or as a value of a name-keyed map entry. The number dangles in one of four ways: explicit free entry (optionally
//! deleted by an incremental update), hole between two cross-reference subsections, == /Size, > /Size. The file is loaded in
//! the four configurations and the container is read with its typed reader.
//!   optional entry  : the read succeeds and the entry's written-back value equals that of a CONTROL document in which the
//!                     entry (element, map entry) is simply not there  ("treated as absent");
//!   required entry  : the read fails with an error whose chain names the entry; the control (valid value) reads fine;
//!   never a panic.
//! Tier 2 (`c18_level.rs`): the document-level reads the statement names (load, get_page, resources, fonts ...) on a rich
//! document with the same plants in catalog / page / resources / font / image / outline / trailer entries.
use super::c15_gen::*;
use super::c15_schema::*;
use super::c18_doc::{self as doc, Dangling, DANGLING};
use super::c18_read::{read_target, LazyOut, ReadOut};
use crate::doc::{error_fields, root_kind, Cfg, CFGS};
use crate::mkpdf::{self, Obj};
use crate::panicmon::guard;
use crate::par::par_for;
use crate::rng::{fnv, Rng};
use crate::run::{hex, show, Run};
use crate::tape::{shrink, Src};
use crate::with_file;
use pdf::error::PdfError;
use pdf::object::PlainRef;
use pdf::primitive::{Dictionary, Primitive};
use serde_json::{json, Value};
use std::collections::BTreeMap;
use std::sync::Mutex;

#[derive(Clone, Copy, Debug, PartialEq, Eq)]
pub enum Variant { Field, Elem, MapVal }

#[derive(Clone, Copy, Debug, PartialEq, Eq)]
pub enum Class {
    /// the reader resolves the reference while reading the container
    Resolved,
    /// the reader stores the reference without looking at it (`Ref<T>`, `Primitive`): nothing but "the read succeeds" can be judged
    Deferred,
    /// `Lazy<T>`: stored verbatim, resolved by `load()`
    Lazy,
}

pub struct Target {
    /// name used in witnesses / counters
    pub name: &'static str,
    /// reader name for `c18_read::read_target`
    pub reader: &'static str,
    /// generation kind of the container
    pub k: K,
    /// schema model whose fields are swept
    pub model: &'static str,
}

pub fn targets() -> Vec<Target> {
    let mut v = Vec::new();
    let mut t = |name, reader, k, model| v.push(Target { name, reader, k, model });
    for m in ["Catalog", "PageLabel", "Resources", "PatternDict", "GraphicsStateParameters", "InteractiveFormDictionary", "SeedValueDictionary",
        "SignatureDictionary", "SignatureReferenceDictionary", "Annot", "FieldDictionary", "AppearanceStreams", "FileSpec", "Files", "EmbeddedFileParamDict",
        "Outlines", "MarkInformation", "StructTreeRoot", "StructElem", "InfoDict", "LZWFlateParams", "DCTDecodeParams", "CCITTFaxDecodeParams",
        "JBIG2DecodeParams", "TFont", "Type0Font", "CIDFont", "FontDescriptor"] {
        t(m, m, K::M(m), m);
    }
    t("PageTree", "PageTree", K::MT("PageTree"), "PageTree");
    t("PageTree@PagesNode", "PageTree@PagesNode", K::MT("PageTree"), "PageTree");
    t("Page", "Page", K::MT("Page"), "Page");
    t("Page@PagesNode", "Page@PagesNode", K::MT("Page"), "Page");
    t("ImageDict", "Stream<ImageDict>", K::Stream("ImageDict", false), "ImageDict");
    t("FormDict", "Stream<FormDict>", K::Stream("FormDict", false), "FormDict");
    t("EmbeddedFile", "Stream<EmbeddedFile>", K::Stream("EmbeddedFile", false), "EmbeddedFile");
    t("IccInfo", "Stream<IccInfo>", K::Stream("IccInfo", false), "IccInfo");
    t("FontStream3", "Stream<FontStream3>", K::Stream("FontStream3", false), "FontStream3");
    t("Font:Type1", "Font", K::FontSub("Type1"), "Font:Type1");
    t("Font:TrueType", "Font", K::FontSub("TrueType"), "Font:TrueType");
    t("Font:Type0", "Font", K::FontSub("Type0"), "Font:Type0");
    t("Font:CIDFontType0", "Font", K::FontSub("CIDFontType0"), "Font:CIDFontType0");
    t("Font:CIDFontType2", "Font", K::FontSub("CIDFontType2"), "Font:CIDFontType2");
    v
}

/// array-valued entries whose Rust type is `Option<Vec<T>>` (all others are plain `Vec<T>`, read from null as empty)
const OPTION_VEC: &[(&str, &str)] = &[("GraphicsStateParameters", "D"), ("ImageDict", "Decode"), ("InteractiveFormDictionary", "CO"),
    ("SeedValueDictionary", "SubFilter"), ("TFont", "Widths"), ("Font:Type1", "Widths"), ("Font:TrueType", "Widths"), ("IccInfo", "Range")];

/// Rust field names behind the PDF keys of required entries (pdf_derive reports the Rust field name in
/// `FromPrimitive.field` and `MissingEntry.field`); the key itself is always accepted as well
fn rust_names(key: &str) -> &'static [&'static str] {
    match key {
        "Pages" => &["pages"], "Count" => &["count"], "Parent" => &["parent"], "BBox" => &["bbox"], "XStep" => &["x_step"], "YStep" => &["y_step"],
        "Resources" => &["resources"], "Width" => &["width"], "Height" => &["height"], "Filter" => &["filter"], "SubFilter" => &["sub_filter"],
        "Contents" => &["contents"], "V" => &["v", "value"], "R" => &["r"], "Prop_Build" => &["prop_build"], "Prop_AuthTime" => &["prop_auth_time"],
        "Prop_AuthType" => &["prop_auth_type"], "TransformMethod" => &["transform_method"], "Subtype" => &["subtype"], "N" => &["normal", "components"],
        "S" => &["struct_type"], "P" => &["parent"], "Size" => &["size"], "Root" => &["root"], "CIDSystemInfo" => &["system_info"],
        "FontDescriptor" => &["font_descriptor"], "FontName" => &["font_name"], "Flags" => &["flags"], "FontBBox" => &["font_bbox"],
        "ItalicAngle" => &["italic_angle"], "BaseFont" => &["base_font", "name"],
        _ => &[],
    }
}

fn value_label(k: &K) -> (String, Class) {
    use Class::*;
    match k {
        K::Int(..) | K::UInt(..) | K::Real | K::Bool | K::Name | K::NameEnum(..) | K::IntEnum(..) | K::Str | K::Date | K::Rect | K::Matrix => ("scalar".into(), Resolved),
        K::Prim => ("Primitive".into(), Deferred),
        K::Dict => ("Dictionary".into(), Resolved),
        K::M(_) | K::MT(_) => ("model".into(), Resolved),
        K::Ref(_, false) => ("Ref".into(), Deferred),
        K::Ref(_, true) => ("RcRef".into(), Resolved),
        K::MaybeRef(_) => ("MaybeRef".into(), Resolved),
        K::Lazy(inner) => (format!("Lazy<{}>", value_label(inner).0), Lazy),
        K::Many(inner, _) => (format!("Vec<{}>", value_label(inner).0), Resolved),
        K::Map(inner) => (format!("HashMap<Name,{}>", value_label(inner).0), Resolved),
        K::Pair(..) => ("tuple".into(), Resolved),
        K::Stream(..) => ("Stream".into(), Resolved),
        K::Dest => ("Dest".into(), Resolved),
        K::MaybeNamedDest => ("MaybeNamedDest".into(), Resolved),
        K::Action => ("Action".into(), Resolved),
        K::Encoding | K::CMapEncoding => ("Encoding".into(), Resolved),
        K::NumberTree(_) => ("NumberTree".into(), Resolved),
        K::Font | K::FontSub(_) => ("Font".into(), Resolved),
        K::CidToGid => ("CidToGidMap".into(), Resolved),
        K::XObject => ("XObject".into(), Resolved),
        K::Pattern => ("Pattern".into(), Resolved),
        K::ColorSpace => ("ColorSpace".into(), Resolved),
        K::Content => ("Content".into(), Resolved),
        K::ApEntry => ("AppearanceStreamEntry".into(), Resolved),
        K::PagesNode => ("PagesNode".into(), Resolved),
    }
}

/// (root-cause family for the signature, detailed Rust container type for witness/evidence, class) of one planted position.
/// The family names the reader that has to cope with the dangling reference; the element type only decides how the error
/// is wrapped on its way there, and that wrapping is part of the signature as the error chain.
fn container_of(model: &str, f: &Field, variant: Variant) -> (&'static str, String, Class) {
    let font_own = model.starts_with("Font:") && matches!(f.key, "Encoding" | "ToUnicode" | "BaseFont");
    let opt_vec = OPTION_VEC.contains(&(model, f.key));
    match variant {
        Variant::Field => {
            let (l, c) = value_label(&f.k);
            let (fam, l) = match (&f.req, &f.k) {
                _ if font_own => ("Font-reader", if f.req == Req::Req { l } else { format!("Option<{}>", l) }),
                (Req::Req, _) => ("derived-reader", l),
                (Req::Def(_), _) => ("default", format!("default<{}>", l)),
                (Req::Opt, K::Many(..)) if !opt_vec => ("Vec", l),
                (Req::Opt, K::Map(..)) => ("HashMap", l),
                (Req::Opt, K::Lazy(..)) => ("Lazy value", l),
                (Req::Opt, _) => ("Option", format!("Option<{}>", l)),
            };
            (fam, l, c)
        }
        Variant::Elem | Variant::MapVal => {
            // class of the element / value, through an outer Lazy if there is one
            let (outer_lazy, coll) = match &f.k { K::Lazy(inner) => (true, &**inner), other => (false, other) };
            let inner = match coll { K::Many(i, _) | K::Map(i) => &**i, other => other };
            let (_, c) = value_label(inner);
            let (l, _) = value_label(&f.k);
            let fam = match (variant, outer_lazy, c) {
                (Variant::Elem, true, _) => "Lazy<Vec> element",
                (Variant::MapVal, _, Class::Lazy) => "HashMap<Name,Lazy> value",
                (Variant::Elem, _, _) => if opt_vec { "Option<Vec> element" } else { "Vec element" },
                (_, _, _) => "HashMap value",
            };
            (fam, if opt_vec { format!("Option<{}>", l) } else { l }, if outer_lazy { Class::Lazy } else { c })
        }
    }
}

#[derive(Clone, Copy, Debug)]
pub struct Job { pub target: usize, pub field: usize, pub variant: Variant, pub kind: Dangling }

fn jobs(ts: &[Target]) -> Vec<Job> {
    let mut v = Vec::new();
    for (ti, t) in ts.iter().enumerate() {
        let m = model(t.model);
        for (fi, f) in m.fields.iter().enumerate() {
            for kind in DANGLING {
                v.push(Job { target: ti, field: fi, variant: Variant::Field, kind });
                if f.req == Req::Req { continue; }
                let coll = match &f.k { K::Lazy(inner) => &**inner, other => other };
                match coll {
                    K::Many(..) => v.push(Job { target: ti, field: fi, variant: Variant::Elem, kind }),
                    K::Map(..) => v.push(Job { target: ti, field: fi, variant: Variant::MapVal, kind }),
                    _ => {}
                }
            }
        }
    }
    v
}

/// canonical text of a written-back value: dictionary order irrelevant, null entries == absent entries, 3 == 3.0;
/// `drop_null_elems`: a null array element counts as an absent element (top level only)
fn canon(p: &Primitive, drop_null_elems: bool) -> String {
    match p {
        Primitive::Null => "null".into(),
        Primitive::Integer(i) => format!("{}", *i as f64),
        Primitive::Number(f) => format!("{}", *f as f64),
        Primitive::Array(a) => {
            let v: Vec<String> = a.iter().filter(|x| !(drop_null_elems && matches!(x, Primitive::Null))).map(|x| canon(x, false)).collect();
            format!("[{}]", v.join(" "))
        }
        Primitive::Dictionary(d) => {
            let mut v: Vec<String> = d.iter().filter(|(_, x)| !matches!(x, Primitive::Null)).map(|(k, x)| format!("/{} {}", k.as_str(), canon(x, false))).collect();
            v.sort();
            format!("<<{}>>", v.join(" "))
        }
        Primitive::Stream(s) => format!("stream{}", canon(&Primitive::Dictionary(s.info.clone()), false)),
        other => format!("{}", other),
    }
}
/// the value of `key` in a written-back dictionary: None = absent / null / empty collection
fn entry(d: &Dictionary, key: &str) -> Option<String> {
    match d.get(key) {
        None | Some(Primitive::Null) => None,
        Some(Primitive::Array(a)) if a.iter().all(|x| matches!(x, Primitive::Null)) => None,
        Some(Primitive::Dictionary(m)) if m.iter().all(|(_, x)| matches!(x, Primitive::Null)) => None,
        Some(p) => Some(canon(p, true)),
    }
}

pub struct Built {
    pub dangling_doc: Vec<u8>,
    pub control_doc: Vec<u8>,
    /// optional entry as the entry's value: the container with a VALID value for the entry (establishes that the generated container is sound
    /// independently of how the library treats the absent entry)
    pub valid_doc: Option<Vec<u8>>,
    pub plan: doc::Plan,
    pub container_text: String,
    pub labels: Vec<&'static str>,
    pub via_get: bool,
    pub tape: Vec<u32>,
}

const DNG_KEY: &str = "Dng";

/// generate the container, plant the reference, write the test document and its control twin
/// `doctored` (self-test only): the "dangling" document gets a VALID value for the entry instead of the dangling reference — the library then
/// behaves like a stub that does not treat the entry as absent / does not report the required entry, and the oracle must say so
pub fn build_case(t: &Target, f: &Field, job: &Job, mut src: Src, sweep: u64, doctored: bool) -> Result<Built, String> {
    let minimal = sweep % 2 == 0;
    let m = model(t.model);
    if minimal {
        // presence bits of the optional entries are the first draws of the top-level model: all "absent"
        let mut prefix = vec![0u32; m.n_optional()];
        prefix.extend_from_slice(&src.tape);
        src.tape = prefix;
    }
    let mut st = new_store();
    let (top, before, after, valid_value) = {
        let mut g = Gen::new(&mut src, &mut st);
        let top = g.top(&t.k);
        // a valid value for the entry under test: the "valid twin" shows that the container is fine when the entry is present and sound
        let valid_value = if job.variant == Variant::Field && f.req != Req::Req { Some(g.value(&f.k)) } else { None };
        let coll = match &f.k { K::Lazy(inner) => (**inner).clone(), other => other.clone() };
        let (mut before, mut after) = (Vec::new(), Vec::new());
        if job.variant != Variant::Field {
            let inner = match &coll { K::Many(i, _) | K::Map(i) => (**i).clone(), _ => return Err("variant needs a collection".into()) };
            let nb = [1usize, 2, 0][(sweep % 3) as usize]; // valid neighbours: fixed per sweep so that every run covers 1, 2 (and 0 from the third sweep on)
            let pos = g.src.draw(nb as u32 + 1) as usize;
            for i in 0..nb { let v = g.value(&inner); if i < pos { before.push(v) } else { after.push(v) } }
        }
        (top, before, after, valid_value)
    };
    let via_get = src.draw(2) == 1;
    let store_objs = doc::export_store(&st)?;
    let plan = doc::plan(store_objs.len() as u32, job.kind, &mut src);
    let dref = Primitive::Reference(PlainRef { id: plan.dangling as u64, gen: 0 });
    let (planted, control): (Primitive, Option<Primitive>) = match job.variant {
        Variant::Field => (dref, None),
        Variant::Elem => {
            let mut a = before.clone(); a.push(dref); a.extend(after.iter().cloned());
            let mut c = before.clone(); c.extend(after.iter().cloned());
            (Primitive::Array(a), Some(Primitive::Array(c)))
        }
        Variant::MapVal => {
            let keys = ["Aa", "Zz"];
            let mut d = Dictionary::new();
            let mut c = Dictionary::new();
            // the dangling value sits where the element would sit: before, between or after the valid entries (entry order is file order)
            for (i, v) in before.iter().enumerate() { d.insert(keys[i], v.clone()); c.insert(keys[i], v.clone()); }
            d.insert(DNG_KEY, dref);
            for (i, v) in after.iter().enumerate() { d.insert(keys[before.len() + i], v.clone()); c.insert(keys[before.len() + i], v.clone()); }
            (Primitive::Dictionary(d), Some(Primitive::Dictionary(c)))
        }
    };
    // required entries: the control keeps the generated (valid) value; optional ones: the control lacks the entry (element, map entry)
    let res = st.resolver();
    let mk = |value: Option<Primitive>| -> Result<Obj, String> {
        let mut p = top.clone();
        {
            let d = match &mut p { Primitive::Dictionary(d) => d, Primitive::Stream(s) => &mut s.info, _ => return Err("container is neither dictionary nor stream".into()) };
            match value { Some(v) => { d.insert(f.key, v); } None => { d.remove(f.key); } }
        }
        doc::conv(&p, &res)
    };
    let c_dangling = if doctored {
        match (&valid_value, f.req == Req::Req) { (Some(v), _) => mk(Some(v.clone()))?, (None, true) => doc::conv(&top, &res)?, _ => return Err("doctored case needs the entry-value variant".into()) }
    } else { mk(Some(planted))? };
    let c_control = if f.req == Req::Req {
        let d = match &top { Primitive::Dictionary(d) => d, Primitive::Stream(s) => &s.info, _ => return Err("container is neither dictionary nor stream".into()) };
        if d.get(f.key).is_none() { return Err(format!("generator left out the required entry /{}", f.key)); }
        doc::conv(&top, &res)?
    } else { mk(control)? };
    let c_valid = match valid_value { Some(v) => Some(mk(Some(v))?), None => None };
    let mut labels = src.labels.clone();
    labels.extend(plan.labels.iter().cloned());
    if minimal { labels.push("minimal-container"); }
    labels.sort(); labels.dedup();
    let tape = src.tape[..src.used().min(src.tape.len())].to_vec();
    Ok(Built {
        dangling_doc: doc::write(&plan, &store_objs, &c_dangling),
        control_doc: doc::write(&plan, &store_objs, &c_control),
        valid_doc: c_valid.map(|c| doc::write(&plan, &store_objs, &c)),
        container_text: show(&mkpdf::obj_bytes(&c_dangling)),
        plan, labels, via_get, tape,
    })
}

pub struct Finding { pub sig: String, pub what: String, pub cfg: String }

#[derive(Default)]
pub struct Eval {
    pub findings: Vec<Finding>,
    pub inconclusive: Vec<String>,
    pub counts: Vec<String>,
    pub hash: u64,
    pub built: Option<Built>,
    /// "Model.Key [Rust container type]"
    pub at: String,
}

fn el(e: &PdfError) -> String { let s = format!("{}", e); s.chars().take(300).collect() }
/// error wrapper chain as variant names, e.g. ["FromPrimitive", "Shared", "NullRef"] (runs of `Try` collapsed)
pub fn chain_vec(e: &PdfError) -> Vec<String> {
    let mut v: Vec<String> = Vec::new();
    let mut cur = e;
    loop {
        let (name, next): (&str, Option<&PdfError>) = match cur {
            PdfError::Try { source, .. } => ("Try", Some(&**source)),
            PdfError::Shared { source } => ("Shared", Some(&**source)),
            PdfError::FromPrimitive { source, .. } => ("FromPrimitive", Some(&**source)),
            _ => ("", None),
        };
        match next {
            Some(n) => { if !(name == "Try" && v.last().map(|x| x.as_str()) == Some("Try")) { v.push(name.to_string()); } cur = n; }
            None => break,
        }
    }
    v.push(root_kind(cur));
    v
}
pub fn chain(e: &PdfError) -> String { chain_vec(e).join(">") }
/// the part of the chain that belongs to the planted entry: what follows the first `FromPrimitive` (the container's own
/// field wrapper; everything above it depends on how the container was reached), or — for readers that do not wrap — the
/// whole chain without the `Shared` that `Resolve::get` adds
pub fn entry_chain(e: &PdfError, via_get: bool) -> String {
    let v = chain_vec(e);
    match v.iter().position(|x| x == "FromPrimitive") {
        Some(i) => v[i + 1..].join(">"),
        None => { let skip = if via_get && v.first().map(|x| x.as_str()) == Some("Shared") { 1 } else { 0 }; v[skip..].join(">") }
    }
}

fn read_doc(bytes: &[u8], cfg: Cfg, reader: &str, container: u32, via_get: bool, lazy_key: Option<&str>) -> Result<ReadOut, String> {
    let r = PlainRef { id: container as u64, gen: 0 };
    match guard(|| with_file!(bytes.to_vec(), cfg, b"", |f| match f {
        Ok(file) => { let res = file.resolver(); Ok(read_target(reader, &res, r, via_get, lazy_key)) }
        Err(e) => Err(format!("load error: {}", el(&e))),
    })) {
        Ok(x) => x,
        Err(p) => Err(format!("load panic: {}", p.describe())),
    }
}

fn lazy_text(l: &LazyOut) -> String {
    l.iter().map(|(k, r)| match r { Ok(n) => format!("{}:ok({})", k, n), Err(e) => format!("{}:err({})", k, chain(e)) }).collect::<Vec<_>>().join(", ")
}

/// one configuration's verdict on one document: outcome class (with the entry's error chain where there is one) and description
struct Raw { cfg: Cfg, outcome: String, what: String }

/// "strict" / "tolerant" / "any-mode" (+ cache note when the two cache settings disagree)
fn mode_class(cfgs: &[Cfg]) -> String {
    let has = |c: bool, t: bool| cfgs.iter().any(|x| x.cached == c && x.tolerant == t);
    let strict = has(false, false) || has(true, false);
    let tolerant = has(false, true) || has(true, true);
    let mut m = match (strict, tolerant) { (true, true) => "any-mode", (true, false) => "strict", _ => "tolerant" }.to_string();
    let sym = (!strict || (has(false, false) && has(true, false))) && (!tolerant || (has(false, true) && has(true, true)));
    if !sym { m.push_str(if cfgs.iter().all(|x| x.cached) { "/cached-only" } else if cfgs.iter().all(|x| !x.cached) { "/uncached-only" } else { "/cache-dependent" }); }
    m
}

/// build the documents for (job, tape) and judge all four configurations
pub fn evaluate(ts: &[Target], job: &Job, src: Src, sweep: u64) -> Eval { evaluate_inner(ts, job, src, sweep, false) }

fn evaluate_inner(ts: &[Target], job: &Job, src: Src, sweep: u64, doctored: bool) -> Eval {
    let t = &ts[job.target];
    let f = &model(t.model).fields[job.field];
    let mut ev = Eval::default();
    let b = match build_case(t, f, job, src, sweep, doctored) { Ok(b) => b, Err(e) => { ev.inconclusive.push(format!("{}.{}: cannot build the case: {}", t.name, f.key, e)); return ev; } };
    ev.hash = fnv(&b.dangling_doc);
    // generator conformance: the independent reference reader must find the file to be what the case claims
    let mut docs: Vec<(&Vec<u8>, bool)> = vec![(&b.dangling_doc, !doctored), (&b.control_doc, false)];
    if let Some(v) = &b.valid_doc { docs.push((v, false)); }
    for (bytes, expect_ref) in docs {
        match doc::refcheck(bytes, &b.plan, expect_ref) {
            Ok(true) => ev.counts.push("refcheck:verified-by-reference-reader".into()),
            Ok(false) => ev.counts.push("refcheck:flavour-not-covered".into()),
            Err(e) => { ev.inconclusive.push(format!("{}.{}: generated file fails the reference check: {}", t.name, f.key, e)); return ev; }
        }
    }
    let (family, detail, class) = container_of(t.model, f, job.variant);
    let required = f.req == Req::Req;
    let variant = match (class, required, job.variant) {
        (Class::Lazy, _, _) => "lazy",
        (_, true, _) => "required",
        (_, _, Variant::Field) => "optional",
        (_, _, Variant::Elem) => "array-element",
        (_, _, Variant::MapVal) => "map-value",
    };
    let lazy_key = if class == Class::Lazy { Some(f.key) } else { None };
    let at = format!("{}.{}", t.name, f.key);
    ev.at = format!("{} [{}]", at, detail);
    let what_kind = match job.kind { Dangling::Free => "a free object", Dangling::Gap => "an object number inside a gap of the table", Dangling::AtSize => "object number == /Size", Dangling::BeyondSize => "an object number > /Size" };
    let mut raws: Vec<Raw> = Vec::new();
    for cfg in CFGS {
        let mode = if cfg.tolerant { "tolerant" } else { "strict" };
        ev.counts.push(format!("read:{}", cfg.name()));
        // ---- valid twin (entry present with a sound value): tells whether the generated container is valid at all
        let mut valid_ok = false;
        if let Some(v) = &b.valid_doc {
            match read_doc(v, cfg, t.reader, b.plan.container, b.via_get, None) {
                Ok(ReadOut::Ok { .. }) => valid_ok = true,
                Ok(ReadOut::Err(e)) => { ev.inconclusive.push(format!("{} [{}]: the valid twin (entry present with a generated valid value) is rejected by the reader: {}", at, cfg.name(), el(&e))); continue; }
                Ok(ReadOut::Panic(p)) => { ev.inconclusive.push(format!("{} [{}]: the valid twin makes the reader panic: {}", at, cfg.name(), p.describe())); continue; }
                Err(w) => { ev.inconclusive.push(format!("{} [{}]: valid twin: {}", at, cfg.name(), w)); continue; }
            }
        }
        // ---- control twin: optional = the entry (element, map entry) is not there; required = valid value.
        // Where a valid twin exists, a rejected control twin means that the library does not accept the entry's absence (None below).
        let ctl: Option<(Dictionary, Option<LazyOut>)> = match read_doc(&b.control_doc, cfg, t.reader, b.plan.container, b.via_get, lazy_key) {
            Ok(ReadOut::Ok { dict: Ok(d), lazy }) => Some((d, lazy)),
            Ok(ReadOut::Ok { dict: Err(w), .. }) => { ev.inconclusive.push(format!("{} [{}]: control twin: {}", at, cfg.name(), w)); continue; }
            Ok(ReadOut::Err(_)) | Ok(ReadOut::Panic(_)) if valid_ok => None,
            Ok(ReadOut::Err(e)) => { ev.inconclusive.push(format!("{} [{}]: the control twin (no dangling reference) is rejected by the reader: {}", at, cfg.name(), el(&e))); continue; }
            Ok(ReadOut::Panic(p)) => { ev.inconclusive.push(format!("{} [{}]: the control twin makes the reader panic: {}", at, cfg.name(), p.describe())); continue; }
            Err(w) => { ev.inconclusive.push(format!("{} [{}]: control twin: {}", at, cfg.name(), w)); continue; }
        };
        let out = match read_doc(&b.dangling_doc, cfg, t.reader, b.plan.container, b.via_get, lazy_key) {
            Ok(o) => o,
            Err(w) => { ev.inconclusive.push(format!("{} [{}]: {}", at, cfg.name(), w)); continue; }
        };
        let mut fail = |outcome: String, what: String| raws.push(Raw { cfg, outcome, what });
        match out {
            ReadOut::Panic(p) => fail(format!("PANIC {}", p.signature()), format!("reading {} whose /{} refers to {} panics: {}", t.name, f.key, what_kind, p.describe())),
            ReadOut::Err(e) if required => {
                let fields = error_fields(&e);
                let named = fields.iter().any(|x| x == f.key || rust_names(f.key).contains(&x.as_str()));
                if named { ev.counts.push(format!("ok:required-error-names-entry:{}", mode)); }
                else if class == Class::Deferred { ev.counts.push("deferred:required-error".into()); }
                else {
                    fail("error-does-not-name-entry".into(), format!("required entry {} ({}) refers to {}: the error does not name the entry (fields named in the chain: {:?}; chain {}): {}",
                        at, detail, what_kind, fields, chain(&e), el(&e)));
                }
            }
            ReadOut::Err(e) => {
                // the wrapper chain is part of the signature where it IS the root cause (which errors the Option reader fails to recognise)
                let o = if family.starts_with("Option") { format!("error-instead-of-value:{}", entry_chain(&e, b.via_get)) } else { "error-instead-of-value".to_string() };
                fail(o, format!("{} entry {} ({}) refers to {}: reading the container fails instead of treating the entry as absent (chain {}): {}",
                    variant, at, detail, what_kind, chain(&e), el(&e)));
            }
            ReadOut::Ok { dict, lazy } => {
                if required {
                    if class == Class::Deferred { ev.counts.push("deferred:required-reference-kept-unresolved".into()); }
                    else {
                        fail("value-instead-of-error".into(), format!("required entry {} ({}) refers to {} but reading the container succeeds (entry reads as {:?})",
                            at, detail, what_kind, dict.as_ref().ok().and_then(|d| d.get(f.key).map(|p| canon(p, false)))));
                    }
                    continue;
                }
                match class {
                    _ if ctl.is_none() => fail("differs-from-absent".into(), format!("{} entry {} ({}) refers to {}: the read succeeds, but it FAILS when the entry is simply not there (and succeeds with a valid value): the entry is not treated as absent",
                        variant, at, detail, what_kind)),
                    Class::Deferred => ev.counts.push(format!("deferred:optional-reference-kept-unresolved:{}", mode)),
                    Class::Lazy => {
                        let (Some(l), Some(lc)) = (lazy, ctl.and_then(|c| c.1)) else { ev.inconclusive.push(format!("{}: no lazy probe for this entry", at)); continue; };
                        if lc.iter().any(|(_, r)| r.is_err()) { ev.inconclusive.push(format!("{}: control twin fails to load lazily: {}", at, lazy_text(&lc))); continue; }
                        // absent == the entry is not there, or it loads to what the control twin loads to
                        let bad = l.iter().find(|(k, r)| match r {
                            Err(_) => true,
                            Ok(n) => match lc.iter().find(|(kc, _)| kc == k) { Some((_, Ok(nc))) => n != nc, Some((_, Err(_))) => false, None => k != DNG_KEY },
                        });
                        match bad {
                            Some((k, r)) => {
                                let outcome = match r { Err(_) => "error-on-load".to_string(), Ok(_) => "wrong-value".to_string() };
                                fail(outcome, format!("lazily read entry {} ({}) refers to {}: load() gives [{}], the twin without the reference gives [{}] (first difference at {})",
                                    at, detail, what_kind, lazy_text(&l), lazy_text(&lc), k));
                            }
                            None => ev.counts.push(format!("ok:lazy-absent:{}", mode)),
                        }
                    }
                    Class::Resolved => {
                        let d = match dict { Ok(d) => d, Err(w) => { ev.inconclusive.push(format!("{} [{}]: {}", at, cfg.name(), w)); continue; } };
                        let (got, want) = (entry(&d, f.key), entry(&ctl.as_ref().unwrap().0, f.key));
                        if got != want {
                            fail("wrong-value".into(), format!("{} entry {} ({}) refers to {}: the entry reads as {} but as {} when the {} is simply not there",
                                variant, at, detail, what_kind, got.unwrap_or("<absent>".into()), want.unwrap_or("<absent>".into()),
                                match job.variant { Variant::Field => "entry", Variant::Elem => "element", Variant::MapVal => "map entry" }));
                        } else { ev.counts.push(format!("ok:absent:{}:{}", variant, mode)); }
                    }
                }
            }
        }
    }
    // a case with a configuration that could not be judged is inconclusive as a whole (its mode class would be wrong)
    if !ev.inconclusive.is_empty() && !raws.is_empty() { ev.counts.push("findings-dropped:case-partly-inconclusive".into()); raws.clear(); }
    // one finding per distinct outcome; the configurations it occurs in become the mode class of the signature
    let mut outcomes: Vec<String> = raws.iter().map(|r| r.outcome.clone()).collect();
    outcomes.sort(); outcomes.dedup();
    for o in outcomes {
        let rs: Vec<&Raw> = raws.iter().filter(|r| r.outcome == o).collect();
        let cfgs: Vec<Cfg> = rs.iter().map(|r| r.cfg).collect();
        let sig = match o.strip_prefix("PANIC ") {
            Some(p) => format!("C18|{}", p),
            // for entries read through Option the dangling kind matters (three different root errors); for array elements,
            // map values and lazy entries the outcome is the same for every kind, so it is left out of the signature
            None => if variant == "optional" || variant == "required" { format!("C18|{}|{}|{}|{}|{}", variant, family, job.kind.class(), mode_class(&cfgs), o) }
                    else { format!("C18|{}|{}|{}|{}", variant, family, mode_class(&cfgs), o) },
        };
        ev.findings.push(Finding { sig, what: format!("{} [in {}]", rs[0].what, cfgs.iter().map(|c| c.name()).collect::<Vec<_>>().join(", ")), cfg: rs[0].cfg.name() });
    }
    ev.built = Some(b);
    ev
}

static FAILING: once_cell::sync::Lazy<Mutex<BTreeMap<String, BTreeMap<String, u64>>>> = once_cell::sync::Lazy::new(|| Mutex::new(BTreeMap::new()));
pub fn note_failing(sig: &str, at: &str) { *FAILING.lock().unwrap().entry(sig.to_string()).or_default().entry(at.to_string()).or_insert(0) += 1; }

fn witness(ts: &[Target], job: &Job, b: &Built, fd: &Finding, sweep: u64) -> Value {
    let t = &ts[job.target];
    let f = &model(t.model).fields[job.field];
    json!({"entry": format!("{}.{}", t.name, f.key), "reader": t.reader, "read_via": if b.via_get { "resolver.get::<T>" } else { "T::from_primitive(resolve(r))" },
        "variant": format!("{:?}", job.variant), "dangling_kind": job.kind.name(), "dangling_object": b.plan.dangling, "size": b.plan.size,
        "container_object": b.plan.container, "container": b.container_text, "first_cfg": fd.cfg, "labels": b.labels, "sweep": sweep, "rust_type": container_of(t.model, f, job.variant).1,
        "tape": b.tape, "file_hex": if b.dangling_doc.len() <= 4000 { hex(&b.dangling_doc) } else { format!("({} bytes; rebuild from tape)", b.dangling_doc.len()) }})
}

fn case(run: &Run, ts: &[Target], job: &Job, rng: Rng, sweep: u64, sample: bool) {
    let ev = evaluate(ts, job, Src::fresh(rng), sweep);
    run.eval();
    run.count(&format!("kind:{}", job.kind.name()));
    run.count(&format!("variant:{:?}", job.variant));
    for c in &ev.counts { run.count(c); }
    for w in &ev.inconclusive { run.inconclusive(w.clone()); }
    let Some(b) = ev.built.as_ref() else { return };
    for l in &b.labels { run.count(&format!("label:{}", l)); }
    if ev.inconclusive.len() < 4 { run.nontrivial(ev.hash); }
    if sample { run.sample(json!({"entry": ev.at, "variant": format!("{:?}", job.variant), "kind": job.kind.name(), "container": b.container_text, "dangling_object": b.plan.dangling, "size": b.plan.size, "labels": b.labels})); }
    for fd in &ev.findings {
        note_failing(&fd.sig, &format!("{} {}", ev.at, job.kind.name()));
        if run.has_violation(&fd.sig) { run.violation(&fd.sig, &fd.what, Value::Null); continue; }
        // first witness of this signature: look for a smaller container that fails the same way
        let sig = fd.sig.clone();
        let mut fails = |cand: &[u32]| evaluate(ts, job, Src::replay(cand), sweep).findings.iter().any(|g| g.sig == sig);
        let small = shrink(&b.tape, &mut fails, 24);
        let e2 = evaluate(ts, job, Src::replay(&small), sweep);
        match (e2.built.as_ref(), e2.findings.iter().find(|g| g.sig == fd.sig)) {
            (Some(b2), Some(g)) => run.violation(&fd.sig, &g.what, witness(ts, job, b2, g, sweep)),
            _ => run.violation(&fd.sig, &fd.what, witness(ts, job, b, fd, sweep)),
        }
    }
}

/// Self-test at setup: (a) pure helpers on hand-made values, (b) the whole pipeline against a doctored case in which the entry
/// under test holds a valid value where the dangling reference should be: the oracle must then report "not absent" for an optional
/// entry and "no error" for a required one. A monitor that cannot fire any more is reported as inconclusive.
fn self_test(run: &Run, ts: &[Target], js: &[Job]) {
    let mut problems: Vec<String> = Vec::new();
    let mut d = Dictionary::new();
    d.insert("A", Primitive::Array(vec![Primitive::Null]));
    d.insert("B", Primitive::Integer(5));
    d.insert("C", Primitive::Array(vec![Primitive::Integer(1), Primitive::Null, Primitive::Number(2.0)]));
    if entry(&d, "A").is_some() || entry(&d, "Zz").is_some() { problems.push("entry(): an all-null array / a missing key must count as absent".into()); }
    if entry(&d, "B").is_none() { problems.push("entry(): a present value must not count as absent".into()); }
    if entry(&d, "C") != Some("[1 2]".to_string()) { problems.push(format!("entry(): canonical form of [1 null 2.0] is {:?}", entry(&d, "C"))); }
    let e = PdfError::Shared { source: std::sync::Arc::new(PdfError::FromPrimitive { typ: "T", field: "f", source: Box::new(PdfError::Shared { source: std::sync::Arc::new(PdfError::NullRef { obj_nr: 9 }) }) }) };
    if entry_chain(&e, true) != "Shared>NullRef" || chain(&e) != "Shared>FromPrimitive>Shared>NullRef" { problems.push(format!("chain(): {} / {}", chain(&e), entry_chain(&e, true))); }
    if error_fields(&e) != vec!["f".to_string()] { problems.push("error_fields(): field not found through Shared".into()); }
    let find = |tname: &str, key: &str| js.iter().find(|j| ts[j.target].name == tname && model(ts[j.target].model).fields[j.field].key == key && j.variant == Variant::Field && j.kind == Dangling::Gap);
    for (tname, key, expect) in [("PageLabel", "St", "wrong-value"), ("FontDescriptor", "FontFile2", "wrong-value"), ("Catalog", "Pages", "value-instead-of-error"), ("FontDescriptor", "Flags", "value-instead-of-error")] {
        let Some(job) = find(tname, key) else { problems.push(format!("no job for {}.{}", tname, key)); continue };
        for sweep in 0..2 {
            let ev = evaluate_inner(ts, job, Src::fresh(Rng::derive(run.seed, 1899, sweep)), sweep, true);
            if !ev.findings.iter().any(|f| f.sig.ends_with(expect)) {
                problems.push(format!("doctored {}.{} (sweep {}): expected a {} finding, got {:?} / inconclusive {:?}", tname, key, sweep, expect, ev.findings.iter().map(|f| f.sig.clone()).collect::<Vec<_>>(), ev.inconclusive));
            }
        }
    }
    run.extra("self_test", json!({"ok": problems.is_empty(), "problems": problems}));
    for p in problems { run.inconclusive(format!("self-test: {}", p)); run.add("inconclusive", 1_000_000); }
}

pub fn run(run: &Run) {
    run.rule("tier 1: cases = (typed model of the C15 schema table, declared entry, variant in {entry value, array element, map value}, dangling kind in \
        {explicit free entry [optionally deleted by an incremental update], hole between xref subsections, == /Size, > /Size}) — ALL combinations are enumerated in every \
        sweep (sweeps alternate minimal containers = required entries only, and rich ones; 1 / 2 / 0 valid neighbours for element and map variants); per case the container is \
        generated by the C15 generator, exported with everything it references into a real file (classic table or cross-reference stream), one reference to the dangling number is \
        planted, and the container is read with its typed reader (resolver.get::<T> or T::from_primitive) in all four configurations. Twins read the same way: VALID twin (entry \
        present with a generated valid value: shows the container is sound), CONTROL twin (optional: entry / element / map entry simply not there; required: valid value). \
        optional: the read succeeds and the entry's written-back value equals the control twin's (and the control twin is accepted); required: error whose chain names the entry; \
        never a panic. Files in classic single-section flavour are first read back by the independent reference reader (the planted reference must be the only undefined one, \
        the dangling number free / in a hole / >= /Size as planned). tier 2: document-level reads (load, get_page, boxes, contents, annotations, resources, fonts, xobjects, forms, \
        outlines, info) on the hand-written rich document with the same plants; transcript must equal that of the twin without the entry. \
        distinct_nontrivial = distinct test files (by content hash)");
    run.assume("entries whose Rust type stores a reference without resolving it (Ref<T>, Primitive) cannot show 'absent' or 'error' at read time: for them only 'the read succeeds / no panic' is judged (counted as deferred:*); the statement's quantifier lists direct, MaybeRef, RcRef, Lazy and Vec element");
    run.assume("Lazy<T> entries: 'treated as absent' = load() succeeds with the value the twin without the reference loads to (an empty list for /Annots), or the map entry is not there; reported under the variant label 'lazy'");
    run.assume("left out of the domain: /Type and /Subtype tag entries, the stream pseudo-entries /Length /Filter /DecodeParms, the Trailer and XRefInfo models as schema targets (their entries must be direct per ISO 32000-1 7.5.5/7.5.8; /Root /Info /ID are covered at document level), /Encrypt, references planted inside composite values of hand-written readers (colour space arrays, destinations, name/number tree nodes)");
    run.assume("a null array element counts as an absent element; an empty array / empty map counts as an absent entry; a defaulted entry reads as its default when absent");
    run.assume("a required entry 'names the entry' when FromPrimitive.field / MissingEntry.field in the error chain is the Rust field name behind the key (table rust_names) or the key itself");
    run.assume("signatures: C18|<variant>|<reader family that has to cope>|<free|gap|beyond-size>|<strict|tolerant|any-mode>|<outcome>[:<error chain below the entry, Option family only>]; the Rust container type and Model.Key are in the witness and in failing_entries_by_signature; tier 2: C18|doc-level|<family>|<mode>|<step>:<outcome>");
    let ts = targets();
    let js = jobs(&ts);
    self_test(run, &ts, &js);
    run.extra("tier1_combinations_per_sweep", json!(js.len()));
    let n = run.n(2600, 200_000);
    let sweeps = ((n as usize + js.len() - 1) / js.len()).max(2) as u64;
    run.extra("tier1_sweeps", json!(sweeps));
    let total = sweeps * js.len() as u64;
    par_for(total, |i| {
        let job = &js[(i % js.len() as u64) as usize];
        let sweep = i / js.len() as u64;
        case(run, &ts, job, Rng::derive(run.seed, 18, i), sweep, i % 97 == 0 && i < 1200);
    });
    run.exhaustive("tier 1: every (model, entry, variant, dangling kind) combination of the schema table", true);
    super::c18_level::run(run);
    let failing = FAILING.lock().unwrap().clone();
    run.extra("failing_entries_by_signature", json!(failing));
    run.extra("targets", json!(ts.iter().map(|t| t.name).collect::<Vec<_>>()));
    // thorough: the same quick workload once more under the AddressSanitizer build (memory errors in the library or its dependencies)
    if !run.quick() { crate::lanes::asan_rerun(run); }
}
