//! C07 — page n is the n-th leaf of the page tree; media box, crop box and resources come from the page itself,
//! else from the nearest ancestor that has one (crop box falling back to the media box).
//!
//! Workload: abstract page trees (`T`) -> document written by mkpdf -> real library under {uncached, cached} strict.
//! Oracle: a top-down model on the abstract tree; the written document is additionally re-walked bottom-up by
//! `refimpl::c07_walk` and has to agree with the model before the library sees it (else: inconclusive).
use crate::doc::{root_kind, Cfg};
use crate::mkpdf::{dict, flate_filter, ints, name, no_filter, rf, Obj, W};
use crate::panicmon::{guard, PanicRec};
use crate::par::par_for;
use crate::refimpl::c07_walk as walk;
use crate::rng::{fnv, Rng};
use crate::run::{hex, Run};
use crate::tape::Src;
use crate::with_file;
use pdf::error::PdfError;
use pdf::object::{PageRc, Rectangle};
use serde_json::{json, Value};
use std::collections::{BTreeMap, BTreeSet, HashMap, HashSet};
use std::sync::Mutex;

const CFG2: [Cfg; 2] = [Cfg { cached: false, tolerant: false }, Cfg { cached: true, tolerant: false }];
pub const MAX_DEPTH: usize = 12; // edges from the root to a node
pub const MAX_FANOUT: usize = 6;
pub const MAX_NODES: usize = 60;

// ------------------------------------------------------------------------------------------------ abstract trees

#[derive(Clone, Debug, PartialEq, Eq, Hash)]
pub struct T { pub leaf: bool, pub kids: Vec<T>, pub m: bool, pub c: bool, pub r: bool }
impl T {
    pub fn leaf() -> T { T { leaf: true, kids: vec![], m: false, c: false, r: false } }
    pub fn pages(kids: Vec<T>) -> T { T { leaf: false, kids, m: false, c: false, r: false } }
    pub fn with(mut self, attrs: &str) -> T { self.m = attrs.contains('M'); self.c = attrs.contains('C'); self.r = attrs.contains('R'); self }
    pub fn size(&self) -> usize { 1 + self.kids.iter().map(|k| k.size()).sum::<usize>() }
    /// e.g. `P{MR}(L P(L{C} L) P())`
    pub fn desc(&self) -> String {
        let mut s = String::from(if self.leaf { "L" } else { "P" });
        if self.m || self.c || self.r {
            s.push('{');
            if self.m { s.push('M'); } if self.c { s.push('C'); } if self.r { s.push('R'); }
            s.push('}');
        }
        if !self.leaf {
            s.push('(');
            for (i, k) in self.kids.iter().enumerate() { if i > 0 { s.push(' '); } s.push_str(&k.desc()); }
            s.push(')');
        }
        s
    }
}

#[derive(Clone, Debug)]
pub struct Flat { leaf: bool, parent: Option<usize>, kids: Vec<usize>, m: bool, c: bool, r: bool, depth: usize }

/// preorder numbering; node id = position in the vector; 0 = root
pub fn flatten(t: &T) -> Vec<Flat> {
    fn go(t: &T, parent: Option<usize>, depth: usize, out: &mut Vec<Flat>) -> usize {
        let id = out.len();
        out.push(Flat { leaf: t.leaf, parent, kids: vec![], m: t.m, c: t.c, r: t.r, depth });
        for k in &t.kids { let kid = go(k, Some(id), depth + 1, out); out[id].kids.push(kid); }
        id
    }
    let mut out = Vec::new();
    go(t, None, 0, &mut out);
    out
}

/// what the property demands for one leaf: node ids of the providers
#[derive(Clone, Debug, PartialEq)]
pub struct Want { id: usize, media: usize, crop: Option<usize>, res: usize }

/// Top-down model: depth-first leaf order, nearest provider carried downwards.
/// Err = the tree is outside the domain (no MediaBox / Resources on some leaf's path, root is a leaf, ...).
pub fn model(f: &[Flat]) -> Result<Vec<Want>, String> {
    if f.is_empty() || f[0].leaf { return Err("root must be an intermediate node".into()); }
    fn go(f: &[Flat], id: usize, m: Option<usize>, c: Option<usize>, r: Option<usize>, out: &mut Vec<Want>) -> Result<(), String> {
        let n = &f[id];
        let m = if n.m { Some(id) } else { m };
        let c = if n.c { Some(id) } else { c };
        let r = if n.r { Some(id) } else { r };
        if n.leaf {
            if !n.kids.is_empty() { return Err("leaf with kids".into()); }
            out.push(Want { id, media: m.ok_or("leaf without MediaBox on its path")?, crop: c, res: r.ok_or("leaf without Resources on its path")? });
        } else {
            if n.kids.len() > 1000 { return Err("fan-out".into()); }
            for &k in &n.kids { go(f, k, m, c, r, out)?; }
        }
        Ok(())
    }
    let mut out = Vec::new();
    go(f, 0, None, None, None, &mut out)?;
    Ok(out)
}

fn media_rect(p: usize) -> [i64; 4] { [0, 0, 1000 + p as i64, 2000 + p as i64] }
fn crop_rect(p: usize) -> [i64; 4] { [10, 20, 3000 + p as i64, 4000 + p as i64] }
fn res_name(p: usize) -> String { format!("Mk{}", p) }
fn leaf_marker(id: usize) -> i64 { 7000 + id as i64 }

// ------------------------------------------------------------------------------------------------ documents

#[derive(Clone, Debug, PartialEq)]
pub struct Layout { shuffle: Option<u64>, objstm: bool, res_indirect: bool, real_box: bool }
impl Layout {
    pub fn plain() -> Layout { Layout { shuffle: None, objstm: false, res_indirect: false, real_box: false } }
    fn json(&self) -> Value { json!({"shuffle_seed": self.shuffle, "objstm_xrefstream": self.objstm, "resources_indirect": self.res_indirect, "real_box_numbers": self.real_box}) }
}

pub struct Built { bytes: Vec<u8>, objs: walk::Objs, catalog: u32, nr_of: Vec<u32> }

pub fn build(f: &[Flat], lay: &Layout) -> Built {
    let n = f.len();
    let res_nodes: Vec<usize> = if lay.res_indirect { (0..n).filter(|&i| f[i].r).collect() } else { vec![] };
    let total = 1 + n + res_nodes.len();
    let mut nums: Vec<u32> = (1..=total as u32).collect();
    let mut rng = Rng::new(lay.shuffle.unwrap_or(0) ^ 0xC07);
    if lay.shuffle.is_some() { rng.shuffle(&mut nums); }
    let catalog = nums[0];
    let nr_of: Vec<u32> = nums[1..=n].to_vec();
    let res_nr: HashMap<usize, u32> = res_nodes.iter().enumerate().map(|(k, &id)| (id, nums[1 + n + k])).collect();
    let bx = |a: [i64; 4]| if lay.real_box { Obj::Arr(a.iter().map(|&x| Obj::Real(x as f64)).collect()) } else { ints(&a) };
    let mut objs: walk::Objs = BTreeMap::new();
    objs.insert(catalog, dict(vec![("Type", name("Catalog")), ("Pages", rf(nr_of[0]))]));
    let leaves_below = {
        let mut v = vec![0i64; n];
        for id in (0..n).rev() { if f[id].leaf { v[id] = 1; } if let Some(p) = f[id].parent { v[p] += v[id]; } }
        v
    };
    for id in 0..n {
        let nd = &f[id];
        let mut items: Vec<(&str, Obj)> = vec![("Type", name(if nd.leaf { "Page" } else { "Pages" }))];
        if let Some(p) = nd.parent { items.push(("Parent", rf(nr_of[p]))); }
        if nd.leaf {
            items.push(("VerifLeaf", Obj::Int(leaf_marker(id))));
        } else {
            items.push(("Kids", Obj::Arr(nd.kids.iter().map(|&k| rf(nr_of[k])).collect())));
            items.push(("Count", Obj::Int(leaves_below[id])));
        }
        if nd.m { items.push(("MediaBox", bx(media_rect(id)))); }
        if nd.c { items.push(("CropBox", bx(crop_rect(id)))); }
        if nd.r {
            let rd = Obj::Dict(vec![(b"Properties".to_vec(), Obj::Dict(vec![(res_name(id).into_bytes(), Obj::Dict(vec![]))]))]);
            match res_nr.get(&id) {
                Some(&nr) => { objs.insert(nr, rd); items.push(("Resources", rf(nr))); }
                None => items.push(("Resources", rd)),
            }
        }
        objs.insert(nr_of[id], dict(items));
    }
    // file order independent of the numbering
    let mut order: Vec<u32> = objs.keys().cloned().collect();
    if lay.shuffle.is_some() { rng.shuffle(&mut order); }
    let trailer = vec![(b"Root".to_vec(), rf(catalog))];
    let mut w = W::new(b"", if lay.objstm { "1.5" } else { "1.7" });
    w.free(0, 0, 65535);
    if !lay.objstm {
        for nr in &order { w.obj(*nr, 0, &objs[nr]); }
        w.xref_table(trailer, total as u32 + 1, &[]);
    } else {
        let mut inside: BTreeSet<u32> = BTreeSet::new();
        for nr in &order { if *nr != catalog && (lay.shuffle.is_none() || rng.chance(2, 3)) { inside.insert(*nr); } }
        if inside.is_empty() { inside.insert(nr_of[0]); }
        for nr in &order { if !inside.contains(nr) { w.obj(*nr, 0, &objs[nr]); } }
        let members: Vec<(u32, Obj)> = order.iter().filter(|nr| inside.contains(nr)).map(|nr| (*nr, objs[nr].clone())).collect();
        let flate = lay.shuffle.is_none() || rng.chance(1, 2);
        if flate { w.objstm(total as u32 + 1, &members, b"\n", 0, &flate_filter); } else { w.objstm(total as u32 + 1, &members, b"\n", 0, &no_filter); }
        w.xref_stream(total as u32 + 2, trailer, total as u32 + 3, &[], &flate_filter);
    }
    Built { bytes: w.buf, objs, catalog, nr_of }
}

// ------------------------------------------------------------------------------------------------ observations

#[derive(Clone, Debug)]
pub enum Got<T> { Val(T), Err { kind: String, text: String }, Panic(PanicRec) }
#[derive(Clone, Debug)]
pub struct PageObs { marker: Option<i64>, nr: u64, media: Got<[f32; 4]>, crop: Got<[f32; 4]>, res: Got<Vec<String>> }
#[derive(Clone, Debug)]
pub struct Observed { load: Got<()>, count: i64, get: Vec<Got<PageObs>>, iter: Vec<Got<PageObs>>, oob: Vec<Got<PageObs>> }

fn lift<T>(r: Result<Result<T, PdfError>, PanicRec>) -> Got<T> {
    match r {
        Err(p) => Got::Panic(p),
        Ok(Err(e)) => Got::Err { kind: root_kind(&e), text: e.to_string().chars().take(200).collect() },
        Ok(Ok(v)) => Got::Val(v),
    }
}
fn obs_page(g: Got<PageRc>) -> Got<PageObs> {
    match g {
        Got::Panic(p) => Got::Panic(p),
        Got::Err { kind, text } => Got::Err { kind, text },
        Got::Val(p) => {
            let rc = |r: Rectangle| [r.left, r.bottom, r.right, r.top];
            let marker = p.other.get("VerifLeaf").and_then(|x| x.as_integer().ok()).map(|i| i as i64);
            let nr = p.get_ref().get_inner().id as u64;
            Got::Val(PageObs {
                marker, nr,
                media: lift(guard(|| p.media_box().map(rc))),
                crop: lift(guard(|| p.crop_box().map(rc))),
                res: lift(guard(|| p.resources().map(|r| { let mut v: Vec<String> = r.properties.keys().map(|k| k.as_str().to_string()).collect(); v.sort(); v }))),
            })
        }
    }
}

/// the real library, one configuration; n = number of leaves the model expects
fn observe_real(bytes: &[u8], cfg: Cfg, n: usize) -> Observed {
    let r = guard(|| with_file!(bytes.to_vec(), cfg, b"", |f| match f {
        Err(e) => Observed { load: Got::Err { kind: root_kind(&e), text: e.to_string().chars().take(200).collect() }, count: -1, get: vec![], iter: vec![], oob: vec![] },
        Ok(file) => {
            let count = file.num_pages() as i64;
            let get = (0..n).map(|i| obs_page(lift(guard(|| file.get_page(i as u32))))).collect();
            let iter = match guard(|| file.pages().take(n + 3).collect::<Vec<_>>()) {
                Err(p) => vec![Got::Panic(p)],
                Ok(v) => v.into_iter().map(|r| obs_page(lift(Ok(r)))).collect(),
            };
            let oob = (0..3).map(|k| obs_page(lift(guard(|| file.get_page((n + k) as u32))))).collect();
            Observed { load: Got::Val(()), count, get, iter, oob }
        }
    }));
    match r {
        Ok(o) => o,
        Err(p) => Observed { load: Got::Panic(p), count: -1, get: vec![], iter: vec![], oob: vec![] },
    }
}

/// the doctored stub library of refimpl::c07_walk (self-test only)
fn observe_stub(objs: &walk::Objs, catalog: u32, bug: walk::Bug, n: usize) -> Observed {
    let root = walk::stub_root(objs, catalog);
    let count = walk::stub_count(objs, catalog, bug);
    let f4 = |a: [f64; 4]| [a[0] as f32, a[1] as f32, a[2] as f32, a[3] as f32];
    let page = |i: i64| -> Got<PageObs> {
        match walk::stub_page(objs, root, i, bug) {
            Err(k) => Got::Err { kind: k.clone(), text: k },
            Ok(nr) => {
                let l = walk::stub_leaf(objs, nr, bug);
                fn miss<X>(what: &str) -> Got<X> { Got::Err { kind: "MissingEntry".to_string(), text: what.to_string() } }
                Got::Val(PageObs { marker: l.marker, nr: nr as u64,
                    media: l.media.map(|m| Got::Val(f4(m))).unwrap_or_else(|| miss("MediaBox")),
                    crop: l.crop.map(|m| Got::Val(f4(m))).unwrap_or_else(|| miss("CropBox")),
                    res: l.res.map(Got::Val).unwrap_or_else(|| miss("Resources")) })
            }
        }
    };
    Observed { load: Got::Val(()), count, get: (0..n as i64).map(&page).collect(), iter: (0..count.max(0)).map(&page).collect(),
        oob: (0..3).map(|k| page(n as i64 + k)).collect() }
}

// ------------------------------------------------------------------------------------------------ oracle

#[derive(Clone, Debug, PartialEq)]
pub struct ExpLeaf { marker: i64, nr: u64, media: [f32; 4], crop: [f32; 4], res: Vec<String> }
#[derive(Clone, Debug)]
pub struct Fail { class: String, detail: String }

fn f4(a: [i64; 4]) -> [f32; 4] { [a[0] as f32, a[1] as f32, a[2] as f32, a[3] as f32] }

fn expectations(wants: &[Want], nr_of: &[u32]) -> Vec<ExpLeaf> {
    wants.iter().map(|w| ExpLeaf {
        marker: leaf_marker(w.id), nr: nr_of[w.id] as u64, media: f4(media_rect(w.media)),
        crop: match w.crop { Some(c) => f4(crop_rect(c)), None => f4(media_rect(w.media)) }, res: vec![res_name(w.res)],
    }).collect()
}

fn find_panic(o: &Observed) -> Option<&PanicRec> {
    if let Got::Panic(p) = &o.load { return Some(p); }
    for g in o.get.iter().chain(o.iter.iter()).chain(o.oob.iter()) {
        match g {
            Got::Panic(p) => return Some(p),
            Got::Val(po) => {
                if let Got::Panic(p) = &po.media { return Some(p); }
                if let Got::Panic(p) = &po.crop { return Some(p); }
                if let Got::Panic(p) = &po.res { return Some(p); }
            }
            _ => {}
        }
    }
    None
}

/// Compare an observation with the model. One failure per observation, chosen by a fixed priority so that the
/// outcome class of a given defect does not depend on which page happened to be looked at first.
pub fn judge(exp: &[ExpLeaf], o: &Observed) -> Option<Fail> {
    let fail = |c: &str, d: String| Some(Fail { class: c.to_string(), detail: d });
    if let Some(p) = find_panic(o) { return fail(&p.signature(), format!("panic: {}", p.describe())); }
    if let Got::Err { kind, text } = &o.load { return fail("load-error", format!("loading the document failed: {} ({})", kind, text)); }
    let n = exp.len();
    if o.count != n as i64 { return fail("wrong-count", format!("num_pages() = {} but the tree has {} leaves", o.count, n)); }
    for (what, v) in [("get_page", &o.get), ("pages()", &o.iter)] {
        if v.len() != n { return fail("wrong-count", format!("{} yielded {} items for {} leaves", what, v.len(), n)); }
        for (i, g) in v.iter().enumerate() {
            if let Got::Err { kind, text } = g { return fail("page-error", format!("{} index {} of {} is an error: {} ({})", what, i, n, kind, text)); }
        }
    }
    for (what, v) in [("get_page", &o.get), ("pages()", &o.iter)] {
        for (i, g) in v.iter().enumerate() {
            if let Got::Val(p) = g {
                if p.marker != Some(exp[i].marker) || p.nr != exp[i].nr {
                    let pos = exp.iter().position(|e| Some(e.marker) == p.marker);
                    return fail("wrong-page-order", format!("{} index {} returned object {} (marker {:?}, which is leaf #{:?}); expected object {} (marker {})", what, i, p.nr, p.marker, pos, exp[i].nr, exp[i].marker));
                }
            }
        }
    }
    for (k, g) in o.oob.iter().enumerate() {
        match g {
            Got::Val(p) => return fail("out-of-bounds-not-error", format!("get_page({}) with {} pages returned object {}", n + k, n, p.nr)),
            Got::Err { kind, text } if kind != "PageOutOfBounds" => return fail("out-of-bounds-wrong-error", format!("get_page({}) with {} pages: root cause {} ({})", n + k, n, kind, text)),
            _ => {}
        }
    }
    // attributes; the page identity is already established
    for (i, g) in o.get.iter().enumerate() {
        if let Got::Val(p) = g {
            match &p.media { Got::Err { kind, text } => return fail("media-box-error", format!("media_box() of page {}: {} ({})", i, kind, text)),
                Got::Val(m) if *m != exp[i].media => return fail("wrong-media-box", format!("media_box() of page {} = {:?}, expected {:?}", i, m, exp[i].media)), _ => {} }
        }
    }
    for (i, g) in o.get.iter().enumerate() {
        if let Got::Val(p) = g {
            match &p.crop { Got::Err { kind, text } => return fail("crop-box-error", format!("crop_box() of page {}: {} ({})", i, kind, text)),
                Got::Val(m) if *m != exp[i].crop => return fail("wrong-crop-box", format!("crop_box() of page {} = {:?}, expected {:?}", i, m, exp[i].crop)), _ => {} }
        }
    }
    for (i, g) in o.get.iter().enumerate() {
        if let Got::Val(p) = g {
            match &p.res { Got::Err { kind, text } => return fail("resources-error", format!("resources() of page {}: {} ({})", i, kind, text)),
                Got::Val(m) if *m != exp[i].res => return fail("wrong-resources", format!("resources() of page {} has /Properties {:?}, expected {:?}", i, m, exp[i].res)), _ => {} }
        }
    }
    // pages() items carry the same attributes (same objects); compare too
    for (i, g) in o.iter.iter().enumerate() {
        if let Got::Val(p) = g {
            if let Got::Val(m) = &p.media { if *m != exp[i].media { return fail("wrong-media-box", format!("pages() item {} media box {:?}, expected {:?}", i, m, exp[i].media)); } }
            if let Got::Val(m) = &p.crop { if *m != exp[i].crop { return fail("wrong-crop-box", format!("pages() item {} crop box {:?}, expected {:?}", i, m, exp[i].crop)); } }
            if let Got::Val(m) = &p.res { if *m != exp[i].res { return fail("wrong-resources", format!("pages() item {} resources {:?}, expected {:?}", i, m, exp[i].res)); } }
        }
    }
    None
}

pub enum Outcome { Pass, Inconclusive(String), Fail { fail: Fail, cfg: String, bytes: Vec<u8> } }

/// generator conformance: model (top-down on the abstract tree) vs bottom-up re-walk of the written objects
fn prepare(t: &T, lay: &Layout) -> Result<(Built, Vec<ExpLeaf>), String> {
    let f = flatten(t);
    let wants = model(&f)?;
    let b = build(&f, lay);
    let leaves = walk::walk(&b.objs, b.catalog)?;
    let exp = expectations(&wants, &b.nr_of);
    if leaves.len() != exp.len() { return Err(format!("model has {} leaves, document walk {}", exp.len(), leaves.len())); }
    for (l, e) in leaves.iter().zip(exp.iter()) {
        let g = |a: Option<[f64; 4]>| a.map(|a| [a[0] as f32, a[1] as f32, a[2] as f32, a[3] as f32]);
        if l.nr as u64 != e.nr || l.marker != Some(e.marker) || g(l.media) != Some(e.media) || g(l.crop) != Some(e.crop) || l.res.as_ref() != Some(&e.res) {
            return Err(format!("model and document walk disagree on leaf object {}", l.nr));
        }
    }
    Ok((b, exp))
}

pub fn check(t: &T, lay: &Layout) -> Outcome {
    let (b, exp) = match prepare(t, lay) { Ok(x) => x, Err(e) => return Outcome::Inconclusive(format!("generator/model: {} [{}]", e, t.desc())) };
    for cfg in CFG2 {
        let o = observe_real(&b.bytes, cfg, exp.len());
        if let Some(fail) = judge(&exp, &o) { return Outcome::Fail { fail, cfg: cfg.name(), bytes: b.bytes }; }
    }
    Outcome::Pass
}

// ------------------------------------------------------------------------------------------------ shrinking, labels

#[derive(Clone, Copy)]
enum Edit { Delete, Hoist, ClearM, ClearC, ClearR }

fn edit(t: &T, target: usize, op: Edit) -> T {
    fn go(t: &T, cur: &mut usize, target: usize, op: Edit) -> Vec<T> {
        let my = *cur;
        *cur += 1;
        let mut n = T { leaf: t.leaf, kids: vec![], m: t.m, c: t.c, r: t.r };
        if my == target {
            match op {
                Edit::Delete => { *cur += t.size() - 1; return vec![]; }
                Edit::Hoist => { let mut out = Vec::new(); for k in &t.kids { out.extend(go(k, cur, target, op)); } return out; }
                Edit::ClearM => n.m = false,
                Edit::ClearC => n.c = false,
                Edit::ClearR => n.r = false,
            }
        }
        for k in &t.kids { n.kids.extend(go(k, cur, target, op)); }
        vec![n]
    }
    let mut cur = 0;
    go(t, &mut cur, target, op).pop().expect("root survives")
}
fn map_all(t: &T, f: &dyn Fn(&mut T, bool)) -> T {
    fn go(t: &T, root: bool, f: &dyn Fn(&mut T, bool)) -> T {
        let mut n = T { leaf: t.leaf, kids: t.kids.iter().map(|k| go(k, false, f)).collect(), m: t.m, c: t.c, r: t.r };
        f(&mut n, root);
        n
    }
    go(t, true, f)
}
fn in_domain(t: &T) -> bool { model(&flatten(t)).is_ok() }

/// Structural minimisation: `same` re-runs generator + real library + oracle and says whether the candidate
/// still fails with the same outcome class.
pub fn shrink_case(t: &T, lay: &Layout, same: &dyn Fn(&T, &Layout) -> bool, budget: usize) -> (T, Layout) {
    let mut cur = t.clone();
    let mut lay = lay.clone();
    let mut calls = 0usize;
    loop {
        let mut cands: Vec<(T, Layout)> = Vec::new();
        for k in 0..4 {
            let mut l = lay.clone();
            match k { 0 => l.objstm = false, 1 => l.shuffle = None, 2 => l.res_indirect = false, _ => l.real_box = false }
            if l != lay { cands.push((cur.clone(), l)); }
        }
        let f = flatten(&cur);
        let mut sizes = vec![1usize; f.len()];
        for id in (1..f.len()).rev() { let p = f[id].parent.unwrap(); sizes[p] += sizes[id]; }
        let mut by_size: Vec<usize> = (1..f.len()).collect();
        by_size.sort_by_key(|&i| std::cmp::Reverse(sizes[i]));
        for &i in &by_size { cands.push((edit(&cur, i, Edit::Delete), lay.clone())); }
        for i in 1..f.len() { if !f[i].leaf { cands.push((edit(&cur, i, Edit::Hoist), lay.clone())); } }
        if f.iter().any(|n| n.c) { cands.push((map_all(&cur, &|n, _| n.c = false), lay.clone())); }
        cands.push((map_all(&cur, &|n, root| n.m = root), lay.clone()));
        cands.push((map_all(&cur, &|n, root| n.r = root), lay.clone()));
        for i in 0..f.len() {
            if f[i].m { cands.push((edit(&cur, i, Edit::ClearM), lay.clone())); }
            if f[i].c { cands.push((edit(&cur, i, Edit::ClearC), lay.clone())); }
            if f[i].r { cands.push((edit(&cur, i, Edit::ClearR), lay.clone())); }
        }
        let mut improved = false;
        for (ct, cl) in cands {
            if ct == cur && cl == lay { continue; }
            if !in_domain(&ct) { continue; }
            if calls >= budget { return (cur, lay); }
            calls += 1;
            if same(&ct, &cl) { cur = ct; lay = cl; improved = true; break; }
        }
        if !improved { return (cur, lay); }
    }
}

/// feature labels of a (shrunk) case, small fixed vocabulary
pub fn labels(t: &T, lay: &Layout) -> BTreeSet<String> {
    let f = flatten(t);
    let mut l: BTreeSet<&str> = BTreeSet::new();
    if f.iter().skip(1).any(|n| !n.leaf) { l.insert("nested"); }
    if f.iter().skip(1).any(|n| !n.leaf && n.kids.is_empty()) { l.insert("empty-node"); }
    if !f.iter().any(|n| n.leaf) { l.insert("zero-pages"); }
    if f.iter().any(|n| n.leaf && (n.m || n.c || n.r)) { l.insert("own-attr"); }
    if f.iter().any(|n| n.c) { l.insert("crop"); }
    if f.iter().any(|n| n.depth >= 6) { l.insert("deep"); }
    for (i, n) in f.iter().enumerate() {
        if !n.leaf { continue; }
        let (mut m, mut c, mut r) = (0, 0, 0);
        let mut cur = Some(i);
        while let Some(k) = cur { m += f[k].m as u32; c += f[k].c as u32; r += f[k].r as u32; cur = f[k].parent; }
        if m > 1 || c > 1 || r > 1 { l.insert("multi-provider"); }
    }
    if lay.shuffle.is_some() { l.insert("shuffled"); }
    if lay.objstm { l.insert("objstm"); }
    if lay.res_indirect && f.iter().any(|n| n.r) { l.insert("indirect-resources"); }
    if lay.real_box { l.insert("real-box"); }
    l.into_iter().map(|s| s.to_string()).collect()
}
fn join(l: &BTreeSet<String>) -> String { if l.is_empty() { "plain".to_string() } else { l.iter().cloned().collect::<Vec<_>>().join("+") } }

struct Rec { class: String, labels: BTreeSet<String>, what: String, witness: Value }
/// one failing document as found (not yet shrunk)
struct Found { class: String, t: T, lay: Layout, fail: Fail, cfg: String, phase: u8, origin: String, tape: Option<Vec<u32>> }

const LEGEND: &str = "P=Pages node, L=leaf Page, {M,C,R}=own MediaBox/CropBox/Resources; node ids = preorder position; MediaBox of node p = [0 0 1000+p 2000+p], CropBox = [10 20 3000+p 4000+p], Resources /Properties /Mk<p>, leaf marker /VerifLeaf 7000+id";
const MAX_SHRINKS_PER_CLASS: usize = 48;

struct Ctx<'a> { run: &'a Run, found: Mutex<Vec<Found>> }

fn witness(t: &T, lay: &Layout, fail: &Fail, cfg: &str, bytes: &[u8], origin: &str) -> Value {
    json!({ "tree": t.desc(), "layout": lay.json(), "config": cfg, "detail": fail.detail, "origin": origin,
        "pdf_hex": if bytes.len() <= 6000 { hex(bytes) } else { format!("({} bytes, rebuild from tree+layout)", bytes.len()) }, "legend": LEGEND })
}

impl<'a> Ctx<'a> {
    fn failure(&self, t: &T, lay: &Layout, fail: Fail, cfg: String, bytes: Vec<u8>, phase: u8, origin: String, tape: Option<&[u32]>) {
        if fail.class.starts_with("panic|") {
            // location-based signature, no shrinking needed for identity
            self.run.violation(&format!("C07|{}", fail.class), &fail.detail, witness(t, lay, &fail, &cfg, &bytes, &origin));
            return;
        }
        self.run.count(&format!("failing_documents:{}", fail.class));
        self.found.lock().unwrap().push(Found { class: fail.class.clone(), t: t.clone(), lay: lay.clone(), fail, cfg, phase, origin, tape: tape.map(|t| t.to_vec()) });
    }

    /// Deterministic post-processing (independent of thread scheduling): per outcome class the failing documents
    /// are grouped by their raw structural label set; the canonically smallest document of each group is shrunk on the real
    /// code (at most MAX_SHRINKS_PER_CLASS groups, smallest first); of the label sets of the shrunk cases only the
    /// subset-minimal ones become signatures (a superset is the same cause seen on a less minimal case).
    fn emit(&self) {
        let found = std::mem::take(&mut *self.found.lock().unwrap());
        let key = |f: &Found| (f.phase, f.t.size(), f.t.desc().len(), f.t.desc(), join(&labels(&f.t, &f.lay)), f.origin.clone());
        let mut reps: BTreeMap<(String, String), Found> = BTreeMap::new();
        for f in found {
            // grouping by the structural labels only: layout features that matter survive in every member anyway
            let g = (f.class.clone(), join(&labels(&f.t, &Layout::plain())));
            let better = match reps.get(&g) { Some(old) => key(&f) < key(old), None => true };
            if better { reps.insert(g, f); }
        }
        let mut by_class: BTreeMap<String, Vec<Found>> = BTreeMap::new();
        for ((class, _), f) in reps { by_class.entry(class).or_default().push(f); }
        let mut jobs: Vec<Found> = Vec::new();
        for (class, mut v) in by_class {
            v.sort_by_key(|f| key(f));
            if v.len() > MAX_SHRINKS_PER_CLASS { self.run.add(&format!("label_groups_not_shrunk:{}", class), (v.len() - MAX_SHRINKS_PER_CLASS) as u64); v.truncate(MAX_SHRINKS_PER_CLASS); }
            jobs.extend(v);
        }
        let done: Mutex<Vec<(u64, Rec)>> = Mutex::new(Vec::new());
        par_for(jobs.len() as u64, |j| {
            let f = &jobs[j as usize];
            let class = f.class.clone();
            let same = |ct: &T, cl: &Layout| matches!(check(ct, cl), Outcome::Fail { fail: f2, .. } if f2.class == class);
            let (st, sl) = shrink_case(&f.t, &f.lay, &same, 1500);
            let rec = match check(&st, &sl) {
                Outcome::Fail { fail, cfg, bytes } if fail.class == class => {
                    let mut w = witness(&st, &sl, &fail, &cfg, &bytes, &f.origin);
                    w["unshrunk_tree"] = json!(f.t.desc().chars().take(400).collect::<String>());
                    if let Some(tp) = &f.tape { if tp.len() <= 400 { w["tape"] = json!(tp); } }
                    Rec { class: class.clone(), labels: labels(&st, &sl), what: fail.detail, witness: w }
                }
                // not reproducible after shrinking (must not happen: everything is deterministic) -> report unshrunk
                _ => Rec { class: class.clone(), labels: labels(&f.t, &f.lay), what: f.fail.detail.clone(), witness: witness(&f.t, &f.lay, &f.fail, &f.cfg, &[], &f.origin) },
            };
            self.run.count("shrunk_cases");
            done.lock().unwrap().push((j, rec));
        });
        let mut done = done.into_inner().unwrap();
        done.sort_by_key(|(j, _)| *j);
        let mut by_class: BTreeMap<String, Vec<Rec>> = BTreeMap::new();
        for (_, r) in done { by_class.entry(r.class.clone()).or_default().push(r); }
        for (class, mut rs) in by_class {
            rs.sort_by_key(|r| (r.labels.len(), join(&r.labels), r.witness["tree"].as_str().unwrap_or("").len(), r.witness["tree"].to_string()));
            let mut minimal: Vec<BTreeSet<String>> = Vec::new();
            for r in &rs { if !minimal.iter().any(|m| m.is_subset(&r.labels)) { minimal.push(r.labels.clone()); } }
            for r in rs {
                let m = minimal.iter().find(|m| m.is_subset(&r.labels)).unwrap();
                let sig = format!("C07|{}|{}", class, join(m));
                if *m != r.labels { self.run.count(&format!("subsumed:{}|{} -> {}", class, join(&r.labels), join(m))); }
                self.run.violation(&sig, &r.what, r.witness);
            }
        }
    }
}

// ------------------------------------------------------------------------------------------------ generators

/// all node structures with exactly k nodes, k = 1..=n (index 0 unused); a structure is a leaf or a Pages node
/// with an ordered forest of structures below it
fn all_structures(n: usize) -> Vec<Vec<T>> {
    let mut nodes: Vec<Vec<T>> = vec![vec![]; n + 1];
    let mut forests: Vec<Vec<Vec<T>>> = vec![vec![]; n];
    if n == 0 { return nodes; }
    nodes[1] = vec![T::leaf(), T::pages(vec![])];
    forests[0] = vec![vec![]];
    for m in 1..n {
        let mut fs: Vec<Vec<T>> = Vec::new();
        for k in 1..=m {
            for a in &nodes[k] {
                for rest in &forests[m - k] {
                    let mut v = Vec::with_capacity(rest.len() + 1);
                    v.push(a.clone());
                    v.extend(rest.iter().cloned());
                    fs.push(v);
                }
            }
        }
        nodes[m + 1] = fs.iter().map(|f| T::pages(f.clone())).collect();
        forests[m] = fs;
    }
    nodes
}
/// rooted shapes with exactly k nodes (root is a Pages node)
fn root_shapes(n: usize) -> Vec<Vec<T>> {
    let mut s = all_structures(n);
    for v in s.iter_mut() { v.retain(|t| !t.leaf); }
    s
}
const SCHROEDER: [usize; 9] = [0, 1, 2, 6, 22, 90, 394, 1806, 8558];

/// placements for one (shape, node subset, scheme); None when the scheme adds nothing new
fn place(shape: &T, subset: u32, scheme: u32) -> T {
    fn go(t: &T, cur: &mut usize, subset: u32, scheme: u32) -> T {
        let id = *cur;
        *cur += 1;
        let ins = subset >> id & 1 == 1;
        let root = id == 0;
        let (m, c, r) = match scheme { 0 => (ins, ins, ins), 1 => (ins, false, ins), _ => (root, ins, root) };
        T { leaf: t.leaf, kids: t.kids.iter().map(|k| go(k, cur, subset, scheme)).collect(), m, c, r }
    }
    let mut cur = 0;
    let mut t = go(shape, &mut cur, subset, scheme);
    // MediaBox and Resources are required on every leaf's path: the root supplies them where the subset does not
    if !in_domain(&t) { t.m = true; t.r = true; }
    t
}

fn random_layout(r: &mut Rng) -> Layout {
    Layout { shuffle: if r.chance(3, 4) { Some(r.next_u64() >> 16) } else { None }, objstm: r.chance(1, 3), res_indirect: r.chance(1, 3), real_box: r.chance(1, 4) }
}

/// seeded random tree: <= 60 nodes, depth <= 12, fan-out 0..=6, optional deep spine, random placements
pub fn gen_random(s: &mut Src) -> (T, Layout) {
    struct N { leaf: bool, kids: Vec<usize>, depth: usize }
    let mut a: Vec<N> = vec![N { leaf: false, kids: vec![], depth: 0 }];
    let mut target = match s.draw(4) { 0 => 1 + s.draw(12), 1 => 1 + s.draw(30), _ => 1 + s.draw(MAX_NODES as u32) } as usize;
    // spine: chain of intermediate nodes so that leaves at depth 8..=12 really occur
    if s.chance(2, 5) {
        let spine = 7 + s.draw(5) as usize; // 7..=11 intermediate nodes below the root
        target = target.max(spine + 2).min(MAX_NODES);
        let mut cur = 0;
        for _ in 0..spine { let id = a.len(); let d = a[cur].depth + 1; a.push(N { leaf: false, kids: vec![], depth: d }); a[cur].kids.push(id); cur = id; }
        let id = a.len(); let d = a[cur].depth + 1;
        a.push(N { leaf: true, kids: vec![], depth: d }); a[cur].kids.push(id);
    }
    while a.len() < target {
        let cands: Vec<usize> = (0..a.len()).filter(|&i| !a[i].leaf && a[i].kids.len() < MAX_FANOUT && a[i].depth < MAX_DEPTH).collect();
        if cands.is_empty() { break; }
        // half of the time prefer the deepest candidates, so depth is not starved by breadth
        let p = if s.chance(1, 2) { let dmax = cands.iter().map(|&i| a[i].depth).max().unwrap(); let deep: Vec<usize> = cands.iter().cloned().filter(|&i| a[i].depth + 2 >= dmax).collect(); deep[s.draw(deep.len() as u32) as usize] }
                else { cands[s.draw(cands.len() as u32) as usize] };
        let leaf = s.draw(10) < 6;
        let pos = s.draw(a[p].kids.len() as u32 + 1) as usize;
        let id = a.len(); let d = a[p].depth + 1;
        a.push(N { leaf, kids: vec![], depth: d });
        a[p].kids.insert(pos, id);
    }
    // now and then one node is made wide (a hundred to a thousand kids, as in files whose producer keeps the tree flat): mostly
    // pages, with empty nodes and small subtrees at random places; in the "balanced" variant as many empty nodes as two-page
    // nodes, so that the node's count equals its number of kids although not every kid is a page
    if s.alt(80, &["narrow", "wide-node"]) == 1 {
        let inner: Vec<usize> = (0..a.len()).filter(|&i| !a[i].leaf && a[i].depth < MAX_DEPTH - 1).collect();
        if !inner.is_empty() {
            let p = inner[s.draw(inner.len() as u32) as usize];
            let w = if s.draw(12) == 0 { *s.pick(&[400usize, 511, 512, 513]) } else { *s.pick(&[100usize, 126, 127, 128, 129, 130, 131, 140, 200, 255, 256, 257, 300]) };
            let w = w.min(1000 - a[p].kids.len());
            let variant = s.alt(2, &["wide-all-pages", "wide-mixed", "wide-balanced"]);
            let pairs = if variant == 2 { 1 + s.draw(3) as usize } else { 0 };
            // kinds: 0 page, 1 empty node, 2 node with two pages, 3 node with one page
            let mut kinds: Vec<u8> = (0..w).map(|_| if variant == 1 && s.draw(12) == 0 { 1 + s.draw(3) as u8 } else { 0 }).collect();
            for k in 0..pairs { let i = s.draw(w as u32) as usize; let j = s.draw(w as u32) as usize; if i != j && kinds[i] == 0 && kinds[j] == 0 { kinds[i] = 1; kinds[j] = 2; } let _ = k; }
            let d = a[p].depth + 1;
            for k in kinds {
                let id = a.len();
                a.push(N { leaf: k == 0, kids: vec![], depth: d });
                let pos = s.draw(a[p].kids.len() as u32 + 1) as usize;
                a[p].kids.insert(pos, id);
                for _ in 0..(match k { 2 => 2, 3 => 1, _ => 0 }) { let l = a.len(); a.push(N { leaf: true, kids: vec![], depth: d + 1 }); a[id].kids.push(l); }
            }
        }
    }
    fn conv(a: &[N], i: usize) -> T { T { leaf: a[i].leaf, kids: a[i].kids.iter().map(|&k| conv(a, k)).collect(), m: false, c: false, r: false } }
    let shape = conv(&a, 0);
    // placements (preorder ids)
    let f = flatten(&shape);
    let no_crop = s.draw(5) == 0;
    let dens = 2 + s.draw(5); // 1/dens per node
    let mut m: Vec<bool> = Vec::new(); let mut c: Vec<bool> = Vec::new(); let mut r: Vec<bool> = Vec::new();
    for _ in 0..f.len() { m.push(s.draw(dens) == dens - 1); c.push(!no_crop && s.draw(dens + 1) == dens); r.push(s.draw(dens) == dens - 1); }
    for i in 0..f.len() {
        if !f[i].leaf { continue; }
        let mut path = vec![i]; while let Some(p) = f[*path.last().unwrap()].parent { path.push(p); }
        path.reverse(); // root first: draw 0 = root = plainest
        if !path.iter().any(|&k| m[k]) { let k = path[s.draw(path.len() as u32) as usize]; m[k] = true; }
        if !path.iter().any(|&k| r[k]) { let k = path[s.draw(path.len() as u32) as usize]; r[k] = true; }
    }
    fn apply(t: &T, cur: &mut usize, m: &[bool], c: &[bool], r: &[bool]) -> T {
        let id = *cur; *cur += 1;
        T { leaf: t.leaf, kids: t.kids.iter().map(|k| apply(k, cur, m, c, r)).collect(), m: m[id], c: c[id], r: r[id] }
    }
    let mut cur = 0;
    let t = apply(&shape, &mut cur, &m, &c, &r);
    let mut lay = Layout {
        shuffle: if s.chance(3, 4) { Some(s.u32full() as u64) } else { None },
        objstm: s.chance(1, 3), res_indirect: s.chance(1, 3), real_box: s.chance(1, 4),
    };
    // without a cache every look-up of a member re-reads its whole object stream: with hundreds of members the walk over a wide node
    // becomes cubic by the library's design; the wide trees are therefore stored as ordinary objects
    if f.len() > 80 { lay.objstm = false; }
    (t, lay)
}

// ------------------------------------------------------------------------------------------------ self-test

fn self_test() -> Result<(), String> {
    use walk::Bug;
    let l = T::leaf;
    // A: ids 0 P{MR}, 1 L, 2 P, 3 L, 4 P(), 5 L{M}, 6 L
    let a = T::pages(vec![l(), T::pages(vec![l(), T::pages(vec![]), l().with("M")]), l()]).with("MR");
    // B: ids 0 P{MCR}, 1 P{MC}, 2 P, 3 L, 4 L{R}
    let b = T::pages(vec![T::pages(vec![T::pages(vec![l()]), l().with("R")]).with("MC")]).with("MCR");
    let table: [(&T, Vec<Want>); 2] = [
        (&a, vec![Want { id: 1, media: 0, crop: None, res: 0 }, Want { id: 3, media: 0, crop: None, res: 0 }, Want { id: 5, media: 5, crop: None, res: 0 }, Want { id: 6, media: 0, crop: None, res: 0 }]),
        (&b, vec![Want { id: 3, media: 1, crop: Some(1), res: 0 }, Want { id: 4, media: 1, crop: Some(1), res: 4 }]),
    ];
    let lay2 = Layout { shuffle: Some(99), objstm: true, res_indirect: true, real_box: true };
    for (t, want) in table.iter() {
        if &model(&flatten(t))? != want { return Err(format!("model differs from the hand table for {}", t.desc())); }
        for lay in [Layout::plain(), lay2.clone()] {
            let (bt, exp) = prepare(t, &lay)?;
            if let Some(f) = judge(&exp, &observe_stub(&bt.objs, bt.catalog, Bug::None, exp.len())) { return Err(format!("oracle fires on the correct stub: {} {}", f.class, f.detail)); }
        }
    }
    let expect = [(Bug::PosPlusOne, &a, "page-error"), (Bug::NoRebase, &a, "page-error"), (Bug::Outermost, &b, "wrong-media-box"),
        (Bug::CountKids, &a, "wrong-count"), (Bug::BoundsOffByOne, &a, "page-error"), (Bug::CropIgnoresInheritance, &b, "wrong-crop-box")];
    for (bug, t, class) in expect {
        let (bt, exp) = prepare(t, &Layout::plain())?;
        match judge(&exp, &observe_stub(&bt.objs, bt.catalog, bug, exp.len())) {
            Some(f) if f.class == class => {}
            other => return Err(format!("doctored stub {:?}: expected {}, oracle said {:?}", bug, class, other.map(|f| f.class))),
        }
    }
    // doctored observations for the remaining classes
    let (bt, exp) = prepare(&a, &Layout::plain())?;
    let good = observe_stub(&bt.objs, bt.catalog, Bug::None, exp.len());
    let mut o = good.clone(); o.get.swap(1, 2);
    let mut p = good.clone(); p.oob[0] = good.get[3].clone();
    let mut q = good.clone(); q.oob[2] = Got::Err { kind: "Other".into(), text: String::new() };
    let mut r = good.clone(); if let Got::Val(pg) = &mut r.get[2] { pg.res = Got::Val(vec!["Mk5".into()]); }
    let mut s = good.clone(); s.iter.pop();
    for (o, class) in [(o, "wrong-page-order"), (p, "out-of-bounds-not-error"), (q, "out-of-bounds-wrong-error"), (r, "wrong-resources"), (s, "wrong-count")] {
        match judge(&exp, &o) { Some(f) if f.class == class => {}, other => return Err(format!("doctored observation: expected {}, got {:?}", class, other.map(|f| f.class))) }
    }
    // shrinker + labels on a synthetic predicate: "fails while some Pages node is nested and the file has an object stream"
    let big = T::pages(vec![l(), T::pages(vec![l(), T::pages(vec![l(), l()]).with("C"), l().with("M")]), l()]).with("MR");
    let (st, sl) = shrink_case(&big, &lay2, &|t, lay| lay.objstm && flatten(t).iter().skip(1).any(|n| !n.leaf), 1000);
    if st.desc() != "P{MR}(P())" || join(&labels(&st, &sl)) != "empty-node+nested+objstm+zero-pages" { return Err(format!("shrinker self-test gave {} {}", st.desc(), join(&labels(&st, &sl)))); }
    Ok(())
}

// ------------------------------------------------------------------------------------------------ driver

#[derive(Default)]
struct Stats(BTreeMap<String, u64>);
impl Stats {
    fn add(&mut self, k: &str, n: u64) { *self.0.entry(k.to_string()).or_insert(0) += n; }
    fn flush(self, run: &Run) { for (k, v) in self.0 { run.add(&k, v); } }
}

/// evidence counters describing what one case exercised
fn case_stats(t: &T, lay: &Layout, phase: &str, st: &mut Stats) -> bool {
    let f = flatten(t);
    let leaves: Vec<usize> = (0..f.len()).filter(|&i| f[i].leaf).collect();
    st.add(&format!("{}:documents", phase), 1);
    st.add("entry:num_pages", 2);
    st.add("entry:get_page in range", 2 * leaves.len() as u64);
    st.add("entry:pages() items", 2 * leaves.len() as u64);
    st.add("entry:get_page out of range", 6);
    st.add("entry:media_box/crop_box/resources calls (each)", 4 * leaves.len() as u64);
    for &i in &leaves {
        let getters: [(&str, fn(&Flat) -> bool); 3] = [("media", |n| n.m), ("crop", |n| n.c), ("resources", |n| n.r)];
        for (attr, has) in getters {
            let mut d = 0; let mut cur = Some(i); let mut found = None;
            while let Some(k) = cur { if has(&f[k]) { found = Some(d); break; } d += 1; cur = f[k].parent; }
            match found {
                Some(d) => st.add(&format!("inherit:{}:distance {}", attr, if d >= 6 { "6+".to_string() } else { d.to_string() }), 1),
                None => st.add(&format!("inherit:{}:none on path (crop falls back to media box)", attr), 1),
            }
        }
    }
    if phase == "random" {
        let maxleaf = leaves.iter().map(|&i| f[i].depth).max().unwrap_or(0);
        st.add(&format!("random:max leaf depth {:02}", maxleaf), 1);
        st.add(&format!("random:max node depth {:02}", f.iter().map(|n| n.depth).max().unwrap_or(0)), 1);
        st.add(&format!("random:nodes {}", match f.len() { 0..=10 => "01-10", 11..=20 => "11-20", 21..=40 => "21-40", _ => "41-60" }), 1);
        st.add(&format!("random:max fan-out {}", f.iter().map(|n| n.kids.len()).max().unwrap_or(0)), 1);
    }
    for l in labels(t, lay) { st.add(&format!("feature:{}", l), 1); }
    // non-trivial: index -> leaf depends on counts of nested nodes
    leaves.len() >= 1 && f.iter().skip(1).any(|n| !n.leaf)
}

fn case_hash(t: &T) -> u64 { fnv(t.desc().as_bytes()) }

pub fn run(run: &Run) {
    let nmax = if run.quick() { 6 } else { 8 };
    run.rule(&format!("page trees: (a) EVERY rooted ordered shape with <= {nmax} nodes (root = Pages node; every other node a leaf Page or a Pages node with >= 0 kids) x every node subset S with |S| <= 3 x 3 placement schemes (MediaBox+CropBox+Resources on S; MediaBox+Resources on S, no CropBox anywhere; CropBox on S, MediaBox+Resources on the root only; the root additionally supplies MediaBox/Resources when S leaves a leaf uncovered), layout sampled per document; (b) seeded random trees <= 60 nodes, depth <= 12 edges, fan-out 0..6, 2/5 with a spine so that leaf depths 8..12 occur, one in 81 with one node widened to 100..513 kids (all pages / pages mixed with empty nodes and one- and two-page nodes / as many empty as two-page nodes, so that count = number of kids), independent random placements of the three attributes with unique markers. Layout = object numbers and file order shuffled / object stream + xref stream / Resources indirect / box numbers as reals. Each document is checked under uncached+strict and cached+strict: num_pages, get_page(i) and pages() for every leaf i (identity by /VerifLeaf marker and object number), get_page(count+0..2) root cause PageOutOfBounds, media_box/crop_box/resources markers against the nearest-provider model. distinct_nontrivial = distinct abstract trees (shape+placements) with at least one leaf below a nested Pages node"));
    run.assume("mkpdf serialises the generated objects faithfully (the object-level re-walk in refimpl/c07_walk.rs checks Type/Parent/Count/acyclicity and re-derives order and attributes bottom-up; the byte level is shared with the other checks)");
    run.assume("a Pages node with an empty /Kids array and /Count 0 (labels empty-node, zero-pages) is a well-formed tree node, as the property's quantifier says");
    if let Err(e) = self_test() { run.inconclusive(format!("self-test failed: {}", e)); return; }
    run.count("self_test_passed");
    let ctx = Ctx { run, found: Mutex::new(Vec::new()) };

    // (a) exhaustive
    let shapes = root_shapes(nmax);
    let mut flat_shapes: Vec<&T> = Vec::new();
    let mut count_ok = true;
    for k in 1..=nmax {
        run.add(&format!("exhaustive:shapes with {} nodes", k), shapes[k].len() as u64);
        if shapes[k].len() != SCHROEDER[k] { count_ok = false; run.inconclusive(format!("shape enumeration: {} shapes with {} nodes, expected {}", shapes[k].len(), k, SCHROEDER[k])); }
        let distinct: HashSet<&T> = shapes[k].iter().collect();
        if distinct.len() != shapes[k].len() || shapes[k].iter().any(|t| t.size() != k) { count_ok = false; run.inconclusive(format!("shape enumeration: duplicates or wrong size at {} nodes", k)); }
        flat_shapes.extend(shapes[k].iter());
    }
    let incomplete = Mutex::new(0u64);
    par_for(flat_shapes.len() as u64, |si| {
        let shape = flat_shapes[si as usize];
        let n = shape.size();
        let mut st = Stats::default();
        let mut seen: HashSet<T> = HashSet::new();
        let mut lr = Rng::derive(run.seed, 7, si);
        for subset in 0u32..(1 << n) {
            if subset.count_ones() > 3 { continue; }
            for scheme in 0..3 {
                let t = place(shape, subset, scheme);
                if !seen.insert(t.clone()) { continue; }
                let lay = random_layout(&mut lr);
                run.eval();
                if case_stats(&t, &lay, "exhaustive", &mut st) { run.nontrivial(case_hash(&t)); }
                match check(&t, &lay) {
                    Outcome::Pass => {}
                    Outcome::Inconclusive(w) => { run.inconclusive(w); *incomplete.lock().unwrap() += 1; }
                    Outcome::Fail { fail, cfg, bytes } => ctx.failure(&t, &lay, fail, cfg, bytes, 0, format!("exhaustive shape #{} subset {:#b} scheme {}", si, subset, scheme), None),
                }
                if si % 97 == 5 && subset == 0b101 && scheme == 0 { run.sample(json!({"phase": "exhaustive", "tree": t.desc(), "layout": lay.json()})); }
            }
        }
        st.flush(run);
    });
    run.exhaustive(&format!("all page-tree shapes with <= {} nodes x all node subsets of size <= 3 x 3 placement schemes", nmax), count_ok && *incomplete.lock().unwrap() == 0);

    // (b) random
    let n = run.n(2000, 200_000);
    par_for(n, |i| {
        let mut s = Src::fresh(Rng::derive(run.seed, 7, 1_000_000 + i));
        let (t, lay) = gen_random(&mut s);
        let mut st = Stats::default();
        run.eval();
        if case_stats(&t, &lay, "random", &mut st) { run.nontrivial(case_hash(&t)); }
        match check(&t, &lay) {
            Outcome::Pass => {}
            Outcome::Inconclusive(w) => run.inconclusive(w),
            Outcome::Fail { fail, cfg, bytes } => ctx.failure(&t, &lay, fail, cfg, bytes, 1, format!("random #{:07}", i), Some(&s.tape)),
        }
        if i < 4 { run.sample(json!({"phase": "random", "tree": t.desc(), "layout": lay.json(), "nodes": t.size()})); }
        st.flush(run);
    });
    ctx.emit();
    // thorough: the same quick workload once more under the AddressSanitizer build (memory errors in the library or its dependencies)
    if !run.quick() { crate::lanes::asan_rerun(run); }
}
