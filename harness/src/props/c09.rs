//! C09 — a reload sees exactly the saved modifications and nothing else changes.
use crate::casecheck::check_case;
use crate::corpus::digest;
use crate::doc::{root_kind, Cfg};
use crate::panicmon::guard;
use crate::par::par_for;
use crate::rng::{fnv, Rng};
use crate::run::Run;
use crate::tape::Src;
use pdf::file::FileOptions;
use pdf::object::{NoUpdate, PlainRef, Ref, Resolve, Stream, Updater};
use pdf::primitive::{Dictionary, PdfString, Primitive};
use serde_json::{json, Value};
use std::collections::BTreeMap;

#[derive(Clone, Debug)]
enum Val { Int(i32), Name(u32), Str(u32), Dict(u32), Arr(u32), Stream(u32, usize), Bad }
#[derive(Clone, Debug)]
enum Step { Create(Val), Update(usize, Val), Promise, Fulfil(usize, Val), Read(usize), Save, FailingSave, ContinueOnReload }
#[derive(Debug)]
struct Case { base: usize, cfg: Cfg, steps: Vec<Step> }

fn prim(v: &Val, bad_stream: &Option<Primitive>) -> Primitive {
    match v {
        Val::Int(i) => Primitive::Integer(*i),
        // every third name carries characters that need a #xx escape when written (and the '#' itself)
        Val::Name(t) => Primitive::Name(match t % 3 { 0 => format!("Tag#{} with space/and(delims)", t), _ => format!("Tag{}", t) }.into()),
        Val::Str(t) => Primitive::String(PdfString::new(format!("string #{} (with) parens\\", t).as_bytes().into())),
        Val::Dict(t) => { let mut d = Dictionary::new(); d.insert("Tag", Primitive::Integer(*t as i32)); d.insert(if t % 4 == 0 { format!("K#{} x", t % 3) } else { format!("K{}", t % 3) }, Primitive::Array(vec![Primitive::Integer(1), Primitive::Number(0.5), Primitive::Name("n#m".into())])); Primitive::Dictionary(d) }
        Val::Arr(t) => Primitive::Array(vec![Primitive::Integer(*t as i32), Primitive::Name("x".into()), Primitive::Null, Primitive::Boolean(true)]),
        Val::Stream(t, n) => {
            let mut d = Dictionary::new(); d.insert("Tag", Primitive::Integer(*t as i32));
            let data: Vec<u8> = (0..*n).map(|i| (i as u32 * 31 + *t) as u8).collect();
            if t % 4 == 1 {
                // a stream behind two filters, the second with parameters (hex of zlib of PNG rows of 4 bytes, row tag 0)
                let mut rows = Vec::new();
                for ch in data.chunks(4) { rows.push(0u8); rows.extend_from_slice(ch); rows.resize(rows.len() + 4 - ch.len(), 0); }
                let z = miniz_oxide::deflate::compress_to_vec_zlib(&rows, 6);
                let mut hex: Vec<u8> = z.iter().flat_map(|b| format!("{:02x}", b).into_bytes()).collect(); hex.push(b'>');
                let parms = pdf::enc::LZWFlateParams { predictor: 12, n_components: 1, bits_per_component: 8, columns: 4, early_change: 1 };
                let st = Stream::new_with_filters(d, hex, vec![pdf::enc::StreamFilter::ASCIIHexDecode, pdf::enc::StreamFilter::FlateDecode(parms)]);
                return Primitive::Stream(st.to_pdf_stream(&mut NoUpdate).expect("filtered stream"));
            }
            Primitive::Stream(Stream::new(d, data).to_pdf_stream(&mut NoUpdate).expect("stream"))
        }
        // an in-file stream of the base document: its serialisation is not supported, so a save containing it fails
        Val::Bad => bad_stream.clone().unwrap_or(Primitive::Null),
    }
}

pub struct Base { pub name: String, pub bytes: Vec<u8>, pub direct: Vec<u64>, pub compressed: Vec<u64>, pub a_stream: Option<u64>, pub snapshot: BTreeMap<u64, String>, pub size: u64,
    /// numbers below /Size that designate no object (free with a generation below 65535, or without any entry): an update may define them
    pub unused: Vec<u64> }

fn gen_val(s: &mut Src, tag: &mut u32) -> Val {
    *tag += 1;
    match s.alt(3, &["v_dict", "v_int", "v_name", "v_string", "v_array", "v_stream"]) { 0 => Val::Dict(*tag), 1 => Val::Int(*tag as i32), 2 => Val::Name(*tag), 3 => Val::Str(*tag), 4 => Val::Arr(*tag), _ => Val::Stream(*tag, s.draw(40) as usize) }
}

fn gen_case(s: &mut Src, bases: &[Base]) -> Case {
    let base = s.draw(bases.len() as u32) as usize;
    let cfg = Cfg { cached: s.alt(1, &["uncached", "cached"]) == 1, tolerant: false };
    let n = 2 + s.draw(12);
    let mut steps = Vec::new();
    let mut tag = 0u32;
    let mut n_targets = bases[base].direct.len().min(4) + bases[base].compressed.len().min(3) + bases[base].unused.len().min(2);
    let mut n_promises = 0usize;
    let mut pending_bad = false;
    for _ in 0..n {
        let k = s.draw(11);
        let st = match k {
            0 | 1 => { n_targets += 1; Step::Create(gen_val(s, &mut tag)) }
            2 | 3 | 4 if n_targets > 0 => Step::Update(s.draw(n_targets as u32) as usize, gen_val(s, &mut tag)),
            5 => { n_promises += 1; Step::Promise }
            6 if n_promises > 0 => { n_promises -= 1; n_targets += 1; Step::Fulfil(0, gen_val(s, &mut tag)) }
            7 if n_targets > 0 => Step::Read(s.draw(n_targets as u32) as usize),
            // a save with an unfulfilled promise outstanding is outside the domain (the promised number has no value yet)
            8 | 9 => { if pending_bad || n_promises > 0 { continue; } Step::Save }
            10 if bases[base].a_stream.is_some() && n_targets > 0 && !pending_bad && n_promises == 0 && s.alt(1, &["nofail", "failing_save"]) == 1 => { pending_bad = true; Step::FailingSave }
            _ => Step::Read(0),
        };
        if pending_bad && matches!(st, Step::FailingSave) {
            // the retry: replace the offender (target chosen at run time), then save
            steps.push(st); steps.push(Step::Update(usize::MAX, gen_val(s, &mut tag))); steps.push(Step::Save); pending_bad = false; continue;
        }
        steps.push(st);
    }
    while n_promises > 0 { n_promises -= 1; steps.push(Step::Fulfil(0, gen_val(s, &mut tag))); }
    if !steps.iter().any(|x| matches!(x, Step::Save)) { steps.push(Step::Save); }
    if s.alt(2, &["single_document", "continue_on_reloaded_document"]) == 1 {
        if !matches!(steps.last(), Some(Step::Save)) { steps.push(Step::Save); }
        steps.push(Step::ContinueOnReload); steps.push(Step::Update(0, gen_val(s, &mut tag))); steps.push(Step::Create(gen_val(s, &mut tag))); steps.push(Step::Save);
    }
    Case { base, cfg, steps }
}

fn el(e: &pdf::PdfError) -> String { format!("{}: {}", root_kind(e), format!("{}", crate::doc::root_cause(e)).lines().next().unwrap_or("")).chars().take(120).collect() }

macro_rules! fail { ($c:expr, $($t:tt)*) => { return Some(($c.to_string(), format!($($t)*))) } }

/// Executes the history on one concrete File type.
macro_rules! run_history {
    ($file:expr, $base:expr, $c:expr, $reopen:expr) => {{
        let mut file = $file;
        let b: &Base = $base;
        let c: &Case = $c;
        // the model: id -> digest of the last value written; targets the history can address
        let mut model: BTreeMap<u64, String> = BTreeMap::new();
        let mut gens: BTreeMap<u64, u64> = BTreeMap::new();
        let mut targets: Vec<PlainRef> = b.direct.iter().take(4).chain(b.compressed.iter().take(3)).chain(b.unused.iter().take(2)).map(|&id| PlainRef { id, gen: 0 }).collect();
        let mut promises = Vec::new();
        let bad_stream = b.a_stream.and_then(|id| file.resolver().resolve(PlainRef { id, gen: 0 }).ok());
        let mut bad_target: Option<PlainRef> = None;
        let mut prev_bytes: Vec<u8> = b.bytes.clone();
        let tmp = format!("{}/harness/target/c09-{}-{:?}.pdf", crate::run::verif_root(), std::process::id(), std::thread::current().id());
        let mut untouched: BTreeMap<u64, String> = b.snapshot.clone();
        for (si, st) in c.steps.iter().enumerate() {
            match st {
                Step::Create(v) => {
                    let p = prim(v, &bad_stream);
                    // now and then look at the numbers the next create may hand out before it does (typed reads of numbers that
                    // designate nothing yet: whatever they answer must not stick once the number is in use)
                    if si % 3 == 0 {
                        let hi = b.snapshot.keys().chain(model.keys()).max().copied().unwrap_or(0) + 1;
                        let res = file.resolver();
                        for id in hi..hi + 12 { let _ = res.get::<Primitive>(Ref::new(PlainRef { id, gen: 0 })); let _ = res.resolve(PlainRef { id, gen: 0 }); }
                    }
                    match file.create(p.clone()) {
                        Ok(r) => { let r = r.get_ref().get_inner(); gens.insert(r.id, r.gen); model.insert(r.id, digest(&p, &file.resolver())); untouched.remove(&r.id); targets.push(r); }
                        Err(e) => fail!("create-error", "step {}: create: {}", si, el(&e)),
                    }
                }
                Step::Update(ti, v) => {
                    let r = if *ti == usize::MAX { match bad_target { Some(r) => r, None => continue } } else { match targets.get(*ti) { Some(r) => *r, None => continue } };
                    let p = prim(v, &bad_stream);
                    match file.update(r, p.clone()) {
                        Ok(nr) => {
                            let nr = nr.get_ref().get_inner();
                            if nr.id != r.id { fail!("different-ref-returned", "step {}: update of object {} was redirected to a new object {}", si, r.id, nr.id); }
                            // the reference handed back for an object keeps its generation from one revision to the next
                            if let Some(g) = gens.get(&r.id) { if *g != nr.gen { fail!("generation-changed", "step {}: update of object {} hands back generation {}, earlier generation {}", si, r.id, nr.gen, g); } }
                            gens.insert(r.id, nr.gen);
                            model.insert(r.id, digest(&p, &file.resolver())); untouched.remove(&r.id);
                            if *ti == usize::MAX { bad_target = None; }
                        }
                        Err(e) => fail!("update-error", "step {}: update({}): {}", si, r.id, el(&e)),
                    }
                }
                Step::Promise => { promises.push(file.promise::<Primitive>()); }
                Step::Fulfil(_, v) => {
                    let Some(pr) = promises.pop() else { continue };
                    let p = prim(v, &bad_stream);
                    let r = pr.get_inner();
                    match file.fulfill(pr, p.clone()) {
                        Ok(nr) => { if nr.get_ref().get_inner().id != r.id { fail!("different-ref-returned", "step {}: fulfil of promise {} landed on {}", si, r.id, nr.get_ref().get_inner().id); }
                            model.insert(r.id, digest(&p, &file.resolver())); targets.push(r); }
                        Err(e) => fail!("fulfil-error", "step {}: {}", si, el(&e)),
                    }
                }
                Step::Read(ti) => {
                    let Some(r) = targets.get(*ti).cloned() else { continue };
                    let res = file.resolver();
                    let expect = model.get(&r.id).or(b.snapshot.get(&r.id));
                    let Some(expect) = expect else { continue };
                    match res.resolve(r) { Ok(p) => { let d = digest(&p, &res); if &d != expect { fail!(if model.contains_key(&r.id) { "read-your-writes-resolve" } else { "untouched-changed-before-save" }, "step {}: resolve({}) = {} expected {}", si, r.id, short(&d), short(expect)); } }
                        Err(_) if expect.starts_with("Err(") => {} // a number that designates no object and has not been written yet
                        Err(e) => fail!("read-error", "step {}: resolve({}): {}", si, r.id, el(&e)) }
                    match res.get::<Primitive>(Ref::new(r)) { Ok(p) => { let d = digest(&p, &res); if &d != expect { fail!(if model.contains_key(&r.id) { "read-your-writes-get" } else { "untouched-changed-before-save" }, "step {}: get({}) = {} expected {}", si, r.id, short(&d), short(expect)); } }
                        Err(_) if expect.starts_with("Err(") => {}
                        Err(e) => fail!("read-error", "step {}: get({}): {}", si, r.id, el(&e)) }
                }
                Step::FailingSave => {
                    // put an unserialisable value (an in-file stream primitive) under an existing target, save must fail cleanly
                    let Some(r) = targets.last().cloned() else { continue };
                    let p = prim(&Val::Bad, &bad_stream);
                    if let Err(e) = file.update(r, p) { fail!("update-error", "step {}: update with in-file stream: {}", si, el(&e)); }
                    bad_target = Some(r);
                    match file.save_to(&tmp) {
                        Err(_) => {}
                        Ok(()) => { // the library managed to write it: then it must read back; treat as a normal save of an unknown value
                            model.remove(&r.id); untouched.remove(&r.id); bad_target = None;
                            prev_bytes = std::fs::read(&tmp).unwrap_or_default();
                        }
                    }
                }
                Step::Save | Step::ContinueOnReload => {
                    if matches!(st, Step::ContinueOnReload) {
                        // continue the history on a freshly loaded copy of the last saved bytes
                        match $reopen(prev_bytes.clone()) { Ok(f) => { file = f; promises.clear(); continue; } Err(e) => fail!("reload-error", "step {}: reopening saved bytes: {}", si, el(&e)) }
                    }
                    if bad_target.is_some() { continue; }
                    if let Err(e) = file.save_to(&tmp) { fail!("save-error", "step {}: save: {}", si, el(&e)); }
                    let out = std::fs::read(&tmp).unwrap_or_default();
                    if !out.starts_with(&prev_bytes) { fail!("previous-revision-modified", "step {}: the previous revision ({} bytes) is not a prefix of the saved output ({} bytes)", si, prev_bytes.len(), out.len()); }
                    for tolerant in [false, true] {
                        let opts = if tolerant { pdf::object::ParseOptions::tolerant() } else { pdf::object::ParseOptions::strict() };
                        let re = match FileOptions::uncached().parse_options(opts).load(out.clone()) { Ok(f) => f, Err(e) => fail!("reload-error", "step {}: reload ({}): {}", si, if tolerant { "tolerant" } else { "strict" }, el(&e)) };
                        let res = re.resolver();
                        for (id, expect) in model.iter() {
                            match res.resolve(PlainRef { id: *id, gen: 0 }) {
                                Ok(p) => { let d = digest(&p, &res); if &d != expect { fail!("reload-wrong-value", "step {}: after reload object {} = {} expected {}", si, id, short(&d), short(expect)); } }
                                Err(e) => fail!("reload-missing-value", "step {}: after reload object {}: {}", si, id, el(&e)),
                            }
                        }
                        for (id, expect) in untouched.iter() {
                            let d = norm_missing(match res.resolve(PlainRef { id: *id, gen: 0 }) { Ok(p) => digest(&p, &res), Err(e) => format!("Err({})", root_kind(&e)) });
                            if d != norm_missing(expect.clone()) { fail!("untouched-changed", "step {}: untouched object {} = {} was {}", si, id, short(&d), short(expect)); }
                        }
                    }
                    // the open document keeps answering correctly after the save
                    { let res = file.resolver(); for (id, expect) in model.iter().take(6) { match res.resolve(PlainRef { id: *id, gen: 0 }) { Ok(p) => { let d = digest(&p, &res); if &d != expect { fail!("open-document-wrong-after-save", "step {}: object {} = {} expected {}", si, id, short(&d), short(expect)); } } Err(e) => fail!("open-document-error-after-save", "step {}: object {}: {}", si, id, el(&e)) } } }
                    prev_bytes = out;
                }
            }
        }
        let _ = std::fs::remove_file(&tmp);
        None
    }};
}
fn short(s: &str) -> String { s.chars().take(70).collect() }
/// free, undefined and beyond-the-table numbers are all "missing"
fn norm_missing(d: String) -> String { if d == "Err(FreeObject)" || d == "Err(NullRef)" || d == "Err(UnspecifiedXRefEntry)" { "Err(missing)".into() } else { d } }

fn oracle(c: &Case, bases: &[Base]) -> Option<(String, String)> {
    let b = &bases[c.base];
    let r = guard(|| -> Option<(String, String)> {
        if c.cfg.cached {
            let f = match FileOptions::cached().load(b.bytes.clone()) { Ok(f) => f, Err(e) => return Some(("base-load-error".into(), el(&e))) };
            run_history!(f, b, c, |bytes: Vec<u8>| FileOptions::cached().load(bytes))
        } else {
            let f = match FileOptions::uncached().load(b.bytes.clone()) { Ok(f) => f, Err(e) => return Some(("base-load-error".into(), el(&e))) };
            run_history!(f, b, c, |bytes: Vec<u8>| FileOptions::uncached().load(bytes))
        }
    });
    match r { Ok(x) => x, Err(p) => Some((p.signature(), p.describe())) }
}

pub fn make_base(name: &str, bytes: Vec<u8>, unused: Vec<u64>) -> Option<Base> {
    let f = FileOptions::uncached().load(bytes.clone()).ok()?;
    let res = f.resolver();
    let size = f.trailer.size.max(0) as u64;
    let (mut direct, mut compressed, mut a_stream, mut snapshot): (Vec<u64>, Vec<u64>, Option<u64>, BTreeMap<u64, String>) = (Vec::new(), Vec::new(), None, BTreeMap::new());
    // which objects are compressed: read the file with the independent reader's eyes is overkill here; use the raw text
    for id in 1..size.min(400) {
        match res.resolve(PlainRef { id, gen: 0 }) {
            Ok(p) => {
                snapshot.insert(id, digest(&p, &res));
                let head = format!("\n{} 0 obj", id);
                let is_direct = bytes.windows(head.len()).any(|w| w == head.as_bytes()) || bytes.starts_with(&head.as_bytes()[1..]);
                if matches!(p, Primitive::Stream(_)) { if a_stream.is_none() { a_stream = Some(id); } }
                // bare integers are typically the /Length of some stream: rewriting them changes what that stream reads as (not an "untouched" object any more)
                else if matches!(p, Primitive::Integer(_)) {}
                else if matches!(p, Primitive::Dictionary(ref d) if d.get("Type").map(|t| t.as_name().map(|n| n == "Catalog" || n == "Pages" || n == "XRef" || n == "ObjStm").unwrap_or(false)).unwrap_or(false)) {}
                else if is_direct { direct.push(id); } else { compressed.push(id); }
            }
            Err(e) => { snapshot.insert(id, format!("Err({})", root_kind(&e))); }
        }
    }
    // keep only targets whose replacement leaves the document loadable (objects the trailer/catalog load eagerly are not
    // "modifiable" without making the file invalid): trial update + save + reload on a scratch copy
    let tmp = format!("{}/harness/target/c09-trial-{}-{:?}.pdf", crate::run::verif_root(), std::process::id(), std::thread::current().id());
    let ok = |id: u64| -> bool {
        let Ok(mut f) = FileOptions::uncached().load(bytes.clone()) else { return false };
        if f.update(PlainRef { id, gen: 0 }, Primitive::Integer(1)).is_err() { return false; }
        if guard(|| f.save_to(&tmp)).map(|r| r.is_err()).unwrap_or(true) { return false; }
        std::fs::read(&tmp).ok().map(|b| FileOptions::uncached().load(b).is_ok()).unwrap_or(false)
    };
    direct.retain(|id| ok(*id));
    compressed.retain(|id| ok(*id));
    let _ = std::fs::remove_file(&tmp);
    let unused: Vec<u64> = unused.into_iter().filter(|id| snapshot.get(id).map(|s| s.starts_with("Err(")).unwrap_or(*id < size)).collect();
    Some(Base { name: name.into(), bytes, direct, compressed, a_stream, snapshot, size, unused })
}

pub fn bases(seed: u64) -> Vec<Base> {
    let mut out = Vec::new();
    for s in crate::corpus::valid_files() {
        if ["example.pdf", "xelatex.pdf", "pdf-sample.pdf", "offset.pdf", "formxobject.pdf", "libreoffice.pdf"].contains(&s.name.as_str()) { if let Some(b) = make_base(&s.name, s.bytes, vec![]) { out.push(b); } }
    }
    for (i, l) in [crate::richdoc::Layout::Classic, crate::richdoc::Layout::XrefStream, crate::richdoc::Layout::Incremental].iter().enumerate() {
        if let Some(b) = make_base(&format!("rich-{}", i), crate::richdoc::write(&crate::richdoc::objects(), *l, if i == 1 { b"junk before the header\n" } else { b"" }), vec![]) { out.push(b); }
    }
    // a base with in-use objects of non-zero generation (numbers that were freed and used again before)
    {
        use crate::mkpdf::{dict, name, rf, Obj, W};
        let mut w = W::new(b"", "1.4");
        w.free(0, 0, 65535);
        w.obj(1, 0, &dict(vec![("Type", name("Catalog")), ("Pages", rf(2))]));
        w.obj(2, 0, &dict(vec![("Type", name("Pages")), ("Count", Obj::Int(1)), ("Kids", crate::mkpdf::arr(vec![rf(3)]))]));
        w.obj(3, 0, &dict(vec![("Type", name("Page")), ("Parent", rf(2)), ("MediaBox", crate::mkpdf::ints(&[0, 0, 10, 10]))]));
        w.obj(4, 1, &dict(vec![("Reused", Obj::Int(1))]));
        w.obj(5, 7, &dict(vec![("Reused", Obj::Int(7)), ("Other", Obj::Ref(4, 1))]));
        w.obj(6, 0, &dict(vec![("Plain", Obj::Bool(true))]));
        w.xref_table(vec![(b"Root".to_vec(), rf(1))], 7, &[]);
        if let Some(b) = make_base("generations-1-and-7", w.buf, vec![]) { out.push(b); }
    }
    // a base whose object stream has more than 256 members (the index field of a rewritten cross-reference stream needs two bytes)
    {
        use crate::mkpdf::{dict, name, rf, Obj, W};
        let mut w = W::new(b"", "1.5");
        w.free(0, 0, 65535);
        w.obj(1, 0, &dict(vec![("Type", name("Catalog")), ("Pages", rf(2))]));
        w.obj(2, 0, &dict(vec![("Type", name("Pages")), ("Count", Obj::Int(1)), ("Kids", crate::mkpdf::arr(vec![rf(3)]))]));
        w.obj(3, 0, &dict(vec![("Type", name("Page")), ("Parent", rf(2)), ("MediaBox", crate::mkpdf::ints(&[0, 0, 10, 10]))]));
        let members: Vec<(u32, Obj)> = (0..300u32).map(|i| (10 + i, dict(vec![("Member", Obj::Int(i as i64)), ("Square", Obj::Int((i * i) as i64))]))).collect();
        w.objstm(4, &members, b"\n", 0, &crate::mkpdf::flate_filter);
        w.xref_stream(5, vec![(b"Root".to_vec(), rf(1))], 311, &[], &crate::mkpdf::flate_filter);
        if let Some(b) = make_base("objstm-300-members", w.buf, vec![]) { out.push(b); }
    }
    for k in 0..3u64 {
        let mut s = Src::fresh(Rng::derive(seed, 900, k));
        let plan = crate::props::c02::gen_plan(&mut s, 8, 3);
        let built = crate::props::c02::build(&plan);
        let unused: Vec<u64> = built.unused_numbers().into_iter().filter(|(_, g)| *g != Some(65535)).map(|(n, _)| n as u64).collect();
        if let Some(b) = make_base(&format!("history-{}", k), built.bytes, unused) { out.push(b); }
    }
    out
}

fn witness(c: &Case, bases: &[Base]) -> Value { json!({"base": bases[c.base].name, "cfg": c.cfg.name(), "steps": c.steps.iter().map(|s| format!("{:?}", s)).collect::<Vec<_>>() }) }

/// Re-run a stored witness (choice tape; the base files are regenerated from the seed) against the current tree.
pub fn replay(prefix: &str, tape: &[u32], params: &Value) -> Option<Option<(String, String)>> {
    if prefix != "history" { return None; }
    let bs = bases(params["bases_seed"].as_u64()?);
    let mut s = Src::replay(tape);
    let c = gen_case(&mut s, &bs);
    Some(oracle(&c, &bs))
}

pub fn run(run: &Run) {
    run.rule("histories (<= 14 steps + optional continuation on the reloaded document) over {create v, update r v, promise, fulfil p v, read r (resolve and get), save, failing save (an unserialisable in-file stream value, then replace the offender and save again)} on base files: example.pdf (classic), xelatex/pdf-sample/libreoffice (xref stream + compressed objects), offset.pdf and a generated file with junk before the header, generated rich documents in 3 layouts, generated multi-section histories; update targets: direct, compressed, created and promised objects, and (generated multi-section bases) numbers that designate no object — free with a generation below 65535 or without an entry; values uniquely tagged dictionaries, integers, names, strings, arrays, streams; cached and uncached. Oracle: sequential model ref -> last value + snapshot of the base from a separate uncached load: read-your-writes before save, previous revision is a byte prefix, strict and tolerant reload resolves every model entry under the very reference and every untouched object to the snapshot, open document still right after save. distinct_nontrivial = distinct (base, history) with at least one save");
    run.assume("update is only applied to in-use, created or promised objects (updating a free or undefined number is outside the statement)");
    let bs = bases(run.seed);
    for b in &bs { run.count(&format!("base:{}:direct{}:compressed{}", b.name, b.direct.len().min(4), b.compressed.len().min(3))); if !b.unused.is_empty() { run.count(&format!("base:{}:unused-number-targets{}", b.name, b.unused.len().min(2))); } }
    let n = run.n(12_000, 300_000);
    par_for(n, |i| {
        run.eval();
        check_case(run, "C09", "history", Src::fresh(Rng::derive(run.seed, 9, i)), &|s| gen_case(s, &bs), &|c| oracle(c, &bs), &|c| witness(c, &bs), &|c, s| {
            run.nontrivial(fnv(format!("{:?}", c).as_bytes()));
            for st in &c.steps { run.count(match st { Step::Create(_) => "op:create", Step::Update(..) => "op:update", Step::Promise => "op:promise", Step::Fulfil(..) => "op:fulfil", Step::Read(_) => "op:read", Step::Save => "op:save", Step::FailingSave => "op:failing-save", Step::ContinueOnReload => "op:continue-on-reload" }); }
            run.count_labels(&s.labels);
            {
                // updates that define a number which designated no object in the base (index into the initial target list)
                let b = &bs[c.base]; let (lo, hi) = (b.direct.len().min(4) + b.compressed.len().min(3), b.direct.len().min(4) + b.compressed.len().min(3) + b.unused.len().min(2));
                for st in &c.steps { if let Step::Update(ti, _) = st { if *ti >= lo && *ti < hi { run.count("op:update-of-unused-number"); } } }
            }
            if i < 4 { run.sample(witness(c, &bs)); }
        }, json!({"bases_seed": run.seed}));
    });
    // thorough: the same quick workload once more under the AddressSanitizer build (memory errors in the library or its dependencies)
    if !run.quick() { crate::lanes::asan_rerun(run); }
}
