//! C10 — neutral description of a document handed to the builder, and its tape-driven generator.
//! Everything here is plain data (no storage, no typed library objects), so that the same description can be
//! turned into builder input for either cache flavour and compared with what a reload shows.
use crate::opsgen::{self, GenCfg};
use crate::tape::Src;
use pdf::content::Op;
use pdf::primitive::{Dictionary, Name, PdfString, Primitive};

/// C08's domain minus operands the specification does not list (a reference inside a content stream is not PDF)
pub const OPS_CFG: GenCfg = GenCfg { huge_reals: true, odd_reals: true, irregular_names: true, nonascii_names: true, empty_names: true,
    any_strings: true, nonstandard_prims: false, shorthand_bias: true, exclude: &[] };
/// values of dictionary entries: finite numbers incl. boundary classes, regular and irregular names, all strings
const VAL_CFG: GenCfg = GenCfg { huge_reals: true, odd_reals: true, irregular_names: true, nonascii_names: true, empty_names: false,
    any_strings: true, nonstandard_prims: false, shorthand_bias: false, exclude: &[] };
const PLAIN_CFG: GenCfg = GenCfg::PLAIN;

#[derive(Clone, Debug)]
pub struct FdSpec { pub flags: u32, pub bbox: [f32; 4], pub italic: f32, pub ascent: Option<f32>, pub descent: Option<f32>, pub cap_height: Option<f32>, pub stem_v: f32, pub missing_width: f32 }

#[derive(Clone, Debug)]
pub struct FontSpec {
    /// 0 Type1, 1 TrueType, 2 Type0 (with one CIDFontType2 / CIDFontType0 descendant)
    pub kind: u8,
    pub base: String,
    pub first: Option<i32>,
    pub last: Option<i32>,
    pub widths: Option<Vec<f32>>,
    pub descriptor: Option<FdSpec>,
    /// index into ENCODINGS + differences
    pub encoding: Option<(usize, Vec<(u32, String)>)>,
    pub to_unicode: Option<Vec<u8>>,
    pub indirect: bool,
    pub cid_type0: bool,
    pub dw: f32,
    pub w: Vec<Primitive>,
    pub cid_to_gid_identity: bool,
}
pub const ENCODINGS: [&str; 5] = ["StandardEncoding", "WinAnsiEncoding", "MacRomanEncoding", "MacExpertEncoding", "SymbolEncoding"];

#[derive(Clone, Debug)]
pub enum CsSpec { Rgb, Cmyk, Indexed { cmyk_base: bool, hival: u8, lookup: Vec<u8> }, Gray, PatternCs, Named(String), CalRgb { gamma: bool }, CalGray, Lab }

#[derive(Clone, Debug)]
pub enum XoSpec {
    Image { w: u32, h: u32, mask: bool, cmyk: bool, data: Vec<u8>, interpolate: bool },
    Form { bbox: [f32; 4], ops: Vec<Op>, own_resources: bool, matrix: Option<[f32; 6]> },
}
#[derive(Clone, Debug)]
pub struct PatSpec { pub stream: bool, pub paint: i32, pub tiling: i32, pub bbox: [f32; 4], pub xstep: f32, pub ystep: f32, pub matrix: Option<[f32; 6]>, pub ops: Vec<Op> }

#[derive(Clone, Debug, Default)]
pub struct ResSpec {
    /// ExtGState: dictionary as the specification writes it (only keys of Table 58 with well-typed values); `font` = use font #0 of the page
    pub gs: Vec<(String, Dictionary, Option<f32>)>,
    pub cs: Vec<(String, CsSpec)>,
    pub fonts: Vec<(String, FontSpec)>,
    pub xobjects: Vec<(String, XoSpec)>,
    pub patterns: Vec<(String, PatSpec)>,
    pub props: Vec<(String, Dictionary, bool)>,
}

#[derive(Clone, Debug)]
pub struct PageSpec {
    pub ops: Vec<Op>,
    pub media: Option<[f32; 4]>,
    pub crop: Option<[f32; 4]>,
    pub trim: Option<[f32; 4]>,
    pub rotate: i32,
    pub other: Vec<(String, Primitive)>,
    /// XMP-like bytes stored as a stream in the builder's storage, `metadata` = reference to it
    pub metadata: Option<Vec<u8>>,
    pub lgi: Option<Primitive>,
    pub vp: Option<Primitive>,
    pub res: ResSpec,
}

#[derive(Clone, Debug, PartialEq)]
pub struct DateSpec { pub year: u16, pub month: u8, pub day: u8, pub hour: u8, pub minute: u8, pub second: u8, pub rel: char, pub tz_hour: u8, pub tz_minute: u8 }

#[derive(Clone, Debug, Default)]
pub struct InfoSpec {
    /// Title, Author, Subject, Keywords, Creator, Producer
    pub strings: [Option<Vec<u8>>; 6],
    pub creation: Option<DateSpec>,
    pub modified: Option<DateSpec>,
    /// 0 True, 1 False, 2 Unknown
    pub trapped: Option<u8>,
}
pub const INFO_KEYS: [&str; 6] = ["Title", "Author", "Subject", "Keywords", "Creator", "Producer"];

#[derive(Clone, Debug)]
pub struct DocSpec { pub cached_builder: bool, pub pages: Vec<PageSpec>, pub info: Option<InfoSpec>,
    /// size steering: the document is padded (Keywords entry of the information dictionary) until its cross-reference section
    /// starts at `boundary + delta`, so that offsets just below and just above a power of 256 occur in one file
    pub steer: Option<(usize, i32)> }

/// the marker entry every page carries in `other` (identifies the page whatever else is equal)
pub const MARKER: &str = "C10Idx";

fn rect(src: &mut Src, cfg: &GenCfg) -> [f32; 4] { [opsgen::gen_num(src, cfg), opsgen::gen_num(src, cfg), opsgen::gen_num(src, cfg), opsgen::gen_num(src, cfg)] }
fn page_rect(src: &mut Src) -> [f32; 4] {
    match src.draw(4) {
        0 => [0.0, 0.0, 612.0, 792.0],
        1 => [0.0, 0.0, 595.28, 841.89],
        2 => { let a = src.range(-50, 50) as f32; let b = src.range(-50, 50) as f32; [a, b, a + src.range(1, 2000) as f32 / 4.0, b + src.range(1, 2000) as f32 / 4.0] }
        _ => { src.label("odd-rect"); rect(src, &VAL_CFG) }
    }
}
fn matrix(src: &mut Src) -> [f32; 6] { let mut m = [0.0; 6]; for v in m.iter_mut() { *v = opsgen::gen_num(src, &PLAIN_CFG); } m }

/// null as the value of a dictionary entry means "no entry" (7.3.7): keep it out so that equality is unambiguous
fn strip_nulls(p: Primitive) -> Primitive {
    match p {
        Primitive::Dictionary(d) => {
            let mut out = Dictionary::new();
            for (k, v) in d.iter() { if !matches!(v, Primitive::Null) { out.insert(k.clone(), strip_nulls(v.clone())); } }
            Primitive::Dictionary(out)
        }
        Primitive::Array(a) => Primitive::Array(a.into_iter().map(strip_nulls).collect()),
        other => other,
    }
}
fn value(src: &mut Src, depth: u32) -> Primitive {
    loop {
        let p = strip_nulls(opsgen::gen_prim(src, &VAL_CFG, depth));
        if !matches!(p, Primitive::Null) { return p; }
    }
}
fn small_dict(src: &mut Src, tag: i32) -> Dictionary {
    let mut d = Dictionary::new();
    d.insert("Tag", Primitive::Integer(tag));
    for i in 0..src.draw(3) { d.insert(Name::from(format!("K{}", i)), value(src, 1)); }
    d
}

/// spec keys of a page object the typed model does not know, with well-formed values, plus private keys
fn other_entries(src: &mut Src, page: usize) -> Vec<(String, Primitive)> {
    let mut v = vec![(MARKER.to_string(), Primitive::Integer(page as i32))];
    let n = src.pick_w(3, 3);
    if n > 0 { src.label("other-entries"); }
    for k in 0..n {
        let e = match src.draw(12) {
            0 => ("UserUnit".to_string(), Primitive::Number(src.range(1, 40) as f32 / 4.0)),
            1 => ("Tabs".to_string(), Primitive::Name((*src.pick(&["R", "C", "S"])).into())),
            2 => ("StructParents".to_string(), Primitive::Integer(src.range(0, 500) as i32)),
            3 => ("Dur".to_string(), Primitive::Number(src.range(1, 100) as f32 / 2.0)),
            4 => ("BleedBox".to_string(), Primitive::Array(page_rect(src).iter().map(|x| Primitive::Number(*x)).collect())),
            5 => ("ArtBox".to_string(), Primitive::Array(page_rect(src).iter().map(|x| Primitive::Number(*x)).collect())),
            6 => { let mut g = Dictionary::new(); g.insert("S", Primitive::name("Transparency")); g.insert("CS", Primitive::name("DeviceRGB")); g.insert("I", Primitive::Boolean(src.draw(2) == 1)); ("Group".to_string(), Primitive::Dictionary(g)) }
            7 => ("ID".to_string(), Primitive::String(opsgen::gen_string(src, &VAL_CFG))),
            8 => ("PieceInfo".to_string(), Primitive::Dictionary(small_dict(src, page as i32 * 10 + k as i32))),
            9 => { src.label("other-key-irregular"); let mut key = opsgen::gen_name(src, &VAL_CFG).as_str().to_string(); key.push_str(&format!("#{}", k)); (key, value(src, 2)) }
            _ => (format!("XC10_{}", k), value(src, 2)),
        };
        if !v.iter().any(|(kk, _)| *kk == e.0) { v.push(e); }
    }
    v
}

fn res_name(src: &mut Src, prefix: &str, i: usize) -> String {
    if src.draw(10) == 9 { src.label("resource-name-irregular"); format!("{}{}{}", prefix, opsgen::gen_name(src, &VAL_CFG).as_str(), i) } else { format!("{}{}", prefix, i) }
}

fn gen_font(src: &mut Src) -> FontSpec {
    let kind = src.alt(2, &["font-type1", "font-truetype", "font-type0"]) as u8;
    let base = (*src.pick(&["Helvetica", "Times-Roman", "ABCDEF+Arial-BoldMT", "Courier", "XYZABC+Font.With.Dots"])).to_string();
    let mut f = FontSpec { kind, base, first: None, last: None, widths: None, descriptor: None, encoding: None, to_unicode: None,
        indirect: true, cid_type0: false, dw: 1000.0, w: vec![], cid_to_gid_identity: false };
    if src.alt(2, &["font-indirect", "font-direct"]) == 1 { f.indirect = false; }
    let fd = |src: &mut Src| FdSpec { flags: *src.pick(&[32u32, 4, 6, 96, 262176]), bbox: [-(src.range(0, 300) as f32), -(src.range(0, 300) as f32), src.range(500, 1500) as f32, src.range(500, 1200) as f32],
        italic: -(src.range(0, 30) as f32) / 2.0, ascent: if src.draw(4) == 3 { None } else { Some(src.range(600, 1000) as f32) }, descent: if src.draw(4) == 3 { None } else { Some(-(src.range(100, 300) as f32)) },
        cap_height: if src.draw(2) == 1 { Some(src.range(500, 800) as f32) } else { None }, stem_v: src.range(0, 200) as f32, missing_width: *src.pick(&[0.0f32, 250.0, 500.5]) };
    if kind < 2 {
        if src.chance(2, 3) {
            src.label("font-widths");
            let first = src.range(0, 200) as i32;
            let n = src.range(0, 12) as i32;
            f.first = Some(first); f.last = Some(first + n - 1 + (n == 0) as i32);
            f.widths = Some((0..n.max(1)).map(|_| src.range(0, 4000) as f32 / 4.0).collect());
        }
        if src.chance(1, 2) { src.label("font-descriptor"); f.descriptor = Some(fd(src)); }
        if src.chance(1, 2) {
            src.label("font-encoding");
            let base = src.draw(ENCODINGS.len() as u32) as usize;
            let mut diffs = Vec::new();
            if src.chance(1, 2) {
                src.label("font-differences");
                let mut code = src.range(0, 120) as u32;
                for _ in 0..src.range(1, 5) { diffs.push((code, (*src.pick(&["Adieresis", "space", "a", "Euro", "f_i", "uni20AC", ".notdef"])).to_string())); code += 1 + src.draw(3) * src.draw(20); }
            }
            f.encoding = Some((base, diffs));
        }
    } else {
        f.cid_type0 = src.draw(2) == 1;
        f.descriptor = Some(fd(src));
        f.dw = *src.pick(&[1000.0f32, 500.0, 0.0, 720.5]);
        f.cid_to_gid_identity = !f.cid_type0 && src.draw(2) == 1;
        for _ in 0..src.draw(3) {
            let c = src.range(0, 3000) as i32;
            if src.draw(2) == 0 {
                f.w.push(Primitive::Integer(c));
                f.w.push(Primitive::Array((0..src.range(1, 4)).map(|_| Primitive::Number(src.range(0, 4000) as f32 / 4.0)).collect()));
            } else {
                f.w.push(Primitive::Integer(c)); f.w.push(Primitive::Integer(c + src.range(0, 50) as i32)); f.w.push(Primitive::Integer(src.range(0, 1000) as i32));
            }
        }
    }
    if src.chance(1, 3) {
        src.label("font-tounicode");
        f.to_unicode = Some(b"/CIDInit /ProcSet findresource begin\n12 dict begin\nbegincmap\n1 begincodespacerange\n<00> <FF>\nendcodespacerange\n1 beginbfchar\n<41> <0041>\nendbfchar\nendcmap\nend\nend\n".to_vec());
    }
    f
}

fn gen_gs(src: &mut Src, has_font: bool) -> (Dictionary, Option<f32>) {
    let mut d = Dictionary::new();
    let mut font = None;
    for _ in 0..src.range(0, 5) {
        match src.draw(15) {
            0 => { d.insert("LW", Primitive::Number(opsgen::gen_num(src, &PLAIN_CFG).abs())); }
            1 => { d.insert("LC", Primitive::Integer(src.draw(3) as i32)); }
            2 => { d.insert("LJ", Primitive::Integer(src.draw(3) as i32)); }
            3 => { d.insert("ML", Primitive::Number(1.0 + src.range(0, 40) as f32 / 4.0)); }
            4 => { let n = src.draw(4); d.insert("D", Primitive::Array(vec![Primitive::Array((0..n).map(|_| Primitive::Number(src.range(1, 40) as f32 / 2.0)).collect()), Primitive::Integer(src.range(0, 9) as i32)])); }
            5 => { d.insert("RI", Primitive::name(*src.pick(&["Perceptual", "Saturation", "RelativeColorimetric", "AbsoluteColorimetric"]))); }
            6 => { d.insert("OP", Primitive::Boolean(src.draw(2) == 1)); }
            7 => { d.insert("op", Primitive::Boolean(src.draw(2) == 1)); }
            8 => { d.insert("OPM", Primitive::Integer(src.draw(2) as i32)); }
            9 => { d.insert("BM", Primitive::name(*src.pick(&["Normal", "Multiply", "Screen", "Overlay"]))); }
            10 => { d.insert("SMask", Primitive::name("None")); }
            11 => { d.insert("CA", Primitive::Number(src.range(0, 8) as f32 / 8.0)); }
            12 => { d.insert("ca", Primitive::Number(src.range(0, 8) as f32 / 8.0)); }
            13 => { d.insert("AIS", Primitive::Boolean(src.draw(2) == 1)); d.insert("TK", Primitive::Boolean(src.draw(2) == 1)); }
            _ => if has_font { src.label("gs-font"); font = Some(src.range(1, 96) as f32 / 2.0); },
        }
    }
    (d, font)
}

fn gen_cs(src: &mut Src) -> CsSpec {
    match src.alt(2, &["cs-rgb", "cs-cmyk", "cs-indexed", "cs-gray", "cs-pattern", "cs-named", "cs-calrgb", "cs-calgray", "cs-lab"]) {
        0 => CsSpec::Rgb,
        1 => CsSpec::Cmyk,
        3 => CsSpec::Gray,
        4 => CsSpec::PatternCs,
        5 => CsSpec::Named(["DefaultRGB", "Cs 1", "X#Y"][src.draw(3) as usize].to_string()),
        6 => CsSpec::CalRgb { gamma: src.draw(2) == 1 },
        7 => CsSpec::CalGray,
        8 => CsSpec::Lab,
        _ => {
            let cmyk_base = src.draw(2) == 1;
            let comps = if cmyk_base { 4 } else { 3 };
            // the writer switches representation at 100 bytes: stay below unless the labelled choice is taken
            let big = src.alt(3, &["indexed-lookup<100", "indexed-lookup>=100"]) == 1;
            let entries = if big { src.range(100 / comps as i64 + 1, 255) as usize + 1 } else { src.range(0, (99 / comps) as i64 - 1) as usize + 1 };
            let lookup: Vec<u8> = (0..entries * comps).map(|_| src.byte()).collect();
            CsSpec::Indexed { cmyk_base, hival: (entries - 1) as u8, lookup }
        }
    }
}

fn gen_xo(src: &mut Src) -> XoSpec {
    if src.alt(1, &["xobject-image", "xobject-form"]) == 0 {
        // a stream of > 64 KiB now and then: every later object then lies at an offset that needs three bytes in the xref stream
        let large = src.alt(24, &["small-image", "large-stream"]) == 1;
        let (w, h) = if large { (160, 150) } else { (src.range(1, 6) as u32, src.range(1, 4) as u32) };
        let mask = !large && src.draw(3) == 2;
        let cmyk = src.draw(2) == 1;
        let n = if mask { ((w + 7) / 8 * h) as usize } else { (w * h) as usize * if cmyk { 4 } else { 3 } };
        // data over all byte values, sometimes ending in EOL bytes (what a /Length check must get right)
        let mut data: Vec<u8> = if large { let seed = src.byte(); (0..n).map(|i| ((i as u32).wrapping_mul(2654435761) >> 24) as u8 ^ seed).collect() } else { (0..n).map(|_| src.byte()).collect() };
        if src.draw(4) == 3 { src.label("stream-data-ends-with-eol"); let l = data.len(); data[l - 1] = *src.pick(&[b'\n', b'\r']); }
        XoSpec::Image { w, h, mask, cmyk, data, interpolate: src.draw(2) == 1 }
    } else {
        XoSpec::Form { bbox: page_rect(src), ops: opsgen::gen_ops_cfg(src, 5, &OPS_CFG), own_resources: src.draw(2) == 1, matrix: if src.draw(2) == 1 { Some(matrix(src)) } else { None } }
    }
}

fn gen_res(src: &mut Src) -> ResSpec {
    let mut r = ResSpec::default();
    if src.chance(1, 2) { src.label("res-font"); for i in 0..src.range(1, 2) as usize { let n = res_name(src, "F", i); r.fonts.push((n, gen_font(src))); } }
    if src.chance(1, 3) { src.label("res-extgstate"); for i in 0..src.range(1, 2) as usize { let n = res_name(src, "GS", i); let (d, f) = gen_gs(src, !r.fonts.is_empty()); r.gs.push((n, d, f)); } }
    if src.chance(1, 3) { src.label("res-colorspace"); for i in 0..src.range(1, 2) as usize { let n = res_name(src, "Cs", i); r.cs.push((n, gen_cs(src))); } }
    if src.chance(1, 3) { src.label("res-xobject"); for i in 0..src.range(1, 2) as usize { let n = res_name(src, "Im", i); r.xobjects.push((n, gen_xo(src))); } }
    if src.chance(1, 5) {
        src.label("res-pattern");
        for i in 0..src.range(1, 2) as usize {
            let n = res_name(src, "P", i);
            let stream = src.alt(1, &["pattern-stream", "pattern-dict"]) == 0;
            r.patterns.push((n, PatSpec { stream, paint: 1 + src.draw(2) as i32, tiling: 1 + src.draw(3) as i32, bbox: page_rect(src), xstep: src.range(1, 400) as f32 / 4.0, ystep: src.range(1, 400) as f32 / 4.0,
                matrix: if src.draw(2) == 1 { Some(matrix(src)) } else { None }, ops: if stream { opsgen::gen_ops_cfg(src, 5, &OPS_CFG) } else { vec![] } }));
        }
    }
    if src.chance(1, 5) { src.label("res-properties"); for i in 0..src.range(1, 2) as usize { let n = res_name(src, "MC", i); let d = small_dict(src, i as i32); r.props.push((n, d, src.draw(2) == 1)); } }
    r
}

fn gen_page(src: &mut Src, idx: usize) -> PageSpec {
    let ops = if src.chance(3, 4) { opsgen::gen_ops_cfg(src, 14, &OPS_CFG) } else { vec![] };
    let media = match src.alt(6, &["mediabox", "no-mediabox"]) { 0 => Some(page_rect(src)), _ => None };
    let crop = if src.alt(3, &["no-cropbox", "cropbox"]) == 1 { Some(page_rect(src)) } else { None };
    let trim = if src.alt(3, &["no-trimbox", "trimbox"]) == 1 { Some(page_rect(src)) } else { None };
    let rotate = match src.alt(3, &["rotate-0", "rotate-90s", "rotate-unnormalised", "rotate-not-multiple-of-90"]) {
        0 => 0,
        1 => *src.pick(&[90, 180, 270]),
        2 => *src.pick(&[-90, 360, 450, -270, 720, -180, 2147483640, -2147483640]),
        _ => *src.pick(&[45, 1, -1, 91, i32::MAX, i32::MIN, 17]),
    };
    let other = other_entries(src, idx);
    let metadata = if src.alt(5, &["no-metadata", "metadata"]) == 1 {
        let mut m = format!("<?xpacket begin='' id='W5M0MpCehiHzreSzNTczkc9d'?><x:xmpmeta page='{}'/>", idx).into_bytes();
        match src.draw(4) { 0 => m.extend_from_slice(b"<?xpacket end='w'?>"), 1 => m.push(b'\n'), 2 => m.extend_from_slice(b"\r\n"), _ => m.push(b'\r') }
        Some(m)
    } else { None };
    let lgi = if src.alt(7, &["no-lgi", "lgi"]) == 1 { let mut d = small_dict(src, idx as i32); d.insert("Type", Primitive::name("LGIDict")); Some(Primitive::Dictionary(d)) } else { None };
    let vp = if src.alt(7, &["no-vp", "vp"]) == 1 {
        Some(Primitive::Array((0..src.range(1, 2)).map(|k| { let mut d = small_dict(src, k as i32); d.insert("Type", Primitive::name("Viewport")); d.insert("BBox", Primitive::Array(page_rect(src).iter().map(|x| Primitive::Number(*x)).collect())); Primitive::Dictionary(d) }).collect()))
    } else { None };
    let res = if src.chance(1, 2) { gen_res(src) } else { ResSpec::default() };
    PageSpec { ops, media, crop, trim, rotate, other, metadata, lgi, vp, res }
}

fn gen_date(src: &mut Src) -> DateSpec {
    let month = src.range(1, 12) as u8;
    let dim = [31, 28, 31, 30, 31, 30, 31, 31, 30, 31, 30, 31][month as usize - 1];
    let rel = *src.pick(&['Z', '+', '-']);
    let (tz_hour, tz_minute) = if rel == 'Z' { (0, 0) } else { (src.range(0, 14) as u8, *src.pick(&[0u8, 30, 45, 59])) };
    DateSpec { year: *src.pick(&[2024u16, 1999, 0, 9999, 1970, 2038]), month, day: src.range(1, dim) as u8, hour: src.range(0, 23) as u8, minute: src.range(0, 59) as u8, second: src.range(0, 59) as u8, rel, tz_hour, tz_minute }
}

fn text_string(src: &mut Src) -> Vec<u8> {
    match src.draw(5) {
        0 => b"Report 2024".to_vec(),
        1 => { let mut v = vec![0xfe, 0xff]; for c in "Ünï — 漢".encode_utf16() { v.extend_from_slice(&c.to_be_bytes()); } v }
        2 => b"(unbalanced \\ paren".to_vec(),
        3 => b"two\r\nlines\rand\nmore".to_vec(),
        _ => opsgen::gen_bytes(src, &VAL_CFG),
    }
}

fn gen_info(src: &mut Src) -> InfoSpec {
    let mut i = InfoSpec::default();
    for k in 0..6 { if src.chance(1, 2) { i.strings[k] = Some(text_string(src)); } }
    if src.chance(1, 2) { i.creation = Some(gen_date(src)); }
    if src.chance(1, 3) { i.modified = Some(gen_date(src)); }
    if src.chance(1, 4) { i.trapped = Some(src.draw(3) as u8); }
    i
}

pub fn gen_doc(src: &mut Src) -> DocSpec {
    let cached_builder = src.alt(1, &["uncached-builder", "cached-builder"]) == 1;
    let n = [1usize, 0, 2, 3, 4, 5, 6][src.draw(7) as usize];
    if n == 0 { src.label("no-pages"); }
    if n > 1 { src.label("multi-page"); }
    let info = if src.alt(1, &["no-info", "info"]) == 1 { Some(gen_info(src)) } else { None };
    let pages = (0..n).map(|i| gen_page(src, i)).collect();
    let steer = if src.alt(24, &["size-as-it-comes", "size-steered-to-64KiB"]) == 1 { Some((65536usize, src.draw(90) as i32 - 12)) } else { None };
    DocSpec { cached_builder, pages, info, steer }
}

pub fn pdf_string(b: &[u8]) -> PdfString { PdfString::new(b.into()) }
