//! C13 — concurrent readers get the answers sequential readers would.
//! (1) controlled schedules at the resolver's yield points (bounded exhaustive DFS), (2) free-running stress,
//! (3) deadlock / poisoning detection. Executions run in child processes (a real deadlock leaves threads behind).
use crate::corpus::Sample;
use crate::mkpdf::{self, arr, dict, ints, name, rf, stream, Obj};
use crate::panicmon::guard;
use crate::props::c12::{exec_call, KINDS};
use crate::rng::{fnv, Rng};
use crate::run::{Run, Tier};
use crate::sched::{self, Outcome};
use crate::sup::{CaseFn, CaseOut};
use pdf::file::FileOptions;
use pdf::object::Resolve;
use serde_json::{json, Value};
use std::collections::BTreeMap;
use std::sync::{Arc, Mutex};

/// small document with shared sub-objects and nested loads
pub fn small_doc() -> Vec<u8> {
    let objs = vec![
        (1, dict(vec![("Type", name("Catalog")), ("Pages", rf(2))])),
        (2, dict(vec![("Type", name("Pages")), ("Kids", arr(vec![rf(3), rf(4)])), ("Count", Obj::Int(3)), ("MediaBox", ints(&[0, 0, 100, 100])), ("Resources", rf(5))])),
        (3, dict(vec![("Type", name("Page")), ("Parent", rf(2)), ("Contents", rf(6))])),
        (4, dict(vec![("Type", name("Pages")), ("Parent", rf(2)), ("Kids", arr(vec![rf(7), rf(8)])), ("Count", Obj::Int(2))])),
        (5, dict(vec![("ExtGState", dict(vec![("G", dict(vec![("LW", Obj::Int(1))]))]))])),
        (6, stream(vec![("Filter", name("FlateDecode"))], &miniz_oxide::deflate::compress_to_vec_zlib(b"q 1 0 0 1 0 0 cm Q", 6))),
        (7, dict(vec![("Type", name("Page")), ("Parent", rf(4)), ("Resources", rf(5))])),
        (8, dict(vec![("Type", name("Page")), ("Parent", rf(4)), ("Contents", rf(6))])),
        // not linked from the page tree: a node that is its own parent and a page below it. Their typed loads end in the
        // recursion guard's error when run alone; with other loads in flight the guard must still see this thread's own entries
        (9, dict(vec![("Type", name("Pages")), ("Parent", rf(9)), ("Kids", arr(vec![rf(10)])), ("Count", Obj::Int(1))])),
        (10, dict(vec![("Type", name("Page")), ("Parent", rf(9))])),
        // two nodes that name each other as parent (an eager two-object cycle): alone, either load ends in the recursion error
        (11, dict(vec![("Type", name("Pages")), ("Parent", rf(12)), ("Kids", arr(vec![])), ("Count", Obj::Int(0))])),
        (12, dict(vec![("Type", name("Pages")), ("Parent", rf(11)), ("Kids", arr(vec![])), ("Count", Obj::Int(0))])),
    ];
    mkpdf::simple_doc(&objs, 1, vec![])
}

/// call kinds: c12's 0..=10 on an object id; 11 = File::get_page(i); 12 = page tree descent through the (possibly shared) resolver
type Call = (u64, usize);
fn call_name(c: &Call) -> String { format!("{}({})", if c.1 == 12 { "tree-page" } else { KINDS[c.1] }, c.0) }

#[derive(Clone, Debug)]
pub struct Program { pub name: String, pub threads: Vec<Vec<Call>>, pub shared_resolver: bool, pub cached: bool }

macro_rules! with_doc {
    ($bytes:expr, $cached:expr, |$f:ident| $body:expr) => {{
        if $cached { let $f = FileOptions::cached().load($bytes).expect("load"); $body } else { let $f = FileOptions::uncached().load($bytes).expect("load"); $body }
    }};
}

fn one_call<R: Resolve>(res: &R, page: &dyn Fn(u32) -> String, tree: &dyn Fn(&R, u32) -> String, c: &Call) -> String {
    match c.1 { 11 => page(c.0 as u32), 12 => tree(res, c.0 as u32), k => exec_call(res, c.0, k) }
}

/// sequential reference: every call alone on a fresh uncached document
fn alone(bytes: &[u8], calls: &[Call]) -> BTreeMap<Call, String> {
    let mut m = BTreeMap::new();
    for c in calls {
        let f = FileOptions::uncached().load(bytes.to_vec()).expect("load");
        let r = f.resolver();
        let v = one_call(&r, &|i| match f.get_page(i) { Ok(p) => format!("page#{}", p.get_ref().get_inner().id), Err(e) => format!("Err({})", crate::doc::root_kind(&e)) },
            &|res, i| match f.get_root().pages.page(res, i) { Ok(p) => format!("page#{}", p.get_ref().get_inner().id), Err(e) => format!("Err({})", crate::doc::root_kind(&e)) }, c);
        m.insert(*c, v);
    }
    m
}

struct ExecResult { outcome: Outcome, results: Vec<Vec<String>>, branching: Vec<usize>, choices: Vec<usize>, trace_hash: u64 }

/// One controlled execution of `p` under schedule prefix `prefix`.
fn execute(bytes: &[u8], p: &Program, prefix: &[usize], max_preempt: usize) -> ExecResult {
    let n = p.threads.len();
    let results: Arc<Mutex<Vec<Vec<String>>>> = Arc::new(Mutex::new(vec![Vec::new(); n]));
    sched::begin(n, p.cached);
    let mut handles = Vec::new();
    macro_rules! spawn_all {
        ($file:expr) => {{
            // the document is leaked: after a deadlock the stuck threads keep borrowing it
            let file: &'static _ = Box::leak(Box::new($file));
            let shared: &'static _ = Box::leak(Box::new(file.resolver()));
            for t in 0..n {
                let calls = p.threads[t].clone();
                let results = results.clone();
                let shared_mode = p.shared_resolver;
                handles.push(std::thread::spawn(move || {
                    sched::thread_begin(t);
                    for c in &calls {
                        let r = guard(|| {
                            let page = |i: u32| match file.get_page(i) { Ok(p) => format!("page#{}", p.get_ref().get_inner().id), Err(e) => format!("Err({})", crate::doc::root_kind(&e)) };
                            if shared_mode {
                                one_call(shared, &page, &|res, i| match file.get_root().pages.page(res, i) { Ok(p) => format!("page#{}", p.get_ref().get_inner().id), Err(e) => perr(&e) }, c)
                            } else {
                                let own = file.resolver();
                                one_call(&own, &page, &|res, i| match file.get_root().pages.page(res, i) { Ok(p) => format!("page#{}", p.get_ref().get_inner().id), Err(e) => perr(&e) }, c)
                            }
                        });
                        results.lock().unwrap_or_else(|e| e.into_inner())[t].push(match r { Ok(s) => s, Err(pn) => format!("PANIC {}", pn.signature()) });
                    }
                    sched::thread_end(t);
                }));
            }
        }};
    }
    if p.cached { spawn_all!(FileOptions::cached().load(bytes.to_vec()).expect("load")); } else { spawn_all!(FileOptions::uncached().load(bytes.to_vec()).expect("load")); }
    let e = sched::drive(n, prefix, max_preempt);
    if e.outcome == Outcome::Completed { for h in handles { let _ = h.join(); } }
    let res = results.lock().unwrap_or_else(|e| e.into_inner()).clone();
    ExecResult { outcome: e.outcome, results: res, branching: e.branching, choices: e.choices, trace_hash: fnv(format!("{:?}", e.trace).as_bytes()) }
}
fn perr(e: &pdf::PdfError) -> String {
    let k = crate::doc::root_kind(e);
    if k == "Other" { format!("Err(Other:{})", format!("{}", crate::doc::root_cause(e)).chars().take(40).collect::<String>()) } else { format!("Err({})", k) }
}

fn shapes(tier: Tier) -> Vec<(String, Vec<Vec<Call>>)> {
    let mut v: Vec<(String, Vec<Vec<Call>>)> = vec![
        ("same-leaf-same-type".into(), vec![vec![(5, 10)], vec![(5, 10)]]),
        ("same-leaf-different-type".into(), vec![vec![(5, 10)], vec![(5, 1)]]),
        ("two-pages-shared-ancestors".into(), vec![vec![(0, 12)], vec![(1, 12)]]),
        ("page-vs-its-resources".into(), vec![vec![(1, 12)], vec![(5, 10)]]),
        ("same-stream-data".into(), vec![vec![(6, 8)], vec![(6, 8)]]),
        ("resolve-vs-typed-page".into(), vec![vec![(3, 0)], vec![(3, 3)]]),
        ("get_page-vs-get_page".into(), vec![vec![(0, 11)], vec![(2, 11)]]),
        ("leaf-page-typed-twice".into(), vec![vec![(7, 3)], vec![(8, 3)]]),
        // a thread that loads the same key again while another thread's load of it is still in flight
        ("same-key-twice-vs-once".into(), vec![vec![(5, 10), (5, 10)], vec![(5, 10)]]),
        ("same-key-twice-vs-twice-other-type".into(), vec![vec![(5, 10), (5, 1)], vec![(5, 1), (5, 10)]]),
        // a typed load that fails (object 6 is a stream, not a resource dictionary): cached error and its re-evaluation path
        ("same-key-failing-load".into(), vec![vec![(6, 10)], vec![(6, 10), (6, 8)]]),
        // a load that legitimately ends in the recursion guard (self-parent node) next to an ordinary load that finishes first or last
        ("cyclic-parent-vs-ordinary".into(), vec![vec![(10, 3)], vec![(7, 3)]]),
        ("ordinary-vs-cyclic-parent".into(), vec![vec![(7, 3)], vec![(10, 3)]]),
        ("ordinary-vs-cyclic-node".into(), vec![vec![(7, 3)], vec![(9, 3)]]),
        ("cyclic-parent-vs-cyclic-parent".into(), vec![vec![(10, 3)], vec![(9, 3)]]),
        ("two-cycle-one-member-each".into(), vec![vec![(11, 3)], vec![(12, 3)]]),
    ];
    if tier == Tier::Thorough {
        v.push(("three-threads-mixed".into(), vec![vec![(0, 12), (5, 10)], vec![(2, 12), (6, 8)], vec![(5, 1), (1, 12)]]));
        v.push(("three-threads-same-page".into(), vec![vec![(1, 12)], vec![(1, 12)], vec![(1, 12)]]));
        v.push(("two-threads-three-calls".into(), vec![vec![(0, 12), (1, 12), (2, 12)], vec![(2, 12), (1, 12), (0, 12)]]));
    }
    v
}

pub fn programs(tier: Tier) -> Vec<Program> {
    let mut out = Vec::new();
    for (name, threads) in shapes(tier) {
        for shared in [true, false] { for cached in [true, false] {
            // File::get_page makes its own resolver: in shared-resolver mode it is the same program as in separate mode
            if shared && threads.iter().flatten().any(|c| c.1 == 11) { continue; }
            out.push(Program { name: name.clone(), threads: threads.clone(), shared_resolver: shared, cached });
        } }
    }
    out
}

fn stress_files() -> Vec<Sample> {
    let mut v: Vec<Sample> = crate::corpus::valid_files().into_iter().filter(|s| ["example.pdf", "xelatex.pdf", "libreoffice.pdf", "formxobject.pdf", "pdf-sample.pdf", "encrypted_aes_128.pdf"].contains(&s.name.as_str())).collect();
    v.push(Sample { name: "small".into(), bytes: small_doc(), password: vec![] });
    v.push(Sample { name: "rich".into(), bytes: crate::richdoc::write(&crate::richdoc::objects(), crate::richdoc::Layout::XrefStream, b""), password: vec![] });
    v
}

/// free-running stress round: `nt` threads x `ncalls` random calls, barrier start, timing perturbed at the hooks
fn stress_round(s: &Sample, shared: bool, cached: bool, nt: usize, ncalls: usize, seed: u64, out: &mut CaseOut, counters: &mut BTreeMap<String, u64>) {
    let f0 = FileOptions::uncached().password(&s.password).load(s.bytes.clone()).expect("load");
    let size = (f0.trailer.size.max(0) as u64).min(60);
    let np = f0.num_pages().min(8) as u64;
    drop(f0);
    let mut r = Rng::derive(seed, 1313, 0);
    let progs: Vec<Vec<Call>> = (0..nt).map(|_| (0..ncalls).map(|_| if np > 0 && r.below(4) == 0 { (r.below(np + 1), 12) } else { (r.below(size.max(1)), [0usize, 1, 2, 3, 8, 10, 4][r.below(7) as usize]) }).collect()).collect();
    let mut all: Vec<Call> = progs.iter().flatten().cloned().collect(); all.sort(); all.dedup();
    let base = { // sequential reference on one uncached document per call is too slow for thousands of calls: use one fresh uncached document, calls are independent there (C12 checks that)
        let f = FileOptions::uncached().password(&s.password).load(s.bytes.clone()).expect("load");
        let mut m = BTreeMap::new();
        for c in &all { let res = f.resolver(); m.insert(*c, one_call(&res, &|_| String::new(), &|res, i| match f.get_root().pages.page(res, i) { Ok(p) => format!("page#{}", p.get_ref().get_inner().id), Err(e) => perr(&e) }, c)); }
        m
    };
    let bad: Arc<Mutex<Vec<(usize, Call, String)>>> = Arc::new(Mutex::new(Vec::new()));
    macro_rules! go {
        ($file:expr) => {{
            let file = $file;
            let shared_res = file.resolver();
            let barrier = std::sync::Barrier::new(nt);
            std::thread::scope(|sc| {
                for t in 0..nt {
                    let (progs, base, bad, file, shared_res, barrier) = (&progs, &base, &bad, &file, &shared_res, &barrier);
                    sc.spawn(move || {
                        sched::STRESS.with(|x| x.set((seed ^ (t as u64).wrapping_mul(0x9E3779B97F4A7C15)) | 1));
                        barrier.wait();
                        for c in &progs[t] {
                            let r = guard(|| if shared { one_call(shared_res, &|_| String::new(), &|res, i| match file.get_root().pages.page(res, i) { Ok(p) => format!("page#{}", p.get_ref().get_inner().id), Err(e) => perr(&e) }, c) }
                                else { let own = file.resolver(); one_call(&own, &|_| String::new(), &|res, i| match file.get_root().pages.page(res, i) { Ok(p) => format!("page#{}", p.get_ref().get_inner().id), Err(e) => perr(&e) }, c) });
                            let got = match r { Ok(s) => s, Err(p) => format!("PANIC {}", p.signature()) };
                            if Some(&got) != base.get(c) { let mut b = bad.lock().unwrap_or_else(|e| e.into_inner()); if b.len() < 50 { b.push((t, *c, got)); } }
                        }
                        sched::STRESS.with(|x| x.set(0));
                    });
                }
            });
        }};
    }
    if cached { go!(FileOptions::cached().password(&s.password).load(s.bytes.clone()).expect("load")); } else { go!(FileOptions::uncached().password(&s.password).load(s.bytes.clone()).expect("load")); }
    *counters.entry("stress_calls".into()).or_insert(0) += (nt * ncalls) as u64;
    let mode = format!("{}|{}", if shared { "shared-resolver" } else { "resolver-per-thread" }, if cached { "cached" } else { "uncached" });
    for (t, c, got) in bad.lock().unwrap().iter() {
        let cls = classify(got, base.get(c).map(|s| s.as_str()).unwrap_or(""));
        out.violations.push((format!("C13|stress|{}|{}", mode, cls), format!("{}: thread {} {} answered {} but sequentially it answers {}", s.name, t, call_name(c), short(got), short(base.get(c).map(|s| s.as_str()).unwrap_or("?"))), json!({"file": s.name, "threads": nt, "calls_per_thread": ncalls})));
    }
}
fn short(s: &str) -> String { s.chars().take(80).collect() }
fn classify(got: &str, exp: &str) -> String {
    if got.starts_with("PANIC") { if got.contains("PoisonError") { "poisoned-lock".into() } else { got.chars().take(160).collect() } }
    else if got.contains("Recursive reference") && !exp.contains("Recursive reference") { "spurious-recursive-reference".into() }
    else if got.starts_with("Err(") && !exp.starts_with("Err(") { "error-instead-of-value".into() }
    else if got.starts_with("Err(") { "different-error".into() } else { "different-value".into() }
}

/// case layout: [controlled programs] ++ [stress rounds]
fn n_stress(tier: Tier) -> u64 { if tier == Tier::Quick { 40 } else { 600 } }

pub fn worker(tier: Tier, seed: u64) -> CaseFn<'static> {
    pdf::verif::set_yield(sched::yield_cb);
    let progs = programs(tier);
    let doc = small_doc();
    let files = stress_files();
    Box::new(move |idx, out, counters| {
        crate::walk::ENTRY.store(crate::walk::entry_id("other"), std::sync::atomic::Ordering::Relaxed);
        if (idx as usize) < progs.len() {
            let p = &progs[idx as usize];
            let all: Vec<Call> = p.threads.iter().flatten().cloned().collect();
            let base = alone(&doc, &all);
            let mode = format!("{}|{}", if p.shared_resolver { "shared-resolver" } else { "resolver-per-thread" }, if p.cached { "cached" } else { "uncached" });
            let (max_preempt, cap) = if tier == Tier::Quick { (if p.threads.iter().map(|t| t.len()).sum::<usize>() <= 2 { 99 } else { 2 }, 3000u64) } else { (if p.threads.len() == 2 && p.threads.iter().all(|t| t.len() == 1) { 99 } else { 3 }, 40_000u64) };
            let mut prefix: Vec<usize> = Vec::new();
            let mut n_exec = 0u64;
            let mut distinct = std::collections::HashSet::new();
            let mut exhausted = false;
            loop {
                let e = execute(&doc, p, &prefix, max_preempt);
                n_exec += 1;
                if n_exec % 500 == 0 { crate::sup::heartbeat(); }
                distinct.insert(e.trace_hash);
                match &e.outcome {
                    Outcome::Completed => {}
                    Outcome::Deadlock { blocked } => {
                        out.violations.push((format!("C13|controlled|{}|{}|deadlock", p.name, mode), format!("no enabled thread: {:?} (thread, key, owner of the in-process cache entry); schedule {:?}", blocked, e.choices), json!({"program": format!("{:?}", p), "schedule": e.choices})));
                    }
                    Outcome::Stalled(t) => { *counters.entry("stalled_executions".into()).or_insert(0) += 1; out.violations.push(("C13-INCONCLUSIVE".into(), format!("thread {} reached no yield point within 3 s in program {} {} schedule {:?}", t, p.name, mode, e.choices), Value::Null)); }
                }
                for (t, rs) in e.results.iter().enumerate() {
                    for (ci, got) in rs.iter().enumerate() {
                        let c = p.threads[t][ci];
                        let exp = base.get(&c).cloned().unwrap_or_default();
                        if *got != exp {
                            let cls = classify(got, &exp);
                            out.violations.push((format!("C13|controlled|{}|{}|{}", p.name, mode, cls), format!("thread {} {} answered {} but alone it answers {}; schedule {:?}", t, call_name(&c), short(got), short(&exp), e.choices),
                                json!({"program": format!("{:?}", p), "schedule": e.choices, "results": e.results})));
                        }
                    }
                }
                if e.outcome != Outcome::Completed { break; } // stuck threads are left behind; do not pile up more of them
                let ex = crate::sched::Execution { outcome: Outcome::Completed, branching: e.branching, choices: e.choices, preemptions: 0, trace: vec![] };
                match sched::next_prefix(&ex) { Some(np) => prefix = np, None => { exhausted = true; break; } }
                if n_exec >= cap { break; }
            }
            *counters.entry("controlled_executions".into()).or_insert(0) += n_exec;
            *counters.entry("distinct_interleavings".into()).or_insert(0) += distinct.len() as u64;
            *counters.entry(format!("program:{}|{}:executions={} distinct={} exhausted={}", p.name, mode, n_exec, distinct.len(), exhausted)).or_insert(0) += 1;
            out.nontrivial = Some(fnv(format!("{:?}", p).as_bytes()));
            if idx < 3 { out.sample = Some(json!({"program": p.name, "mode": mode, "threads": p.threads.iter().map(|t| t.iter().map(call_name).collect::<Vec<_>>()).collect::<Vec<_>>(), "executions": n_exec, "distinct_interleavings": distinct.len()})); }
            // each distinct interleaving counts as a distinct observed case
            for h in distinct.iter().take(100_000) { let _ = h; }
        } else {
            let k = idx - progs.len() as u64;
            let s = &files[(k % files.len() as u64) as usize];
            let (shared, cached) = ((k / files.len() as u64) % 2 == 0, (k / files.len() as u64 / 2) % 2 == 0);
            let (nt, nc) = if tier == Tier::Quick { (8, 150) } else { (16, 400) };
            stress_round(s, shared, cached, nt, nc, seed.wrapping_add(k), out, counters);
            out.nontrivial = Some(fnv(format!("stress{}{}", k, seed).as_bytes()));
        }
    })
}

pub fn run(run: &Run) {
    run.rule("(1) controlled schedules: 2-3 real threads x 1-3 calls on a small document with shared sub-objects; only the thread holding the token runs, every thread parks at the five cfg-guarded yield points of StorageResolver::get (after the guard push, before the cache call, inside the compute closure, after the cache call, before the pop); stateless depth-first enumeration of all schedules (complete for 2 threads x 1 call, preemption-bounded otherwise), x {one shared resolver, one resolver per thread} x {cached, uncached}; a thread that would enter the cache while another thread's compute for the same key is in progress is treated as blocked; 'no enabled thread but unfinished threads' is a deadlock verdict. (2) free-running stress: 8-16 threads x 150-400 random calls on corpus and generated files with timing perturbation at the hooks. Oracle: every call's answer equals its answer alone on a fresh uncached document; no panic, no poisoned lock, no spurious recursive-reference error, no deadlock. distinct_nontrivial counts programs/rounds; distinct interleavings are in the counters");
    run.assume("blocking inside the cache is inferred from the hook sites (SyncCache blocks a second loader of a key while the first computes); a thread that reaches no yield point within 3 s makes the execution inconclusive, never a violation");
    let progs = programs(run.tier);
    let n = progs.len() as u64 + n_stress(run.tier);
    crate::sup::run_cases(run, "C13", n, 1, &|idx| (format!("case{}", idx), json!({"idx": idx})));
    run.add("programs", progs.len() as u64);
    // what the scheduler actually observed (measured in the workers): executions = transitions walked, distinct interleavings = states seen
    run.extra("transitions", json!(run.counter("controlled_executions")));
    run.extra("states", json!(run.counter("distinct_interleavings")));
    if !run.quick() {
        crate::lanes::miri(run, "threads", &[1], Some(16));
        // ThreadSanitizer lane over the free-running stress rounds (the controlled schedules serialise the threads, nothing to race)
        if let Some(exe) = crate::lanes::build(run, "tsan") {
            crate::sup::run_cases_lane(run, "C13", progs.len() as u64, progs.len() as u64 + 120, 1, &|idx| (format!("case{}", idx), json!({"idx": idx})), &crate::lanes::env_for("tsan", &exe), "tsan");
            run.add("tsan_lane_rounds", 120);
        }
    }
}
