//! C10 — structural minimisation of a failing document description and the label set of what is left.
use super::c10_gen::*;
use crate::opsgen;
use pdf::primitive::{Dictionary, Primitive};
use std::collections::BTreeSet;

const LETTER: [f32; 4] = [0.0, 0.0, 612.0, 792.0];

fn num_class(v: f32, out: &mut BTreeSet<String>, what: &str) {
    let a = v.abs();
    if v == 0.0 { if v.is_sign_negative() { out.insert(format!("{}:neg-zero", what)); } return; }
    if a >= opsgen::TWO31 { out.insert(format!("{}:real>=2^31", what)); }
    else if a >= 16777216.0 { out.insert(format!("{}:big-real", what)); }
    else if a < 1e-4 { out.insert(format!("{}:tiny-real", what)); }
}
fn irregular(s: &str) -> bool { s.chars().any(|c| opsgen::is_irregular_name_char(c) || c > '~') }

/// exotic features present in the description (stable vocabulary; this is what a signature is made of)
pub fn features(spec: &DocSpec) -> BTreeSet<String> {
    let mut f = BTreeSet::new();
    let mut add = |s: &str| { f.insert(s.to_string()); };
    if spec.cached_builder { add("cached-builder"); }
    if spec.pages.is_empty() { add("no-pages"); }
    if spec.pages.len() > 1 { add("multi-page"); }
    if let Some(i) = &spec.info {
        add("info");
        if i.strings.iter().any(|s| s.is_some()) { add("info-string"); }
        for s in i.strings.iter().flatten() {
            if s.starts_with(&[0xfe, 0xff]) { add("info-string-utf16"); }
            if s.iter().any(|b| b"()\\".contains(b)) { add("info-string-paren-backslash"); }
            if s.iter().any(|b| *b == b'\r' || *b == b'\n') { add("info-string-eol"); }
            if s.iter().any(|b| *b >= 0x80) { add("info-string-high-byte"); }
        }
        if i.creation.is_some() || i.modified.is_some() { add("info-date"); }
        if i.trapped.is_some() { add("info-trapped"); }
    }
    let mut extra: BTreeSet<String> = BTreeSet::new();
    for p in &spec.pages {
        if !p.ops.is_empty() { for part in opsgen::label_set(&p.ops, true).split('+') { if !part.is_empty() { extra.insert(format!("op:{}", part)); } } }
        match &p.media { None => add("no-mediabox"), Some(m) => for v in m { num_class(*v, &mut extra, "box") } }
        if let Some(b) = &p.crop { add("cropbox"); for v in b { num_class(*v, &mut extra, "box"); } }
        if let Some(b) = &p.trim { add("trimbox"); for v in b { num_class(*v, &mut extra, "box"); } }
        if p.rotate != 0 {
            if p.rotate % 90 != 0 { add("rotate-not-multiple-of-90"); } else if (0..360).contains(&p.rotate) { add("rotate-90s"); } else { add("rotate-unnormalised"); }
        }
        if p.other.len() > 1 { add("other-entries"); }
        if p.other.iter().any(|(k, _)| irregular(k)) { add("other-key-irregular"); }
        if p.metadata.is_some() { add("metadata"); }
        if p.lgi.is_some() { add("lgi"); }
        if p.vp.is_some() { add("vp"); }
        let r = &p.res;
        let names = r.fonts.iter().map(|x| &x.0).chain(r.gs.iter().map(|x| &x.0)).chain(r.cs.iter().map(|x| &x.0)).chain(r.xobjects.iter().map(|x| &x.0)).chain(r.patterns.iter().map(|x| &x.0)).chain(r.props.iter().map(|x| &x.0));
        for n in names { if irregular(n) { add("resource-name-irregular"); } }
        for (_, fo) in &r.fonts {
            add("res-font");
            add(["font-type1", "font-truetype", "font-type0"][fo.kind as usize]);
            if !fo.indirect { add("font-direct"); }
            if fo.widths.is_some() { add("font-widths"); }
            if fo.descriptor.is_some() && fo.kind < 2 { add("font-descriptor"); }
            if let Some((_, d)) = &fo.encoding { add("font-encoding"); if !d.is_empty() { add("font-differences"); } }
            if fo.to_unicode.is_some() { add("font-tounicode"); }
        }
        for (_, _, font) in &r.gs { add("res-extgstate"); if font.is_some() && !r.fonts.is_empty() { add("gs-font"); } }
        if r.cs.len() > 1 { add("several-colorspaces"); }
        for (_, c) in &r.cs {
            add("res-colorspace");
            if let CsSpec::Indexed { lookup, .. } = c { add("cs-indexed"); if lookup.len() >= 100 { add("indexed-lookup>=100"); } }
        }
        for (_, x) in &r.xobjects {
            add("res-xobject");
            match x {
                XoSpec::Image { data, .. } => { add("xobject-image"); if data.len() > 65536 { add("large-stream"); } if data.ends_with(b"\n") || data.ends_with(b"\r") { add("stream-data-ends-with-eol"); } }
                XoSpec::Form { ops, .. } => { add("xobject-form"); if !ops.is_empty() { add("form-ops"); } }
            }
        }
        for (_, pt) in &r.patterns { add("res-pattern"); add(if pt.stream { "pattern-stream" } else { "pattern-dict" }); }
        if !r.props.is_empty() { add("res-properties"); }
    }
    f.extend(extra);
    f
}

pub fn label_set(spec: &DocSpec) -> String { features(spec).into_iter().collect::<Vec<_>>().join("+") }

fn renumber(spec: &mut DocSpec) {
    for (i, p) in spec.pages.iter_mut().enumerate() { for (k, v) in p.other.iter_mut() { if k == MARKER { *v = Primitive::Integer(i as i32); } } }
}

fn plain_font(base: &str) -> FontSpec {
    FontSpec { kind: 0, base: base.to_string(), first: None, last: None, widths: None, descriptor: None, encoding: None, to_unicode: None, indirect: true, cid_type0: false, dw: 1000.0, w: vec![], cid_to_gid_identity: false }
}

/// one-step simplifications, coarse ones first
fn candidates(s: &DocSpec) -> Vec<DocSpec> {
    let mut out: Vec<DocSpec> = Vec::new();
    let mut push = |f: &dyn Fn(&mut DocSpec)| { let mut c = s.clone(); f(&mut c); renumber(&mut c); out.push(c); };
    if s.pages.len() > 1 { for k in 0..s.pages.len() { push(&|c| { c.pages.remove(k); }); } }
    if s.info.is_some() { push(&|c| c.info = None); }
    if s.cached_builder { push(&|c| c.cached_builder = false); }
    if let Some(i) = &s.info {
        for k in 0..6 { if let Some(v) = &i.strings[k] { push(&|c| c.info.as_mut().unwrap().strings[k] = None); if v.as_slice() != b"A" { push(&|c| c.info.as_mut().unwrap().strings[k] = Some(b"A".to_vec())); } } }
        if i.creation.is_some() { push(&|c| c.info.as_mut().unwrap().creation = None); }
        if i.modified.is_some() { push(&|c| c.info.as_mut().unwrap().modified = None); }
        if i.trapped.is_some() { push(&|c| c.info.as_mut().unwrap().trapped = None); }
    }
    for (pi, p) in s.pages.iter().enumerate() {
        macro_rules! page { ($c:ident, $body:expr) => { push(&|c: &mut DocSpec| { let $c = &mut c.pages[pi]; $body; }) } }
        let r = &p.res;
        let has_res = !(r.fonts.is_empty() && r.gs.is_empty() && r.cs.is_empty() && r.xobjects.is_empty() && r.patterns.is_empty() && r.props.is_empty());
        if has_res { page!(q, q.res = ResSpec::default()); }
        if !p.ops.is_empty() { page!(q, q.ops.clear()); }
        if p.media != Some(LETTER) { page!(q, q.media = Some(LETTER)); }
        if p.crop.is_some() { page!(q, q.crop = None); }
        if p.trim.is_some() { page!(q, q.trim = None); }
        if p.rotate != 0 { page!(q, q.rotate = 0); if p.rotate != 90 { page!(q, q.rotate = 90); } }
        if p.other.len() > 1 { page!(q, q.other.truncate(1)); for k in 1..p.other.len() { page!(q, { q.other.remove(k); }); } }
        for (k, (key, v)) in p.other.iter().enumerate().skip(1) {
            if irregular(key) || key.len() > 2 { page!(q, q.other[k].0 = format!("X{}", k)); }
            if !matches!(v, Primitive::Integer(7)) { page!(q, q.other[k].1 = Primitive::Integer(7)); }
        }
        if p.metadata.is_some() { page!(q, q.metadata = None); page!(q, q.metadata = Some(b"<x/>".to_vec())); }
        if p.lgi.is_some() { page!(q, q.lgi = None); }
        if p.vp.is_some() { page!(q, q.vp = None); }
        if !r.fonts.is_empty() { page!(q, q.res.fonts.clear()); }
        if !r.gs.is_empty() { page!(q, q.res.gs.clear()); }
        if !r.cs.is_empty() { page!(q, q.res.cs.clear()); }
        if !r.xobjects.is_empty() { page!(q, q.res.xobjects.clear()); }
        if !r.patterns.is_empty() { page!(q, q.res.patterns.clear()); }
        if !r.props.is_empty() { page!(q, q.res.props.clear()); }
        for k in 0..r.fonts.len() {
            page!(q, { q.res.fonts.remove(k); });
            let fo = &r.fonts[k].1;
            if irregular(&r.fonts[k].0) { page!(q, q.res.fonts[k].0 = format!("F{}", k)); }
            if fo.kind != 0 || fo.widths.is_some() || fo.descriptor.is_some() || fo.encoding.is_some() || fo.to_unicode.is_some() || !fo.indirect { page!(q, q.res.fonts[k].1 = plain_font("Helvetica")); }
            if fo.kind < 2 {
                if fo.widths.is_some() { page!(q, { let f = &mut q.res.fonts[k].1; f.widths = None; f.first = None; f.last = None; }); }
                if fo.descriptor.is_some() { page!(q, q.res.fonts[k].1.descriptor = None); }
                if fo.encoding.is_some() { page!(q, q.res.fonts[k].1.encoding = None); page!(q, { if let Some(e) = q.res.fonts[k].1.encoding.as_mut() { e.1.clear(); } }); }
            } else if !fo.w.is_empty() { page!(q, q.res.fonts[k].1.w.clear()); }
            if fo.to_unicode.is_some() { page!(q, q.res.fonts[k].1.to_unicode = None); }
            if !fo.indirect { page!(q, q.res.fonts[k].1.indirect = true); }
        }
        for k in 0..r.gs.len() {
            page!(q, { q.res.gs.remove(k); });
            if irregular(&r.gs[k].0) { page!(q, q.res.gs[k].0 = format!("GS{}", k)); }
            if r.gs[k].2.is_some() { page!(q, q.res.gs[k].2 = None); }
            if r.gs[k].1.len() > 0 { page!(q, q.res.gs[k].1 = Dictionary::new()); }
            let keys: Vec<String> = r.gs[k].1.iter().map(|(kk, _)| kk.as_str().to_string()).collect();
            for key in keys { page!(q, { q.res.gs[k].1.remove(&key); }); }
        }
        for k in 0..r.cs.len() {
            page!(q, { q.res.cs.remove(k); });
            if irregular(&r.cs[k].0) { page!(q, q.res.cs[k].0 = format!("Cs{}", k)); }
            if let CsSpec::Indexed { cmyk_base, lookup, .. } = &r.cs[k].1 {
                page!(q, q.res.cs[k].1 = CsSpec::Rgb);
                let comps = if *cmyk_base { 4 } else { 3 };
                if lookup.len() >= 100 { page!(q, q.res.cs[k].1 = CsSpec::Indexed { cmyk_base: false, hival: 1, lookup: vec![0; 6] }); }
                let small = (100 + comps - 1) / comps;   // fewest entries that reach the 100-byte switch
                if lookup.len() > small * comps { let cb = *cmyk_base; page!(q, q.res.cs[k].1 = CsSpec::Indexed { cmyk_base: cb, hival: (small - 1) as u8, lookup: vec![0; small * comps] }); }
                if lookup.iter().any(|b| *b != 0) { page!(q, { if let CsSpec::Indexed { lookup, .. } = &mut q.res.cs[k].1 { for b in lookup.iter_mut() { *b = 0; } } }); }
            } else if matches!(r.cs[k].1, CsSpec::Cmyk) { page!(q, q.res.cs[k].1 = CsSpec::Rgb); }
        }
        for k in 0..r.xobjects.len() {
            page!(q, { q.res.xobjects.remove(k); });
            if irregular(&r.xobjects[k].0) { page!(q, q.res.xobjects[k].0 = format!("Im{}", k)); }
            match &r.xobjects[k].1 {
                XoSpec::Image { w, h, data, .. } => {
                    if *w != 1 || *h != 1 { page!(q, q.res.xobjects[k].1 = XoSpec::Image { w: 1, h: 1, mask: false, cmyk: false, data: vec![0, 0, 0], interpolate: false }); }
                    if data.iter().any(|b| *b != 0) {
                        page!(q, { if let XoSpec::Image { data, .. } = &mut q.res.xobjects[k].1 { for b in data.iter_mut() { *b = 0; } } });
                        page!(q, { if let XoSpec::Image { data, .. } = &mut q.res.xobjects[k].1 { let n = data.len(); for b in data[..n - 1].iter_mut() { *b = 0; } } });
                    }
                }
                XoSpec::Form { ops, own_resources, matrix, .. } => {
                    if !ops.is_empty() { page!(q, { if let XoSpec::Form { ops, .. } = &mut q.res.xobjects[k].1 { ops.clear(); } }); }
                    if *own_resources { page!(q, { if let XoSpec::Form { own_resources, .. } = &mut q.res.xobjects[k].1 { *own_resources = false; } }); }
                    if matrix.is_some() { page!(q, { if let XoSpec::Form { matrix, .. } = &mut q.res.xobjects[k].1 { *matrix = None; } }); }
                }
            }
        }
        for k in 0..r.patterns.len() {
            page!(q, { q.res.patterns.remove(k); });
            if !r.patterns[k].1.ops.is_empty() { page!(q, q.res.patterns[k].1.ops.clear()); }
            if r.patterns[k].1.matrix.is_some() { page!(q, q.res.patterns[k].1.matrix = None); }
        }
        for k in 0..r.props.len() { page!(q, { q.res.props.remove(k); }); if r.props[k].2 { page!(q, q.res.props[k].2 = false); } }
    }
    out
}

/// Greedy structural minimisation; `fails` re-runs the real code. At most `budget` calls.
pub fn minimise(spec: &DocSpec, fails: &dyn Fn(&DocSpec) -> bool, budget: usize) -> DocSpec {
    let mut cur = spec.clone();
    let mut calls = 0usize;
    loop {
        let mut changed = false;
        let mut j = 0;
        loop {
            let cands = candidates(&cur);
            if j >= cands.len() || calls >= budget { break; }
            calls += 1;
            if fails(&cands[j]) { cur = cands[j].clone(); changed = true; } else { j += 1; }
        }
        // operations of each page with the op-level minimiser of C08
        for pi in 0..cur.pages.len() {
            if cur.pages[pi].ops.is_empty() || calls >= budget { continue; }
            let base = cur.clone();
            let left = budget - calls;
            let mut used = 0usize;
            let ops = opsgen::minimise_ops(&cur.pages[pi].ops, |ops| { used += 1; let mut c = base.clone(); c.pages[pi].ops = ops.to_vec(); fails(&c) }, left.min(300));
            calls += used;
            if opsgen::ops_hash(&ops) != opsgen::ops_hash(&cur.pages[pi].ops) { cur.pages[pi].ops = ops; changed = true; }
        }
        if !changed || calls >= budget { break; }
    }
    cur
}
