//! C12 — not built yet.
use crate::run::Run;
pub fn run(_run: &Run) { eprintln!("C12: check not built yet"); std::process::exit(2); }
