//! C12 — caches are invisible: cached and uncached documents answer identically, call by call.
use crate::corpus::{digest, valid_files, Sample};
use crate::doc::root_kind;
use crate::panicmon::guard;
use crate::par::par_for;
use crate::rng::{fnv, Rng};
use crate::run::Run;
use pdf::any::AnySync;
use pdf::error::PdfError;
use pdf::file::{Cache, FileOptions, NoCache, SyncCache};
use pdf::font::Font;
use pdf::object::*;
use pdf::primitive::{Dictionary, Primitive};
use serde_json::json;
use std::collections::BTreeMap;
use std::sync::atomic::{AtomicU64, Ordering};
use std::sync::Arc;

/// Instrumented implementation of the public `Cache` trait wrapping the real cache.
pub struct MonCache<C> { inner: C, hits: Arc<AtomicU64>, misses: Arc<AtomicU64> }
impl<C> MonCache<C> { pub fn new(inner: C, hits: Arc<AtomicU64>, misses: Arc<AtomicU64>) -> Self { MonCache { inner, hits, misses } } }
impl<T: Clone, C: Cache<T>> Cache<T> for MonCache<C> {
    fn get_or_compute(&self, key: PlainRef, compute: impl FnOnce() -> T) -> T {
        let mut computed = false;
        let r = self.inner.get_or_compute(key, || { computed = true; compute() });
        if computed { self.misses.fetch_add(1, Ordering::Relaxed); } else { self.hits.fetch_add(1, Ordering::Relaxed); }
        r
    }
    fn clear(&self) { self.inner.clear() }
}

pub const KINDS: [&str; 12] = ["resolve", "get-Dictionary", "get-Primitive", "get-PagesNode", "get-Font", "get-XObject", "raw_image_data", "image_data", "stream-data", "get-ObjectStream", "get-Resources", "get_page"];

fn err(e: &PdfError) -> String {
    let k = root_kind(e);
    if k == "Other" { format!("Err(Other:{})", format!("{}", crate::doc::root_cause(e)).chars().take(40).collect::<String>()) } else { format!("Err({})", k) }
}
fn h(d: &[u8]) -> String { format!("{}b#{:016x}", d.len(), fnv(d)) }

/// one read call, rendered offset- and address-independently
pub fn exec_call(res: &impl Resolve, id: u64, kind: usize) -> String {
    let err = |e: &PdfError| err(e);
    let r = PlainRef { id, gen: 0 };
    match kind {
        0 => match res.resolve(r) { Ok(p) => digest(&p, res), Err(e) => err(&e) },
        1 => match res.get::<Dictionary>(Ref::new(r)) { Ok(d) => digest(&Primitive::Dictionary((**d.data()).clone()), res), Err(e) => err(&e) },
        2 => match res.get::<Primitive>(Ref::new(r)) { Ok(p) => digest(&**p.data(), res), Err(e) => err(&e) },
        3 => match res.get::<PagesNode>(Ref::new(r)) { Ok(n) => match &**n.data() {
            PagesNode::Leaf(p) => format!("page rot={} media={:?} crop={:?} contents={} other={}", p.rotate, p.media_box.map(|b| (b.left, b.bottom, b.right, b.top)), p.crop_box.map(|b| (b.left, b.bottom, b.right, b.top)), p.contents.is_some(), p.other.len()),
            PagesNode::Tree(t) => format!("tree count={} kids={:?}", t.count, t.kids.iter().map(|k| k.get_inner().id).collect::<Vec<_>>()) }, Err(e) => err(&e) },
        4 => match res.get::<Font>(Ref::new(r)) { Ok(f) => {
            let w = match f.widths(res) { Ok(Some(w)) => format!("{:?}", [w.get(0), w.get(32), w.get(65), w.get(300)]), Ok(None) => "nowidths".into(), Err(e) => err(&e) };
            let tu = match f.to_unicode(res) { Some(Ok(m)) => format!("tu{}", m.len()), Some(Err(e)) => err(&e), None => "notu".into() };
            format!("font {:?} {:?} {} {}", f.subtype, f.name, w, tu) }, Err(e) => err(&e) },
        5 => match res.get::<XObject>(Ref::new(r)) { Ok(x) => match &**x.data() {
            XObject::Image(i) => format!("image {}x{} {}", i.width, i.height, match i.image_data(res) { Ok(d) => h(&d), Err(e) => err(&e) }),
            XObject::Form(f) => format!("form {}", match f.operations(res) { Ok(o) => format!("{} ops #{:016x}", o.len(), fnv(format!("{:?}", o).as_bytes())), Err(e) => err(&e) }),
            XObject::Postscript(_) => "ps".into() }, Err(e) => err(&e) },
        6 => match res.get::<ImageXObject>(Ref::new(r)) { Ok(i) => match i.raw_image_data(res) { Ok((d, f)) => format!("raw {} filter={}", h(&d), f.map(|f| format!("{:?}", f).chars().take(12).collect::<String>()).unwrap_or_default()), Err(e) => err(&e) }, Err(e) => err(&e) },
        7 => match res.get::<ImageXObject>(Ref::new(r)) { Ok(i) => match i.image_data(res) { Ok(d) => h(&d), Err(e) => err(&e) }, Err(e) => err(&e) },
        8 => match res.get::<Stream<()>>(Ref::new(r)) { Ok(s) => match (**s.data()).data(res) { Ok(d) => h(&d), Err(e) => err(&e) }, Err(e) => err(&e) },
        9 => match res.get::<ObjectStream>(Ref::new(r)) { Ok(o) => format!("objstm n={}", o.n_objects()), Err(e) => err(&e) },
        10 => match res.get::<Resources>(Ref::new(r)) { Ok(x) => { let mut k: Vec<String> = x.fonts.keys().map(|k| format!("F:{}", k.as_str())).chain(x.xobjects.keys().map(|k| format!("X:{}", k.as_str()))).chain(x.graphics_states.keys().map(|k| format!("G:{}", k.as_str()))).collect(); k.sort(); format!("res {:?}", k) }, Err(e) => err(&e) },
        _ => unreachable!(),
    }
}

macro_rules! run_seq {
    ($file:expr, $seq:expr) => {{
        let f = $file;
        let mut out: Vec<String> = Vec::new();
        for &(id, kind) in $seq.iter() {
            let r = guard(|| if kind == 11 { match f.get_page(id as u32) { Ok(p) => format!("page#{} rot={} media={:?}", p.get_ref().get_inner().id, p.rotate, p.media_box().map(|b| (b.left, b.bottom, b.right, b.top)).map_err(|e| root_kind(&e))), Err(e) => err(&e) } } else { exec_call(&f.resolver(), id, kind) });
            out.push(match r { Ok(s) => s, Err(p) => format!("PANIC {}", p.signature()) });
        }
        out
    }};
}

pub struct Counters { pub oh: Arc<AtomicU64>, pub om: Arc<AtomicU64>, pub sh: Arc<AtomicU64>, pub sm: Arc<AtomicU64> }

/// run a call sequence on a fresh document in cache configuration `cfg` (bit 0: object cache, bit 1: stream cache)
pub fn run_config(s: &Sample, cfg: u8, seq: &[(u64, usize)], c: &Counters) -> Result<Vec<String>, String> {
    type OCV = Result<AnySync, Arc<PdfError>>;
    type SCV = Result<Arc<[u8]>, Arc<PdfError>>;
    let e = |e: PdfError| format!("load: {}", root_kind(&e));
    Ok(match cfg {
        3 => { let f = FileOptions::uncached().cache(MonCache::new(SyncCache::<PlainRef, OCV>::new(), c.oh.clone(), c.om.clone()), MonCache::new(SyncCache::<PlainRef, SCV>::new(), c.sh.clone(), c.sm.clone())).password(&s.password).load(s.bytes.clone()).map_err(e)?; run_seq!(f, seq) }
        1 => { let f = FileOptions::uncached().cache(MonCache::new(SyncCache::<PlainRef, OCV>::new(), c.oh.clone(), c.om.clone()), MonCache::new(NoCache, c.sh.clone(), c.sm.clone())).password(&s.password).load(s.bytes.clone()).map_err(e)?; run_seq!(f, seq) }
        2 => { let f = FileOptions::uncached().cache(MonCache::new(NoCache, c.oh.clone(), c.om.clone()), MonCache::new(SyncCache::<PlainRef, SCV>::new(), c.sh.clone(), c.sm.clone())).password(&s.password).load(s.bytes.clone()).map_err(e)?; run_seq!(f, seq) }
        // the library's own cached set-up (its default caches and options), as most callers open documents
        4 => { let f = FileOptions::cached().password(&s.password).load(s.bytes.clone()).map_err(e)?; run_seq!(f, seq) }
        _ => { let f = FileOptions::uncached().password(&s.password).load(s.bytes.clone()).map_err(e)?; run_seq!(f, seq) }
    })
}

fn permutations(items: &[usize]) -> Vec<Vec<usize>> {
    if items.len() <= 1 { return vec![items.to_vec()]; }
    let mut out = Vec::new();
    for i in 0..items.len() { let mut rest = items.to_vec(); let x = rest.remove(i); for mut p in permutations(&rest) { p.insert(0, x); out.push(p); } }
    out
}

pub fn samples(_seed: u64) -> Vec<Sample> {
    let mut v: Vec<Sample> = valid_files().into_iter().filter(|s| s.bytes.len() < 200_000).collect();
    for (i, l) in [crate::richdoc::Layout::Classic, crate::richdoc::Layout::XrefStream].iter().enumerate() {
        v.push(Sample { name: format!("rich-{}", i), bytes: crate::richdoc::write(&crate::richdoc::objects(), *l, b""), password: vec![] });
    }
    // a page tree deeper than any bound a loader might use (typed loads of a node load its ancestors eagerly)
    {
        use crate::mkpdf::{arr, dict, ints, name, rf, Obj};
        let depth = 24u32;
        let mut o = vec![(1, dict(vec![("Type", name("Catalog")), ("Pages", rf(2))]))];
        for k in 0..depth { let mut d = vec![("Type", name("Pages")), ("Kids", arr(vec![rf(3 + k)])), ("Count", Obj::Int(1))]; if k > 0 { d.push(("Parent", rf(1 + k))); } else { d.push(("MediaBox", ints(&[0, 0, 10, 10]))); } o.push((2 + k, dict(d))); }
        o.push((2 + depth, dict(vec![("Type", name("Page")), ("Parent", rf(1 + depth))])));
        v.push(Sample { name: "deep-page-tree-24".into(), bytes: crate::mkpdf::simple_doc(&o, 1, vec![]), password: vec![] });
    }
    // objects whose typed load fails (or not) because of a reference to a missing object one level below them: the answer to a
    // load as a tolerant type must not depend on a failed load as a strict type before it
    {
        use crate::mkpdf::{arr, dict, name, rf, Obj};
        let mut objs = crate::mkpdf::skeleton(1);
        objs.push((4, dict(vec![("Type", name("Font")), ("Subtype", rf(9)), ("BaseFont", name("Helvetica"))])));          // required entry -> free object
        objs.push((5, rf(9)));                                                                                              // the object is itself a reference to a free object
        objs.push((6, dict(vec![("Type", name("Pages")), ("Kids", arr(vec![rf(9)])), ("Count", rf(9))])));
        objs.push((7, dict(vec![("Type", name("XObject")), ("Subtype", name("Image")), ("Width", rf(9)), ("Height", Obj::Int(1))])));
        objs.push((8, dict(vec![("Type", name("Font")), ("Subtype", name("Type0")), ("BaseFont", name("X")), ("Encoding", name("Identity-H")), ("DescendantFonts", arr(vec![rf(9)]))])));
        objs.push((10, dict(vec![("Font", dict(vec![("F1", rf(4)), ("F2", rf(9))])), ("XObject", dict(vec![("I", rf(7))]))])));
        objs[2].1.set("Resources", rf(10));
        // object 9 is free (simple_doc fills the gap 9 with a free entry)
        v.push(Sample { name: "missing-object-one-level-below".into(), bytes: crate::mkpdf::simple_doc(&objs, 1, vec![]), password: vec![] });
    }
    // entries that only a strict reader objects to (an optional box with three numbers, an optional entry of the wrong type): the
    // cached and the uncached way of opening a document must not differ in how strict they are
    {
        use crate::mkpdf::{ints, name, Obj};
        let mut objs = crate::mkpdf::skeleton(2);
        objs[2].1.set("CropBox", ints(&[1, 2, 3]));
        objs[3].1.set("Rotate", name("Sideways"));
        objs[3].1.set("TrimBox", Obj::Str(b"not a box".to_vec()));
        v.push(Sample { name: "optional-entries-only-strict-rejects".into(), bytes: crate::mkpdf::simple_doc(&objs, 1, vec![]), password: vec![] });
    }
    // an incremental update whose cross-reference stream is a new version of the previous one (same object number): the
    // stream cache is keyed by object number, the two revisions must not be confused while the document is opened
    {
        use crate::mkpdf::{dict, name, rf, Obj, W};
        let mut w = W::new(b"", "1.5");
        w.free(0, 0, 65535);
        for (n, o) in crate::mkpdf::skeleton(1) { w.obj(n, 0, &o); }
        w.obj(4, 0, &dict(vec![("Rev", Obj::Int(1)), ("Kind", name("First"))]));
        w.xref_stream(9, vec![(b"Root".to_vec(), rf(1))], 10, &[], &crate::mkpdf::flate_filter);
        w.obj(4, 0, &dict(vec![("Rev", Obj::Int(2)), ("Kind", name("Second")), ("More", crate::mkpdf::ints(&[1, 2, 3, 4, 5, 6, 7, 8]))]));
        w.obj(5, 0, &dict(vec![("Added", Obj::Bool(true))]));
        w.xref_stream(9, vec![(b"Root".to_vec(), rf(1))], 10, &[], &crate::mkpdf::no_filter);
        v.push(Sample { name: "xref-stream-number-reused".into(), bytes: w.buf, password: vec![] });
    }
    // images whose filter chain splits into "normal" and "image" filters
    {
        use crate::mkpdf::{arr, name, rf, stream, Obj};
        let mut objs = crate::mkpdf::skeleton(1);
        let raw: Vec<u8> = (0..48u8).collect();
        let z = miniz_oxide::deflate::compress_to_vec_zlib(&raw, 6);
        let mut s = crate::tape::Src::replay(&[]);
        let a85z = crate::refimpl::codec::a85_encode(&z, &mut s);
        let img = |f: Obj, data: &[u8]| stream(vec![("Type", name("XObject")), ("Subtype", name("Image")), ("Width", Obj::Int(4)), ("Height", Obj::Int(4)), ("BitsPerComponent", Obj::Int(8)), ("ColorSpace", name("DeviceRGB")), ("Filter", f)], data);
        objs.push((4, img(name("FlateDecode"), &z)));
        objs.push((5, img(arr(vec![name("ASCII85Decode"), name("FlateDecode")]), &a85z)));
        objs.push((6, img(arr(vec![name("ASCIIHexDecode")]), b"000102030405060708090a0b0c0d0e0f101112131415161718191a1b1c1d1e1f202122232425262728292a2b2c2d2e2f>")));
        objs[2].1.set("Resources", crate::mkpdf::dict(vec![("XObject", crate::mkpdf::dict(vec![("A", rf(4)), ("B", rf(5)), ("C", rf(6))]))]));
        v.push(Sample { name: "images-filter-chains".into(), bytes: crate::mkpdf::simple_doc(&objs, 1, vec![]), password: vec![] });
        // the same images in encrypted documents (decryption sits below both caches; the corpus' encrypted files have no images)
        v.push(Sample { name: "images-filter-chains-rc4".into(), bytes: crate::encdoc::encrypted_doc(&objs, 1, false, b"", b"owner", false), password: vec![] });
        v.push(Sample { name: "images-filter-chains-aes".into(), bytes: crate::encdoc::encrypted_doc(&objs, 1, true, b"user", b"owner", true), password: b"user".to_vec() });
    }
    v
}

pub fn run(run: &Run) {
    run.rule("per file (corpus < 200 KB incl. encrypted, JPEG image, object streams; generated rich documents; images with Flate / ASCII85+Flate / ASCIIHex chains): for each of the first objects, the call kinds {resolve, get as Dictionary / Primitive / PagesNode / Font / XObject / ObjectStream / Resources, raw_image_data, image_data, Stream::data} whose stand-alone answers differ pairwise are run in every order (<= 4 kinds: 24 permutations) plus seeded random sequences (<= 30 calls over <= 6 objects incl. get_page), on documents opened with {object+stream cache, object cache only, stream cache only, none}; every answer (offset/address-independent digest or root error kind) must equal the answer the call gives alone on a fresh uncached document. MonCache counts hits/misses. distinct_nontrivial = distinct (file, sequence) pairs with at least one cache hit in the fully cached run");
    run.assume("a call's reference answer is its result on a fresh uncached document (the statement: the answer never depends on which calls came before)");
    let files = samples(run.seed);
    let totals = Counters { oh: Arc::new(AtomicU64::new(0)), om: Arc::new(AtomicU64::new(0)), sh: Arc::new(AtomicU64::new(0)), sm: Arc::new(AtomicU64::new(0)) };
    let max_obj = if run.quick() { 40 } else { 400 };
    let n_random = run.n(400, 20_000);
    par_for(files.len() as u64, |fi| {
        let s = &files[fi as usize];
        // stand-alone answers
        let Ok(base) = FileOptions::uncached().password(&s.password).load(s.bytes.clone()) else { run.count("file_not_loadable"); return };
        let size = (base.trailer.size.max(0) as u64).min(max_obj);
        let np = base.num_pages().min(6) as u64;
        drop(base);
        let none = Counters { oh: Arc::new(AtomicU64::new(0)), om: Arc::new(AtomicU64::new(0)), sh: Arc::new(AtomicU64::new(0)), sm: Arc::new(AtomicU64::new(0)) };
        let mut alone: BTreeMap<(u64, usize), String> = BTreeMap::new();
        for id in 0..size { for k in 0..11 { if let Ok(v) = run_config(s, 0, &[(id, k)], &none) { alone.insert((id, k), v[0].clone()); } } }
        for i in 0..np + 1 { if let Ok(v) = run_config(s, 0, &[(i, 11)], &none) { alone.insert((i, 11), v[0].clone()); } }
        let check = |seq: &[(u64, usize)], why: &str| {
            run.eval();
            for cfg in [3u8, 1, 2, 4, 0] {
                let c = Counters { oh: Arc::new(AtomicU64::new(0)), om: Arc::new(AtomicU64::new(0)), sh: Arc::new(AtomicU64::new(0)), sm: Arc::new(AtomicU64::new(0)) };
                let got = match run_config(s, cfg, seq, &c) {
                    Ok(g) => g,
                    // the same bytes opened without caches a moment ago: a cached configuration that cannot open them answers differently
                    Err(e) if cfg != 0 => {
                        run.violation(&format!("C12|cache={}|load|error-instead-of-value", ["none", "object", "stream", "both", "FileOptions::cached()"][cfg as usize]), &format!("{}: opening with this cache configuration fails ({}) while the uncached document opens", s.name, e),
                            json!({"file": s.name, "config": cfg, "error": e}));
                        return;
                    }
                    Err(e) => { run.inconclusive(format!("{}: uncached load failed the second time: {}", s.name, e)); return }
                };
                if cfg == 3 && c.oh.load(Ordering::Relaxed) + c.sh.load(Ordering::Relaxed) > 0 { run.nontrivial(fnv(format!("{}{:?}", s.name, seq).as_bytes())); }
                totals.oh.fetch_add(c.oh.load(Ordering::Relaxed), Ordering::Relaxed); totals.om.fetch_add(c.om.load(Ordering::Relaxed), Ordering::Relaxed);
                totals.sh.fetch_add(c.sh.load(Ordering::Relaxed), Ordering::Relaxed); totals.sm.fetch_add(c.sm.load(Ordering::Relaxed), Ordering::Relaxed);
                for (i, ((id, k), g)) in seq.iter().zip(got.iter()).enumerate() {
                    let Some(exp) = alone.get(&(*id, *k)) else { continue };
                    if g != exp {
                        // signature: configuration + this call's kind + the kinds that ran before it on the same object
                        let mut before: Vec<&str> = seq[..i].iter().filter(|(j, _)| j == id).map(|(_, kk)| KINDS[*kk]).collect(); before.sort(); before.dedup();
                        let cls = if g.starts_with("PANIC") { g.clone() } else if g.starts_with("Err(") && !exp.starts_with("Err(") { "error-instead-of-value".into() } else if !g.starts_with("Err(") && exp.starts_with("Err(") { "value-instead-of-error".into() } else if g.starts_with("Err(") { "different-error-kind".into() } else { "different-value".into() };
                        let sig = format!("C12|cache={}|{}|{}", ["none", "object", "stream", "both", "FileOptions::cached()"][cfg as usize], KINDS[*k], cls);
                        run.violation(&sig, &format!("{} object {}: {} answered {} but alone it answers {} ({})", s.name, id, KINDS[*k], g.chars().take(90).collect::<String>(), exp.chars().take(90).collect::<String>(), why),
                            json!({"file": s.name, "sequence": seq.iter().map(|(i, k)| format!("{}:{}", i, KINDS[*k])).collect::<Vec<_>>(), "call_index": i, "config": cfg, "earlier_calls_on_same_object": before}));
                        return;
                    }
                }
            }
        };
        // exhaustive orderings per object of the kinds with pairwise different stand-alone answers
        for id in 0..size {
            let mut kinds: Vec<usize> = Vec::new();
            for k in 0..11 { if let Some(a) = alone.get(&(id, k)) { if !kinds.iter().any(|kk| alone.get(&(id, *kk)) == Some(a)) { kinds.push(k); } } }
            // prefer kinds that succeed; keep at most 4 (24 orders), quick: 3 for objects beyond the first 12
            kinds.sort_by_key(|k| alone.get(&(id, *k)).map(|a| a.starts_with("Err(")).unwrap_or(true));
            kinds.truncate(if run.quick() && id >= 12 { 3 } else { 4 });
            if kinds.len() < 2 { continue; }
            for p in permutations(&kinds) { let seq: Vec<(u64, usize)> = p.iter().map(|k| (id, *k)).collect(); check(&seq, "permutation"); }
            run.count("objects_with_all_orderings");
        }
        // seeded random sequences
        for j in 0..n_random {
            let mut r = Rng::derive(run.seed, 12, fi * 100_000 + j);
            let objs: Vec<u64> = (0..1 + r.below(6)).map(|_| r.below(size.max(1))).collect();
            let len = 2 + r.below(29);
            let seq: Vec<(u64, usize)> = (0..len).map(|_| if np > 0 && r.below(6) == 0 { (r.below(np + 1), 11) } else { (objs[r.below(objs.len() as u64) as usize], r.below(11) as usize) }).collect();
            check(&seq, "random");
            if fi == 0 && j < 3 { run.sample(json!({"file": s.name, "sequence": seq.iter().map(|(i, k)| format!("{}:{}", i, KINDS[*k])).collect::<Vec<_>>() })); }
        }
        run.count(&format!("file:{}", s.name));
    });
    if !run.quick() { crate::lanes::miri(run, "cache", &[1], None); }
    run.add("object_cache_hits", totals.oh.load(Ordering::Relaxed)); run.add("object_cache_misses", totals.om.load(Ordering::Relaxed));
    run.add("stream_cache_hits", totals.sh.load(Ordering::Relaxed)); run.add("stream_cache_misses", totals.sm.load(Ordering::Relaxed));
    if totals.oh.load(Ordering::Relaxed) == 0 || totals.sh.load(Ordering::Relaxed) == 0 { run.inconclusive("no cache hit observed at all".into()); }
    // thorough: the same quick workload once more under the AddressSanitizer build (memory errors in the library or its dependencies)
    if !run.quick() { crate::lanes::asan_rerun(run); }
}
