//! C14 — not built yet.
use crate::run::Run;
pub fn run(_run: &Run) { eprintln!("C14: check not built yet"); std::process::exit(2); }
