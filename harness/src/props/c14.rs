//! C14 — hostile but well-formed object graphs end in an error, not a crash (every case in a child).
use crate::doc::CFGS;
use crate::mkpdf::{self, arr, dict, ints, name, rf, st, stream, Obj, W};
use crate::props::c01::{exec_case, Case};
use crate::richdoc::{self, Layout};
use crate::rng::Rng;
use crate::run::{Run, Tier};
use crate::sup::CaseFn;
use crate::tape::Src;
use serde_json::{json, Value};

const LAYOUTS: [Layout; 3] = [Layout::Classic, Layout::XrefStream, Layout::Incremental];

/// (object index, path) of every reference and numeric node of the rich document
fn array_sites() -> Vec<(usize, richdoc::Path)> {
    let objs = richdoc::objects();
    let mut out = Vec::new();
    for (i, (_, o)) in objs.iter().enumerate() { let mut a = Vec::new(); richdoc::collect_arrays(o, &mut Vec::new(), &mut a); for p in a { out.push((i, p)); } }
    out
}
fn sites() -> (Vec<(usize, richdoc::Path)>, Vec<(usize, richdoc::Path)>) {
    let objs = richdoc::objects();
    let (mut refs, mut nums) = (Vec::new(), Vec::new());
    for (i, (_, o)) in objs.iter().enumerate() {
        let (mut r, mut n, mut nm) = (Vec::new(), Vec::new(), Vec::new());
        richdoc::collect(o, &mut Vec::new(), &mut r, &mut n, &mut nm);
        for p in r { refs.push((i, p)); }
        for p in n { nums.push((i, p)); }
    }
    (refs, nums)
}

fn nest(open: &[u8], close: &[u8], depth: usize, inner: &[u8]) -> Vec<u8> {
    let mut v = Vec::new();
    for _ in 0..depth { v.extend_from_slice(open); }
    v.extend_from_slice(inner);
    for _ in 0..depth { v.extend_from_slice(close); }
    v
}

/// Hand-written hostile documents that the object-table mutations cannot express (file structure level).
/// The hand-written cases, each also behind a few bytes of junk before the header (all offsets are header-relative, so the
/// file stays the same file; loop guards and bounds checks that mix absolute and relative positions only show there).
pub fn specials() -> Vec<(String, Vec<u8>)> {
    let plain = specials_plain();
    let mut out = Vec::with_capacity(plain.len() * 2);
    for (l, b) in plain.iter() { out.push((l.clone(), b.clone())); }
    for (l, b) in plain.into_iter() { let mut p = b"junk before the header 0123456789\n".to_vec(); p.extend_from_slice(&b); out.push((format!("{}+prefix", l), p)); }
    out
}

fn specials_plain() -> Vec<(String, Vec<u8>)> {
    let mut out: Vec<(String, Vec<u8>)> = Vec::new();
    let sk = mkpdf::skeleton(1);
    let base = |extra: Vec<(u32, Obj)>, trailer: Vec<(&str, Obj)>| -> Vec<u8> { let mut o = sk.clone(); o.extend(extra); mkpdf::simple_doc(&o, 1, trailer) };
    // --- /Prev loops
    for (label, prev) in [("prev-self", None), ("prev-zero", Some(0i64)), ("prev-huge", Some(i64::MAX)), ("prev-negative", Some(-1)), ("prev-into-body", Some(20))] {
        let mut w = W::new(b"", "1.4");
        w.free(0, 0, 65535);
        for (n, o) in &sk { w.obj(*n, 0, o); }
        let pos = w.pos();
        let p = prev.unwrap_or(pos as i64);
        w.xref_table(vec![(b"Root".to_vec(), rf(1)), (b"Prev".to_vec(), Obj::Int(p))], 4, &[]);
        out.push((label.into(), w.buf));
    }
    { // two sections pointing at each other
        let mut w = W::new(b"", "1.4");
        w.free(0, 0, 65535);
        for (n, o) in &sk { w.obj(*n, 0, o); }
        let first = w.xref_table(vec![(b"Root".to_vec(), rf(1)), (b"Prev".to_vec(), Obj::Raw(b"0000000000".to_vec()))], 4, &[]);
        w.obj(3, 0, &sk[2].1);
        w.last_xref = Some(first);
        let second = w.xref_table(vec![(b"Root".to_vec(), rf(1))], 4, &[]);
        let txt = format!("{:010}", second);
        if let Some(p) = w.buf.windows(16).position(|x| x == b"/Prev 0000000000") { w.buf[p + 6..p + 16].copy_from_slice(txt.as_bytes()); }
        out.push(("prev-two-cycle".into(), w.buf));
    }
    // --- stream /Length references
    out.push(("length-ref-self".into(), base(vec![(4, Obj::Stream(vec![(b"Length".to_vec(), rf(4))], b"abc".to_vec()))], vec![])));
    out.push(("length-ref-other-stream".into(), base(vec![(4, Obj::Stream(vec![(b"Length".to_vec(), rf(5))], b"abc".to_vec())), (5, stream(vec![], b"12"))], vec![])));
    out.push(("length-ref-cycle".into(), base(vec![(4, Obj::Stream(vec![(b"Length".to_vec(), rf(5))], b"abc".to_vec())), (5, Obj::Stream(vec![(b"Length".to_vec(), rf(4))], b"abc".to_vec()))], vec![])));
    for l in [-1i64, 0, 1 << 31, i64::MAX, 1 << 40] {
        out.push((format!("length={}", l), base(vec![(4, Obj::Stream(vec![(b"Length".to_vec(), Obj::Int(l))], b"abc".to_vec()))], vec![])));
    }
    out.push(("contents-length-ref-self".into(), { let mut o = sk.clone(); o[2].1.set("Contents", rf(4)); o.push((4, Obj::Stream(vec![(b"Length".to_vec(), rf(4))], b"q Q".to_vec()))); mkpdf::simple_doc(&o, 1, vec![]) }));
    // --- object streams
    for (label, n, first, extends, self_member) in [("objstm-n-huge", 1i64 << 31, 10i64, None, false), ("objstm-n-negative", -1, 10, None, false), ("objstm-first-huge", 2, 1 << 40, None, false), ("objstm-first-negative", 2, -5, None, false),
        ("objstm-extends-self", 2, 10, Some(6u32), false), ("objstm-contains-itself", 2, 10, None, true)] {
        let mut w = W::new(b"", "1.5");
        w.free(0, 0, 65535);
        for (k, o) in &sk { w.obj(*k, 0, o); }
        let mut d = vec![(b"Type".to_vec(), name("ObjStm")), (b"N".to_vec(), Obj::Int(n)), (b"First".to_vec(), Obj::Int(first))];
        if let Some(e) = extends { d.push((b"Extends".to_vec(), rf(e))); }
        w.obj(6, 0, &Obj::Stream(d, b"4 0 5 3 12 (ab)".to_vec()));
        w.pending.insert(4, mkpdf::XEntry::Compressed { stm: 6, idx: 0 });
        w.pending.insert(5, mkpdf::XEntry::Compressed { stm: 6, idx: 1 });
        if self_member { w.pending.insert(6, mkpdf::XEntry::Compressed { stm: 6, idx: 0 }); }
        w.pending.insert(7, mkpdf::XEntry::Compressed { stm: 6, idx: 1 << 30 });
        w.pending.insert(8, mkpdf::XEntry::Compressed { stm: 2, idx: 0 });   // "object stream" that is a dictionary
        w.pending.insert(9, mkpdf::XEntry::Compressed { stm: 9, idx: 0 });   // its own container, undefined
        w.xref_stream(10, vec![(b"Root".to_vec(), rf(1))], 11, &[], &mkpdf::no_filter);
        out.push((label.into(), w.buf));
    }
    // --- xref stream parameters
    for (label, wv, index, size) in [("xrefstm-w-zero", vec![0i64, 0, 0], None, 5i64), ("xrefstm-w-huge", vec![8, 8, 8], None, 5), ("xrefstm-w-9", vec![1, 9, 1], None, 5), ("xrefstm-w-negative", vec![1, -1, 1], None, 5),
        // pairs of extremes: with no bytes per entry the number of entries is not bounded by the data
        ("xrefstm-w-zero-index-5e7", vec![0, 0, 0], Some(vec![0i64, 50_000_000]), 5), ("xrefstm-w-zero-index-max", vec![0, 0, 0], Some(vec![0i64, 2147483647]), 5), ("xrefstm-w-zero-size-max", vec![0, 0, 0], None, 2147483647),
        ("xrefstm-w-type-only-index-5e7", vec![1, 0, 0], Some(vec![0i64, 50_000_000]), 5), ("xrefstm-w-one-byte-index-max", vec![0, 1, 0], Some(vec![0i64, 2147483647]), 5),
        ("xrefstm-w-two", vec![1, 2], None, 5), ("xrefstm-index-huge", vec![1, 2, 1], Some(vec![0i64, 1 << 31]), 5), ("xrefstm-index-negative", vec![1, 2, 1], Some(vec![-5, 5]), 5), ("xrefstm-index-odd", vec![1, 2, 1], Some(vec![0, 5, 7]), 5),
        ("xrefstm-size-max", vec![1, 2, 1], None, 2147483647), ("xrefstm-size-1e6", vec![1, 2, 1], None, 1_000_000), ("xrefstm-size-zero", vec![1, 2, 1], None, 0), ("xrefstm-size-negative", vec![1, 2, 1], None, -1)] {
        let mut b = b"%PDF-1.5\n".to_vec();
        let o1 = b.len(); b.extend_from_slice(b"1 0 obj\n<< /Type /Catalog /Pages 2 0 R >>\nendobj\n");
        let o2 = b.len(); b.extend_from_slice(b"2 0 obj\n<< /Type /Pages /Kids [] /Count 0 >>\nendobj\n");
        let x = b.len();
        let mut data = Vec::new();
        for (t, off) in [(0u8, 0usize), (1, o1), (1, o2), (1, x)] { data.push(t); data.extend_from_slice(&(off as u16).to_be_bytes()); data.push(0); }
        let mut d = vec![("Type", name("XRef")), ("Size", Obj::Int(size)), ("W", ints(&wv)), ("Root", rf(1))];
        if let Some(ix) = index { d.push(("Index", ints(&ix))); }
        b.extend_from_slice(b"3 0 obj\n");
        mkpdf::write_obj(&stream(d, &data), &mut b, &mkpdf::Ctx { nr: 3, gen: 0, crypt: None });
        b.extend_from_slice(format!("\nendobj\nstartxref\n{}\n%%EOF\n", x).as_bytes());
        out.push((label.into(), b));
    }
    // --- nesting
    for depth in [19usize, 20, 21, 25, 1000, 100_000] {
        out.push((format!("nest-array-{}", depth), base(vec![(4, Obj::Raw(nest(b"[", b"]", depth, b"1")))], vec![])));
        out.push((format!("nest-dict-{}", depth), base(vec![(4, Obj::Raw(nest(b"<</A ", b">>", depth, b"1")))], vec![])));
        let mut o = sk.clone(); o[2].1.set("Contents", rf(4));
        let mut c = nest(b"[", b"]", depth, b"1"); c.extend_from_slice(b" TJ /T "); c.extend_from_slice(&nest(b"<</A ", b">>", depth, b"1")); c.extend_from_slice(b" DP");
        o.push((4, stream(vec![], &c)));
        out.push((format!("nest-content-{}", depth), mkpdf::simple_doc(&o, 1, vec![])));
        out.push((format!("nest-trailer-{}", depth), base(vec![], vec![("X", Obj::Raw(nest(b"[", b"]", depth, b"1")))])));
        out.push((format!("nest-parens-{}", depth), base(vec![(4, Obj::Raw(nest(b"(", b")", depth, b"x")))], vec![])));
    }
    // --- encryption dictionaries
    let enc = |items: Vec<(&str, Obj)>| -> Vec<u8> { base(vec![(4, dict(items))], vec![("Encrypt", rf(4)), ("ID", arr(vec![st("0123456789abcdef"), st("0123456789abcdef")]))]) };
    let o32 = Obj::Str(vec![7u8; 32]);
    for (v, r, len) in [(1i64, 2i64, 40i64), (2, 3, 0), (2, 3, -8), (2, 3, 8), (2, 3, 2048), (2, 3, 2147483647), (2, 3, 129), (2, 3, 136), (2, 3, 192), (2, 3, 256), (2, 3, 264), (1, 2, 136), (1, 2, 256), (4, 4, 128), (5, 5, 256), (5, 6, 256), (0, 0, 40), (3, 3, 40), (6, 7, 40), (-1, -1, -1), (2147483647, 2147483647, 128)] {
        out.push((format!("encrypt-v{}-r{}-len{}", v, r, len), enc(vec![("Filter", name("Standard")), ("V", Obj::Int(v)), ("R", Obj::Int(r)), ("Length", Obj::Int(len)), ("O", o32.clone()), ("U", o32.clone()), ("P", Obj::Int(-1))])));
    }
    for (label, o, u) in [("encrypt-empty-ou", Obj::Str(vec![]), Obj::Str(vec![])), ("encrypt-short-ou", Obj::Str(vec![1]), Obj::Str(vec![2; 5])), ("encrypt-long-ou", Obj::Str(vec![3; 200]), Obj::Str(vec![4; 200]))] {
        for (v, r) in [(1i64, 2i64), (2, 3), (4, 4), (5, 5), (5, 6)] {
            let mut items = vec![("Filter", name("Standard")), ("V", Obj::Int(v)), ("R", Obj::Int(r)), ("Length", Obj::Int(if v == 5 { 256 } else { 128 })), ("O", o.clone()), ("U", u.clone()), ("P", Obj::Int(-4)),
                ("OE", o.clone()), ("UE", u.clone()), ("Perms", o.clone())];
            if v >= 4 { items.push(("CF", dict(vec![("StdCF", dict(vec![("CFM", name(if v == 5 { "AESV3" } else { "AESV2" })), ("Length", Obj::Int(if r == 6 { 0 } else { 16 }))]))]))); items.push(("StmF", name("StdCF"))); items.push(("StrF", name("StdCF"))); }
            out.push((format!("{}-v{}r{}", label, v, r), enc(items)));
        }
    }
    // crypt-filter key lengths between the 16 bytes the digests provide and the 32 an AES-256 key has
    for (cfm, len) in [("V2", 17i64), ("V2", 24), ("V2", 32), ("V2", 33), ("AESV2", 17), ("AESV2", 32), ("V2", 0), ("V2", -1)] {
        out.push((format!("encrypt-v4-cf-{}-len{}", cfm, len), enc(vec![("Filter", name("Standard")), ("V", Obj::Int(4)), ("R", Obj::Int(4)), ("Length", Obj::Int(128)), ("O", o32.clone()), ("U", o32.clone()), ("P", Obj::Int(-1)),
            ("CF", dict(vec![("StdCF", dict(vec![("CFM", name(cfm)), ("Length", Obj::Int(len))]))])), ("StmF", name("StdCF")), ("StrF", name("StdCF"))])));
    }
    out.push(("encrypt-no-id".into(), base(vec![(4, dict(vec![("Filter", name("Standard")), ("V", Obj::Int(1)), ("R", Obj::Int(2)), ("O", o32.clone()), ("U", o32.clone()), ("P", Obj::Int(-1))]))], vec![("Encrypt", rf(4))])));
    out.push(("encrypt-ref-self".into(), base(vec![(4, rf(4))], vec![("Encrypt", rf(4)), ("ID", arr(vec![st("a"), st("b")]))])));
    // --- filters with hostile parameters on a page's content stream and an image
    // `dims`: image /Width and /Height (the CCITT reader insists on /Width == /Columns before it decodes)
    let filt_dims = |label: &str, f: Obj, parms: Obj, data: &[u8], dims: (i64, i64), out: &mut Vec<(String, Vec<u8>)>| {
        let mut o = sk.clone(); o[2].1.set("Contents", rf(4)); o[2].1.set("Resources", dict(vec![("XObject", dict(vec![("I", rf(5))]))]));
        o.push((4, stream(vec![("Filter", f.clone()), ("DecodeParms", parms.clone())], data)));
        o.push((5, stream(vec![("Type", name("XObject")), ("Subtype", name("Image")), ("Width", Obj::Int(dims.0)), ("Height", Obj::Int(dims.1)), ("BitsPerComponent", Obj::Int(8)), ("ColorSpace", name("DeviceGray")), ("Filter", f), ("DecodeParms", parms)], data)));
        out.push((label.to_string(), mkpdf::simple_doc(&o, 1, vec![])));
    };
    let filt = |label: &str, f: Obj, parms: Obj, data: &[u8], out: &mut Vec<(String, Vec<u8>)>| filt_dims(label, f, parms, data, (1, 1), out);
    let z = miniz_oxide::deflate::compress_to_vec_zlib(&vec![0u8; 5000], 6);
    for (pred, colors, bpc, cols) in [(12i64, 1i64, 8i64, 2147483647i64), (12, 2147483647, 8, 1), (12, 65536, 16, 65536), (15, 0, 8, 1), (12, 1, 0, 1), (12, 1, 7, 5), (12, -1, 8, 5), (12, 1, 8, -1), (2, 1, 8, 0), (2, 4, 16, 1 << 30), (2, 3, 1, 7), (10, 1, 8, 4999), (1 << 31, 1, 8, 1), (-12, 1, 8, 1)] {
        let p = dict(vec![("Predictor", Obj::Int(pred)), ("Colors", Obj::Int(colors)), ("BitsPerComponent", Obj::Int(bpc)), ("Columns", Obj::Int(cols))]);
        filt(&format!("flate-pred{}-c{}-b{}-w{}", pred, colors, bpc, cols), name("FlateDecode"), p.clone(), &z, &mut out);
        filt(&format!("lzw-pred{}-c{}-b{}-w{}", pred, colors, bpc, cols), name("LZWDecode"), p, &[0x80, 0x0b, 0x60, 0x50, 0x22, 0x0c, 0x0c, 0x85, 0x01], &mut out);
    }
    for (k, cols, rows) in [(-1i64, 0i64, 0i64), (-1, 2147483647, 2147483647), (-1, 65535, 2048), (-1, 65536, 65536), (-1, 1, 0), (0, 1728, 0), (5, 8, 8), (-1, -1, -1), (-1, 70000, 2)] {
        filt(&format!("ccitt-k{}-c{}-r{}", k, cols, rows), name("CCITTFaxDecode"), dict(vec![("K", Obj::Int(k)), ("Columns", Obj::Int(cols)), ("Rows", Obj::Int(rows))]), &[0x26, 0xa0, 0x00, 0x10, 0x01, 0xff, 0xff, 0x00], &mut out);
        // the same geometry with data the Group 4 decoder accepts (an end-of-block marker alone; lines equal to the white reference
        // line), on an image whose /Width equals /Columns so that the decoder is reached
        let p = || dict(vec![("K", Obj::Int(k)), ("Columns", Obj::Int(cols)), ("Rows", Obj::Int(rows))]);
        for h in [1i64, rows.max(0), 0] {
            filt_dims(&format!("ccitt-garbage-k{}-c{}-r{}-h{}", k, cols, rows, h), name("CCITTFaxDecode"), p(), &[0x26, 0xa0, 0x00, 0x10, 0x01, 0xff, 0xff, 0x00], (cols, h), &mut out);
            filt_dims(&format!("ccitt-eofb-k{}-c{}-r{}-h{}", k, cols, rows, h), name("CCITTFaxDecode"), p(), &[0x00, 0x10, 0x01], (cols, h), &mut out);
            filt_dims(&format!("ccitt-v0-lines-k{}-c{}-r{}-h{}", k, cols, rows, h), name("CCITTFaxDecode"), p(), &[0xff, 0xff, 0x00, 0x10, 0x01], (cols, h), &mut out);
        }
    }
    for cols in [0i64, 1, 7, 8, 9, 65535, 65536, 65544] {
        for h in [1i64, 2, 1000] {
            filt_dims(&format!("ccitt-v0-lines-only-columns{}-h{}", cols, h), name("CCITTFaxDecode"), dict(vec![("K", Obj::Int(-1)), ("Columns", Obj::Int(cols))]), &[0xff, 0xff, 0x00, 0x10, 0x01], (cols, h), &mut out);
        }
    }
    filt("dct-garbage", name("DCTDecode"), Obj::Null, &[0xff, 0xd8, 0xff, 0xe0, 0, 16, b'J', b'F', b'I', b'F', 0, 1, 1, 0, 0, 1, 0, 1, 0, 0, 0xff, 0xd9], &mut out);
    filt("dct-sof-huge", name("DCTDecode"), Obj::Null, &[0xff, 0xd8, 0xff, 0xc0, 0, 11, 8, 0xff, 0xff, 0xff, 0xff, 1, 1, 0x11, 0, 0xff, 0xd9], &mut out);
    filt("filter-chain-60", Obj::Arr((0..60).map(|_| name("ASCIIHexDecode")).collect()), Obj::Null, b"41>", &mut out);
    filt("filter-unknown", name("NoSuchDecode"), Obj::Null, b"x", &mut out);
    filt("filter-jbig2-jpx-crypt", arr(vec![name("JBIG2Decode"), name("JPXDecode"), name("Crypt")]), Obj::Null, b"x", &mut out);
    { // deflate bomb: 2 MiB of zeros -> ~2 KiB, twice nested
        let once = miniz_oxide::deflate::compress_to_vec_zlib(&vec![0u8; 4 << 20], 9);
        let twice = miniz_oxide::deflate::compress_to_vec_zlib(&once, 9);
        filt("flate-bomb-nested", arr(vec![name("FlateDecode"), name("FlateDecode")]), Obj::Null, &twice, &mut out);
        filt("runlength-expansion", name("RunLengthDecode"), Obj::Null, &[129u8, 0].repeat(20000), &mut out);
    }
    // --- functions and colour spaces that mutations of single numbers cannot reach
    let with_cs = |label: &str, cs: Obj, extra: Vec<(u32, Obj)>, out: &mut Vec<(String, Vec<u8>)>| {
        let mut o = sk.clone(); o[2].1.set("Resources", dict(vec![("ColorSpace", dict(vec![("C", cs)]))])); o.extend(extra);
        out.push((label.to_string(), mkpdf::simple_doc(&o, 1, vec![])));
    };
    for prog in ["{ 1 -1 roll }", "{ 0 1000000000 roll }", "{ -1 1 roll }", "{ 5 index }", "{ -1 index }", "} {", "{", "", "{ 1e39 1e39 mul }", "{ dup dup dup dup dup dup dup dup dup dup }", "{ 2147483647 2147483647 roll }", "{ pop pop pop }", "{ 0 0 roll }", "{ 3 -2147483648 roll }"] {
        with_cs(&format!("psfunc:{}", prog), arr(vec![name("Separation"), name("S"), name("DeviceGray"), rf(4)]), vec![(4, stream(vec![("FunctionType", Obj::Int(4)), ("Domain", ints(&[0, 1])), ("Range", ints(&[0, 1]))], prog.as_bytes()))], &mut out);
    }
    for (size, bps, order) in [(vec![0i64], 8i64, 1i64), (vec![2147483647, 2147483647], 8, 1), (vec![-1], 8, 1), (vec![2], 0, 1), (vec![2], 64, 1), (vec![2], 8, 3), (vec![2, 2, 2, 2], 8, 1), (vec![], 8, 1), (vec![65536, 65536, 65536], 8, 1)] {
        with_cs(&format!("sampled-size{:?}-bps{}-order{}", size, bps, order), arr(vec![name("Separation"), name("S"), name("DeviceGray"), rf(4)]),
            vec![(4, stream(vec![("FunctionType", Obj::Int(0)), ("Domain", ints(&[0, 1])), ("Range", ints(&[0, 1])), ("Size", ints(&size)), ("BitsPerSample", Obj::Int(bps)), ("Order", Obj::Int(order))], &[1, 2, 3, 4]))], &mut out);
    }
    for hival in [-1i64, 0, 255, 256, 2147483647] {
        with_cs(&format!("indexed-hival{}", hival), arr(vec![name("Indexed"), name("DeviceRGB"), Obj::Int(hival), Obj::Str(vec![1, 2, 3])]), vec![], &mut out);
        with_cs(&format!("indexed-stream-hival{}", hival), arr(vec![name("Indexed"), name("DeviceRGB"), Obj::Int(hival), rf(4)]), vec![(4, stream(vec![], &[1, 2, 3]))], &mut out);
    }
    with_cs("cs-indexed-base-self", rf(4), vec![(4, arr(vec![name("Indexed"), rf(4), Obj::Int(1), Obj::Str(vec![0; 6])]))], &mut out);
    with_cs("cs-separation-alt-self", rf(4), vec![(4, arr(vec![name("Separation"), name("S"), rf(4), rf(5)])), (5, dict(vec![("FunctionType", Obj::Int(2)), ("Domain", ints(&[0, 1])), ("N", Obj::Int(1))]))], &mut out);
    with_cs("cs-nested-indexed-200", Obj::Raw({ let mut v = Vec::new(); for _ in 0..200 { v.extend_from_slice(b"[/Indexed "); } v.extend_from_slice(b"/DeviceGray"); for _ in 0..200 { v.extend_from_slice(b" 1 <0000>]"); } v }), vec![], &mut out);
    with_cs("cs-icc-alternate-self", arr(vec![name("ICCBased"), rf(4)]), vec![(4, stream(vec![("N", Obj::Int(3)), ("Alternate", arr(vec![name("ICCBased"), rf(4)]))], &[0; 8]))], &mut out);
    with_cs("cs-devicen-alt-loop", rf(4), vec![(4, arr(vec![name("DeviceN"), arr(vec![name("A")]), rf(4), rf(5)])), (5, dict(vec![("FunctionType", Obj::Int(2)), ("Domain", ints(&[0, 1])), ("N", Obj::Int(1))]))], &mut out);
    // --- fonts
    let with_font = |label: &str, font: Obj, extra: Vec<(u32, Obj)>, out: &mut Vec<(String, Vec<u8>)>| {
        let mut o = sk.clone(); o[2].1.set("Resources", dict(vec![("Font", dict(vec![("F", rf(4))]))])); o.push((4, font)); o.extend(extra);
        out.push((label.to_string(), mkpdf::simple_doc(&o, 1, vec![])));
    };
    for (fc, lc, n) in [(-1i64, 5i64, 3usize), (2147483647, 2147483647, 3), (5, 2, 3), (0, 0, 0), (0, 255, 100_000), (256, 300, 3)] {
        with_font(&format!("simple-font-fc{}-lc{}-n{}", fc, lc, n), dict(vec![("Type", name("Font")), ("Subtype", name("Type1")), ("BaseFont", name("X")), ("FirstChar", Obj::Int(fc)), ("LastChar", Obj::Int(lc)), ("Widths", ints(&vec![500; n]))]), vec![], &mut out);
    }
    for w in [vec![Obj::Int(0), Obj::Arr(vec![])], vec![Obj::Int(65535), ints(&[1, 2, 3])], vec![Obj::Int(1)], vec![Obj::Int(1), Obj::Int(2)], vec![Obj::Int(5), Obj::Int(1), Obj::Int(500)], vec![Obj::Int(0), Obj::Int(65535), Obj::Int(500)],
        vec![ints(&[1]), Obj::Int(2)], vec![Obj::Int(1), rf(6)], vec![Obj::Int(1), arr(vec![name("x")])], vec![Obj::Int(70000), ints(&[1])]] {
        let lab = format!("cid-w:{}", String::from_utf8_lossy(&mkpdf::obj_bytes(&Obj::Arr(w.clone()))));
        with_font(&lab, dict(vec![("Type", name("Font")), ("Subtype", name("Type0")), ("BaseFont", name("X")), ("Encoding", name("Identity-H")), ("DescendantFonts", arr(vec![rf(5)]))]),
            vec![(5, dict(vec![("Type", name("Font")), ("Subtype", name("CIDFontType2")), ("BaseFont", name("X")), ("CIDSystemInfo", dict(vec![("Registry", st("A")), ("Ordering", st("I")), ("Supplement", Obj::Int(0))])),
                ("FontDescriptor", rf(7)), ("W", Obj::Arr(w))])), (6, rf(6)), (7, dict(vec![("Type", name("FontDescriptor")), ("FontName", name("X")), ("Flags", Obj::Int(4)), ("FontBBox", ints(&[0, 0, 1, 1])), ("ItalicAngle", Obj::Int(0)), ("Ascent", Obj::Int(1)), ("Descent", Obj::Int(0)), ("CapHeight", Obj::Int(1)), ("StemV", Obj::Int(1))]))], &mut out);
    }
    // cycles that never pass through a typed load of an indirect object: the array object holds a direct font dictionary whose
    // /DescendantFonts is that array again; the same through a direct dictionary inside a dictionary
    with_font("type0-descendants-array-object-holds-direct-font-pointing-back", dict(vec![("Type", name("Font")), ("Subtype", name("Type0")), ("BaseFont", name("A")), ("Encoding", name("Identity-H")), ("DescendantFonts", rf(7))]),
        vec![(7, arr(vec![dict(vec![("Type", name("Font")), ("Subtype", name("Type0")), ("BaseFont", name("B")), ("Encoding", name("Identity-H")), ("DescendantFonts", rf(7))])]))], &mut out);
    with_font("type0-descendants-direct-font-whose-descendants-are-the-outer-array", dict(vec![("Type", name("Font")), ("Subtype", name("Type0")), ("BaseFont", name("A")), ("Encoding", name("Identity-H")),
        ("DescendantFonts", arr(vec![dict(vec![("Type", name("Font")), ("Subtype", name("Type0")), ("BaseFont", name("B")), ("Encoding", name("Identity-H")), ("DescendantFonts", rf(7))])]))]),
        vec![(7, arr(vec![dict(vec![("Type", name("Font")), ("Subtype", name("Type0")), ("BaseFont", name("C")), ("Encoding", name("Identity-H")), ("DescendantFonts", rf(7))])]))], &mut out);
    with_font("type0-descendant-self", dict(vec![("Type", name("Font")), ("Subtype", name("Type0")), ("BaseFont", name("X")), ("Encoding", name("Identity-H")), ("DescendantFonts", arr(vec![rf(4)]))]), vec![], &mut out);
    with_font("type0-no-descendants", dict(vec![("Type", name("Font")), ("Subtype", name("Type0")), ("BaseFont", name("X")), ("Encoding", name("Identity-H")), ("DescendantFonts", arr(vec![]))]), vec![], &mut out);
    for cmap in [&b"1 beginbfrange\n<0000> <FFFF> <0041>\nendbfrange"[..], b"1 beginbfrange\n<FFFF> <0000> <0041>\nendbfrange", b"1 beginbfrange\n<0000> <FFFF> [<0041>]\nendbfrange", b"1 beginbfchar\n<> <>\nendbfchar", b"1 beginbfchar\n<00010203040506> <D800>\nendbfchar",
        b"100000 beginbfchar\n<0001> <0041>\nendbfchar", b"1 beginbfrange\n<00> <FF> <D800>\nendbfrange", b"beginbfrange\n<0000> <0001>", b"1 beginbfrange <0000> <00FF> <FFFFFFFFFFFFFFFF> endbfrange", b"1 begincidrange\n<0000> <FFFF> 0\nendcidrange"] {
        with_font(&format!("tounicode:{}", String::from_utf8_lossy(&cmap[..cmap.len().min(40)]).replace('\n', " ")), dict(vec![("Type", name("Font")), ("Subtype", name("Type1")), ("BaseFont", name("X")), ("ToUnicode", rf(5))]), vec![(5, stream(vec![], cmap))], &mut out);
    }
    with_font("tounicode-ref-self-length", dict(vec![("Type", name("Font")), ("Subtype", name("Type1")), ("BaseFont", name("X")), ("ToUnicode", rf(4))]), vec![], &mut out);
    for diffs in [vec![Obj::Int(2147483647), name("a"), name("b")], vec![Obj::Int(-2147483648), name("a")], vec![name("a")], vec![Obj::Int(1), Obj::Int(2), Obj::Int(3)], vec![Obj::Real(1.5), name("a")]] {
        with_font(&format!("differences:{}", String::from_utf8_lossy(&mkpdf::obj_bytes(&Obj::Arr(diffs.clone())))), dict(vec![("Type", name("Font")), ("Subtype", name("Type1")), ("BaseFont", name("X")), ("Encoding", dict(vec![("Type", name("Encoding")), ("Differences", Obj::Arr(diffs))]))]), vec![], &mut out);
    }
    // --- page tree shapes
    for (label, kids, count) in [("pages-count-huge", vec![rf(3)], 2147483647i64), ("pages-count-negative", vec![rf(3)], -1), ("pages-kids-self", vec![rf(2)], 1), ("pages-kids-catalog", vec![rf(1)], 1), ("pages-kids-dup", vec![rf(3), rf(3), rf(3)], 3), ("pages-kids-missing", vec![rf(99)], 1)] {
        let mut o = sk.clone(); o[1].1.set("Kids", Obj::Arr(kids)); o[1].1.set("Count", Obj::Int(count));
        out.push((label.into(), mkpdf::simple_doc(&o, 1, vec![])));
    }
    { // intermediate nodes whose /Count values add up beyond 32 bits: [A B B A], A counts 1, B counts 2^31-1 (or 2^32-1)
        for (label, big) in [("pages-counts-sum-overflow-i32max", 2147483647i64), ("pages-counts-sum-overflow-u32max", 4294967295i64)] {
            let mut o = vec![(1, dict(vec![("Type", name("Catalog")), ("Pages", rf(2))])),
                (2, dict(vec![("Type", name("Pages")), ("Kids", arr(vec![rf(3), rf(4), rf(4), rf(3)])), ("Count", Obj::Int(4)), ("MediaBox", ints(&[0, 0, 1, 1]))])),
                (3, dict(vec![("Type", name("Pages")), ("Parent", rf(2)), ("Kids", arr(vec![rf(5)])), ("Count", Obj::Int(1))])),
                (4, dict(vec![("Type", name("Pages")), ("Parent", rf(2)), ("Kids", arr(vec![rf(5)])), ("Count", Obj::Int(big))])),
                (5, dict(vec![("Type", name("Page")), ("Parent", rf(3))]))];
            o.push((6, dict(vec![("Unused", Obj::Bool(true))])));
            out.push((label.into(), mkpdf::simple_doc(&o, 1, vec![])));
        }
    }
    { // a chain of 40 intermediate nodes (deeper than the supported depth)
        let mut o = vec![(1, dict(vec![("Type", name("Catalog")), ("Pages", rf(2))]))];
        for k in 0..40u32 { o.push((2 + k, dict(vec![("Type", name("Pages")), ("Kids", arr(vec![rf(3 + k)])), ("Count", Obj::Int(1)), ("Parent", rf(if k == 0 { 2 } else { 1 + k }))]))); }
        o.push((42, dict(vec![("Type", name("Page")), ("Parent", rf(41)), ("MediaBox", ints(&[0, 0, 1, 1]))])));
        out.push(("pages-chain-40".into(), mkpdf::simple_doc(&o, 1, vec![])));
    }
    { // catalog that is its own page tree / outlines / names
        let o = vec![(1, dict(vec![("Type", name("Catalog")), ("Pages", rf(1)), ("Outlines", rf(1)), ("Names", rf(1)), ("First", rf(1)), ("Next", rf(1)), ("Kids", arr(vec![rf(1)])), ("Count", Obj::Int(1)), ("Dests", rf(1)), ("PageLabels", rf(1)), ("AcroForm", rf(1)), ("Fields", arr(vec![rf(1)])), ("Metadata", rf(1))]))];
        out.push(("everything-is-object-1".into(), mkpdf::simple_doc(&o, 1, vec![])));
    }
    // --- header / trailer oddities
    out.push(("size-huge-classic".into(), base(vec![], vec![("Size", Obj::Int(2147483647))])));
    out.push(("root-not-a-ref".into(), { let mut b = base(vec![], vec![]); if let Some(p) = b.windows(11).position(|w| w == b"/Root 1 0 R") { b[p + 6..p + 11].copy_from_slice(b"null "); } b }));
    out.push(("startxref-huge".into(), { let mut b = base(vec![], vec![]); let p = b.windows(9).rposition(|w| w == b"startxref").unwrap(); b.truncate(p); b.extend_from_slice(b"startxref\n18446744073709551615\n%%EOF"); b }));
    out.push(("startxref-negative".into(), { let mut b = base(vec![], vec![]); let p = b.windows(9).rposition(|w| w == b"startxref").unwrap(); b.truncate(p); b.extend_from_slice(b"startxref\n-1\n%%EOF"); b }));
    out.push(("xref-count-huge".into(), { let mut b = base(vec![], vec![]); if let Some(p) = b.windows(9).position(|w| w == b"xref\n0 4\n") { b[p + 7] = b'9'; } b }));
    out.push(("header-only".into(), b"%PDF-1.7\n".to_vec()));
    out.push(("startxref-only".into(), b"%PDF-1.7\nstartxref\n0\n%%EOF".to_vec()));
    out
}

/// Case table: [single-ref re-pointings] ++ [single boundary numbers] ++ [specials] ++ seeded pairs.
pub struct Table { refs: Vec<(usize, richdoc::Path)>, nums: Vec<(usize, richdoc::Path)>, targets: Vec<u32>, specials: Vec<(String, Vec<u8>)>, arrays: Vec<(usize, richdoc::Path)>, pub n_ref: u64, pub n_num: u64, pub n_spec: u64, pub n_arr: u64, pub n_wrap: u64 }
pub fn table() -> Table {
    let (refs, nums) = sites();
    let mut targets: Vec<u32> = richdoc::objects().iter().map(|(n, _)| *n).collect();
    targets.extend([0, 9999]);
    let specials = specials();
    let arrays = array_sites();
    let (n_ref, n_num, n_spec, n_arr) = (refs.len() as u64 * targets.len() as u64, nums.len() as u64 * 14, specials.len() as u64 * 4, arrays.len() as u64 * 5);
    let n_wrap = refs.len() as u64 * 2;
    Table { refs, nums, targets, specials, arrays, n_ref, n_num, n_spec, n_arr, n_wrap }
}
impl Table {
    pub fn enumerated(&self) -> u64 { self.n_ref + self.n_num + self.n_spec + self.n_arr + self.n_wrap }
    pub fn case(&self, seed: u64, idx: u64, all_combos: bool) -> Case {
        // idx -> (base case, layout/cfg combination)
        let e = self.enumerated();
        let (base, combo) = if all_combos { (idx / 12, idx % 12) } else { (idx, (idx.wrapping_mul(7) + idx / 13) % 12) };
        let layout = LAYOUTS[(combo % 3) as usize];
        let cfg = CFGS[(combo / 3) as usize];
        let mut objs = richdoc::objects();
        if base < self.n_ref {
            let (oi, p) = &self.refs[(base / self.targets.len() as u64) as usize];
            let t = self.targets[(base % self.targets.len() as u64) as usize];
            let lab = format!("ref:obj{}.{}->{}", objs[*oi].0, richdoc::path_label(&objs[*oi].1, p), if t == objs[*oi].0 { "self".into() } else { t.to_string() });
            *richdoc::node_mut(&mut objs[*oi].1, p) = Obj::Ref(t, 0);
            Case { bytes: richdoc::write(&objs, layout, b""), password: vec![], cfg, labels: lab, deep: false }
        } else if base < self.n_ref + self.n_num {
            let b = base - self.n_ref;
            let (oi, p) = &self.nums[(b / 14) as usize];
            let v = richdoc::boundary_obj((b % 14) as usize);
            let lab = format!("num:obj{}.{}={}", objs[*oi].0, richdoc::path_label(&objs[*oi].1, p), String::from_utf8_lossy(&mkpdf::obj_bytes(&v)));
            *richdoc::node_mut(&mut objs[*oi].1, p) = v;
            Case { bytes: richdoc::write(&objs, layout, b""), password: vec![], cfg, labels: lab, deep: false }
        } else if base >= self.n_ref + self.n_num + self.n_spec + self.n_arr && base < e {
            // cycles that pass through no typed load of an indirect object: the reference field is pointed at a new object that
            // holds a DIRECT copy of the referring object (in an array, or as the dictionary itself), whose same field points
            // at the new object again
            let b = base - self.n_ref - self.n_num - self.n_spec - self.n_arr;
            let (oi, p) = &self.refs[(b / 2) as usize];
            let as_array = b % 2 == 0;
            let lab = format!("wrap:obj{}.{}:{}", objs[*oi].0, richdoc::path_label(&objs[*oi].1, p), if as_array { "array-holding-direct-copy" } else { "direct-copy" });
            let new_nr = 9000u32;
            *richdoc::node_mut(&mut objs[*oi].1, p) = Obj::Ref(new_nr, 0);
            let mut copy = objs[*oi].1.clone();
            if let Obj::Stream(d, _) = copy { copy = Obj::Dict(d); }
            objs.push((new_nr, if as_array { Obj::Arr(vec![copy]) } else { copy }));
            Case { bytes: richdoc::write(&objs, layout, b""), password: vec![], cfg, labels: lab, deep: false }
        } else if base >= self.n_ref + self.n_num + self.n_spec && base < self.n_ref + self.n_num + self.n_spec + self.n_arr {
            // every array-valued field with an unexpected number of elements
            let b = base - self.n_ref - self.n_num - self.n_spec;
            let (oi, p) = &self.arrays[(b / 5) as usize];
            let k = (b % 5) as usize;
            let lab = format!("arr:obj{}.{}:{}", objs[*oi].0, richdoc::path_label(&objs[*oi].1, p), richdoc::ARRAY_EDITS[k]);
            richdoc::edit_array(richdoc::node_mut(&mut objs[*oi].1, p), k);
            Case { bytes: richdoc::write(&objs, layout, b""), password: vec![], cfg, labels: lab, deep: false }
        } else if base < e {
            let b = base - self.n_ref - self.n_num;
            let (lab, bytes) = &self.specials[(b / 4) as usize];
            Case { bytes: bytes.clone(), password: vec![], cfg: CFGS[(b % 4) as usize], labels: format!("special:{}", lab), deep: true }
        } else {
            // seeded combinations of 2-4 mutations
            let mut s = Src::fresh(Rng::derive(seed, 14, base));
            let n = 2 + s.draw(3);
            let labs: Vec<String> = (0..n).map(|_| richdoc::mutate(&mut objs, &mut s)).collect();
            Case { bytes: richdoc::write(&objs, layout, b""), password: vec![], cfg, labels: format!("combo:{}", labs.join(";")), deep: false }
        }
    }
}

pub fn worker(tier: Tier, seed: u64) -> CaseFn<'static> {
    let t = table();
    let all = tier == Tier::Thorough;
    Box::new(move |idx, out, counters| {
        let c = t.case(seed, idx, all);
        exec_case("C14", idx, &c, out, counters);
    })
}

pub fn run(run: &Run) {
    let t = table();
    let all = !run.quick();
    run.rule("exhaustive single-site hostile edits of a rich well-formed document (every reference-valued field re-pointed to every object incl. itself, 0 and an undefined number; every numeric field set to each of 14 boundary values {-1,0,1,2,255,256,65535,65536,2^31-1,-2^31,2^32-1,2^64-1,-0.5,1e26}), hand-written file-structure attacks (/Prev loops, /Length reference cycles, object streams containing themselves / bad N, First, Extends, xref-stream W/Index/Size extremes, nesting 19..100000, /Encrypt parameter extremes, predictor/CCITT/DCT geometry, filter chains, decompression bombs, PostScript/sampled functions, colour-space loops, font width/ToUnicode/Differences extremes, page-tree loops) and seeded 2-4 edit combinations; all syntactically valid; each case: C01's load+walk in a child process under panic monitor and CPU/allocation budgets. quick: one (layout, configuration) per enumerated case; thorough: all 12. distinct_nontrivial = distinct files on which > 30 library calls ran");
    run.assume("same walker and budgets as C01");
    let e = t.enumerated();
    let n = if all { e * 12 + run.n(0, 600_000) } else { e + run.n(15_000, 0) };
    run.add("enumerated_ref_repointings", t.n_ref);
    run.add("enumerated_boundary_numbers", t.n_num);
    run.add("special_documents_x4cfg", t.n_spec);
    run.add("array_length_edits", t.n_arr);
    run.add("wrap_cycles", t.n_wrap);
    run.exhaustive("single reference re-pointing x all targets; single numeric field x 14 boundary values; special documents x 4 configurations", true);
    let seed = run.seed;
    crate::sup::run_cases(run, "C14", n, 50, &|idx| {
        let c = t.case(seed, idx, all);
        let path = format!("{}/replay/C14-input-{}.pdf", crate::run::verif_root(), idx);
        let _ = std::fs::create_dir_all(format!("{}/replay", crate::run::verif_root()));
        let _ = std::fs::write(&path, &c.bytes);
        (c.labels.clone(), json!({"labels": c.labels, "cfg": c.cfg.name(), "input_file": path, "idx": idx}))
    });
    if all {
        if let Some(exe) = crate::lanes::build(run, "asan") {
            let m = e * 12;
            crate::sup::run_cases_lane(run, "C14", 0, m, 50, &|idx| { let c = t.case(seed, idx, all); (c.labels.clone(), json!({"labels": c.labels, "cfg": c.cfg.name(), "idx": idx})) }, &crate::lanes::env_for("asan", &exe), "asan");
            run.add("asan_lane_cases", m);
        }
    }
    let _: Option<Value> = None;
}
