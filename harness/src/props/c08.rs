//! C08 — content-stream operators round-trip and mean what the operator table says.
//!
//! Part A: generated `Op` sequences (all variants the serializer accepts, boundary operands, shorthand triggers):
//!         `parse_ops(serialize_ops(s))` must equal `s`. Failing sequences are taken apart at operation level
//!         (operations failing on their own, then minimal failing sub-sequences of the rest) so that every
//!         independent cause in one sequence is seen, and each is minimised before the signature is computed.
//! Part B: every operator keyword of ISO 32000-1 Table A.1 printed by an own printer with well-formed operands;
//!         singles are compared with a reference interpreter written from the specification
//!         (`refimpl::c08_content`), ordered pairs are checked for non-interference
//!         (parse(a·b) == parse(a) ++ parse(b), the current point for `v` excepted), chains of path operators
//!         check the current point after `h` / `re`.
use crate::opsgen::{self, features, is_strict_subsequence, minimise_ops, op_eq, ops_hash, repr_eq, show_ops, show_repr, to_repr, Repr, Val};
use crate::panicmon::guard;
use crate::par::par_chunks;
use crate::refimpl::c08_content::{interpret, Interp, RObj};
use crate::rng::{fnv, Rng};
use crate::run::{show, Run};
use crate::tape::Src;
use pdf::content::{parse_ops, serialize_ops, Op};
use pdf::object::NoResolve;
use serde_json::{json, Value};
use std::collections::{BTreeMap, HashSet};

// ------------------------------------------------------------------------------------------------
// library access
// ------------------------------------------------------------------------------------------------

/// parse with the library; Err = (outcome class, description)
fn lib_parse(text: &[u8]) -> Result<Vec<Op>, (String, String)> {
    match guard(|| parse_ops(text, &NoResolve)) {
        Err(p) => Err((p.signature(), format!("parse_ops panicked: {}", p.describe()))),
        Ok(Err(e)) => Err(("parse-error".into(), format!("parse_ops returned an error: {}", e))),
        Ok(Ok(v)) => Ok(v),
    }
}
fn lib_parse_reprs(text: &[u8]) -> Result<Vec<Repr>, (String, String)> { lib_parse(text).map(|v| v.iter().map(to_repr).collect()) }

enum Rt {
    Pass,
    /// serializer returned Err: the sequence is outside the domain ("that the serializer accepts")
    Rejected,
    Fail { class: String, detail: String, text: Vec<u8>, parsed: Option<Vec<String>> },
}

fn roundtrip(ops: &[Op]) -> Rt {
    let text = match guard(|| serialize_ops(ops)) {
        Err(p) => return Rt::Fail { class: p.signature(), detail: format!("serialize_ops panicked: {}", p.describe()), text: vec![], parsed: None },
        Ok(Err(_)) => return Rt::Rejected,
        Ok(Ok(t)) => t,
    };
    match lib_parse(&text) {
        Err((class, detail)) => Rt::Fail { class, detail, text, parsed: None },
        Ok(back) => match opsgen::ops_equal(ops, &back) {
            Ok(()) => Rt::Pass,
            Err(diff) => {
                let a: Vec<Repr> = ops.iter().map(to_repr).collect();
                let b: Vec<Repr> = back.iter().map(to_repr).collect();
                let class = if is_strict_subsequence(&b, &a) { "dropped-op" } else { "wrong-ops" };
                Rt::Fail { class: class.into(), detail: diff, text, parsed: Some(show_ops(&back)) }
            }
        },
    }
}
fn rt_fails(ops: &[Op]) -> bool { matches!(roundtrip(ops), Rt::Fail { .. }) }

// ------------------------------------------------------------------------------------------------
// Part A
// ------------------------------------------------------------------------------------------------

/// removal-only delta debugging over indices
fn minimal_indices(ops: &[Op], fails: &dyn Fn(&[Op]) -> bool) -> Vec<usize> {
    let mut idx: Vec<usize> = (0..ops.len()).collect();
    let build = |idx: &[usize]| -> Vec<Op> { idx.iter().map(|i| ops[*i].clone()).collect() };
    let mut k = (idx.len() / 2).max(1);
    loop {
        let mut i = 0;
        while i + k <= idx.len() && idx.len() > 1 {
            let mut cand = idx.clone();
            cand.drain(i..i + k);
            if !cand.is_empty() && fails(&build(&cand)) { idx = cand; } else { i += k; }
        }
        if k == 1 {
            // one more pass at granularity 1 until stable
            let mut again = false;
            let mut i = 0;
            while i < idx.len() && idx.len() > 1 {
                let mut cand = idx.clone();
                cand.remove(i);
                if fails(&build(&cand)) { idx = cand; again = true; } else { i += 1; }
            }
            if !again { break; }
        } else { k /= 2; }
    }
    idx
}

/// For a single failing operation whose remaining exotic value is the whole story — the same value in the plainest
/// operation able to carry it fails as well — the kind is not part of the cause. Returns the carrier's outcome class.
fn generic_value_cause(op: &Op) -> Option<String> {
    use pdf::primitive::Primitive;
    let r = to_repr(op);
    let mut class: Option<String> = None;
    for v in &r.f {
        let leaves: Vec<Val> = match v { Val::List(l) => l.clone(), o => vec![o.clone()] };
        for leaf in leaves {
            let single = [Repr { kind: "x", f: vec![leaf.clone()] }];
            if features(&single).is_empty() { continue; }
            let carrier = match &leaf {
                Val::Num(x) | Val::Prim(Primitive::Number(x)) => Op::LineWidth { width: *x },
                Val::Name(s) => Op::GraphicsState { name: s.as_str().into() },
                Val::Prim(Primitive::Name(s)) => Op::GraphicsState { name: s.as_str().into() },
                Val::Str(b) => Op::TextDraw { text: opsgen::pdf_string(b) },
                Val::Prim(Primitive::String(s)) => Op::TextDraw { text: s.clone() },
                Val::Prim(p) => Op::BeginMarkedContent { tag: "A".into(), properties: Some(p.clone()) },
                _ => return None,
            };
            match roundtrip(&[carrier]) { Rt::Fail { class: c, .. } => { if class.is_none() { class = Some(c); } } _ => return None }
        }
    }
    class
}

fn report_a(run: &Run, minimal: &[Op], original_len: usize) {
    let Rt::Fail { class, detail, text, parsed } = roundtrip(minimal) else { run.inconclusive("C08/A: minimised case no longer fails".into()); return };
    let generic = if minimal.len() == 1 { generic_value_cause(&minimal[0]) } else { None };
    let sig = match &generic {
        Some(c) => format!("C08|A|{}|{}", opsgen::label_set(minimal, false), c),
        None => format!("C08|A|{}|{}", opsgen::label_set(minimal, true), class),
    };
    run.count("A:failing_minimal_cases");
    if run.has_violation(&sig) { run.violation(&sig, "", Value::Null); return; }
    run.violation(&sig, &format!("parse_ops(serialize_ops(ops)) != ops: {}", detail), json!({
        "part": "A", "ops": show_ops(minimal), "serialized": show(&text), "parsed_back": parsed, "difference": detail,
        "outcome_class_of_this_case": class, "original_sequence_len": original_len,
    }));
}

fn check_sequence(run: &Run, ops: &[Op], local: &mut BTreeMap<String, u64>) {
    match roundtrip(ops) {
        Rt::Pass => { *local.entry("A:sequences_pass".into()).or_insert(0) += 1; return; }
        Rt::Rejected => { *local.entry("A:sequences_rejected_by_serializer".into()).or_insert(0) += 1; return; }
        Rt::Fail { text, .. } => { count_shorthands(&text, local); }
    }
    *local.entry("A:sequences_fail".into()).or_insert(0) += 1;
    // 1. operations that fail on their own
    let mut rest: Vec<Op> = Vec::new();
    let mut seen_single: HashSet<String> = HashSet::new();
    for op in ops {
        if rt_fails(std::slice::from_ref(op)) {
            let pre = format!("{}|{:?}", opsgen::op_kind(op), features(&[to_repr(op)]));
            if seen_single.insert(pre) {
                let m = minimise_ops(std::slice::from_ref(op), rt_fails, 400);
                report_a(run, &m, ops.len());
            }
        } else { rest.push(op.clone()); }
    }
    // 2. interactions among the rest (every operation of `rest` round-trips on its own)
    *local.entry("A:remainders_tested".into()).or_insert(0) += 1;
    *local.entry("A:remainder_ops".into()).or_insert(0) += rest.len() as u64;
    if !rt_fails(&rest) { *local.entry("A:remainders_pass".into()).or_insert(0) += 1; }
    for _ in 0..8 {
        if rest.is_empty() || !rt_fails(&rest) { break; }
        let idx = minimal_indices(&rest, &rt_fails);
        let sub: Vec<Op> = idx.iter().map(|i| rest[*i].clone()).collect();
        let m = minimise_ops(&sub, rt_fails, 1500);
        report_a(run, &m, ops.len());
        let drop: HashSet<usize> = idx.into_iter().collect();
        rest = rest.into_iter().enumerate().filter(|(i, _)| !drop.contains(i)).map(|(_, o)| o).collect();
    }
}

const SHORTHANDS: [&str; 8] = ["s", "b", "b*", "'", "\"", "TD", "v", "y"];
fn count_shorthands(text: &[u8], local: &mut BTreeMap<String, u64>) {
    for line in text.split(|b| *b == b'\n') {
        let tok = line.rsplit(|b| *b == b' ').next().unwrap_or(b"");
        if let Ok(t) = std::str::from_utf8(tok) {
            if SHORTHANDS.contains(&t) { *local.entry(format!("A:written:{}", t)).or_insert(0) += 1; }
        }
    }
}

fn part_a(run: &Run) {
    let n = run.n(30_000, 12_000_000);
    par_chunks(n, 500, |lo, hi| {
        let mut local: BTreeMap<String, u64> = BTreeMap::new();
        for i in lo..hi {
            let mut src = Src::fresh(Rng::derive(run.seed, 8, i));
            let ops = opsgen::gen_ops(&mut src, 40);
            run.eval();
            if !ops.is_empty() { run.nontrivial(ops_hash(&ops)); }
            for o in &ops { *local.entry(format!("A:kind:{}", opsgen::op_kind(o))).or_insert(0) += 1; }
            for l in &src.labels { if l.starts_with("pat:") || l.starts_with("c1=") || l.starts_with("c2=") { *local.entry(format!("A:{}", l)).or_insert(0) += 1; } }
            if let Rt::Pass = roundtrip(&ops) {
                // count shorthands of passing sequences too
                if let Ok(Ok(t)) = guard(|| serialize_ops(&ops)) { count_shorthands(&t, &mut local); }
                *local.entry("A:sequences_pass".into()).or_insert(0) += 1;
            } else {
                check_sequence(run, &ops, &mut local);
            }
            if i < 3 {
                let text = guard(|| serialize_ops(&ops)).ok().and_then(|r| r.ok()).unwrap_or_default();
                run.sample(json!({"part": "A", "ops": show_ops(&ops[..ops.len().min(6)]), "n_ops": ops.len(), "serialized": show(&text[..text.len().min(160)])}));
            }
        }
        for (k, v) in local { run.add(&k, v); }
    });
}

// ------------------------------------------------------------------------------------------------
// Part B: own printer
// ------------------------------------------------------------------------------------------------

/// the 73 operator keywords of Table A.1; BI, ID and EI form one unit (an inline image)
const UNITS: [&str; 71] = [
    "b", "B", "b*", "B*", "BDC", "BI", "BMC", "BT", "BX", "c", "cm", "CS", "cs", "d", "d0", "d1", "Do", "DP", "EMC", "ET", "EX",
    "f", "F", "f*", "G", "g", "gs", "h", "i", "j", "J", "K", "k", "l", "m", "M", "MP", "n", "q", "Q", "re", "RG", "rg", "ri", "s", "S",
    "SC", "sc", "SCN", "scn", "sh", "T*", "Tc", "Td", "TD", "Tf", "Tj", "TJ", "TL", "Tm", "Tr", "Ts", "Tw", "Tz", "v", "w", "W", "W*", "y", "'", "\"",
];

struct BGen<'a> {
    src: &'a mut Src,
    used: HashSet<i64>,
    ctr: u32,
    /// labelled edge choices taken (they become part of the operator key of a signature)
    edge: Vec<&'static str>,
    /// no edge choices at all (pairs and chains test interference, not the edges of single operators)
    plain: bool,
}

impl<'a> BGen<'a> {
    fn new(src: &'a mut Src, plain: bool) -> Self { BGen { src, used: HashSet::new(), ctr: 0, edge: Vec::new(), plain } }
    /// a number not used before in this text: (spelling, value)
    fn num(&mut self) -> (String, RObj) {
        let mut k: i64 = match self.src.draw(4) {
            0 | 1 => self.src.range(0, 999) * 1000,
            2 => self.src.range(0, 9999) * 100,
            _ => self.src.range(1, 99999) * [1i64, 5, 25, 125][self.src.draw(4) as usize] % 1_000_000,
        };
        if self.src.draw(3) == 2 { k = -k; }
        while !self.used.insert(k) { k += 1000; }
        let a = k.abs();
        let mut s = String::new();
        if k < 0 { s.push('-'); }
        s.push_str(&format!("{}", a / 1000));
        if a % 1000 != 0 {
            let frac = format!("{:03}", a % 1000);
            s.push('.');
            s.push_str(frac.trim_end_matches('0'));
            let v: f32 = s.parse().unwrap();
            (s, RObj::Real(v))
        } else { (s, RObj::Int(k / 1000)) }
    }
    fn int(&mut self, lo: i64, hi: i64) -> (String, RObj) { let v = self.src.range(lo, hi); (format!("{}", v), RObj::Int(v)) }
    fn name(&mut self) -> (String, RObj) {
        self.ctr += 1;
        let p = *self.src.pick(&["F", "Im", "GS", "Sh", "P", "Cs", "Tag", "X.y", "a-b_c"]);
        let v = format!("{}{}", p, self.ctr);
        (format!("/{}", v), RObj::Name(v))
    }
    fn string(&mut self) -> (Vec<u8>, RObj) {
        self.ctr += 1;
        let base = format!("s{}", self.ctr).into_bytes();
        match self.src.draw(4) {
            0 => { let mut v = base.clone(); v.extend_from_slice(b" Hello"); let mut t = vec![b'(']; t.extend_from_slice(&v); t.push(b')'); (t, RObj::Str(v)) }
            1 => {
                // escapes: \( \) \\ octal, nested balanced parentheses
                let mut v = base.clone(); let mut t = vec![b'(']; t.extend_from_slice(&base);
                t.extend_from_slice(b"\\(");  v.push(b'(');
                t.extend_from_slice(b"(in)"); v.extend_from_slice(b"(in)");
                t.extend_from_slice(b"\\\\"); v.push(b'\\');
                t.extend_from_slice(b"\\053"); v.push(b'+');
                t.extend_from_slice(b"\\)");  v.push(b')');
                t.push(b')');
                (t, RObj::Str(v))
            }
            2 => {
                let mut v = base.clone(); v.push(0xe9); v.push(0x00); v.push(0xff);
                let mut t = vec![b'<']; for b in &v { t.extend_from_slice(format!("{:02X}", b).as_bytes()); } t.push(b'>');
                (t, RObj::Str(v))
            }
            _ => { let mut t = vec![b'(']; t.extend_from_slice(&base); t.push(b')'); (t, RObj::Str(base)) }
        }
    }
    fn props(&mut self) -> (Vec<u8>, RObj) {
        match self.src.draw(3) {
            0 => { let (t, v) = self.name(); (t.into_bytes(), v) }
            1 => { let (t, v) = self.int(0, 500); (format!("<</MCID {}>>", t).into_bytes(), RObj::Dict(vec![("MCID".into(), v)])) }
            _ => {
                let (t1, v1) = self.num(); let (t2, v2) = self.num(); let (ts, vs) = self.string(); let (tn, vn) = self.name();
                let mut t = format!("<< /Type {} /K [{} {}] /S ", tn, t1, t2).into_bytes();
                t.extend_from_slice(&ts); t.extend_from_slice(b" /V true >>");
                (t, RObj::Dict(vec![("Type".into(), vn), ("K".into(), RObj::Arr(vec![v1, v2])), ("S".into(), vs), ("V".into(), RObj::Bool(true))]))
            }
        }
    }
}

struct Unit {
    text: Vec<u8>,
    /// (operator, operands) the printer meant
    intent: Vec<(String, Vec<RObj>)>,
    /// intended picture of an inline image
    image: Option<Repr>,
    /// operator key for signatures: keyword plus labelled edge choices
    key: String,
}

fn join_args(parts: &[Vec<u8>], op: &str) -> Vec<u8> {
    let mut t = Vec::new();
    for p in parts { t.extend_from_slice(p); t.push(b' '); }
    t.extend_from_slice(op.as_bytes());
    t
}

fn emit(g: &mut BGen, op: &str) -> Unit {
    g.edge.clear();
    let mut parts: Vec<Vec<u8>> = Vec::new();
    let mut vals: Vec<RObj> = Vec::new();
    let mut image = None;
    macro_rules! nums { ($n:expr) => { for _ in 0..$n { let (t, v) = g.num(); parts.push(t.into_bytes()); vals.push(v); } } }
    macro_rules! name { () => { { let (t, v) = g.name(); parts.push(t.into_bytes()); vals.push(v); } } }
    macro_rules! string { () => { { let (t, v) = g.string(); parts.push(t); vals.push(v); } } }
    match op {
        "b" | "B" | "b*" | "B*" | "BT" | "BX" | "EMC" | "ET" | "EX" | "f" | "F" | "f*" | "h" | "n" | "q" | "Q" | "s" | "S" | "T*" | "W" | "W*" => {}
        "BDC" | "DP" => { name!(); let (t, v) = g.props(); parts.push(t); vals.push(v); }
        "BMC" | "MP" | "CS" | "cs" | "Do" | "gs" | "sh" => name!(),
        "c" | "cm" | "d1" | "Tm" => nums!(6),
        "K" | "k" | "re" | "v" | "y" => nums!(4),
        "RG" | "rg" => nums!(3),
        "d0" | "l" | "m" | "Td" | "TD" => nums!(2),
        "G" | "g" | "i" | "M" | "Tc" | "TL" | "Ts" | "Tw" | "Tz" | "w" => nums!(1),
        "d" => {
            let k = if g.src.draw(16) == 0 { g.edge.push("long-array"); *g.src.pick(&[31u32, 32, 33, 64, 65, 128, 300]) } else { g.src.draw(4) };
            let mut t = vec![b'[']; let mut a = Vec::new();
            for i in 0..k { let (s, v) = g.num(); if i > 0 { t.push(b' '); } t.extend_from_slice(s.as_bytes()); a.push(v); }
            t.push(b']');
            parts.push(t); vals.push(RObj::Arr(a));
            nums!(1);
        }
        "j" | "J" => { let (t, v) = g.int(0, 2); parts.push(t.into_bytes()); vals.push(v); }
        "Tr" => {
            let (t, v) = if g.src.draw(4) == 3 && !g.plain { g.edge.push("mode>=6"); g.int(6, 7) } else { g.int(0, 5) };
            parts.push(t.into_bytes()); vals.push(v);
        }
        "ri" => { let s = *g.src.pick(&["RelativeColorimetric", "AbsoluteColorimetric", "Perceptual", "Saturation"]); parts.push(format!("/{}", s).into_bytes()); vals.push(RObj::Name(s.into())); }
        "SC" | "sc" => { let k = *g.src.pick(&[1, 3, 4]); nums!(k); }
        "SCN" | "scn" => { let k = if g.src.draw(16) == 0 { g.edge.push("many-operands"); *g.src.pick(&[8u32, 31, 32, 33, 34, 63, 64, 65, 128, 300]) } else { g.src.draw(5) }; nums!(k); if k == 0 || g.src.draw(2) == 1 { name!(); } }
        "Tf" => { name!(); nums!(1); }
        "Tj" | "'" => string!(),
        "\"" => { nums!(2); string!(); }
        "TJ" => {
            let k = g.src.draw(5);
            let mut t = vec![b'[']; let mut a = Vec::new();
            let mut prev_str = false;
            for i in 0..k {
                let is_str = g.src.draw(2) == 0;
                // strings delimit themselves; two numbers need white space between them
                if i > 0 && (!(prev_str || is_str) || g.src.draw(2) == 0) { t.push(b' '); }
                if is_str { let (s, v) = g.string(); t.extend_from_slice(&s); a.push(v); }
                else { let (s, v) = g.num(); t.extend_from_slice(s.as_bytes()); a.push(v); }
                prev_str = is_str;
            }
            t.push(b']');
            parts.push(t); vals.push(RObj::Arr(a));
        }
        "BI" => {
            let (text, img) = emit_image(g);
            image = Some(img);
            let key = std::iter::once("BI").chain(g.edge.iter().copied()).collect::<Vec<_>>().join("+");
            return Unit { text, intent: vec![("BI".into(), vec![])], image, key };
        }
        other => panic!("C08: no printer for operator {}", other),
    }
    let key = std::iter::once(op).chain(g.edge.iter().copied()).collect::<Vec<_>>().join("+");
    Unit { text: join_args(&parts, op), intent: vec![(op.to_string(), vals)], image, key }
}

fn emit_image(g: &mut BGen) -> (Vec<u8>, Repr) {
    let w = g.src.range(1, 4); let h = g.src.range(1, 3);
    let abbr = g.src.draw(2) == 0;
    let k = |a: &'static str, f: &'static str| if abbr { a } else { f };
    let mask = g.src.draw(5) == 4;
    let interp = g.src.draw(4) == 3;
    let mut t = format!("BI /{} {} /{} {}", k("W", "Width"), w, k("H", "Height"), h);
    let (comps, bits, cs_name, bpc): (i64, i64, Option<&str>, Option<i64>) = if mask {
        t.push_str(&format!(" /{} true", k("IM", "ImageMask")));
        (1, 1, None, None)
    } else {
        let (cs_a, cs_f, comps) = *g.src.pick(&[("G", "DeviceGray", 1i64), ("RGB", "DeviceRGB", 3), ("CMYK", "DeviceCMYK", 4)]);
        let bits = *g.src.pick(&[8i64, 8, 4, 1]);
        t.push_str(&format!(" /{} /{} /{} {}", k("CS", "ColorSpace"), if abbr { cs_a } else { cs_f }, k("BPC", "BitsPerComponent"), bits));
        (comps, bits, Some(cs_f), Some(bits))
    };
    if interp { t.push_str(&format!(" /{} true", k("I", "Interpolate"))); }
    let len = (((w * comps * bits) + 7) / 8 * h) as usize;
    let mut data: Vec<u8> = (0..len).map(|_| g.src.byte()).collect();
    for b in data.iter_mut() { if *b == b'E' { *b = b'F'; } }
    let hex = g.src.draw(4) == 3 && !g.plain;
    let mut text;
    if hex {
        g.edge.push("AHx");
        t.push_str(&format!(" /{} /{}", k("F", "Filter"), k("AHx", "ASCIIHexDecode")));
        text = t.into_bytes();
        text.extend_from_slice(b" ID ");
        for b in &data { text.extend_from_slice(format!("{:02x}", b).as_bytes()); }
        text.push(b'>');
    } else {
        if g.src.draw(8) == 7 && !g.plain { *data.last_mut().unwrap() = b'\n'; }
        if g.plain && *data.last().unwrap() == b'\n' { *data.last_mut().unwrap() = b'n'; }
        if *data.last().unwrap() == b'\n' { g.edge.push("data-ends-lf"); }
        text = t.into_bytes();
        text.extend_from_slice(if g.src.draw(2) == 0 { b" ID " } else { b"\nID\n" });
        text.extend_from_slice(&data);
    }
    text.extend_from_slice(b"\nEI");
    let img = Repr { kind: "InlineImage", f: vec![
        Val::Num(w as f32), Val::Num(h as f32),
        match bpc { Some(b) => Val::Num(b as f32), None => Val::Absent },
        match cs_name { Some(c) => Val::Name(c.to_string()), None => Val::Absent },
        Val::Tag(if mask { "mask" } else { "nomask" }),
        Val::Tag(if interp { "interpolate" } else { "nointerpolate" }),
        Val::Str(data),
    ] };
    (text, img)
}

/// reference reading of a generated text; None (and an inconclusive record) when reference and printer disagree
fn reference(run: &Run, text: &[u8], intent: &[(String, Vec<RObj>)], images: &[&Repr]) -> Option<Interp> {
    let it = match interpret(text) {
        Ok(i) => i,
        Err(e) => { run.inconclusive(format!("C08/B: reference interpreter rejects generated text {:?}: {}", show(text), e)); return None; }
    };
    if it.trace.len() != intent.len() || it.trace.iter().zip(intent).any(|(a, b)| a.0 != b.0 || a.1 != b.1) {
        run.inconclusive(format!("C08/B: reference tokenisation differs from the printer's intent for {:?}: {:?} vs {:?}", show(text), it.trace, intent));
        return None;
    }
    let got: Vec<&Repr> = it.ops.iter().filter(|r| r.kind == "InlineImage").collect();
    if got.len() != images.len() || got.iter().zip(images).any(|(a, b)| !repr_eq(a, b)) {
        run.inconclusive(format!("C08/B: reference reads a different inline image than printed in {:?}", show(text)));
        return None;
    }
    Some(it)
}

/// expected (reference) picture with the "current point undefined" wildcard of `v` filled from the actual value
fn fill_wildcards(exp: &[Repr], act: &[Repr]) -> Vec<Repr> {
    let mut out = exp.to_vec();
    for (i, r) in out.iter_mut().enumerate() {
        if r.kind == "CurveTo" && matches!(r.f.get(0), Some(Val::Absent)) {
            if let Some(a) = act.get(i) { if a.kind == "CurveTo" { r.f[0] = a.f[0].clone(); r.f[1] = a.f[1].clone(); continue; } }
            r.f[0] = Val::Num(0.0); r.f[1] = Val::Num(0.0);
        }
    }
    out
}

/// compare library result with the reference; Err = (index of first difference, class, description)
fn compare_b(exp: &[Repr], act: &[Repr]) -> Result<(), (usize, &'static str, String)> {
    let exp = fill_wildcards(exp, act);
    match opsgen::reprs_equal(&exp, act) {
        Ok(()) => Ok(()),
        Err(d) => {
            let first = (0..exp.len().min(act.len())).find(|i| !repr_eq(&exp[*i], &act[*i])).unwrap_or(exp.len().min(act.len()));
            let class = if is_strict_subsequence(act, &exp) { "dropped-op" } else { "wrong-ops" };
            Err((first, class, d))
        }
    }
}
/// do two CurveTo pictures differ in the first control point only?
fn only_c1_differs(a: &Repr, b: &Repr) -> bool {
    a.kind == "CurveTo" && b.kind == "CurveTo" && a.f.len() == 6 && b.f.len() == 6
        && (2..6).all(|i| opsgen::val_eq(&a.f[i], &b.f[i])) && !(0..2).all(|i| opsgen::val_eq(&a.f[i], &b.f[i]))
}
fn shown(v: &[Repr]) -> Vec<String> { v.iter().map(show_repr).collect() }

fn single(run: &Run, op: &str, src: &mut Src, sample: bool) {
    let mut g = BGen::new(src, false);
    let u = emit(&mut g, op);
    let mut text = u.text.clone();
    text.push(b'\n');
    run.eval();
    run.nontrivial(fnv(&text));
    let Some(it) = reference(run, &text, &u.intent, &u.image.iter().collect::<Vec<_>>()) else { return };
    if sample { run.sample_cap(9, || json!({"part": "B", "text": show(&text), "expected": shown(&it.ops)})); }
    let wit = |act: Option<&[Repr]>, d: &str| json!({"part": "B", "text": show(&text), "expected": shown(&it.ops), "parsed": act.map(shown), "difference": d});
    match lib_parse_reprs(&text) {
        Err((class, d)) => run.violation(&format!("C08|B|{}|{}", u.key, class), &format!("operator {}: {}", op, d), wit(None, &d)),
        Ok(act) => if let Err((_, class, d)) = compare_b(&it.ops, &act) {
            run.violation(&format!("C08|B|{}|{}", u.key, class), &format!("operator {} does not parse to what the operator table defines: {}", op, d), wit(Some(&act), &d));
        }
    }
}

fn pair(run: &Run, a: &str, b: &str, src: &mut Src) {
    let mut g = BGen::new(src, true);
    let ua = emit(&mut g, a);
    let ub = emit(&mut g, b);
    let sep: &[u8] = if g.src.draw(3) == 2 { b" " } else { b"\n" };
    let mut ta = ua.text.clone(); ta.push(b'\n');
    let mut tb = ub.text.clone(); tb.push(b'\n');
    let mut tp = ua.text.clone(); tp.extend_from_slice(sep); tp.extend_from_slice(&ub.text); tp.push(b'\n');
    run.eval();
    run.nontrivial(fnv(&tp));
    let mut intent = ua.intent.clone(); intent.extend(ub.intent.iter().cloned());
    let images: Vec<&Repr> = ua.image.iter().chain(ub.image.iter()).collect();
    let Some(ep) = reference(run, &tp, &intent, &images) else { return };
    let Some(eb) = reference(run, &tb, &ub.intent, &ub.image.iter().collect::<Vec<_>>()) else { return };
    let (la, lb) = match (lib_parse_reprs(&ta), lib_parse_reprs(&tb)) { (Ok(x), Ok(y)) => (x, y), _ => { run.count("B:pair_skipped_single_fails_to_parse"); return; } };
    let wit = |act: Option<&[Repr]>, hom: Option<&[Repr]>, d: &str| json!({"part": "B", "text": show(&tp), "first_alone": show(&ta), "second_alone": show(&tb),
        "expected": shown(&ep.ops), "parsed_pair": act.map(shown), "parsed_first_alone_then_second_alone": hom.map(shown), "difference": d});
    let lp = match lib_parse_reprs(&tp) {
        Ok(v) => v,
        Err((class, d)) => { run.violation(&format!("C08|B|{} {}|{}", ua.key, ub.key, class), &format!("operators {} then {}: {}", a, b, d), wit(None, None, &d)); return; }
    };
    // what the pair must read as if the two operators do not interfere: parse(a) ++ parse(b); the only legitimate
    // dependence is the first control point of `v`, which is the current point left by the first operator
    let mut lb_ctx = lb.clone();
    let mut ctx_note = String::new();
    if b == "v" && lb_ctx.len() == 1 && eb.ops.len() == 1 && lb_ctx[0].kind == "CurveTo" {
        if let Some(last) = ep.ops.last() {
            if last.kind == "CurveTo" {
                match (&last.f[0], &last.f[1]) {
                    (Val::Num(_), Val::Num(_)) => { lb_ctx[0].f[0] = last.f[0].clone(); lb_ctx[0].f[1] = last.f[1].clone(); ctx_note = ep.origin.last().map(|o| o.cp_from.clone()).unwrap_or_default(); }
                    _ => if let Some(l) = lp.last() { if l.kind == "CurveTo" { lb_ctx[0].f[0] = l.f[0].clone(); lb_ctx[0].f[1] = l.f[1].clone(); } }
                }
            }
        }
    }
    let hom: Vec<Repr> = la.iter().cloned().chain(lb_ctx.iter().cloned()).collect();
    if opsgen::reprs_equal(&hom, &lp).is_ok() { return; }
    let d = opsgen::reprs_equal(&hom, &lp).unwrap_err();
    if lp.len() == hom.len() && !ctx_note.is_empty() && (0..hom.len() - 1).all(|i| repr_eq(&hom[i], &lp[i])) && only_c1_differs(&hom[hom.len() - 1], &lp[lp.len() - 1]) {
        run.violation(&format!("C08|B|v@{}|wrong-ops", ctx_note),
            &format!("v after {}: first control point is not the current point the specification defines: {}", ctx_note, d), wit(Some(&lp), Some(&hom), &d));
        return;
    }
    let a_part_same = lp.len() >= la.len() && (0..la.len()).all(|i| repr_eq(&la[i], &lp[i]));
    if a_part_same {
        run.violation(&format!("C08|B|{}|leaked-operand", ua.key),
            &format!("operator {} changes how the following operator ({}) is read: {}", a, b, d), wit(Some(&lp), Some(&hom), &d));
    } else {
        run.violation(&format!("C08|B|{} {}|wrong-ops", ua.key, ub.key),
            &format!("operators {} then {} read differently together than apart: {}", a, b, d), wit(Some(&lp), Some(&hom), &d));
    }
}

/// chains of path operators (current point per 8.5.2: moved by m l c v y, by re to its origin, by h to the start
/// of the subpath, undefined after painting) and a compatibility section
const CHAINS: [&[&str]; 14] = [
    &["m", "v"], &["m", "l", "v"], &["m", "c", "v"], &["m", "y", "v"], &["m", "v", "v"], &["re", "v"], &["m", "l", "h", "v"],
    &["re", "l", "h", "v"], &["m", "l", "S", "m", "v"], &["m", "w", "v"], &["m", "l", "h", "l", "v"], &["re", "re", "v"],
    &["m", "l", "h", "y", "v"], &["m", "q", "l", "Q", "v"],
];

fn chain(run: &Run, ops: &[&str], src: &mut Src) {
    let mut g = BGen::new(src, true);
    let mut text = Vec::new();
    let mut intent = Vec::new();
    for o in ops { let u = emit(&mut g, o); text.extend_from_slice(&u.text); text.push(b'\n'); intent.extend(u.intent); }
    run.eval();
    run.nontrivial(fnv(&text));
    let Some(it) = reference(run, &text, &intent, &[]) else { return };
    let key = ops.join(" ");
    let wit = |act: Option<&[Repr]>, d: &str| json!({"part": "B", "chain": key, "text": show(&text), "expected": shown(&it.ops), "parsed": act.map(shown), "difference": d});
    match lib_parse_reprs(&text) {
        Err((class, d)) => run.violation(&format!("C08|B|{}|{}", key, class), &d, wit(None, &d)),
        Ok(act) => if let Err((i, class, d)) = compare_b(&it.ops, &act) {
            let exp = fill_wildcards(&it.ops, &act);
            let org = it.origin.get(i);
            if let (Some(o), Some(e), Some(a)) = (org, exp.get(i), act.get(i)) {
                if o.operator == "v" && only_c1_differs(e, a) {
                    run.violation(&format!("C08|B|v@{}|wrong-ops", o.cp_from),
                        &format!("v after {}: first control point is not the current point the specification defines: {}", o.cp_from, d), wit(Some(&act), &d));
                    return;
                }
            }
            let opname = org.map(|o| o.operator.clone()).unwrap_or_else(|| key.clone());
            run.violation(&format!("C08|B|{}|{}", opname, class), &format!("chain {}: {}", key, d), wit(Some(&act), &d));
        }
    }
}

/// unknown operators inside BX … EX are ignored together with their operands (Table 32 / 7.8.2)
fn compat_section(run: &Run, src: &mut Src) {
    let mut g = BGen::new(src, true);
    let (n1, _) = g.num(); let (n2, _) = g.num(); let (nm, _) = g.name();
    let (w, wv) = g.num();
    let text = format!("BX\n{} {} {} xyzzy\nEX\n{} w\n", n1, nm, n2, w).into_bytes();
    run.eval();
    run.nontrivial(fnv(&text));
    let it = match interpret(&text) { Ok(i) => i, Err(e) => { run.inconclusive(format!("C08/B: reference rejects compat text: {}", e)); return; } };
    let _ = wv;
    match lib_parse_reprs(&text) {
        Err((class, d)) => run.violation(&format!("C08|B|BX unknown EX|{}", class), &d, json!({"text": show(&text)})),
        Ok(act) => if let Err((_, _, d)) = compare_b(&it.ops, &act) {
            run.violation("C08|B|BX|leaked-operand", &format!("unknown operator inside BX/EX is not skipped cleanly: {}", d),
                json!({"part": "B", "text": show(&text), "expected": shown(&it.ops), "parsed": shown(&act)}));
        }
    }
}

fn part_b(run: &Run) {
    let n_single = run.n(60, 2000);
    let n_pair = run.n(3, 60);
    let n_chain = run.n(200, 5000);
    let nu = UNITS.len() as u64;
    par_chunks(nu * n_single, 64, |lo, hi| for j in lo..hi {
        let (u, k) = ((j / n_single) as usize, j % n_single);
        let mut src = Src::fresh(Rng::derive(run.seed, 0x0801, (u as u64) << 32 | k));
        single(run, UNITS[u], &mut src, k == 0 && u % 9 == 4);
    });
    for u in UNITS { run.add(&format!("B:single:{}", u), n_single); }
    par_chunks(nu * nu * n_pair, 64, |lo, hi| for j in lo..hi {
        let (p, k) = (j / n_pair, j % n_pair);
        let (a, b) = ((p / nu) as usize, (p % nu) as usize);
        let mut src = Src::fresh(Rng::derive(run.seed, 0x0802, p << 16 | k));
        pair(run, UNITS[a], UNITS[b], &mut src);
    });
    run.add("B:ordered_pairs", nu * nu);
    run.add("B:pair_texts", nu * nu * n_pair);
    par_chunks(CHAINS.len() as u64 * n_chain, 64, |lo, hi| for j in lo..hi {
        let (c, k) = ((j / n_chain) as usize, j % n_chain);
        let mut src = Src::fresh(Rng::derive(run.seed, 0x0803, (c as u64) << 32 | k));
        chain(run, CHAINS[c], &mut src);
    });
    run.add("B:chain_texts", CHAINS.len() as u64 * n_chain);
    for k in 0..run.n(50, 500) {
        let mut src = Src::fresh(Rng::derive(run.seed, 0x0804, k));
        compat_section(run, &mut src);
    }
    run.exhaustive("operator keywords of ISO 32000-1 Table A.1 (73; BI/ID/EI as one unit), singly", true);
    run.exhaustive("ordered pairs of operator units (71 x 71)", true);
}

// ------------------------------------------------------------------------------------------------
// self test of the monitor (never a verdict about the library)
// ------------------------------------------------------------------------------------------------

fn self_test(run: &Run) {
    let mut bad: Vec<String> = Vec::new();
    // reference interpreter against hand-verified readings
    let table: [(&str, &[&str]); 16] = [
        ("1 2 m 3 4 l h S", &["MoveTo{1.0, 2.0}", "LineTo{3.0, 4.0}", "Close{}", "Stroke{}"]),
        ("1 2 m 3 4 5 6 v", &["MoveTo{1.0, 2.0}", "CurveTo{1.0, 2.0, 3.0, 4.0, 5.0, 6.0}"]),
        ("1 2 3 4 y", &["CurveTo{1.0, 2.0, 3.0, 4.0, 3.0, 4.0}"]),
        ("1 2 m 3 4 l h 5 6 7 8 v", &["MoveTo{1.0, 2.0}", "LineTo{3.0, 4.0}", "Close{}", "CurveTo{1.0, 2.0, 5.0, 6.0, 7.0, 8.0}"]),
        ("9 8 7 6 re 1 2 3 4 v", &["Rect{9.0, 8.0, 7.0, 6.0}", "CurveTo{9.0, 8.0, 1.0, 2.0, 3.0, 4.0}"]),
        ("3 -4.5 TD", &["Leading{4.5}", "MoveTextPosition{3.0, -4.5}"]),
        ("1 2 (a\\)b) \"", &["WordSpacing{1.0}", "CharSpacing{2.0}", "TextNewline{}", "TextDraw{(a)b)}"]),
        ("<4142> '", &["TextNewline{}", "TextDraw{(AB)}"]),
        ("b* s F", &["Close{}", "FillAndStroke{EvenOdd}", "Close{}", "Stroke{}", "Fill{NonZero}"]),
        ("/Sh1 sh /Perceptual ri", &["Shade{/\"Sh1\"}", "RenderingIntent{I.Perceptual}"]),
        ("[(a) -20 (b)] TJ", &["TextDrawAdjusted{[(a) -20.0 (b)]}"]),
        ("0.5 1 0 /P1 scn 1 0 0 SC", &["FillColor{Other, [real 0.5 int 1 int 0 /\"P1\"]}", "StrokeColor{Other, [int 1 int 0 int 0]}"]),
        ("1 0 d0 q 1 0 0 0 1 1 d1 Q", &["Save{}", "Restore{}"]),
        ("BX 1 2 frob EX 2 J", &["LineCap{C.Square}"]),
        ("/T <</MCID 3>> BDC /T2 MP EMC", &["BeginMarkedContent{/\"T\", <</\"MCID\" int 3 >>}", "MarkedContentPoint{/\"T2\", -}", "EndMarkedContent{}"]),
        ("BI /W 2 /H 1 /CS /G /BPC 8 ID ab\nEI q", &["InlineImage{2.0, 1.0, 8.0, /\"DeviceGray\", nomask, nointerpolate, (ab)}", "Save{}"]),
    ];
    for (text, want) in table {
        match interpret(text.as_bytes()) {
            Ok(it) => { let got = shown(&it.ops); if got.iter().map(|s| s.as_str()).collect::<Vec<_>>() != want.to_vec() { bad.push(format!("reference reads {:?} as {:?}, hand reading is {:?}", text, got, want)); } }
            Err(e) => bad.push(format!("reference rejects {:?}: {}", text, e)),
        }
    }
    // comparator
    use pdf::content::{Color, Point};
    use pdf::primitive::Primitive;
    let a = vec![Op::MoveTo { p: Point { x: 1.0, y: -0.0 } }, Op::FillColor { color: Color::Other(vec![Primitive::Number(3.0), Primitive::Name("P".into())]) }, Op::Stroke];
    let b = vec![Op::MoveTo { p: Point { x: 1.0, y: 0.0 } }, Op::FillColor { color: Color::Other(vec![Primitive::Integer(3), Primitive::Name("P".into())]) }, Op::Stroke];
    if opsgen::ops_equal(&a, &b).is_err() || opsgen::ops_digest(&a) != opsgen::ops_digest(&b) { bad.push("comparator: Integer(3) vs Number(3.0) / -0 vs 0 not treated as equal".into()); }
    let c = vec![Op::MoveTo { p: Point { x: 1.0, y: 0.5 } }, b[1].clone(), Op::Stroke];
    if opsgen::ops_equal(&a, &c).is_ok() || opsgen::ops_digest(&a) == opsgen::ops_digest(&c) { bad.push("comparator: different operand not noticed".into()); }
    if opsgen::ops_equal(&a, &a[..2]).is_ok() || !is_strict_subsequence(&[to_repr(&a[0]), to_repr(&a[2])], &a.iter().map(to_repr).collect::<Vec<_>>()) { bad.push("comparator: dropped operation not noticed".into()); }
    // doctored reader: drops Shade, swaps the operands of ", leaks an operand — the Part B comparison must fire
    let it = interpret(b"/S1 sh 1 2 (x) \" 3 4 5 sc").unwrap();
    let mut dropped = it.ops.clone(); dropped.remove(0);
    if !matches!(compare_b(&it.ops, &dropped), Err((_, "dropped-op", _))) { bad.push("doctored reader dropping sh not classified as dropped-op".into()); }
    let mut swapped = it.ops.clone(); swapped.swap(1, 2); swapped[1].kind = "WordSpacing"; swapped[2].kind = "CharSpacing";
    if !matches!(compare_b(&it.ops, &swapped), Err((1, "wrong-ops", _))) { bad.push("doctored reader swapping the operands of \" not noticed".into()); }
    // minimiser: predicate "contains a Shade and a Leading" must come out as exactly these two kinds
    let mut src = Src::fresh(Rng::new(77));
    let mut seq = opsgen::gen_ops_cfg(&mut src, 30, &opsgen::GenCfg::PLAIN);
    seq.insert(seq.len() / 2, Op::Shade { name: "Sh9".into() });
    seq.push(Op::Leading { leading: 12.5 });
    let pred = |o: &[Op]| o.iter().any(|x| matches!(x, Op::Shade { .. })) && o.iter().any(|x| matches!(x, Op::Leading { .. }));
    let m = minimise_ops(&seq, pred, 3000);
    if opsgen::label_set(&m, true) != "Leading+Shade" { bad.push(format!("minimiser: expected Leading+Shade, got {}", opsgen::label_set(&m, true))); }
    // generator → picture → operation is the identity
    let mut src = Src::fresh(Rng::new(78));
    let seq = opsgen::gen_ops(&mut src, 40);
    for o in &seq { match opsgen::from_repr(&to_repr(o)) { Some(o2) if op_eq(o, &o2) => {} _ => bad.push(format!("from_repr(to_repr(op)) != op for {}", opsgen::show_op(o))) } }
    for b in bad { run.inconclusive(format!("C08 self-test: {}", b)); }
    run.count("self_test_run");
}

pub fn run(run: &Run) {
    run.rule("A: tape-generated sequences of <= 40 Ops over all 44 serialisable variants (InlineImage excluded: serialize_ops has no code for it), finite operands incl. 0, -0, tiny, 2^24..2^31, >= 2^31, random bit patterns; names over regular, irregular and non-ASCII characters; strings over all bytes; property lists / colour operands as primitives; 40% of steps are shorthand-trigger patterns (Close+Stroke, Close+FillAndStroke, T*+Tj, Tw+Tc+T*+Tj and near misses, Leading+Td with ty=-l / tx=-l, curves whose c1 is the last point / the spec current point after re,h / c2 = p). Oracle: parse_ops(serialize_ops(s), NoResolve) structurally equals s (IEEE equality, Integer(n) == Number(n as f32), dictionary order ignored). B: each of the 73 operator keywords of ISO 32000-1 Table A.1 (BI/ID/EI one unit) printed with well-formed, pairwise distinct operands; singles compared with a reference interpreter written from the specification; every ordered pair must read as parse(first) ++ parse(second) (v takes its first control point from the current point); chains of path operators check the current point after h/re/painting. distinct_nontrivial = distinct non-empty sequences (A) and distinct texts (B).");
    run.assume("the reference interpreter harness/src/refimpl/c08_content.rs implements ISO 32000-1 operator semantics (self-tested on 16 hand-verified texts each run)");
    run.assume("serialize_ops returning Err means the sequence is not accepted (outside the domain); a panic is counted as a violation");
    run.assume("parse_ops is called with NoResolve, whose strict options have allow_invalid_ops = true: operator errors are swallowed, so a mis-read operator shows up as a missing or different operation, not as an error");
    self_test(run);
    part_b(run);
    part_a(run);
    // thorough: the same quick workload once more under the AddressSanitizer build (memory errors in the library or its dependencies)
    if !run.quick() { crate::lanes::asan_rerun(run); }
}
