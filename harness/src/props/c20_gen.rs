//! C20 — tape-driven generator of well-formed source documents for page import: shared resources between
//! pages, fonts shared between a page and a form XObject, one image under two names, nested forms, indirect and
//! inherited /Resources, inherited boxes / rotation, and page entries the importer copies verbatim (`other`):
//! scalars, dictionaries, references, shared references and REFERENCE CYCLES (labelled `cycle-…`).
//! Draw 0 is always the plainest alternative; every exotic alternative records a label.
use crate::mkpdf::{arr, dict, ints, name, rf, st, stream, Obj};
use crate::richdoc::{self, Layout};
use crate::tape::Src;

fn z(d: &[u8]) -> Vec<u8> { miniz_oxide::deflate::compress_to_vec_zlib(d, 6) }

pub struct GenDoc { pub bytes: Vec<u8>, pub n_pages: u32, pub page_objs: Vec<u32>, pub n_objs: u32 }

struct G { objs: Vec<(u32, Obj)>, next: u32 }
impl G {
    fn add(&mut self, o: Obj) -> u32 { let n = self.next; self.next += 1; self.objs.push((n, o)); n }
    fn reserve(&mut self) -> u32 { let n = self.next; self.next += 1; n }
    fn put(&mut self, n: u32, o: Obj) { self.objs.push((n, o)); }
}

fn d2(items: Vec<(String, Obj)>) -> Obj { Obj::Dict(items.into_iter().map(|(k, v)| (k.into_bytes(), v)).collect()) }

/// Build a document from the tape. Labels are recorded in `s.labels`.
pub fn gen(s: &mut Src) -> GenDoc {
    let mut g = G { objs: Vec::new(), next: 3 };
    let n_pages = 1 + s.draw(3);
    // ---------------------------------------------------------------- fonts
    let n_fonts = 1 + s.draw(2) as usize;
    let mut fonts: Vec<u32> = Vec::new();
    let mut shared_tounicode: Option<u32> = None;
    let mut shared_descriptor: Option<u32> = None;
    for i in 0..n_fonts {
        match s.alt(3, &["type1", "truetype-embedded", "type0-font"]) {
            0 => fonts.push(g.add(dict(vec![("Type", name("Font")), ("Subtype", name("Type1")), ("BaseFont", name(if i == 0 { "Helvetica" } else { "Times-Roman" })), ("Encoding", name("WinAnsiEncoding"))]))),
            k => {
                let share = i > 0 && shared_tounicode.is_some() && s.alt(1, &["own-font-streams", "shared-tounicode+descriptor"]) == 1;
                let (tu, fd) = if share { (shared_tounicode.unwrap(), shared_descriptor.unwrap()) } else {
                    let ff = g.add(stream(vec![("Length1", Obj::Int(16)), ("Filter", name("FlateDecode"))], &z(b"\0\x01\0\0\0\x01fake font")));
                    let fd = g.add(dict(vec![("Type", name("FontDescriptor")), ("FontName", name("ABCDEF+Test")), ("Flags", Obj::Int(32)), ("FontBBox", ints(&[0, -200, 1000, 800])), ("ItalicAngle", Obj::Int(0)), ("Ascent", Obj::Int(800)),
                        ("Descent", Obj::Int(-200)), ("CapHeight", Obj::Int(700)), ("StemV", Obj::Int(80)), ("FontFile2", rf(ff))]));
                    let tu = g.add(stream(vec![("Filter", name("FlateDecode"))], &z(richdoc::CMAP)));
                    (tu, fd)
                };
                shared_tounicode = Some(tu); shared_descriptor = Some(fd);
                if k == 1 {
                    fonts.push(g.add(dict(vec![("Type", name("Font")), ("Subtype", name("TrueType")), ("BaseFont", name("ABCDEF+Test")), ("FirstChar", Obj::Int(32)), ("LastChar", Obj::Int(35)),
                        ("Widths", ints(&[250, 300, 350, 400])), ("FontDescriptor", rf(fd)), ("ToUnicode", rf(tu)), ("Encoding", name("WinAnsiEncoding"))])));
                } else {
                    let cid_dict = dict(vec![("Type", name("Font")), ("Subtype", name("CIDFontType2")), ("BaseFont", name("Test")), ("CIDSystemInfo", dict(vec![("Registry", st("Adobe")), ("Ordering", st("Identity")), ("Supplement", Obj::Int(0))])),
                        ("FontDescriptor", rf(fd)), ("DW", Obj::Int(1000)), ("W", arr(vec![Obj::Int(1), arr(vec![Obj::Int(500), Obj::Real(600.5)])])), ("CIDToGIDMap", name("Identity"))]);
                    // the descendant font may be written inline: an array whose element is a direct dictionary that holds references
                    let desc = if s.alt(2, &["descendant-indirect", "descendant-inline"]) == 1 { cid_dict } else { rf(g.add(cid_dict)) };
                    fonts.push(g.add(dict(vec![("Type", name("Font")), ("Subtype", name("Type0")), ("BaseFont", name("Test-Identity-H")), ("Encoding", name("Identity-H")), ("DescendantFonts", arr(vec![desc])), ("ToUnicode", rf(tu))])));
                }
            }
        }
    }
    // ---------------------------------------------------------------- images
    let n_images = s.draw(3) as usize;
    let mut images: Vec<u32> = Vec::new();
    for _ in 0..n_images {
        let base = vec![("Type", name("XObject")), ("Subtype", name("Image")), ("Width", Obj::Int(2)), ("Height", Obj::Int(2)), ("BitsPerComponent", Obj::Int(8))];
        let img = match s.alt(3, &["image-rgb-raw", "image-gray", "image-cmyk", "image-flate-predictor", "image-smask", "image-indexed-cs", "image-icc-cs", "image-mask"]) {
            0 => { let mut d = base; d.push(("ColorSpace", name("DeviceRGB"))); stream(d, &[1, 2, 3, 4, 5, 6, 7, 8, 9, 10, 11, 12]) }
            1 => { let mut d = base; d.push(("ColorSpace", name("DeviceGray"))); stream(d, &[0, 85, 170, 255]) }
            2 => { let mut d = base; d.push(("ColorSpace", name("DeviceCMYK"))); stream(d, &[0u8; 16]) }
            3 => { let mut d = base; d.push(("ColorSpace", name("DeviceRGB"))); d.push(("Filter", name("FlateDecode"))); d.push(("DecodeParms", dict(vec![("Predictor", Obj::Int(12)), ("Colors", Obj::Int(3)), ("Columns", Obj::Int(2))])));
                stream(d, &z(&[2u8, 1, 2, 3, 4, 5, 6, 2, 0, 0, 0, 0, 0, 0])) }
            4 => { let sm = g.add(stream(vec![("Type", name("XObject")), ("Subtype", name("Image")), ("Width", Obj::Int(2)), ("Height", Obj::Int(2)), ("BitsPerComponent", Obj::Int(8)), ("ColorSpace", name("DeviceRGB"))], &[9u8; 12]));
                let mut d = base; d.push(("ColorSpace", name("DeviceRGB"))); d.push(("SMask", rf(sm))); stream(d, &[1, 2, 3, 4, 5, 6, 7, 8, 9, 10, 11, 12]) }
            5 => { let mut d = base; d.push(("ColorSpace", arr(vec![name("Indexed"), name("DeviceRGB"), Obj::Int(1), Obj::Str(vec![0, 0, 0, 255, 255, 255])]))); stream(d, &[0, 1, 1, 0]) }
            6 => { let icc = g.add(stream(vec![("N", Obj::Int(3)), ("Alternate", name("DeviceRGB")), ("Filter", name("FlateDecode"))], &z(&[0u8; 64])));
                let mut d = base; d.push(("ColorSpace", arr(vec![name("ICCBased"), rf(icc)]))); stream(d, &[1, 2, 3, 4, 5, 6, 7, 8, 9, 10, 11, 12]) }
            _ => stream(vec![("Type", name("XObject")), ("Subtype", name("Image")), ("Width", Obj::Int(8)), ("Height", Obj::Int(1)), ("BitsPerComponent", Obj::Int(1)), ("ImageMask", Obj::Bool(true))], &[0xa5]),
        };
        // entries the typed image model does not know (kept in its catch-all dictionary) that lead to other objects
        let img = match (img, s.alt(4, &["image-plain-entries", "image-unmodelled-ref-entry", "image-unmodelled-nested-ref"])) {
            (Obj::Stream(mut d, data), 1) => { let oc = g.add(dict(vec![("Type", name("OCG")), ("Name", st("image layer"))])); d.push((b"OC".to_vec(), rf(oc))); Obj::Stream(d, data) }
            (Obj::Stream(mut d, data), 2) => { let m = g.add(stream(vec![("Type", name("Metadata")), ("Subtype", name("XML"))], b"<x/>")); d.push((b"PieceInfo".to_vec(), dict(vec![("App", dict(vec![("Private", arr(vec![rf(m), Obj::Int(1)]))]))]))); Obj::Stream(d, data) }
            (o, _) => o,
        };
        images.push(g.add(img));
    }
    // ---------------------------------------------------------------- form XObjects
    let n_forms = s.draw(3) as usize;
    let mut forms: Vec<u32> = Vec::new();
    for i in 0..n_forms {
        let mut res: Vec<(&str, Obj)> = Vec::new();
        let mut content = String::from("q ");
        if s.alt(2, &["form-without-font", "font-in-form"]) == 1 { res.push(("Font", dict(vec![("FF", rf(fonts[0]))]))); content.push_str("BT /FF 9 Tf (form) Tj ET "); }
        let mut xo: Vec<(&str, Obj)> = Vec::new();
        if !images.is_empty() && s.alt(1, &["form-without-image", "image-in-form"]) == 1 { xo.push(("FI", rf(images[0]))); content.push_str("/FI Do "); }
        if i > 0 && s.alt(1, &["flat-form", "nested-forms"]) == 1 { xo.push(("FX", rf(forms[i - 1]))); content.push_str("/FX Do "); }
        if !xo.is_empty() { res.push(("XObject", dict(xo))); }
        content.push_str("0 0 5 5 re f Q");
        let resources = match s.alt(2, &["form-direct-resources", "form-indirect-resources", "form-no-resources"]) { 0 => Some(dict(res)), 1 => Some(rf(g.add(dict(res)))), _ => if res.is_empty() { None } else { Some(dict(res)) } };
        let mut d = vec![("Type", name("XObject")), ("Subtype", name("Form")), ("BBox", ints(&[0, 0, 10, 10]))];
        if let Some(r) = resources { d.push(("Resources", r)); }
        if s.alt(3, &["form-no-matrix", "form-matrix"]) == 1 { d.push(("Matrix", ints(&[1, 0, 0, 1, 2, 3]))); }
        if s.alt(4, &["form-no-group", "form-group"]) == 1 { d.push(("Group", dict(vec![("S", name("Transparency")), ("CS", name("DeviceRGB"))]))); }
        if s.alt(5, &["form-plain-entries", "form-unmodelled-ref-entry"]) == 1 { let oc = g.add(dict(vec![("Type", name("OCG")), ("Name", st("form layer"))])); d.push(("OC", rf(oc))); d.push(("StructParents", Obj::Int(4))); }
        forms.push(g.add(stream(d, content.as_bytes())));
    }
    // ---------------------------------------------------------------- graphics state
    let gs: Option<Obj> = match s.alt(3, &["no-gs", "gs-plain", "gs-indirect", "gs-font", "gs-font-other-font", "gs-unmodelled-ref-entry"]) {
        0 => None,
        1 => Some(dict(vec![("Type", name("ExtGState")), ("LW", Obj::Int(2)), ("CA", Obj::Real(0.5))])),
        2 => Some(rf(g.add(dict(vec![("Type", name("ExtGState")), ("LW", Obj::Real(1.5)), ("ca", Obj::Real(0.25)), ("BM", name("Multiply"))])))),
        3 => Some(dict(vec![("Type", name("ExtGState")), ("Font", arr(vec![rf(fonts[0]), Obj::Int(12)]))])),
        5 => { let tr = g.add(dict(vec![("FunctionType", Obj::Int(2)), ("Domain", ints(&[0, 1])), ("C0", ints(&[0])), ("C1", ints(&[1])), ("N", Obj::Int(1))]));
               Some(dict(vec![("Type", name("ExtGState")), ("LW", Obj::Int(3)), ("TR2", rf(tr)), ("HT", name("Default"))])) }
        _ => Some(dict(vec![("Type", name("ExtGState")), ("Font", arr(vec![rf(*fonts.last().unwrap()), Obj::Int(7)]))])),
    };
    // ---------------------------------------------------------------- resource kinds beyond fonts / XObjects / ExtGState
    let extra = s.alt(5, &["no-extra-resource", "named-colorspace", "pattern-fill", "shading-op", "properties-name", "inline-image", "pattern-fill-own-resources", "separation-colorspace-first-page", "unreadable-xobject-first-page", "uncoloured-pattern-fill"]);
    let mut extra_res: Vec<(&str, Obj)> = Vec::new();
    let mut extra_ops = String::new();
    let mut bad_xo: Option<u32> = None;
    match extra {
        1 => { extra_res.push(("ColorSpace", dict(vec![("C0", arr(vec![name("CalRGB"), dict(vec![("WhitePoint", arr(vec![Obj::Real(0.9505), Obj::Int(1), Obj::Real(1.089)]))])]))]))); extra_ops.push_str("/C0 cs 0.5 0.5 0.5 sc 0 0 3 3 re f "); }
        2 => {
            let pres = g.add(dict(vec![]));
            let p = g.add(stream(vec![("Type", name("Pattern")), ("PatternType", Obj::Int(1)), ("PaintType", Obj::Int(1)), ("TilingType", Obj::Int(1)), ("BBox", ints(&[0, 0, 5, 5])), ("XStep", Obj::Int(5)), ("YStep", Obj::Int(5)), ("Resources", rf(pres))], b"0 0 5 5 re f"));
            extra_res.push(("Pattern", dict(vec![("P0", rf(p))]))); extra_ops.push_str("/Pattern cs /P0 scn 0 0 3 3 re f ");
        }
        6 => {
            // a tiling pattern whose content uses its own resources (one used graphics state, one unused entry)
            let pgs = g.add(dict(vec![("Type", name("ExtGState")), ("LW", Obj::Real(2.5)), ("CA", Obj::Real(0.5))]));
            let pres = g.add(dict(vec![("ExtGState", dict(vec![("G9", rf(pgs)), ("G8", dict(vec![("LW", Obj::Int(7))]))]))]));
            let p = g.add(stream(vec![("Type", name("Pattern")), ("PatternType", Obj::Int(1)), ("PaintType", Obj::Int(1)), ("TilingType", Obj::Int(2)), ("BBox", ints(&[0, 0, 6, 6])), ("XStep", Obj::Int(6)), ("YStep", Obj::Int(6)),
                ("Matrix", arr(vec![Obj::Int(2), Obj::Int(0), Obj::Int(0), Obj::Int(2), Obj::Int(1), Obj::Int(1)])), ("Resources", rf(pres))], b"/G9 gs 0 0 5 5 re f"));
            extra_res.push(("Pattern", dict(vec![("P0", rf(p))]))); extra_ops.push_str("/Pattern cs /P0 scn 0 0 3 3 re f ");
        }
        7 => {
            // a colour space the library can read but not write (its tint function has no writer): importing the page that
            // uses it fails with an error value; the other pages of the selection must still give a document that can be saved.
            // Only the first page carries it (pages with their own resource dictionary; shared dictionaries carry it for all).
            let sep = arr(vec![name("Separation"), name("Spot"), name("DeviceCMYK"), dict(vec![("FunctionType", Obj::Int(2)), ("Domain", ints(&[0, 1])), ("C0", ints(&[0, 0, 0, 0])), ("C1", ints(&[0, 1, 1, 0])), ("N", Obj::Int(1))])]);
            extra_res.push(("ColorSpace", dict(vec![("CS7", sep)]))); extra_ops.push_str("/CS7 cs 1 scn 0 0 3 3 re f ");
        }
        8 => {
            // an XObject the first page names (and uses) that the library cannot read (no /Subtype): importing that page may fail
            // with an error value; the pages imported successfully alongside it must still give a document that can be saved
            let bad = g.add(stream(vec![("Type", name("XObject")), ("BBox", ints(&[0, 0, 1, 1]))], b"0 0 1 1 re f"));
            bad_xo = Some(bad); extra_ops.push_str("/XBAD Do ");
        }
        9 => {
            // an uncoloured tiling pattern (PaintType 2): the colour components precede the pattern name in the scn operands
            let pres = g.add(dict(vec![]));
            let p = g.add(stream(vec![("Type", name("Pattern")), ("PatternType", Obj::Int(1)), ("PaintType", Obj::Int(2)), ("TilingType", Obj::Int(1)), ("BBox", ints(&[0, 0, 4, 4])), ("XStep", Obj::Int(4)), ("YStep", Obj::Int(4)), ("Resources", rf(pres))], b"0 0 2 2 re f"));
            extra_res.push(("Pattern", dict(vec![("P0", rf(p))])));
            extra_res.push(("ColorSpace", dict(vec![("PCS", arr(vec![name("Pattern"), name("DeviceRGB")]))])));
            extra_ops.push_str("/PCS cs 0.25 0.5 0.75 /P0 scn 0 0 3 3 re f ");
        }
        3 => { extra_res.push(("Shading", dict(vec![("S0", dict(vec![("ShadingType", Obj::Int(2)), ("ColorSpace", name("DeviceRGB")), ("Coords", ints(&[0, 0, 1, 1])),
                ("Function", dict(vec![("FunctionType", Obj::Int(2)), ("Domain", ints(&[0, 1])), ("C0", ints(&[0, 0, 0])), ("C1", ints(&[1, 1, 1])), ("N", Obj::Int(1))]))]))]))); extra_ops.push_str("/S0 sh "); }
        4 => {
            // a property list written directly in /Properties; half of the time it leads on to another object (/Usage), which the
            // copy must carry over for every page that uses the list
            let mut pl = vec![("Type", name("OCG")), ("Name", st("layer"))];
            if s.alt(2, &["properties-plain", "properties-with-indirect-usage"]) == 1 { let u = g.add(dict(vec![("CreatorInfo", dict(vec![("Creator", st("pdfmon")), ("Subtype", name("Artwork"))]))])); pl.push(("Usage", rf(u))); }
            extra_res.push(("Properties", dict(vec![("M0", dict(pl))]))); extra_ops.push_str("/OC /M0 BDC 0 0 1 1 re f EMC ");
        }
        5 => { extra_ops.push_str("BI /W 1 /H 1 /BPC 8 /CS /G ID \x7f EI "); }
        _ => {}
    }
    // ---------------------------------------------------------------- page tree
    let res_mode = s.alt(3, &["direct-resources", "indirect-resources", "shared-resources-object", "inherited-resources"]);
    let box_mode = s.alt(3, &["own-mediabox", "inherited-mediabox", "own-cropbox", "inherited-cropbox", "real-boxes", "reversed-box-corners"]);
    let rot_mode = s.alt(4, &["no-rotate", "rotate-90", "rotate-270", "inherited-rotate"]);
    let nested_tree = n_pages >= 2 && s.alt(3, &["flat-page-tree", "nested-page-tree"]) == 1;
    let img2 = !images.is_empty() && s.alt(2, &["image-one-name", "image-two-names"]) == 1;
    let page_objs: Vec<u32> = (0..n_pages).map(|_| g.reserve()).collect();
    let inner_tree = if nested_tree { Some(g.reserve()) } else { None };
    // full resource dictionary (used for shared / inherited modes): everything any page uses
    let full_res = |extra_res: &Vec<(&str, Obj)>| -> Obj {
        let mut r: Vec<(&str, Obj)> = Vec::new();
        r.push(("Font", d2(fonts.iter().enumerate().map(|(i, f)| (format!("F{}", i), rf(*f))).collect())));
        let mut xo: Vec<(String, Obj)> = images.iter().enumerate().map(|(i, f)| (format!("I{}", i), rf(*f))).collect();
        if img2 { xo.push(("I0b".into(), rf(images[0]))); }
        xo.extend(forms.iter().enumerate().map(|(i, f)| (format!("X{}", i), rf(*f))));
        if let Some(b) = bad_xo { xo.push(("XBAD".into(), rf(b))); }
        if !xo.is_empty() { r.push(("XObject", d2(xo))); }
        if let Some(gs) = &gs { r.push(("ExtGState", dict(vec![("G0", gs.clone())]))); }
        r.extend(extra_res.iter().cloned());
        r.push(("ProcSet", arr(vec![name("PDF"), name("Text")])));
        dict(r)
    };
    let shared_res_obj = if res_mode >= 2 { Some(g.add(full_res(&extra_res))) } else { None };
    // `other` entries
    // reference cycles kill the importer (one known root cause); they get ~10% of the cases so that the rest stays covered
    let cycle = if s.draw(10) == 9 { 1 + s.draw(4) } else { 0 };
    let other_mode = if cycle > 0 { s.label(["cycle-via-other", "cycle-via-other-self", "cycle-via-other-ring", "cycle-via-other-page-backpointer"][cycle as usize - 1]); 6 + cycle as usize }
        else { [0usize, 1, 2, 3, 4, 5, 6, 11, 12, 13][s.alt(4, &["no-other", "other-scalars", "other-group-dict", "other-ref", "other-shared-ref", "other-stream-ref", "metadata-stream", "cycle-via-annot", "other-refs-nested-in-array", "other-ref-dangling-inside-first-page"])] };
    let shared_other = if other_mode == 4 { Some(g.add(dict(vec![("Private", st("shared by all pages")), ("Data", rf(0))]))) } else { None };
    if let Some(n) = shared_other { let payload = g.add(stream(vec![], b"payload")); if let Some((_, o)) = g.objs.iter_mut().find(|(k, _)| *k == n) { o.set("Data", rf(payload)); } }
    for (pi, &pn) in page_objs.iter().enumerate() {
        let parent = inner_tree.filter(|_| pi >= 1).unwrap_or(2);
        let mut d: Vec<(&str, Obj)> = vec![("Type", name("Page")), ("Parent", rf(parent))];
        // which resources this page uses
        let fi = pi % fonts.len();
        let mut ops = String::from("q ");
        let mut rfonts: Vec<(String, Obj)> = vec![("F0".into(), rf(fonts[0]))];
        ops.push_str("BT /F0 12 Tf 10 20 Td (Hello) Tj ");
        if fi != 0 { rfonts.push((format!("F{}", fi), rf(fonts[fi]))); ops.push_str(&format!("/F{} 9 Tf (x) Tj ", fi)); }
        ops.push_str("ET ");
        let mut rxo: Vec<(String, Obj)> = Vec::new();
        if !images.is_empty() { let ii = pi % images.len(); rxo.push((format!("I{}", ii), rf(images[ii]))); ops.push_str(&format!("/I{} Do ", ii));
            if img2 { rxo.push(("I0b".into(), rf(images[0]))); ops.push_str("/I0b Do "); if ii != 0 { rxo.push(("I0".into(), rf(images[0]))); ops.push_str("/I0 Do "); } } }
        if !forms.is_empty() { let xi = forms.len() - 1 - (pi % forms.len()); rxo.push((format!("X{}", xi), rf(forms[xi]))); ops.push_str(&format!("/X{} Do ", xi)); }
        if gs.is_some() { ops.push_str("/G0 gs "); }
        if let Some(b) = bad_xo { if pi == 0 { rxo.push(("XBAD".into(), rf(b))); } }
        let with_extra = (extra != 7 && extra != 8) || pi == 0;
        if with_extra { ops.push_str(&extra_ops); }
        ops.push_str("1 0 0 RG 0 0 m 10 10 l S Q");
        let own_res = || -> Obj {
            let mut r: Vec<(&str, Obj)> = vec![("Font", d2(rfonts.clone()))];
            if !rxo.is_empty() { r.push(("XObject", d2(rxo.clone()))); }
            if let Some(gs) = &gs { r.push(("ExtGState", dict(vec![("G0", gs.clone())]))); }
            if with_extra { r.extend(extra_res.iter().cloned()); }
            dict(r)
        };
        match res_mode { 0 => d.push(("Resources", own_res())), 1 => { let r = g.add(own_res()); d.push(("Resources", rf(r))); } 2 => d.push(("Resources", rf(shared_res_obj.unwrap()))), _ => {} }
        match box_mode {
            0 => d.push(("MediaBox", ints(&[0, 0, 612, 792]))),
            2 => { d.push(("MediaBox", ints(&[0, 0, 612, 792]))); d.push(("CropBox", ints(&[10, 20, 600, 700]))); }
            4 => { d.push(("MediaBox", arr(vec![Obj::Real(0.0), Obj::Real(0.0), Obj::Real(200.5), Obj::Real(300.25)]))); d.push(("CropBox", arr(vec![Obj::Real(1.5), Obj::Int(2), Obj::Real(100.125), Obj::Int(200)]))); }
            5 => d.push(("MediaBox", ints(&[612, 792, 0, 0]))),
            _ => {}
        }
        match rot_mode { 1 => d.push(("Rotate", Obj::Int(90))), 2 => d.push(("Rotate", Obj::Int(270))), _ => {} }
        // contents
        match s.alt(3, &["single-content", "contents-array", "flate-content", "no-contents"]) {
            0 => { let c = g.add(stream(vec![], ops.as_bytes())); d.push(("Contents", rf(c))); }
            1 => { let cut = ops.find("ET ").map(|i| i + 3).unwrap_or(2); let a = g.add(stream(vec![], ops[..cut].as_bytes())); let b = g.add(stream(vec![("Filter", name("FlateDecode"))], &z(ops[cut..].as_bytes()))); d.push(("Contents", arr(vec![rf(a), rf(b)]))); }
            2 => { let c = g.add(stream(vec![("Filter", name("FlateDecode"))], &z(ops.as_bytes()))); d.push(("Contents", rf(c))); }
            _ => {}
        }
        // entries the importer copies as they are
        match other_mode {
            1 => { d.push(("StructParents", Obj::Int(3))); d.push(("Tabs", name("S"))); d.push(("UserUnit", Obj::Real(1.5))); d.push(("LastModified", st("D:20200102030405Z"))); }
            2 => d.push(("Group", dict(vec![("Type", name("Group")), ("S", name("Transparency")), ("CS", name("DeviceRGB")), ("I", Obj::Bool(true))]))),
            3 => { let inner = g.add(dict(vec![("K", ints(&[1, 2, 3]))])); let o = g.add(dict(vec![("App", dict(vec![("Private", rf(inner)), ("LastModified", st("D:2020"))]))])); d.push(("PieceInfo", rf(o))); }
            4 => d.push(("PieceInfo", rf(shared_other.unwrap()))),
            5 => { let t = g.add(stream(vec![("Width", Obj::Int(1)), ("Height", Obj::Int(1)), ("BitsPerComponent", Obj::Int(8)), ("ColorSpace", name("DeviceGray"))], &[7])); d.push(("Thumb", rf(t))); }
            6 => { let m = g.add(stream(vec![("Type", name("Metadata")), ("Subtype", name("XML"))], b"<x:xmpmeta xmlns:x='adobe:ns:meta/'/>")); d.push(("Metadata", rf(m))); }
            12 => { // references that sit below the direct elements of an array (array -> dictionary -> reference, array -> array -> reference)
                let x = g.add(dict(vec![("Tag", st("nested x"))])); let y = g.add(stream(vec![], b"nested y"));
                d.push(("PieceInfo", dict(vec![("App", dict(vec![("Private", arr(vec![dict(vec![("Inner", rf(x))]), arr(vec![Obj::Int(1), arr(vec![rf(y)])]), Obj::Int(7)]))]))])));
            }
            13 => { // first page only: a copied entry leads to an object that holds a reference to an undefined object (= null, 7.3.10)
                if pi == 0 { let o = g.add(dict(vec![("App", dict(vec![("Private", rf(99_000)), ("LastModified", st("D:2021"))]))])); d.push(("PieceInfo", rf(o))); }
            }
            7 => { let a = g.reserve(); let b = g.reserve(); g.put(a, dict(vec![("Private", rf(b)), ("Tag", st("a"))])); g.put(b, dict(vec![("Back", rf(a)), ("Tag", st("b"))])); d.push(("PieceInfo", rf(a))); }
            8 => { let a = g.reserve(); g.put(a, dict(vec![("Self", rf(a)), ("Tag", st("self"))])); d.push(("PieceInfo", rf(a))); }
            9 => { // outline-like ring: /Parent back-pointers and /Next /Prev
                let top = g.reserve(); let x = g.reserve(); let y = g.reserve();
                g.put(top, dict(vec![("First", rf(x)), ("Last", rf(y)), ("Count", Obj::Int(2))]));
                g.put(x, dict(vec![("Title", st("x")), ("Parent", rf(top)), ("Next", rf(y))]));
                g.put(y, dict(vec![("Title", st("y")), ("Parent", rf(top)), ("Prev", rf(x))]));
                d.push(("PieceInfo", dict(vec![("App", rf(top))])));
            }
            10 => { // article bead: /P points back to the page (7.7.3.3 /B, 12.4.3)
                let thread = g.reserve(); let bead = g.reserve();
                g.put(thread, dict(vec![("Type", name("Thread")), ("F", rf(bead))]));
                g.put(bead, dict(vec![("Type", name("Bead")), ("T", rf(thread)), ("N", rf(bead)), ("V", rf(bead)), ("P", rf(pn)), ("R", ints(&[0, 0, 100, 100]))]));
                d.push(("B", arr(vec![rf(bead)])));
            }
            11 => { // annotations: /P back to the page, /Parent + /Popup pair, appearance stream
                let ap = g.add(stream(vec![("Type", name("XObject")), ("Subtype", name("Form")), ("BBox", ints(&[0, 0, 50, 50]))], b"0 0 50 50 re S"));
                let a = g.reserve(); let pop = g.reserve();
                g.put(a, dict(vec![("Type", name("Annot")), ("Subtype", name("Text")), ("Rect", ints(&[0, 0, 50, 50])), ("P", rf(pn)), ("Popup", rf(pop)), ("Contents", st("note")), ("AP", dict(vec![("N", rf(ap))]))]));
                g.put(pop, dict(vec![("Type", name("Annot")), ("Subtype", name("Popup")), ("Rect", ints(&[50, 50, 90, 90])), ("Parent", rf(a)), ("P", rf(pn))]));
                d.push(("Annots", arr(vec![rf(a), rf(pop)])));
            }
            _ => {}
        }
        g.put(pn, dict(d));
    }
    // page tree nodes
    let mut root: Vec<(&str, Obj)> = vec![("Type", name("Pages")), ("Count", Obj::Int(n_pages as i64))];
    let kids: Vec<Obj> = match inner_tree { Some(t) => vec![rf(page_objs[0]), rf(t)], None => page_objs.iter().map(|p| rf(*p)).collect() };
    root.push(("Kids", Obj::Arr(kids)));
    if let Some(t) = inner_tree {
        g.put(t, dict(vec![("Type", name("Pages")), ("Parent", rf(2)), ("Count", Obj::Int(n_pages as i64 - 1)), ("Kids", Obj::Arr(page_objs[1..].iter().map(|p| rf(*p)).collect()))]));
    }
    if res_mode == 3 { root.push(("Resources", rf(shared_res_obj.unwrap()))); }
    match box_mode { 1 => root.push(("MediaBox", ints(&[0, 0, 300, 400]))), 3 => { root.push(("MediaBox", ints(&[0, 0, 300, 400]))); root.push(("CropBox", ints(&[5, 5, 290, 390]))); } _ => {} }
    if rot_mode == 3 { root.push(("Rotate", Obj::Int(180))); }
    g.put(2, dict(root));
    g.put(1, dict(vec![("Type", name("Catalog")), ("Pages", rf(2))]));
    let layout = [Layout::Classic, Layout::XrefStream, Layout::Incremental][s.alt(2, &["classic-xref", "xref+object-streams", "incremental"])];
    g.objs.sort_by_key(|(n, _)| *n);
    let n_objs = g.next;
    // the source may be encrypted (written with the reference security handler; empty user password): the importer then reads
    // strings and stream data through the decryption layer
    let bytes = match s.alt(5, &["source-plain", "source-rc4-encrypted", "source-aes-encrypted"]) {
        1 => crate::encdoc::encrypted_doc(&g.objs, 1, false, b"", b"owner", layout == Layout::XrefStream),
        2 => crate::encdoc::encrypted_doc(&g.objs, 1, true, b"", b"owner", layout == Layout::XrefStream),
        _ => richdoc::write(&g.objs, layout, b""),
    };
    GenDoc { bytes, n_pages, page_objs, n_objs }
}
