//! C15 — typed objects round-trip through their dictionary form without losing entries.
//!
//! For every typed model with a reader and a writer (schema table in `c15_schema.rs`) dictionaries are generated from
//! the schema into a real `pdf::file::Storage` (the library's own `Updater` + `Resolve`), then
//!   p0 → T::from_primitive → to_primitive = p1 → T::from_primitive → to_primitive = p2
//! (a) p1 ≡ p2 (fixpoint; structural, references followed through the store, Integer(n) ≡ Number(n), order irrelevant);
//! (b) for models that keep unrecognised entries: every entry of p0 is present in p1 with an equal value, up to omitted
//!     defaults and integer ≡ real; no panic anywhere.
use super::c15_cmp::{render, Cmp, Diff, Mode};
use super::c15_gen::*;
use super::c15_schema::*;
use crate::doc::{error_fields, root_kind};
use crate::panicmon::{guard, PanicRec};
use crate::par::par_for;
use crate::rng::{fnv, Rng};
use crate::run::Run;
use crate::tape::{shrink, Src};
use pdf::content::{Content, FormXObject, Matrix};
use pdf::enc::{CCITTFaxDecodeParams, DCTDecodeParams, JBIG2DecodeParams, LZWFlateParams};
use pdf::encoding::{BaseEncoding, Encoding};
use pdf::error::PdfError;
use pdf::file::Trailer;
use pdf::font::{CIDFont, CidToGidMap, Font, FontDescriptor, FontStream3, FontStretch, FontType, FontTypeExt, TFont, Type0Font};
use pdf::object::*;
use pdf::primitive::{Date, Dictionary, Name, PdfStream, PdfString, Primitive};
use pdf::xref::XRefInfo;
use serde_json::{json, Value};
use std::collections::HashMap;

pub enum Fail {
    ReadErr(PdfError),
    ReadPanic(PanicRec),
    WriteErr(PdfError),
    WritePanic(PanicRec),
}

/// one pass through the typed model: read with the store's resolver, write with the store as updater
fn rt<T: Object + ObjectWrite>(p: &Primitive, st: &mut St) -> Result<Primitive, Fail> {
    let v = match guard(|| { let r = st.resolver(); T::from_primitive(p.clone(), &r) }) {
        Err(pa) => return Err(Fail::ReadPanic(pa)),
        Ok(Err(e)) => return Err(Fail::ReadErr(e)),
        Ok(Ok(v)) => v,
    };
    match guard(|| v.to_primitive(st)) {
        Err(pa) => Err(Fail::WritePanic(pa)),
        Ok(Err(e)) => Err(Fail::WriteErr(e)),
        Ok(Ok(p1)) => Ok(p1),
    }
}

type RtFn = fn(&Primitive, &mut St) -> Result<Primitive, Fail>;

pub struct Target {
    pub name: &'static str,
    pub k: K,
    pub rt: RtFn,
    /// the model keeps unrecognised entries: part (b) of the statement applies
    pub keeps_entries: bool,
}

fn targets() -> Vec<Target> {
    let mut v: Vec<Target> = Vec::new();
    macro_rules! t {
        ($name:expr, $k:expr, $ty:ty, $ca:expr) => { v.push(Target { name: $name, k: $k, rt: rt::<$ty>, keeps_entries: $ca }) };
    }
    let b = |k: K| Box::new(k);
    // derived struct models
    t!("Catalog", K::M("Catalog"), Catalog, false);
    t!("PageTree", K::M("PageTree"), PageTree, false);
    t!("Page", K::M("Page"), Page, true);
    t!("PageLabel", K::M("PageLabel"), PageLabel, false);
    t!("LageLabel", K::M("LageLabel"), LageLabel, false);
    t!("Resources", K::M("Resources"), Resources, false);
    t!("PatternDict", K::M("PatternDict"), PatternDict, false);
    t!("GraphicsStateParameters", K::M("GraphicsStateParameters"), GraphicsStateParameters, true);
    t!("PostScriptDict", K::M("PostScriptDict"), PostScriptDict, true);
    t!("ImageDict", K::M("ImageDict"), ImageDict, true);
    t!("FormDict", K::M("FormDict"), FormDict, true);
    t!("InteractiveFormDictionary", K::M("InteractiveFormDictionary"), InteractiveFormDictionary, false);
    t!("SeedValueDictionary", K::M("SeedValueDictionary"), SeedValueDictionary, true);
    t!("SignatureDictionary", K::M("SignatureDictionary"), SignatureDictionary, true);
    t!("SignatureReferenceDictionary", K::M("SignatureReferenceDictionary"), SignatureReferenceDictionary, true);
    t!("Annot", K::M("Annot"), Annot, true);
    t!("FieldDictionary", K::M("FieldDictionary"), FieldDictionary, true);
    t!("AppearanceStreams", K::M("AppearanceStreams"), AppearanceStreams, false);
    t!("NameDictionary", K::M("NameDictionary"), NameDictionary, false);
    t!("FileSpec", K::M("FileSpec"), FileSpec, false);
    t!("Files", K::M("Files"), Files<Ref<Stream<EmbeddedFile>>>, false);
    t!("EmbeddedFile", K::M("EmbeddedFile"), EmbeddedFile, false);
    t!("EmbeddedFileParamDict", K::M("EmbeddedFileParamDict"), EmbeddedFileParamDict, false);
    t!("Outlines", K::M("Outlines"), Outlines, false);
    t!("MarkInformation", K::M("MarkInformation"), MarkInformation, false);
    t!("StructTreeRoot", K::M("StructTreeRoot"), StructTreeRoot, false);
    t!("StructElem", K::M("StructElem"), StructElem, false);
    t!("InfoDict", K::M("InfoDict"), InfoDict, false);
    t!("Trailer", K::M("Trailer"), Trailer, false);
    t!("XRefInfo", K::M("XRefInfo"), XRefInfo, false);
    t!("LZWFlateParams", K::M("LZWFlateParams"), LZWFlateParams, false);
    t!("DCTDecodeParams", K::M("DCTDecodeParams"), DCTDecodeParams, false);
    t!("CCITTFaxDecodeParams", K::M("CCITTFaxDecodeParams"), CCITTFaxDecodeParams, false);
    t!("JBIG2DecodeParams", K::M("JBIG2DecodeParams"), JBIG2DecodeParams, false);
    t!("IccInfo", K::M("IccInfo"), IccInfo, false);
    t!("TFont", K::M("TFont"), TFont, false);
    t!("Type0Font", K::M("Type0Font"), Type0Font, false);
    t!("CIDFont", K::M("CIDFont"), CIDFont, true);
    t!("FontDescriptor", K::M("FontDescriptor"), FontDescriptor, false);
    t!("FontStream3", K::M("FontStream3"), FontStream3, false);
    // hand-written pairs
    t!("Date", K::Date, Date, false);
    t!("Rectangle", K::Rect, Rectangle, false);
    t!("Matrix", K::Matrix, Matrix, false);
    t!("Dest", K::Dest, Dest, false);
    t!("MaybeNamedDest", K::MaybeNamedDest, MaybeNamedDest, false);
    t!("Action", K::Action, Action, false);
    t!("Encoding", K::Encoding, Encoding, false);
    t!("NumberTree<PageLabel>", K::NumberTree(b(K::M("PageLabel"))), NumberTree<PageLabel>, false);
    t!("NumberTree<i32>", K::NumberTree(b(K::Int(-5, 500))), NumberTree<i32>, false);
    t!("Font", K::Font, Font, true);
    t!("Font:Type1", K::FontSub("Type1"), Font, true);
    t!("Font:TrueType", K::FontSub("TrueType"), Font, true);
    t!("Font:Type0", K::FontSub("Type0"), Font, true);
    t!("Font:CIDFontType0", K::FontSub("CIDFontType0"), Font, true);
    t!("Font:CIDFontType2", K::FontSub("CIDFontType2"), Font, true);
    t!("CidToGidMap", K::CidToGid, CidToGidMap, false);
    t!("XObject", K::XObject, XObject, true);
    t!("Pattern", K::Pattern, Pattern, false);
    t!("ColorSpace", K::ColorSpace, ColorSpace, false);
    t!("Content", K::Content, Content, false);
    t!("AppearanceStreamEntry", K::ApEntry, AppearanceStreamEntry, false);
    t!("PagesNode", K::PagesNode, PagesNode, true);
    t!("PageRc", K::Ref(b(K::MT("Page")), true), PageRc, false);
    t!("PagesRc", K::Ref(b(K::MT("PageTree")), true), PagesRc, false);
    t!("FormXObject", K::Stream("FormDict", false), FormXObject, true);
    t!("ImageXObject", K::Stream("ImageDict", false), ImageXObject, true);
    // Stream<I>
    t!("Stream<()>", K::Stream("", false), Stream<()>, false);
    t!("Stream<ImageDict>", K::Stream("ImageDict", false), Stream<ImageDict>, true);
    t!("Stream<FormDict>", K::Stream("FormDict", false), Stream<FormDict>, true);
    t!("Stream<PostScriptDict>", K::Stream("PostScriptDict", false), Stream<PostScriptDict>, true);
    t!("Stream<EmbeddedFile>", K::Stream("EmbeddedFile", false), Stream<EmbeddedFile>, false);
    t!("Stream<FontStream3>", K::Stream("FontStream3", false), Stream<FontStream3>, false);
    t!("Stream<IccInfo>", K::Stream("IccInfo", false), Stream<IccInfo>, false);
    t!("Stream<XRefInfo>", K::Stream("XRefInfo", false), Stream<XRefInfo>, false);
    t!("PdfStream", K::Stream("", false), PdfStream, false);
    // containers and scalars
    t!("Option<Date>", K::Date, Option<Date>, false);
    t!("Option<Rectangle>", K::Rect, Option<Rectangle>, false);
    t!("Vec<i32>", K::Many(b(K::Int(-1000, 1000)), true), Vec<i32>, false);
    t!("Vec<Name>", K::Many(b(K::Name), true), Vec<Name>, false);
    t!("Vec<f32>", K::Many(b(K::Real), true), Vec<f32>, false);
    t!("Vec<PdfString>", K::Many(b(K::Str), true), Vec<PdfString>, false);
    t!("Vec<StructElem>", K::Many(b(K::M("StructElem")), true), Vec<StructElem>, false);
    t!("HashMap<Name,Rectangle>", K::Map(b(K::Rect)), HashMap<Name, Rectangle>, false);
    t!("HashMap<Name,GraphicsStateParameters>", K::Map(b(K::M("GraphicsStateParameters"))), HashMap<Name, GraphicsStateParameters>, false);
    t!("HashMap<Name,Lazy<Font>>", K::Map(b(K::Lazy(b(K::Font)))), HashMap<Name, Lazy<Font>>, false);
    t!("(Ref<Font>,f32)", K::Pair(b(K::Ref(b(K::Font), false)), b(K::Real)), (Ref<Font>, f32), false);
    t!("Box<ColorSpace>", K::ColorSpace, Box<ColorSpace>, false);
    t!("MaybeRef<Resources>", K::MaybeRef(b(K::M("Resources"))), MaybeRef<Resources>, false);
    t!("MaybeRef<Annot>", K::MaybeRef(b(K::M("Annot"))), MaybeRef<Annot>, false);
    t!("RcRef<FieldDictionary>", K::Ref(b(K::M("FieldDictionary")), true), RcRef<FieldDictionary>, false);
    t!("Ref<Page>", K::Ref(b(K::MT("Page")), false), Ref<Page>, false);
    t!("Lazy<Font>", K::Lazy(b(K::Font)), Lazy<Font>, false);
    t!("Lazy<Vec<MaybeRef<Annot>>>", K::Lazy(b(K::Many(b(K::MaybeRef(b(K::M("Annot")))), false))), Lazy<Vec<MaybeRef<Annot>>>, false);
    t!("Primitive", K::Prim, Primitive, false);
    t!("Dictionary", K::Dict, Dictionary, false);
    t!("PdfString", K::Str, PdfString, false);
    t!("Name", K::Name, Name, false);
    t!("i32", K::Int(-100000, 100000), i32, false);
    t!("u32", K::UInt(100000), u32, false);
    t!("usize", K::UInt(100000), usize, false);
    t!("f32", K::Real, f32, false);
    t!("bool", K::Bool, bool, false);
    // derived name / integer enums
    t!("Counter", K::NameEnum(COUNTER, false), Counter, false);
    t!("RenderingIntent", K::NameEnum(RENDERING_INTENT, false), RenderingIntent, false);
    t!("FieldType", K::NameEnum(FIELD_TYPE, false), FieldType, false);
    t!("Trapped", K::NameEnum(TRAPPED, false), Trapped, false);
    t!("StructType", K::NameEnum(STRUCT_TYPE, true), StructType, false);
    t!("FontStretch", K::NameEnum(FONT_STRETCH, false), FontStretch, false);
    t!("FontType", K::NameEnum(FONT_TYPE, false), FontType, false);
    t!("FontTypeExt", K::NameEnum(FONT_TYPE_EXT, false), FontTypeExt, false);
    t!("BaseEncoding", K::NameEnum(BASE_ENCODING, true), BaseEncoding, false);
    t!("LineCap", K::IntEnum(&[0, 1, 2]), LineCap, false);
    t!("LineJoin", K::IntEnum(&[0, 1, 2]), LineJoin, false);
    v
}

#[derive(Clone, Debug)]
pub struct Failure {
    pub class: &'static str,
    /// signature components after "C15|"
    pub sig_mid: String,
    pub what: String,
}

pub enum Res { Pass, Rejected(String), Fail(Failure) }

pub struct Eval {
    pub res: Res,
    pub labels: Vec<&'static str>,
    pub tape: Vec<u32>,
    /// only filled when asked for
    pub witness: Value,
    pub n_objects: u32,
    pub covered: bool,
}

fn dump_store(st: &St, n: u32) -> Value {
    let mut v = Vec::new();
    for id in 1..=(n as u64).min(40) {
        let s = match st.resolver().resolve(PlainRef { id, gen: 0 }) { Ok(p) => render(&p), Err(e) => format!("<{}>", e) };
        v.push(json!(format!("{} 0 obj {}", id, s.chars().take(400).collect::<String>())));
    }
    Value::Array(v)
}

fn err_tag(e: &PdfError) -> String {
    let f = error_fields(e);
    match f.last() { Some(x) => format!("{}:{}", root_kind(e), x), None => root_kind(e) }
}

/// build p0 from the tape and run both oracles; `given` bypasses the generator
fn evaluate(t: &Target, mut src: Src, given: Option<Primitive>, want_wit: bool) -> Eval {
    let mut st = new_store();
    let (p0, n_objects) = match given {
        Some(p) => (p, 0),
        None => { let mut g = Gen::new(&mut src, &mut st); let p = g.top(&t.k); (p, g.n_objects) }
    };
    let labels = { let mut l = src.labels.clone(); l.sort(); l.dedup(); l };
    let label_set = labels.join("+");
    let tape = src.tape[..src.used().min(src.tape.len())].to_vec();
    let mut wit = if want_wit {
        json!({"target": t.name, "labels": labels, "p0": render(&p0), "tape": tape, "store_before": dump_store(&st, n_objects)})
    } else { Value::Null };
    let mut covered = false;
    let res = (|| {
        let err_mid = |lbl: &str, e: &PdfError| format!("{}|{}", t.name, if lbl.is_empty() { err_tag(e) } else { lbl.to_string() });
        let p1 = match (t.rt)(&p0, &mut st) {
            Ok(p) => p,
            Err(Fail::ReadErr(e)) => return Res::Rejected(format!("{}", e)),
            Err(Fail::ReadPanic(pa)) => return Res::Fail(Failure { class: "panic", sig_mid: pa.signature(), what: format!("{}::from_primitive panicked: {}", t.name, pa.describe()) }),
            Err(Fail::WritePanic(pa)) => return Res::Fail(Failure { class: "panic", sig_mid: pa.signature(), what: format!("{}::to_primitive panicked: {}", t.name, pa.describe()) }),
            Err(Fail::WriteErr(e)) => return Res::Fail(Failure { class: "write-error", sig_mid: err_mid(&label_set, &e), what: format!("{}::to_primitive of a value it just read fails: {}", t.name, e) }),
        };
        if want_wit { wit["p1"] = json!(render(&p1)); }
        let p2 = match (t.rt)(&p1, &mut st) {
            Ok(p) => p,
            Err(Fail::ReadErr(e)) => return Res::Fail(Failure { class: "own-output-unreadable", sig_mid: err_mid(&label_set, &e), what: format!("{}::from_primitive rejects what {}::to_primitive wrote: {}", t.name, t.name, e) }),
            Err(Fail::ReadPanic(pa)) => return Res::Fail(Failure { class: "panic", sig_mid: pa.signature(), what: format!("{}::from_primitive panicked on the writer's output: {}", t.name, pa.describe()) }),
            Err(Fail::WritePanic(pa)) => return Res::Fail(Failure { class: "panic", sig_mid: pa.signature(), what: format!("{}::to_primitive panicked on the second pass: {}", t.name, pa.describe()) }),
            Err(Fail::WriteErr(e)) => return Res::Fail(Failure { class: "write-error", sig_mid: err_mid(&label_set, &e), what: format!("{}::to_primitive fails on the second pass: {}", t.name, e) }),
        };
        if want_wit { wit["p2"] = json!(render(&p2)); }
        let c = Cmp { st: &st };
        if let Err(Diff { owner, field, class, detail }) = c.cmp(&t.k, &p1, &p2, Mode::Exact, t.name, "") {
            return Res::Fail(Failure { class: "not-a-fixpoint", sig_mid: format!("{}|{}", owner, field),
                what: format!("write(read(p1)) differs from p1 at {}/{} ({}): {}", owner, field, class, detail) });
        }
        if t.keeps_entries {
            covered = true;
            if let Err(Diff { owner, field, class, detail }) = c.cmp(&t.k, &p0, &p1, Mode::Covers, t.name, "") {
                let cls = if class == "lost" { "entry-lost" } else { "entry-changed" };
                return Res::Fail(Failure { class: cls, sig_mid: format!("{}|{}", owner, field),
                    what: format!("entry of the input not preserved by read+write at {}/{}: {}", owner, field, detail) });
            }
        }
        Res::Pass
    })();
    Eval { res, labels, tape, witness: wit, n_objects, covered }
}

fn signature(f: &Failure) -> String {
    if f.class == "panic" { format!("C15|{}", f.sig_mid) } else { format!("C15|{}|{}", f.sig_mid, f.class) }
}
/// root-cause key used while shrinking: class + owner/field, but not the label set (which is what shrinking minimises)
fn shrink_key(f: &Failure) -> String {
    match f.class { "write-error" | "own-output-unreadable" => f.class.to_string(), _ => signature(f) }
}

fn tape_hash(t: &Target, tape: &[u32], given: &Option<Primitive>) -> u64 {
    let mut h = fnv(t.name.as_bytes()) ^ fnv(&tape.iter().flat_map(|x| x.to_le_bytes()).collect::<Vec<u8>>());
    if let Some(p) = given { h ^= fnv(format!("{}", p).as_bytes()); }
    h
}

/// evaluate one case and book it; failures are shrunk (choice tape) before the signature is taken
fn case(run: &Run, t: &Target, src: Src, given: Option<Primitive>, sample: bool) {
    let ev = evaluate(t, src, given.clone(), false);
    run.eval();
    run.count(&format!("target:{}", t.name));
    run.add("store-objects", ev.n_objects as u64);
    if ev.covered { run.count("part-b-checked"); }
    for l in &ev.labels { run.count(&format!("label:{}", l)); }
    match ev.res {
        Res::Pass => {
            run.nontrivial(tape_hash(t, &ev.tape, &given));
            if sample { let w = evaluate(t, Src::replay(&ev.tape), given, true).witness; run.sample_cap(14, || w); }
        }
        Res::Rejected(e) => {
            run.count(&format!("rejected:{}", t.name));
            let w = evaluate(t, Src::replay(&ev.tape), given, true).witness;
            run.inconclusive(format!("{}: from_primitive rejects the generated input ({}) — schema/generator problem; labels={:?} p0={}", t.name, e, ev.labels, w["p0"]));
        }
        Res::Fail(f) => {
            run.nontrivial(tape_hash(t, &ev.tape, &given));
            run.count(&format!("failed:{}", f.class));
            let key = shrink_key(&f);
            let label_based = key == f.class;
            // owner/field- and location-based signatures do not change under shrinking: shrink only the first witness
            if !label_based && run.has_violation(&signature(&f)) { run.violation(&signature(&f), &f.what, Value::Null); return; }
            if label_based {
                // the signature of these classes carries the minimal label set: shrink thoroughly, but only the first few per (target, class)
                let k2 = format!("{}|{}", t.name, f.class);
                let seen = { let mut g = SHRUNK.lock().unwrap(); let e = g.entry(k2).or_insert(0); *e += 1; *e };
                if seen > 8 { run.count(&format!("failed-not-shrunk:{}:{}", t.name, f.class)); return; }
            }
            let budget = if label_based { 3000 } else { 400 };
            let small = if given.is_some() { ev.tape.clone() } else {
                let mut fails = |cand: &[u32]| matches!(&evaluate(t, Src::replay(cand), None, false).res, Res::Fail(g) if shrink_key(g) == key);
                let a = shrink(&ev.tape, &mut fails, budget);
                if label_based { let b = shrink_blocks(&a, &mut fails, budget); shrink(&b, &mut fails, budget / 4) } else { a }
            };
            let e2 = evaluate(t, Src::replay(&small), given.clone(), true);
            match e2.res {
                Res::Fail(g) if shrink_key(&g) == key => run.violation(&signature(&g), &g.what, e2.witness),
                _ => { let w = evaluate(t, Src::replay(&ev.tape), given, true).witness; run.violation(&signature(&f), &f.what, w) }
            }
        }
    }
}

/// second shrinking stage: switch a choice off (draw := 0) AND delete the draws that only its taken branch consumed,
/// so that the rest of the tape stays aligned (the generic shrinker does one or the other)
fn shrink_blocks(tape: &[u32], fails: &mut dyn FnMut(&[u32]) -> bool, budget: usize) -> Vec<u32> {
    let mut cur = tape.to_vec();
    let mut calls = 0;
    loop {
        let mut improved = false;
        let mut i = 0;
        while i < cur.len() {
            if cur[i] != 0 {
                for del in 1..=10usize {
                    if i + 1 + del > cur.len() || calls >= budget { break; }
                    let mut cand = cur.clone();
                    cand[i] = 0;
                    cand.drain(i + 1..i + 1 + del);
                    calls += 1;
                    if fails(&cand) { cur = cand; improved = true; break; }
                }
            }
            i += 1;
        }
        if !improved || calls >= budget { break; }
    }
    cur
}

static SHRUNK: once_cell::sync::Lazy<std::sync::Mutex<HashMap<String, u32>>> = once_cell::sync::Lazy::new(|| std::sync::Mutex::new(HashMap::new()));

/// probes of values that are outside the statement because the library has no writer for them
fn outside_probes(run: &Run) {
    let mut out: Vec<Value> = UNWRITABLE.iter().map(|(a, b)| json!({"type": a, "why": b})).collect();
    let mut probe = |label: &str, f: &mut dyn FnMut(&mut St) -> Result<Primitive, Fail>| {
        let mut st = new_store();
        let r = match f(&mut st) {
            Ok(p) => format!("written: {}", p),
            Err(Fail::ReadErr(e)) => format!("read error: {}", e),
            Err(Fail::WriteErr(e)) => format!("write error: {}", e),
            Err(Fail::ReadPanic(p)) => format!("read panic: {}", p.describe()),
            Err(Fail::WritePanic(p)) => format!("write panic: {}", p.describe()),
        };
        out.push(json!({"probe": label, "observed": r}));
    };
    probe("NameTree<Primitive> leaf", &mut |st| {
        let mut d = Dictionary::new();
        d.insert("Names", arr(vec![pstr(b"a"), int(1)]));
        rt::<NameTree<Primitive>>(&Primitive::Dictionary(d), st)
    });
    probe("Font /Subtype /Type3", &mut |st| {
        let mut d = Dictionary::new();
        d.insert("Type", name("Font")); d.insert("Subtype", name("Type3"));
        rt::<Font>(&Primitive::Dictionary(d), st)
    });
    run.extra("outside_statement", Value::Array(out));
}

pub fn run(run: &Run) {
    run.rule("cases: (target model, choice tape) -> dictionary generated from the hand-written schema table (c15_schema.rs) into a real pdf::file::Storage; \
        phase A enumerates EVERY subset of the optional fields of every struct model with <= 12 optional fields (remaining choices seeded), \
        phase B draws seeded cases round-robin over all targets (optional fields present 1/2 at top level, 1/3 nested; explicit defaults; arrays with 0/1/n \
        elements and bare single values where the specification allows them; nested models direct or indirect; unknown extra entries for models with a catch-all); \
        oracle (a) write(read(p1)) == p1 where p1 = write(read(p0)), (b) for models that keep unrecognised entries every entry of p0 is in p1 (up to omitted defaults, \
        int==real, and representations the specification defines as equivalent); distinct_nontrivial = distinct (target, tape) pairs that were accepted by the reader");
    run.assume("the schema table transcribes /repo/pdf/src faithfully (a reader rejecting a generated input is reported as inconclusive, never as a violation)");
    run.assume("part (b) treats as equal: bare value vs one-element array for one-or-many entries, two spellings of the same date (missing zone == UT per ISO 32000-2), \
        direct vs indirect objects, null vs absent, empty name-keyed map vs absent, /BaseEncoding absent vs the library's own marker /None");
    run.assume("values the library cannot write at all (list under outside_statement in the evidence) are outside the statement and are not generated");
    let ts = targets();
    outside_probes(run);

    // ---- enum sweeps: every variant of every derived enum
    for t in &ts {
        match &t.k {
            K::NameEnum(vars, other) => {
                let mut all: Vec<String> = vars.iter().map(|s| s.to_string()).collect();
                if *other { all.push("SomethingElse".into()); all.push("".into()); }
                for v in all { case(run, t, Src::replay(&[]), Some(name(&v)), false); }
                run.exhaustive(&format!("all variants of name enum {}", t.name), true);
            }
            K::IntEnum(vals) => {
                for v in vals.iter() { case(run, t, Src::replay(&[]), Some(int(*v)), false); }
                run.exhaustive(&format!("all variants of integer enum {}", t.name), true);
            }
            _ => {}
        }
    }

    // ---- phase A: every subset of optional fields (top-level model) for models with <= 12 optional fields
    let mut jobs: Vec<(usize, u32, u32)> = Vec::new(); // (target, n_opt, mask)
    let mut skipped: Vec<String> = Vec::new();
    for (ti, t) in ts.iter().enumerate() {
        let mname: Option<String> = match &t.k {
            K::M(n) | K::MT(n) => Some(n.to_string()),
            K::Stream(n, _) if !n.is_empty() => Some(n.to_string()),
            K::FontSub(s) => Some(format!("Font:{}", s)),
            _ => None,
        };
        let Some(mname) = mname else { continue };
        let n = model(&mname).n_optional() as u32;
        if n == 0 { continue; }
        if n > 12 { skipped.push(format!("{} ({} optional fields: random subsets only)", t.name, n)); continue; }
        for mask in 0..(1u32 << n) { jobs.push((ti, n, mask)); }
    }
    run.extra("phase_a_cases", json!(jobs.len()));
    run.extra("phase_a_not_enumerated", json!(skipped));
    par_for(jobs.len() as u64, |i| {
        let (ti, n, mask) = jobs[i as usize];
        let t = &ts[ti];
        let mut src = Src::fresh(Rng::derive(run.seed, 1500 + ti as u64, mask as u64));
        src.tape = (0..n).map(|b| (mask >> b) & 1).collect();
        case(run, t, src, None, false);
    });
    run.exhaustive("optional-field subsets of every struct model with <= 12 optional fields", true);

    // ---- phase B: seeded cases, round-robin over all targets
    let n = run.n(60_000, 15_000_000);
    par_for(n, |i| {
        let t = &ts[(i % ts.len() as u64) as usize];
        case(run, t, Src::fresh(Rng::derive(run.seed, 15, i)), None, i < 4 * ts.len() as u64 && i % 11 == 0);
    });
    run.extra("targets", json!(ts.iter().map(|t| t.name).collect::<Vec<_>>()));
    run.extra("models_in_schema", json!(MODELS.len()));
    // thorough: the same quick workload once more under the AddressSanitizer build (memory errors in the library or its dependencies)
    if !run.quick() { crate::lanes::asan_rerun(run); }
}
