//! C15 — hand-written schema table of the typed models of the `pdf` crate that have both a reader
//! (`Object::from_primitive`) and a writer (`ObjectWrite::to_primitive`).
//!
//! The table is transcribed from /repo/pdf/src (struct definitions and `#[pdf(..)]` attributes) and
//! from the hand-written reader/writer pairs; it is *not* derived from the library at run time.
//! `K` describes the shape a value may have, `Model` the dictionary shape of a struct model.
use once_cell::sync::Lazy;
use std::collections::HashMap;

#[derive(Clone, Debug, PartialEq)]
pub enum K {
    /// i32 in lo..=hi
    Int(i32, i32),
    /// u32 / usize: 0..=max
    UInt(i32),
    /// f32: integer or real accepted
    Real,
    Bool,
    /// arbitrary name
    Name,
    /// derived name enum: variants, has `#[pdf(other)]` catch-all variant
    NameEnum(&'static [&'static str], bool),
    /// derived integer enum
    IntEnum(&'static [i32]),
    Str,
    Date,
    Rect,
    Matrix,
    /// `Primitive`: anything
    Prim,
    /// `Dictionary`: any dictionary
    Dict,
    /// `Vec<T>`: array; `true` = the PDF specification allows the bare single value for this entry
    Many(Box<K>, bool),
    /// `HashMap<Name, V>`
    Map(Box<K>),
    /// `(T, U)`
    Pair(Box<K>, Box<K>),
    /// derived struct model (dictionary), /Type tag emitted optionally when optional
    M(&'static str),
    /// derived struct model, /Type tag always emitted (needed behind `PagesNode`)
    MT(&'static str),
    /// `Ref<T>` (second = false: never resolved by the reader) / `RcRef<T>`, `PageRc`, `PagesRc` (true: resolved and parsed)
    Ref(Box<K>, bool),
    /// `MaybeRef<T>`: direct or reference (resolved)
    MaybeRef(Box<K>),
    /// `Lazy<T>`: stored verbatim
    Lazy(Box<K>),
    /// `Stream<I>`; the info model name ("" for `()`), and whether the reader decodes the data
    Stream(&'static str, bool),
    // hand-written pairs
    Dest,
    MaybeNamedDest,
    Action,
    Encoding,
    NumberTree(Box<K>),
    /// any writable font subtype
    Font,
    /// `Font` restricted to one /Subtype
    FontSub(&'static str),
    /// /Encoding of a Type0 font: predefined CMap name or CMap stream (read through `Encoding`)
    CMapEncoding,
    CidToGid,
    XObject,
    Pattern,
    ColorSpace,
    Content,
    ApEntry,
    PagesNode,
}

#[derive(Clone, Debug, PartialEq)]
pub enum Dv { I(i32), F(f32), B(bool) }

#[derive(Clone, Debug, PartialEq)]
pub enum Req {
    /// reader fails when absent
    Req,
    /// absent reads as None / empty
    Opt,
    /// `#[pdf(default = ..)]` with a literal default
    Def(Dv),
}

#[derive(Clone, Debug)]
pub struct Field {
    pub key: &'static str,
    pub k: K,
    pub req: Req,
    /// `#[pdf(indirect)]`
    pub indirect: bool,
}

#[derive(Clone, Debug)]
pub struct Model {
    pub name: &'static str,
    /// `#[pdf(Type = "X")]` (true) or `"X?"` (false = optional on reading); always written
    pub ty: Option<(&'static str, bool)>,
    /// other `#[pdf(Key = "value")]` checks: required on reading, always written
    pub checks: Vec<(&'static str, &'static str)>,
    pub fields: Vec<Field>,
    /// has a `#[pdf(other)]` catch-all dictionary
    pub other: bool,
    /// entries the PDF specification defines for this dictionary that the (closed) model does not declare; generated as a
    /// labelled choice because a closed model nested directly inside a model that keeps unrecognised entries loses them
    pub spec_extra: Vec<(&'static str, K)>,
}

impl Model {
    pub fn field(&self, key: &str) -> Option<&Field> { self.fields.iter().find(|f| f.key == key) }
    pub fn n_optional(&self) -> usize { self.fields.iter().filter(|f| f.req != Req::Req).count() }
    pub fn is_spec_extra(&self, key: &str) -> bool { self.spec_extra.iter().any(|(k, _)| *k == key) }
    pub fn is_tag_key(&self, key: &str) -> bool {
        (key == "Type" && self.ty.is_some()) || self.checks.iter().any(|(k, _)| *k == key)
    }
}

fn b(k: K) -> Box<K> { Box::new(k) }
fn req(key: &'static str, k: K) -> Field { Field { key, k, req: Req::Req, indirect: false } }
fn opt(key: &'static str, k: K) -> Field { Field { key, k, req: Req::Opt, indirect: false } }
fn def(key: &'static str, k: K, d: Dv) -> Field { Field { key, k, req: Req::Def(d), indirect: false } }
fn many(k: K) -> K { K::Many(b(k), false) }
fn many1(k: K) -> K { K::Many(b(k), true) }
fn rf(k: K) -> K { K::Ref(b(k), false) }
fn rc(k: K) -> K { K::Ref(b(k), true) }
fn mref(k: K) -> K { K::MaybeRef(b(k)) }
fn stm(info: &'static str) -> K { K::Stream(info, false) }

pub const COUNTER: &[&str] = &["D", "r", "R", "a", "A"];
pub const RENDERING_INTENT: &[&str] = &["AbsoluteColorimetric", "RelativeColorimetric", "Saturation", "Perceptual"];
pub const FIELD_TYPE: &[&str] = &["Btn", "Tx", "Ch", "Sig", "SigRef"];
pub const TRAPPED: &[&str] = &["True", "False", "Unknown"];
pub const FONT_STRETCH: &[&str] = &["UltraCondensed", "ExtraCondensed", "Condensed", "SemiCondensed", "Normal", "SemiExpanded", "Expanded", "ExtraExpanded", "UltraExpanded"];
pub const FONT_TYPE_EXT: &[&str] = &["Type1C", "CIDFontType0C", "OpenType"];
pub const BASE_ENCODING: &[&str] = &["StandardEncoding", "SymbolEncoding", "MacRomanEncoding", "WinAnsiEncoding", "MacExpertEncoding", "Identity-H", "None"];
pub const STRUCT_TYPE: &[&str] = &["Document", "Part", "Art", "Sect", "Div", "BlockQuote", "Caption", "TOC", "TOCI", "Index", "NonStruct", "Private", "Book",
    "P", "H", "H1", "H2", "H3", "H4", "H5", "H6", "L", "Ll", "Lbl", "LBody", "Table", "TR", "TH", "TD", "THead", "TBody", "TFoot", "Span", "Quote", "Note",
    "Reference", "BibEntry", "Code", "Link", "Annot", "Ruby", "RB", "RT", "RP", "Warichu", "WT", "WP", "Figure", "Formula", "Form"];
pub const FONT_TYPE: &[&str] = &["Type0", "Type1", "MMType1", "Type3", "TrueType", "CIDFontType0", "CIDFontType2"];

fn tfont_fields() -> Vec<Field> {
    vec![
        opt("BaseFont", K::Name), opt("FirstChar", K::Int(0, 255)), opt("LastChar", K::Int(0, 255)),
        opt("Widths", many(K::Real)), opt("FontDescriptor", K::M("FontDescriptor")),
    ]
}
fn type0_fields() -> Vec<Field> {
    vec![opt("DescendantFonts", many(mref(K::FontSub("CIDFontType2")))), opt("ToUnicode", rc(stm("")))]
}
fn cidfont_fields() -> Vec<Field> {
    vec![
        req("CIDSystemInfo", K::Dict), req("FontDescriptor", K::M("FontDescriptor")), def("DW", K::Real, Dv::F(1000.)),
        opt("W", many(K::Prim)), opt("CIDToGIDMap", K::CidToGid),
    ]
}

fn build() -> Vec<Model> {
    let m = |name, ty, checks: Vec<(&'static str, &'static str)>, fields, other| Model { name, ty, checks, fields, other, spec_extra: vec![] };
    let mut v = vec![
        // ---- object/types.rs
        m("Catalog", Some(("Catalog", false)), vec![], vec![
            opt("Version", K::Name), req("Pages", rc(K::MT("PageTree"))), opt("PageLabels", K::NumberTree(b(K::M("PageLabel")))),
            opt("Names", mref(K::M("NameDictionary"))), opt("Dests", mref(K::Dict)), opt("Outlines", K::M("Outlines")),
            opt("AcroForm", K::M("InteractiveFormDictionary")), opt("Metadata", rf(stm(""))), opt("StructTreeRoot", K::M("StructTreeRoot")),
        ], false),
        m("PageTree", Some(("Pages", false)), vec![], vec![
            opt("Parent", rc(K::MT("PageTree"))), opt("Kids", many(rf(K::PagesNode))), req("Count", K::UInt(50)),
            opt("Resources", mref(K::M("Resources"))), opt("MediaBox", K::Rect), opt("CropBox", K::Rect),
        ], false),
        m("Page", Some(("Page", false)), vec![], vec![
            req("Parent", rc(K::MT("PageTree"))),
            Field { key: "Resources", k: mref(K::M("Resources")), req: Req::Opt, indirect: true },
            opt("MediaBox", K::Rect), opt("CropBox", K::Rect), opt("TrimBox", K::Rect), opt("Contents", K::Content),
            def("Rotate", K::Int(-360, 360), Dv::I(0)), opt("Metadata", K::Prim), opt("LGIDict", K::Prim), opt("VP", K::Prim),
            opt("Annots", K::Lazy(b(many(mref(K::M("Annot")))))),
        ], true),
        m("PageLabel", None, vec![], vec![opt("S", K::NameEnum(COUNTER, false)), opt("P", K::Str), opt("St", K::UInt(1000))], false),
        m("LageLabel", None, vec![], vec![opt("S", K::NameEnum(COUNTER, false)), opt("P", K::Str), opt("St", K::Int(0, 1000))], false),
        m("Resources", None, vec![], vec![
            opt("ExtGState", K::Map(b(K::M("GraphicsStateParameters")))), opt("ColorSpace", K::Map(b(K::ColorSpace))),
            opt("Pattern", K::Map(b(rf(K::Pattern)))), opt("XObject", K::Map(b(rf(K::XObject)))),
            opt("Font", K::Map(b(K::Lazy(b(K::Font))))), opt("Properties", K::Map(b(mref(K::Dict)))),
        ], false),
        m("PatternDict", None, vec![], vec![
            opt("PaintType", K::Int(1, 2)), opt("TilingType", K::Int(1, 3)), req("BBox", K::Rect), req("XStep", K::Real), req("YStep", K::Real),
            req("Resources", rf(K::M("Resources"))), opt("Matrix", K::Matrix),
        ], false),
        m("GraphicsStateParameters", Some(("ExtGState", false)), vec![], vec![
            opt("LW", K::Real), opt("LC", K::IntEnum(&[0, 1, 2])), opt("LJ", K::IntEnum(&[0, 1, 2])), opt("ML", K::Real),
            opt("D", many(K::Prim)), opt("RI", K::Name), opt("OP", K::Bool), opt("op", K::Bool), opt("OPM", K::Int(0, 1)),
            opt("Font", K::Pair(b(rf(K::Font)), b(K::Real))), opt("BM", K::Prim), opt("SMask", K::Prim),
            opt("CA", K::Real), opt("ca", K::Real), opt("AIS", K::Bool), opt("TK", K::Bool),
        ], true),
        m("PostScriptDict", Some(("XObject", true)), vec![("Subtype", "PS")], vec![], true),
        m("ImageDict", Some(("XObject", false)), vec![("Subtype", "Image")], vec![
            req("Width", K::UInt(4096)), req("Height", K::UInt(4096)), opt("ColorSpace", K::ColorSpace), opt("BitsPerComponent", K::Int(1, 16)),
            opt("Intent", K::NameEnum(RENDERING_INTENT, false)), def("ImageMask", K::Bool, Dv::B(false)), opt("Mask", K::Prim),
            opt("Decode", many(K::Real)), def("Interpolate", K::Bool, Dv::B(false)), opt("StructParent", K::Int(0, 1000)), opt("ID", K::Str),
            opt("SMask", rf(stm("ImageDict"))),
        ], true),
        m("FormDict", Some(("XObject", false)), vec![("Subtype", "Form")], vec![
            def("FormType", K::Int(1, 1), Dv::I(1)), opt("Name", K::Name), opt("LastModified", K::Str), req("BBox", K::Rect), opt("Matrix", K::Prim),
            opt("Resources", mref(K::M("Resources"))), opt("Group", K::Dict), opt("Ref", K::Dict), opt("Metadata", rf(stm(""))),
            opt("PieceInfo", K::Dict), opt("StructParent", K::Int(0, 1000)), opt("StructParents", K::Int(0, 1000)), opt("OPI", K::Dict),
        ], true),
        m("InteractiveFormDictionary", None, vec![], vec![
            opt("Fields", many(rc(K::M("FieldDictionary")))), def("NeedAppearances", K::Bool, Dv::B(false)), def("SigFlags", K::UInt(3), Dv::I(0)),
            opt("CO", many(rc(K::M("FieldDictionary")))), opt("DR", mref(K::M("Resources"))), opt("DA", K::Str), opt("Q", K::Int(0, 2)), opt("XFA", K::Prim),
        ], false),
        m("SeedValueDictionary", Some(("SV", true)), vec![], vec![
            def("Ff", K::UInt(127), Dv::I(0)), opt("Filter", K::Name), opt("SubFilter", many(K::Name)), opt("V", K::Prim),
            // DigestMethod is `Vec<PdfString>` in the model while the specification has names: left out of the domain
        ], true),
        m("SignatureDictionary", Some(("Sig", false)), vec![], vec![
            req("Filter", K::Name), req("SubFilter", K::Name), opt("ByteRange", many(K::UInt(100000))), req("Contents", K::Str), opt("Cert", many1(K::Str)),
            opt("Reference", K::Prim), opt("Name", K::Str), opt("M", K::Str), opt("Location", K::Str), opt("Reason", K::Str), opt("ContactInfo", K::Str),
            req("V", K::Int(0, 1)), req("R", K::Int(0, 100)), req("Prop_Build", K::Dict), req("Prop_AuthTime", K::Int(0, 100000)), req("Prop_AuthType", K::Name),
        ], true),
        m("SignatureReferenceDictionary", Some(("SigRef", false)), vec![], vec![
            req("TransformMethod", K::Name), opt("TransformParams", K::Dict), opt("Data", K::Prim), opt("DigestMethod", K::Name),
        ], true),
        m("Annot", Some(("Annot", false)), vec![], vec![
            req("Subtype", K::Name), opt("Rect", K::Rect), opt("Contents", K::Str), opt("P", rc(K::MT("Page"))), opt("NM", K::Str), opt("M", K::Date),
            def("F", K::UInt(1023), Dv::I(0)), opt("AP", mref(K::M("AppearanceStreams"))), opt("AS", K::Name), opt("Border", K::Prim), opt("C", K::Prim),
            opt("InkList", K::Prim),
        ], true),
        m("FieldDictionary", None, vec![], vec![
            opt("FT", K::NameEnum(FIELD_TYPE, false)), opt("Parent", rf(K::M("FieldDictionary"))), opt("Kids", many(rf(K::M("FieldDictionary")))),
            opt("T", K::Str), opt("TU", K::Str), opt("TM", K::Str), def("Ff", K::UInt(1 << 26), Dv::I(0)), def("SigFlags", K::UInt(3), Dv::I(0)),
            opt("V", K::Prim), opt("DV", K::Prim), opt("DR", mref(K::M("Resources"))), opt("AA", K::Dict), opt("Rect", K::Rect), opt("MaxLen", K::UInt(1000)),
            opt("Subtype", K::Name),
        ], true),
        m("AppearanceStreams", None, vec![], vec![req("N", rf(K::ApEntry)), opt("R", rf(K::ApEntry)), opt("D", rf(K::ApEntry))], false),
        m("NameDictionary", None, vec![], vec![], false), // all fields are NameTree<..>: unwritable, only the empty dictionary is inside the statement
        m("FileSpec", None, vec![], vec![opt("EF", K::M("Files"))], false),
        m("Files", None, vec![], vec![
            opt("F", rf(stm("EmbeddedFile"))), opt("UF", rf(stm("EmbeddedFile"))), opt("DOS", rf(stm("EmbeddedFile"))),
            opt("Mac", rf(stm("EmbeddedFile"))), opt("Unix", rf(stm("EmbeddedFile"))),
        ], false),
        m("EmbeddedFile", None, vec![], vec![opt("Subtype", K::Name), opt("Params", K::M("EmbeddedFileParamDict"))], false),
        m("EmbeddedFileParamDict", None, vec![], vec![
            opt("Size", K::Int(0, 100000)), opt("CreationDate", K::Date), opt("ModDate", K::Date), opt("Mac", K::Date), opt("CheckSum", K::Str),
        ], false),
        m("Outlines", Some(("Outlines", false)), vec![], vec![def("Count", K::Int(-20, 20), Dv::I(0)), opt("First", rf(K::Dict)), opt("Last", rf(K::Dict))], false),
        m("MarkInformation", None, vec![], vec![
            def("Marked", K::Bool, Dv::B(false)), def("UserProperties", K::Bool, Dv::B(false)), def("Suspects", K::Bool, Dv::B(false)),
        ], false),
        m("StructTreeRoot", Some(("StructTreeRoot", true)), vec![], vec![opt("K", many1(K::M("StructElem")))], false),
        m("StructElem", None, vec![], vec![
            req("S", K::NameEnum(STRUCT_TYPE, true)), req("P", rf(K::Dict)), opt("ID", K::Str), opt("Pg", rf(K::MT("Page"))),
        ], false),
        m("InfoDict", None, vec![], vec![
            opt("Title", K::Str), opt("Author", K::Str), opt("Subject", K::Str), opt("Keywords", K::Str), opt("Creator", K::Str), opt("Producer", K::Str),
            opt("CreationDate", K::Date), opt("ModDate", K::Date), opt("Trapped", K::NameEnum(TRAPPED, false)),
        ], false),
        // ---- file.rs / xref.rs
        m("Trailer", None, vec![], vec![
            req("Size", K::Int(1, 100000)), opt("Prev", K::Int(0, 100000)), req("Root", rc(K::M("Catalog"))),
            Field { key: "Info", k: K::M("InfoDict"), req: Req::Opt, indirect: true }, opt("ID", many(K::Str)),
            // Encrypt: RcRef<CryptDict> is left absent (CryptDict has no writer; the trailer writer would only copy the reference)
        ], false),
        m("XRefInfo", Some(("XRef", true)), vec![], vec![
            req("Size", K::UInt(100000)), opt("Index", many(K::UInt(100000))), opt("Prev", K::Int(0, 100000)), opt("W", many(K::UInt(8))),
        ], false),
        // ---- enc.rs
        m("LZWFlateParams", None, vec![], vec![
            def("Predictor", K::Int(1, 15), Dv::I(1)), def("Colors", K::Int(1, 4), Dv::I(1)), def("BitsPerComponent", K::Int(1, 16), Dv::I(8)),
            def("Columns", K::Int(1, 5000), Dv::I(1)), def("EarlyChange", K::Int(0, 1), Dv::I(1)),
        ], false),
        m("DCTDecodeParams", None, vec![], vec![opt("ColorTransform", K::Int(0, 1))], false),
        m("CCITTFaxDecodeParams", None, vec![], vec![
            def("K", K::Int(-1, 4), Dv::I(0)), def("EndOfLine", K::Bool, Dv::B(false)), def("EncodedByteAlign", K::Bool, Dv::B(false)),
            def("Columns", K::UInt(5000), Dv::I(1728)), def("Rows", K::UInt(5000), Dv::I(0)), def("EndOfBlock", K::Bool, Dv::B(true)),
            def("BlackIs1", K::Bool, Dv::B(false)), def("DamagedRowsBeforeError", K::UInt(100), Dv::I(0)),
        ], false),
        m("JBIG2DecodeParams", None, vec![], vec![opt("JBIG2Globals", stm(""))], false),
        // ---- color.rs
        m("IccInfo", None, vec![], vec![req("N", K::UInt(4)), opt("Alternate", K::ColorSpace), opt("Range", many(K::Real)), opt("Metadata", stm(""))], false),
        // ---- font.rs
        m("TFont", None, vec![], tfont_fields(), false),
        m("Type0Font", None, vec![], type0_fields(), false),
        m("CIDFont", None, vec![], cidfont_fields(), true),
        m("FontDescriptor", None, vec![], vec![
            req("FontName", K::Name), opt("FontFamily", K::Str), opt("FontStretch", K::NameEnum(FONT_STRETCH, false)), opt("FontWeight", K::Real),
            req("Flags", K::UInt(1 << 19)), req("FontBBox", K::Rect), req("ItalicAngle", K::Real), opt("Ascent", K::Real), opt("Descent", K::Real),
            def("Leading", K::Real, Dv::F(0.)), opt("CapHeight", K::Real), def("XHeight", K::Real, Dv::F(0.)), def("StemV", K::Real, Dv::F(0.)),
            def("StemH", K::Real, Dv::F(0.)), def("AvgWidth", K::Real, Dv::F(0.)), def("MaxWidth", K::Real, Dv::F(0.)), def("MissingWidth", K::Real, Dv::F(0.)),
            opt("FontFile", rc(stm(""))), opt("FontFile2", rc(stm(""))), opt("FontFile3", rc(stm("FontStream3"))), opt("CharSet", K::Str),
        ], false),
        m("FontStream3", None, vec![], vec![req("Subtype", K::NameEnum(FONT_TYPE_EXT, false))], false),
    ];
    // ---- synthetic models for the hand-written `Font` pair (font.rs:100-176): /Type /Font and /Subtype are required,
    // BaseFont is required (all writable subtypes), Encoding and ToUnicode are taken by `Font` itself, the rest goes to the
    // per-subtype derived struct. `Font` keeps the remaining entries in `_other`.
    let font = |name: &'static str, sub: &'static str, mut fields: Vec<Field>| {
        fields.retain(|f| f.key != "BaseFont" && f.key != "ToUnicode");
        let enc = if sub == "Type0" { K::CMapEncoding } else { K::Encoding };
        let mut all = vec![req("BaseFont", K::Name), opt("Encoding", enc), opt("ToUnicode", rc(stm("")))];
        all.extend(fields);
        Model { name, ty: Some(("Font", true)), checks: vec![("Subtype", sub)], fields: all, other: true, spec_extra: vec![] }
    };
    for md in v.iter_mut() {
        match md.name {
            // ISO 32000-1 Table 33: /ProcSet, /Shading are resource categories the model has no field for
            "Resources" => md.spec_extra = vec![("ProcSet", many(K::NameEnum(&["PDF", "Text", "ImageB", "ImageC", "ImageI"], false))), ("Shading", K::Map(b(rf(K::Dict))))],
            // Table 122: /Type /FontDescriptor is required by the specification
            "FontDescriptor" => md.spec_extra = vec![("Type", K::NameEnum(&["FontDescriptor"], false))],
            _ => {}
        }
    }
    v.push(font("Font:Type1", "Type1", tfont_fields()));
    v.push(font("Font:TrueType", "TrueType", tfont_fields()));
    v.push(font("Font:Type0", "Type0", type0_fields()));
    v.push(font("Font:CIDFontType0", "CIDFontType0", cidfont_fields()));
    v.push(font("Font:CIDFontType2", "CIDFontType2", cidfont_fields()));
    v
}

pub static MODELS: Lazy<HashMap<&'static str, Model>> = Lazy::new(|| build().into_iter().map(|m| (m.name, m)).collect());

pub fn model(name: &str) -> &'static Model {
    MODELS.get(name).unwrap_or_else(|| panic!("C15 schema: unknown model {}", name))
}

/// pseudo fields every `Stream<I>` reader takes out of the stream dictionary before `I` sees it
pub fn stream_field(key: &str) -> Option<K> {
    match key {
        "Length" => Some(K::UInt(1 << 20)),
        "Filter" | "FFilter" => Some(K::Many(Box::new(K::Name), true)),
        _ => None,
    }
}

/// Types with a reader that cannot be written at all (outside the statement); listed in the evidence.
pub const UNWRITABLE: &[(&str, &str)] = &[
    ("NameTree<T>", "ObjectWrite::to_primitive is todo!() (object/types.rs)"),
    ("NameDictionary with any name tree", "derived writer reaches NameTree::to_primitive = todo!()"),
    ("Function", "ObjectWrite::to_primitive is unimplemented!() (object/function.rs)"),
    ("ColorSpace::{DeviceN, Separation}", "the writer needs a writer for Function, which is unimplemented!() (object/color.rs); all other colour spaces are written since /repo 0e263fe"),
    ("Font with Subtype Type3 / MMType1 (FontData::Other)", "writer bails with \"unimplemented\" (font.rs)"),
    ("OutlineItem", "derives Object only, no ObjectWrite"),
    ("CryptDict / CryptFilter", "derive Object only, no ObjectWrite"),
    ("ObjStmInfo / ObjectStream", "no ObjectWrite"),
    ("Function2 / RawFunction", "private"),
    ("Pattern / Content holding Op::InlineImage", "serialize_ops is unimplemented!() for inline images"),
];
