//! C10 — not built yet.
use crate::run::Run;
pub fn run(_run: &Run) { eprintln!("C10: check not built yet"); std::process::exit(2); }
