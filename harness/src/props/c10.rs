//! C10 — documents built from scratch reload with the same pages and are valid PDF.
//!
//! Workload: tape-generated documents (`c10_gen`): 0–6 pages with operations from C08's domain, boxes, rotation,
//! extra entries, /Metadata /LGIDict /VP, resources (fonts, ExtGState, colour spaces, XObjects, patterns, property
//! lists; auxiliary objects are created in the builder's own storage first), optional information dictionary,
//! builder from `FileOptions::cached()` or `uncached()`.
//! Oracles on the bytes `PdfBuilder::build` returns:
//!   build     build / create return Ok and do not panic;
//!   reload    strict `FileOptions::{uncached,cached}().load(bytes)` succeeds and shows what was given (`c10_build::compare`);
//!   validate  `refimpl::c10_validate` (own reader, no library code) accepts the file structure, and its own reading of
//!             page tree, /Rotate, /MediaBox, marker entries and /Info agrees with what was given.
//! Every distinct (oracle, outcome class) of a failing case is shrunk on the tape with the real code in the loop; the
//! signature is `C10|<oracle>|<labels of the shrunk case>|<outcome class>`.
use super::c10_build::{build_doc, compare, Fail, Made};
use super::c10_gen::*;
use crate::mkpdf::Obj;
use crate::panicmon::guard;
use crate::par::par_chunks;
use crate::refimpl::{c10_validate, c15_date};
use crate::rng::{fnv, Rng};
use crate::run::{show, Run};
use crate::tape::{shrink, Src};
use pdf::file::FileOptions;
use serde_json::{json, Value};
use std::collections::{BTreeMap, BTreeSet};
use std::sync::Mutex;

#[derive(Clone, Debug)]
pub struct Failure { pub oracle: &'static str, pub class: String, pub detail: String }

#[derive(Default)]
pub struct Outcome {
    pub fails: Vec<Failure>,
    pub inconclusive: Option<String>,
    pub bytes: Vec<u8>,
    pub notes: BTreeSet<String>,
    pub n_objects: usize,
    pub n_streams: usize,
    pub n_refs: usize,
}

fn build(spec: &DocSpec) -> Result<Result<(Vec<u8>, Made), Fail>, crate::panicmon::PanicRec> {
    guard(|| if spec.cached_builder { build_doc(FileOptions::cached(), spec) } else { build_doc(FileOptions::uncached(), spec) })
}

fn num_of(o: Option<&Obj>) -> Option<f64> { match o { Some(Obj::Int(i)) => Some(*i as f64), Some(Obj::Real(x)) => Some(*x), _ => None } }

/// value-level agreement of the independent reading with what was given
fn cross_check(rep: &c10_validate::Report, spec: &DocSpec, out: &mut Vec<Failure>) {
    let mut bad = |class: &str, detail: String| out.push(Failure { oracle: "validate", class: class.into(), detail });
    match rep.pages() {
        Err(e) => bad("page-tree-unwalkable", e),
        Ok(pages) => {
            if pages.len() != spec.pages.len() { bad("wrong-page-count", format!("own reader finds {} page objects, {} pages were given", pages.len(), spec.pages.len())); }
            for (i, (nr, p)) in pages.iter().zip(&spec.pages).enumerate() {
                let Some(obj) = rep.object(*nr) else { continue };
                match obj.get(MARKER) {
                    Some(Obj::Int(k)) if *k as usize == i => {}
                    Some(Obj::Int(k)) => { bad("wrong-page-order", format!("own reader: /Kids position {} holds the page given at position {}", i, k)); continue; }
                    other => bad("other-entry-lost", format!("own reader: page {} marker is {:?}", i, other)),
                }
                let rot = rep.dict_get(obj, "Rotate");
                match rot { Some(Obj::Int(r)) if *r == p.rotate as i64 => {}, None if p.rotate == 0 => {}, other => bad("wrong-rotate", format!("own reader: page {} /Rotate {:?}, expected {}", i, other, p.rotate)) }
                match (rep.dict_get(obj, "MediaBox"), &p.media) {
                    (None, None) => {}
                    (Some(Obj::Arr(a)), Some(m)) if a.len() == 4 && a.iter().zip(m.iter()).all(|(x, y)| num_of(Some(x)).map(|v| v as f32) == Some(*y)) => {}
                    (g, w) => bad("wrong-box", format!("own reader: page {} /MediaBox {:?}, expected {:?}", i, g, w)),
                }
                if !matches!(obj.get("Contents"), Some(Obj::Ref(..))) { bad("wrong-ops", format!("own reader: page {} /Contents is {:?}", i, obj.get("Contents"))); }
                if !matches!(obj.get("Resources"), Some(Obj::Ref(..)) | Some(Obj::Dict(_))) { bad("wrong-resources", format!("own reader: page {} /Resources is {:?}", i, obj.get("Resources"))); }
            }
        }
    }
    let tr = rep.trailer.as_ref();
    let info = tr.and_then(|t| t.get("Info")).and_then(|i| rep.deref(i));
    match (&spec.info, info) {
        (None, None) => {}
        (Some(want), Some(got @ Obj::Dict(_))) => {
            for k in 0..6 {
                let g = match got.get(INFO_KEYS[k]) { Some(Obj::Str(s)) => Some(s.clone()), None => None, Some(_) => Some(b"<not a string>".to_vec()) };
                if g != want.strings[k] { bad("info-differs", format!("own reader: /{} is {:?}, expected {:?}", INFO_KEYS[k], g.as_ref().map(|s| show(s)), want.strings[k].as_ref().map(|s| show(s)))); }
            }
            for (key, w) in [("CreationDate", &want.creation), ("ModDate", &want.modified)] {
                let g = match got.get(key) { Some(Obj::Str(s)) => Some(c15_date::parse(s)), None => None, Some(_) => Some(Err("not a string".into())) };
                let ok = match (w, &g) {
                    (None, None) => true,
                    (Some(d), Some(Ok(r))) => r.year == d.year as u32 && r.month == d.month as u32 && r.day == d.day as u32 && r.hour == d.hour as u32 && r.minute == d.minute as u32
                        && r.second == d.second as u32 && r.rel == d.rel && r.tz_hour == d.tz_hour as u32 && r.tz_minute == d.tz_minute as u32,
                    _ => false,
                };
                if !ok { bad("info-differs", format!("own reader: /{} is {:?} ({:?}), expected {:?}", key, got.get(key), g, w)); }
            }
            let t = match got.get("Trapped") { Some(Obj::Name(n)) => match &n[..] { b"True" => Some(0u8), b"False" => Some(1), b"Unknown" => Some(2), _ => Some(9) }, None => None, _ => Some(9) };
            if t != want.trapped { bad("info-differs", format!("own reader: /Trapped {:?}, expected {:?}", got.get("Trapped"), want.trapped)); }
        }
        (w, g) => bad("info-differs", format!("own reader: /Info {:?}, information given: {}", g.map(|_| "present"), w.is_some())),
    }
}

/// one document through all oracles
/// position the `startxref` line of a written file names
fn startxref_of(bytes: &[u8]) -> Option<usize> {
    let at = bytes.windows(9).rposition(|w| w == b"startxref")?;
    std::str::from_utf8(&bytes[at + 9..]).ok()?.split_whitespace().next()?.parse().ok()
}
/// apply the size steering of a specification: pad the Keywords entry until the cross-reference section starts where asked
fn steered(spec: &DocSpec) -> DocSpec {
    let mut sp = spec.clone();
    let Some((boundary, delta)) = spec.steer else { return sp };
    let target = (boundary as i64 + delta as i64) as usize;
    let mut info = sp.info.clone().unwrap_or_default();
    info.strings[3] = Some(Vec::new());
    sp.info = Some(info);
    for _ in 0..4 {
        let Ok(Ok((bytes, _))) = build(&sp) else { break };
        let Some(at) = startxref_of(&bytes) else { break };
        if at == target { break; }
        let cur = sp.info.as_ref().unwrap().strings[3].as_ref().unwrap().len() as i64;
        let want = cur + target as i64 - at as i64;
        if want < 0 { break; }
        sp.info.as_mut().unwrap().strings[3] = Some(vec![b'k'; want as usize]);
    }
    sp
}

pub fn evaluate(spec: &DocSpec) -> Outcome {
    let steered_spec;
    let spec = if spec.steer.is_some() { steered_spec = steered(spec); &steered_spec } else { spec };
    let mut o = Outcome::default();
    let (bytes, made) = match build(spec) {
        Err(p) => { o.fails.push(Failure { oracle: "build", class: p.signature(), detail: format!("building panicked: {}", p.describe()) }); return o; }
        Ok(Err(Fail::Prepare(why))) => { o.inconclusive = Some(format!("input preparation failed: {}", why)); return o; }
        Ok(Err(Fail::Lib(class, e))) => { o.fails.push(Failure { oracle: "build", class: class.into(), detail: format!("{}: {}", class, e) }); return o; }
        Ok(Ok(t)) => t,
    };
    // oracle 2: own reader
    match guard(|| c10_validate::validate(&bytes)) {
        Err(p) => o.inconclusive = Some(format!("validator panicked: {}", p.describe())),
        Ok(rep) => {
            if let Some(u) = &rep.unsupported { o.inconclusive = Some(format!("validator: unsupported: {}", u)); }
            let mut seen = BTreeSet::new();
            for p in &rep.problems { if seen.insert(p.class) { o.fails.push(Failure { oracle: "validate", class: p.class.into(), detail: p.detail.clone() }); } }
            o.notes = rep.notes.clone();
            o.n_objects = rep.objects.len(); o.n_streams = rep.n_streams; o.n_refs = rep.n_refs;
            let cl = rep.classes();
            // the value-level comparison needs the objects: skip it when the structure itself is already reported broken
            if rep.unsupported.is_none() && rep.trailer.is_some() && !cl.contains("object-syntax") && !cl.contains("xref-offset-mismatch") { cross_check(&rep, spec, &mut o.fails); }
        }
    }
    // oracle 1: reload with the library, both cache flavours, strict options (the default of FileOptions)
    for cached in [false, true] {
        let r = guard(|| -> Result<Vec<(&'static str, String)>, String> {
            if cached { FileOptions::cached().load(bytes.clone()).map(|f| compare(&f, spec, &made)).map_err(|e| format!("{}", e)) }
            else { FileOptions::uncached().load(bytes.clone()).map(|f| compare(&f, spec, &made)).map_err(|e| format!("{}", e)) }
        });
        let how = if cached { "cached" } else { "uncached" };
        match r {
            Err(p) => o.fails.push(Failure { oracle: "reload", class: p.signature(), detail: format!("{} reload panicked: {}", how, p.describe()) }),
            Ok(Err(e)) => o.fails.push(Failure { oracle: "reload", class: "load-error".into(), detail: format!("{} load: {}", how, e) }),
            Ok(Ok(diffs)) => for (c, d) in diffs { o.fails.push(Failure { oracle: "reload", class: c.into(), detail: format!("{} reload: {}", how, d) }); },
        }
    }
    // one entry per (oracle, class)
    let mut seen = BTreeSet::new();
    o.fails.retain(|f| seen.insert((f.oracle, f.class.clone())));
    o.bytes = bytes;
    o
}

fn describe(spec: &DocSpec) -> Value {
    json!({
        "builder": if spec.cached_builder { "FileOptions::cached()" } else { "FileOptions::uncached()" },
        "info": spec.info.as_ref().map(|i| json!({
            "strings": INFO_KEYS.iter().zip(&i.strings).filter_map(|(k, v)| v.as_ref().map(|v| (k.to_string(), Value::String(show(v))))).collect::<serde_json::Map<String, Value>>(),
            "creation": format!("{:?}", i.creation), "modified": format!("{:?}", i.modified), "trapped": i.trapped })),
        "pages": spec.pages.iter().map(|p| json!({
            "ops": crate::opsgen::show_ops(&p.ops), "media": format!("{:?}", p.media), "crop": format!("{:?}", p.crop), "trim": format!("{:?}", p.trim), "rotate": p.rotate,
            "other": p.other.iter().map(|(k, v)| format!("/{} {:?}", k, v)).collect::<Vec<_>>(),
            "metadata": p.metadata.as_ref().map(|m| show(m)), "lgi": p.lgi.as_ref().map(|v| format!("{:?}", v)), "vp": p.vp.as_ref().map(|v| format!("{:?}", v)),
            "resources": {
                "fonts": p.res.fonts.iter().map(|(n, f)| format!("/{} {:?}", n, f)).collect::<Vec<_>>(),
                "extgstate": p.res.gs.iter().map(|(n, d, f)| format!("/{} {:?} font-size {:?}", n, d, f)).collect::<Vec<_>>(),
                "colorspaces": p.res.cs.iter().map(|(n, c)| match c { CsSpec::Indexed { cmyk_base, hival, lookup } => format!("/{} Indexed(cmyk={}, hival={}, {} lookup bytes)", n, cmyk_base, hival, lookup.len()), o => format!("/{} {:?}", n, o) }).collect::<Vec<_>>(),
                "xobjects": p.res.xobjects.iter().map(|(n, x)| match x { XoSpec::Image { w, h, mask, cmyk, data, .. } => format!("/{} Image {}x{} mask={} cmyk={} data={}", n, w, h, mask, cmyk, show(&data[..data.len().min(64)])), XoSpec::Form { ops, .. } => format!("/{} Form {:?}", n, crate::opsgen::show_ops(ops)) }).collect::<Vec<_>>(),
                "patterns": p.res.patterns.iter().map(|(n, x)| format!("/{} stream={} ops={:?}", n, x.stream, crate::opsgen::show_ops(&x.ops))).collect::<Vec<_>>(),
                "properties": p.res.props.iter().map(|(n, d, i)| format!("/{} {:?} indirect={}", n, d, i)).collect::<Vec<_>>(),
            }})).collect::<Vec<_>>(),
    })
}

fn spec_hash(spec: &DocSpec) -> u64 { fnv(format!("{:?}", spec).as_bytes()) }

struct Found { index: u64, tape: Vec<u32>, features: BTreeSet<String>, fails: Vec<Failure> }

const OUT_OF_DOMAIN_COLOUR_SPACES: &str = "ColorSpace::to_primitive has no code for Separation and DeviceN (they need a writer for Function) and returns Err(Unimplemented) for them (pdf/src/object/color.rs; the other variants are probed each run, see colour_space_writer_probe), so these two are kept out of the generated resources and image dictionaries; ICCBased needs an RcRef into the target and is exercised by C15/C20 instead";

pub fn run(run: &Run) {
    run.rule("tape-generated documents: 0..6 pages (1 most often) x {operations from C08's domain without non-standard operands, <= 14 per page; MediaBox letter/A4/random/boundary-valued or absent; CropBox/TrimBox; Rotate 0, multiples of 90 (also negative and > 360), other values; 0..3 extra page entries (unmodelled spec keys and private keys with names, numbers, strings, arrays, dictionaries) plus a marker entry /C10Idx; /Metadata stream, /LGIDict, /VP; resources with Type1/TrueType fonts (widths, descriptor, encoding with differences, ToUnicode; direct or indirect), Type0 fonts with a CIDFontType0/2 descendant, ExtGState dictionaries, DeviceRGB/DeviceCMYK/DeviceGray/Pattern/named/CalRGB/CalGray/Lab/Indexed colour spaces (lookup below and above the writer's 100-byte switch), image and form XObjects, tiling patterns, property lists} x {no info, info with any subset of the six text strings (ASCII, UTF-16BE, parentheses, EOLs, random bytes), dates, Trapped} x {cached, uncached builder}. Oracles: build succeeds; strict reload (cached and uncached) shows the same page count, order, boxes, rotation, extra entries, operations (C08 comparator), resources and info; independent validator (refimpl/c10_validate.rs) accepts header, startxref, xref stream (/W /Index /Size decoded by hand), entry offsets, /Size, stream /Length, references, duplicates, %%EOF and reads the same pages/rotation/MediaBox/info. distinct_nontrivial = distinct documents that were built and passed through both oracles.");
    run.assume("the validator refimpl/c10_validate.rs implements ISO 32000-1 7.5 (self-tested each run on files of the independent writer mkpdf with and without hand-made defects)");
    run.assume("a stream's /Length is right when it equals the number of bytes between the EOL after `stream` and the EOL marker before `endstream` (7.3.8.1); when the region ends in CR LF both readings of the marker are accepted");
    run.assume("/Size larger than highest object number + 1 is recorded as an observation (counter note:size-exceeds-highest+1), not as a violation: the property demands /Size above every object number");
    run.assume("the reader keeps /Type in Page::other; that key is ignored when extra entries are compared");
    run.assume(OUT_OF_DOMAIN_COLOUR_SPACES);
    run.extra("out_of_domain", json!([OUT_OF_DOMAIN_COLOUR_SPACES, "Op::InlineImage (serialize_ops has no code for it, as in C08)", "non-finite box coordinates and operands", "null as a dictionary entry value (means: no entry)", "InfoDict / Page::other keys that collide with modelled keys"]));

    // which colour spaces can the writer write at all? (probed on the real code; the unwritable ones stay out of the domain)
    {
        use pdf::object::{ColorSpace, ObjectWrite};
        use pdf::primitive::{Dictionary, Primitive};
        let probes: Vec<(&str, ColorSpace)> = vec![
            ("DeviceRGB", ColorSpace::DeviceRGB), ("DeviceCMYK", ColorSpace::DeviceCMYK),
            ("Indexed", ColorSpace::Indexed(Box::new(ColorSpace::DeviceRGB), 0, std::sync::Arc::from(vec![0u8; 3]))),
            ("DeviceGray", ColorSpace::DeviceGray), ("Pattern", ColorSpace::Pattern), ("Named", ColorSpace::Named("Cs0".into())),
            ("CalGray", ColorSpace::CalGray(Dictionary::new())), ("CalRGB", ColorSpace::CalRGB(Dictionary::new())), ("CalCMYK", ColorSpace::CalCMYK(Dictionary::new())),
            ("Other", ColorSpace::Other(vec![Primitive::name("Lab"), Primitive::Dictionary(Dictionary::new())])),
        ];
        let mut res = serde_json::Map::new();
        for (name, cs) in probes {
            let mut st = super::c15_gen::new_store();
            let r = match guard(|| cs.to_primitive(&mut st)) { Ok(Ok(_)) => "written".to_string(), Ok(Err(e)) => format!("error: {}", e), Err(p) => format!("panic: {}", p.signature()) };
            if r != "written" { run.inconclusive(format!("colour space probe: {} is {}: the generator's domain needs revisiting", name, r)); }
            res.insert(name.to_string(), Value::String(r));
        }
        res.insert("DeviceN / Separation / Icc".into(), Value::String("not probed (need a Function / an ICC stream); same catch-all arm in the source".into()));
        run.extra("colour_space_writer_probe", Value::Object(res));
    }
    let st = c10_validate::self_test();
    if !st.is_empty() { for f in st.iter().take(5) { run.inconclusive(format!("validator self-test: {}", f)); } return; }
    run.count("validator_self_test_passed");

    let n = run.n(4_000, 1_000_000);
    let found: Mutex<Vec<Found>> = Mutex::new(Vec::new());
    par_chunks(n, 50, |lo, hi| {
        let mut local: BTreeMap<String, u64> = BTreeMap::new();
        let mut bump = |k: String, v: u64| *local.entry(k).or_insert(0) += v;
        for i in lo..hi {
            let mut src = Src::fresh(Rng::derive(run.seed, 10, i));
            let spec = gen_doc(&mut src);
            run.eval();
            let o = evaluate(&spec);
            if let Some(why) = &o.inconclusive { run.inconclusive(format!("case {}: {}", i, why)); }
            if !o.bytes.is_empty() {
                run.nontrivial(spec_hash(&spec));
                bump("documents_built".into(), 1);
                bump(format!("builder:{}", if spec.cached_builder { "cached" } else { "uncached" }), 1);
                bump(format!("pages={}", spec.pages.len()), 1);
                bump(format!("info:{}", if spec.info.is_some() { "given" } else { "none" }), 1);
                bump("pages_total".into(), spec.pages.len() as u64);
                bump("ops_total".into(), spec.pages.iter().map(|p| p.ops.len() as u64).sum());
                bump("validated:objects".into(), o.n_objects as u64);
                bump("validated:streams".into(), o.n_streams as u64);
                bump("validated:references".into(), o.n_refs as u64);
                bump("bytes_total".into(), o.bytes.len() as u64);
                if o.bytes.len() > 65536 { bump("documents_with_offsets_above_64KiB".into(), 1); }
                for nte in &o.notes { let k = nte.split(" (").next().unwrap_or(nte); bump(format!("note:{}:{}", k, if spec.info.is_some() { "with-info" } else { "without-info" }), 1); }
                if o.fails.is_empty() { bump("documents_pass".into(), 1); }
            }
            let l: BTreeSet<&'static str> = src.labels.iter().cloned().collect();
            for lab in l.iter() { if !lab.starts_with("pat:") && !lab.starts_with("c1=") && !lab.starts_with("c2=") { bump(format!("feature:{}", lab), 1); } }
            if i < 4 { run.sample(json!({"case": i, "labels": src.label_set(), "document": describe(&spec), "bytes": show(&o.bytes[..o.bytes.len().min(700)]), "n_bytes": o.bytes.len()})); }
            if !o.fails.is_empty() {
                for f in &o.fails { bump(format!("failing:{}|{}", f.oracle, f.class), 1); }
                found.lock().unwrap().push(Found { index: i, tape: src.tape.clone(), features: super::c10_min::features(&spec), fails: o.fails });
            }
        }
        for (k, v) in local { run.add(&k, v); }
    });

    // Minimise in rounds, in case order (deterministic whatever the thread schedule was). A failing case whose features
    // include the label set of an already minimised case of the same (oracle, class) counts as explained by it; the
    // others are minimised too, so that a frequent cause cannot hide a rare one of the same class.
    let mut found = found.into_inner().unwrap();
    found.sort_by_key(|f| f.index);
    type Key = (String, String);
    let mut pending: Vec<(u64, Vec<u32>, BTreeSet<String>, Failure)> = Vec::new();
    for f in found { for fail in &f.fails { pending.push((f.index, f.tape.clone(), f.features.clone(), fail.clone())); } }
    let mut explained: BTreeMap<Key, Vec<BTreeSet<String>>> = BTreeMap::new();
    let mut spent: BTreeMap<Key, usize> = BTreeMap::new();
    loop {
        let mut batch: Vec<(u64, Vec<u32>, Failure)> = Vec::new();
        let mut in_batch: BTreeMap<Key, usize> = BTreeMap::new();
        let mut rest = Vec::new();
        for (index, tape, feats, fail) in pending.into_iter() {
            let key: Key = (fail.oracle.to_string(), fail.class.clone());
            if explained.get(&key).map_or(false, |sets| sets.iter().any(|m| m.is_subset(&feats))) { run.count(&format!("explained-by-minimised-case:{}|{}", key.0, key.1)); continue; }
            let (b, sp) = (in_batch.entry(key.clone()).or_insert(0), spent.entry(key.clone()).or_insert(0));
            if *b < 8 && *sp < 64 { *b += 1; *sp += 1; batch.push((index, tape, fail)); } else { rest.push((index, tape, feats, fail)); }
        }
        pending = rest;
        if batch.is_empty() { break; }
        let results: Mutex<Vec<(u64, String, String, Value, Key, BTreeSet<String>)>> = Mutex::new(Vec::new());
        crate::par::par_for(batch.len() as u64, |w| {
            let (index, tape, fail) = &batch[w as usize];
            if let Some((sig, detail, witness, labels)) = minimise_one(run, *index, tape, fail) {
                results.lock().unwrap().push((*index, sig, detail, witness, (fail.oracle.to_string(), fail.class.clone()), labels));
            }
        });
        let mut results = results.into_inner().unwrap();
        results.sort_by(|a, b| (a.0, &a.1).cmp(&(b.0, &b.1)));
        for (_, sig, detail, witness, key, labels) in results {
            run.violation(&sig, &detail, witness);
            let e = explained.entry(key).or_default();
            if !e.contains(&labels) { e.push(labels); }
        }
    }
    for (_, _, _, fail) in &pending { run.count(&format!("not-minimised(budget):{}|{}", fail.oracle, fail.class)); }
    // thorough: the same quick workload once more under the AddressSanitizer build (memory errors in the library or its dependencies)
    if !run.quick() { crate::lanes::asan_rerun(run); }
}

/// tape-level shrinking (cheap, removes most of the document), then structure-level minimisation; the signature is built
/// from the features of what is left
fn minimise_one(run: &Run, index: u64, tape: &[u32], fail: &Failure) -> Option<(String, String, Value, BTreeSet<String>)> {
    let fails_same = |spec: &DocSpec| evaluate(spec).fails.iter().any(|f| f.oracle == fail.oracle && f.class == fail.class);
    let small = shrink(tape, |t| { let mut s = Src::replay(t); fails_same(&gen_doc(&mut s)) }, 150);
    let mut s = Src::replay(&small);
    let spec = super::c10_min::minimise(&gen_doc(&mut s), &fails_same, 1500);
    let o = evaluate(&spec);
    let Some(hit) = o.fails.iter().find(|f| f.oracle == fail.oracle && f.class == fail.class).cloned() else {
        run.inconclusive(format!("case {}: {}|{} does not reproduce on the minimised document", index, fail.oracle, fail.class)); return None;
    };
    let feats = super::c10_min::features(&spec);
    let labels = super::c10_min::label_set(&spec);
    let sig = format!("C10|{}|{}|{}", hit.oracle, labels, hit.class);
    let witness = json!({"case": index, "tape_after_tape_shrinking": small, "labels": labels, "minimal_document": describe(&spec), "bytes": show(&o.bytes[..o.bytes.len().min(3000)]), "n_bytes": o.bytes.len(),
        "all_failures_of_minimal_document": o.fails.iter().map(|f| format!("{}|{}: {}", f.oracle, f.class, f.detail)).collect::<Vec<_>>()});
    Some((sig, hit.detail, witness, feats))
}
