//! C20 — a page imported into another document is equal and self-contained (every case in a child process:
//! the importer may recurse without bound on reference cycles).
use crate::corpus::{valid_files, Sample};
use crate::doc::{root_kind, Cfg};
use crate::opsgen;
use crate::panicmon::guard;
use crate::props::c20_gen;
use crate::refimpl::c20_walk::{self as rw, Walk};
use crate::richdoc::{self, Layout};
use crate::rng::{fnv, Rng};
use crate::run::{Run, Tier};
use crate::sup::{CaseFn, CaseOut};
use crate::tape::Src;
use crate::walk::{entry_id, ENTRY};
use crate::with_file;
use pdf::any::AnySync;
use pdf::backend::Backend;
use pdf::build::{CatalogBuilder, Importer, PageBuilder, PdfBuilder};
use pdf::content::{Color, Op};
use pdf::error::PdfError;
use pdf::file::{Cache, File, FileOptions, Log};
use pdf::object::{PlainRef, Resolve};
use pdf::primitive::Primitive;
use serde_json::json;
use std::collections::BTreeMap;
use std::sync::atomic::Ordering;
use std::sync::Arc;

const PROP_NR: u64 = 20;

fn entry(name: &str) { ENTRY.store(entry_id(name), Ordering::Relaxed); }

// ------------------------------------------------------------------------------------------------ sources and case table

pub struct Seeds { pub files: Vec<Sample>, pub np: Vec<u32>, pub rich: Vec<Vec<u8>> }

pub fn seeds() -> Seeds {
    let files = valid_files();
    let np = files.iter().map(|f| {
        guard(|| with_file!(f.bytes.clone(), Cfg { cached: false, tolerant: false }, &f.password, |x| x.map(|x| x.num_pages()).unwrap_or(0))).unwrap_or(0)
    }).collect();
    let rich = [Layout::Classic, Layout::XrefStream, Layout::Incremental].iter().map(|l| richdoc::write(&richdoc::objects(), *l, b"")).collect();
    Seeds { files, np, rich }
}

#[derive(Clone, Debug)]
pub struct Spec { pub src: SrcKind, pub pages: Vec<u32>, pub old_cached: bool, pub new_cached: bool }
#[derive(Clone, Debug, PartialEq)]
pub enum SrcKind { Corpus(usize), Rich(usize), Gen(u64) }

/// ordered selections of up to 3 distinct pages out of `np` (all of them when np <= 4, else sliding windows)
fn selections(np: u32, all: bool) -> Vec<Vec<u32>> {
    let mut v: Vec<Vec<u32>> = (0..np).map(|p| vec![p]).collect();
    if np >= 2 {
        if np <= 4 && all {
            for a in 0..np { for b in 0..np { if a != b { v.push(vec![a, b]); for c in 0..np { if c != a && c != b { v.push(vec![a, b, c]); } } } } }
        } else {
            for p in 0..np - 1 { v.push(vec![p, p + 1]); v.push(vec![p + 1, p]); }
            for p in 0..np.saturating_sub(2) { v.push(vec![p, p + 1, p + 2]); v.push(vec![p + 2, p, p + 1]); }
        }
    }
    for p in 0..np.min(3) { v.push(vec![p, p]); }
    v
}

pub struct Table { pub fixed: Vec<Spec>, pub n_corpus: u64, pub n_rich: u64 }
pub fn table(sd: &Seeds, tier: Tier) -> Table {
    let quick = tier == Tier::Quick;
    let mut fixed = Vec::new();
    let mut k = 0usize;
    for (fi, f) in sd.files.iter().enumerate() {
        if quick && f.bytes.len() > 100_000 { continue; }
        let mut sel = selections(sd.np[fi], !quick);
        if quick { let singles = sd.np[fi] as usize; sel.truncate(singles + 8); }
        for pages in sel { fixed.push(Spec { src: SrcKind::Corpus(fi), pages, old_cached: k % 2 == 0, new_cached: (k / 2) % 2 == 0 }); k += 1; }
    }
    let n_corpus = fixed.len() as u64;
    for li in 0..sd.rich.len() {
        for pages in selections(3, true) { for v in 0..2 { fixed.push(Spec { src: SrcKind::Rich(li), pages: pages.clone(), old_cached: (k + v) % 2 == 0, new_cached: ((k / 2) + v) % 2 == 0 }); } k += 1; }
    }
    let n_rich = fixed.len() as u64 - n_corpus;
    Table { fixed, n_corpus, n_rich }
}

/// A fully materialised case.
pub struct Case { pub name: String, pub bytes: Vec<u8>, pub password: Vec<u8>, pub pages: Vec<u32>, pub old_cached: bool, pub new_cached: bool, pub labels: Vec<String>, pub tape: Vec<u32> }

fn gen_case(s: &mut Src) -> Case {
    let doc = c20_gen::gen(s);
    let count = 1 + s.draw(3);
    let mut pages = Vec::new();
    for _ in 0..count { pages.push(s.draw(doc.n_pages)); }
    if count > 1 { s.label("multi-page"); }
    let old_cached = s.alt(1, &["old-cached", "old-uncached"]) == 0;
    let new_cached = s.alt(1, &["new-cached", "new-uncached"]) == 0;
    let labels = s.labels.iter().map(|l| l.to_string()).collect();
    Case { name: "generated".into(), bytes: doc.bytes, password: vec![], pages, old_cached, new_cached, labels, tape: s.tape.clone() }
}

pub fn make_case(sd: &Seeds, t: &Table, seed: u64, idx: u64) -> Case {
    if (idx as usize) < t.fixed.len() {
        let sp = &t.fixed[idx as usize];
        match sp.src {
            SrcKind::Corpus(fi) => Case { name: format!("corpus:{}", sd.files[fi].name), bytes: sd.files[fi].bytes.clone(), password: sd.files[fi].password.clone(), pages: sp.pages.clone(), old_cached: sp.old_cached, new_cached: sp.new_cached, labels: vec!["corpus".into()], tape: vec![] },
            SrcKind::Rich(li) => Case { name: format!("richdoc:{}", ["classic", "xref-stream", "incremental"][li]), bytes: sd.rich[li].clone(), password: vec![], pages: sp.pages.clone(), old_cached: sp.old_cached, new_cached: sp.new_cached, labels: vec!["richdoc".into()], tape: vec![] },
            SrcKind::Gen(_) => unreachable!(),
        }
    } else {
        let gi = idx - t.fixed.len() as u64;
        let mut s = Src::fresh(Rng::derive(seed, PROP_NR, gi));
        gen_case(&mut s)
    }
}

// ------------------------------------------------------------------------------------------------ execution + oracle

#[derive(Clone, Debug)]
pub struct Viol { pub class: String, pub locus: String, pub what: String }
impl Viol { fn key(&self) -> String { if self.locus.is_empty() { self.class.clone() } else { format!("{}:{}", self.class, self.locus) } } }

#[derive(Default)]
pub struct Res { pub viol: Vec<Viol>, pub compared: u64, pub built_pages: u64 }

/// error kind for the evidence: variant of the root cause; for the catch-all variant also the message template
fn err_kind(e: &PdfError) -> String {
    match crate::doc::root_cause(e) {
        PdfError::Other { msg } => {
            // source locations inside messages are made relative to the crate (the tree may live anywhere)
            let m = match (msg.find(" @ /"), msg.find("pdf/src/").or_else(|| msg.find("pdf_derive/src/"))) { (Some(a), Some(b)) if b > a => format!("{}{}", &msg[..a + 3], &msg[b..]), _ => msg.replace("/repo/", "") };
            format!("Other({})", crate::panicmon::template(&m).chars().take(70).collect::<String>())
        }
        other => { let _ = other; root_kind(e) }
    }
}

fn bump(c: &mut BTreeMap<String, u64>, k: &str) { *c.entry(k.to_string()).or_insert(0) += 1; }

struct OldPage { idx: u32, pref: PlainRef, ops: Option<Vec<Op>> }

/// (resource category, name) pairs the operations use, in order of first use
pub fn used_resources(ops: &[Op]) -> Vec<(&'static str, String)> {
    let mut v: Vec<(&'static str, String)> = Vec::new();
    let mut push = |c: &'static str, n: &str| { if !v.iter().any(|(a, b)| *a == c && b == n) { v.push((c, n.to_string())); } };
    for op in ops {
        match op {
            Op::GraphicsState { name } => push("ExtGState", name.as_str()),
            Op::TextFont { name, .. } => push("Font", name.as_str()),
            Op::XObject { name } => push("XObject", name.as_str()),
            Op::Shade { name } => push("Shading", name.as_str()),
            Op::FillColorSpace { name } | Op::StrokeColorSpace { name } => push("ColorSpace", name.as_str()),
            Op::FillColor { color: Color::Other(a) } | Op::StrokeColor { color: Color::Other(a) } => { if let Some(Primitive::Name(n)) = a.last() { push("Pattern", n.as_str()); } }
            Op::BeginMarkedContent { properties: Some(Primitive::Name(n)), .. } | Op::MarkedContentPoint { properties: Some(Primitive::Name(n)), .. } => push("Properties", n.as_str()),
            _ => {}
        }
    }
    v
}

fn first_op_difference(a: &[Op], b: &[Op]) -> Option<(String, String)> {
    for i in 0..a.len().min(b.len()) {
        if !opsgen::op_eq(&a[i], &b[i]) { return Some((opsgen::op_kind(&a[i]), format!("operation #{} differs: source {} / imported {} ({} vs {} operations)", i, opsgen::show_op(&a[i]), opsgen::show_op(&b[i]), a.len(), b.len()))); }
    }
    if a.len() != b.len() {
        let k = if a.len() > b.len() { opsgen::op_kind(&a[b.len()]) } else { opsgen::op_kind(&b[a.len()]) };
        return Some((format!("count/{}", k), format!("source page has {} operations, imported page has {}", a.len(), b.len())));
    }
    None
}

const PAGE_KEYS: [&str; 9] = ["Type", "Parent", "Resources", "MediaBox", "CropBox", "TrimBox", "Contents", "Rotate", "Annots"];

/// The oracle proper: old file (through `old`) against the reloaded new file.
fn oracle<RO, B, OC, SC, L>(old: &RO, olds: &[OldPage], nf: &File<B, OC, SC, L>, res: &mut Res, c: &mut BTreeMap<String, u64>)
where RO: Resolve, B: Backend, OC: Cache<Result<AnySync, Arc<PdfError>>>, SC: Cache<Result<Arc<[u8]>, Arc<PdfError>>>, L: Log,
{
    let new = nf.resolver();
    let np = guard(|| nf.num_pages()).unwrap_or(u32::MAX);
    if np as usize != olds.len() { res.viol.push(Viol { class: "reload-error".into(), locus: "page-count".into(), what: format!("{} pages were imported, the reloaded document has {}", olds.len(), np) }); return; }
    let mut w = Walk::new(old, &new);
    for (k, op) in olds.iter().enumerate() {
        let page = match guard(|| nf.get_page(k as u32)) {
            Ok(Ok(p)) => p,
            Ok(Err(e)) => { res.viol.push(Viol { class: "reload-error".into(), locus: format!("get_page:{}", root_kind(&e)), what: format!("page {} of the new document cannot be read: {}", k, e) }); continue; }
            Err(p) => { res.viol.push(Viol { class: p.signature(), locus: String::new(), what: format!("get_page on the new document panicked: {}", p.describe()) }); continue; }
        };
        // ---- operations
        let new_ops = match guard(|| page.contents.as_ref().map(|c| c.operations(&new)).transpose()) {
            Ok(Ok(o)) => o.unwrap_or_default(),
            Ok(Err(e)) => { res.viol.push(Viol { class: "reload-error".into(), locus: format!("operations:{}", root_kind(&e)), what: format!("content of new page {} cannot be read: {}", k, e) }); continue; }
            Err(p) => { res.viol.push(Viol { class: p.signature(), locus: String::new(), what: format!("operations() on the new page panicked: {}", p.describe()) }); continue; }
        };
        let Some(old_ops) = &op.ops else { bump(c, "old_ops_unreadable_but_imported"); continue };
        if let Some((locus, what)) = first_op_difference(old_ops, &new_ops) { res.viol.push(Viol { class: "wrong-ops".into(), locus, what: format!("source page {} -> new page {}: {}", op.idx, k, what) }); }
        // ---- boxes and rotation (effective values read from the raw graphs, with inheritance)
        let (Some(orp), Some(nrp)) = (rw::raw_page(old, op.pref), rw::raw_page(&new, page.get_ref().get_inner())) else { bump(c, "raw_page_unreadable"); continue };
        for i in &orp.inherited { bump(c, &format!("source_inherited:{}", i)); }
        if orp.media.is_some() && orp.media.map(|m| m.map(|x| x as f32)) != nrp.media.map(|m| m.map(|x| x as f32)) {
            res.viol.push(Viol { class: "wrong-box".into(), locus: format!("MediaBox{}", if orp.inherited.contains(&"MediaBox") { "(inherited)" } else { "" }), what: format!("media box {:?} became {:?}", orp.media, nrp.media) });
        }
        if orp.crop.is_some() && orp.crop.map(|m| m.map(|x| x as f32)) != nrp.crop.map(|m| m.map(|x| x as f32)) {
            res.viol.push(Viol { class: "wrong-box".into(), locus: format!("CropBox{}", if orp.inherited.contains(&"CropBox") { "(inherited)" } else { "" }), what: format!("crop box {:?} became {:?}", orp.crop, nrp.crop) });
        }
        if orp.rotate.rem_euclid(360) != nrp.rotate.rem_euclid(360) {
            res.viol.push(Viol { class: "wrong-rotate".into(), locus: if orp.inherited.contains(&"Rotate") { "inherited".into() } else { "own".into() }, what: format!("rotation {} became {}", orp.rotate, nrp.rotate) });
        }
        // ---- resources the operations use
        w.content = true;
        for (cat, name) in used_resources(old_ops) {
            let o = rw::resource_entry(old, &orp.resources, cat, &name);
            let n = rw::resource_entry(&new, &nrp.resources, cat, &name);
            match (o, n) {
                (None, _) => {
                    // the source page itself does not define the name (device colour spaces, /Pattern, undefined names)
                    bump(c, &format!("source_lacks:{}", cat));
                }
                (Some(o), None) => {
                    bump(c, &format!("resource_missing:{}", cat));
                    res.viol.push(Viol { class: "resource-differs".into(), locus: format!("{}:missing", cat), what: format!("operations use /{} of /{}; the source page defines it ({}), the imported page does not", name, cat, format!("{:?}", o).chars().take(80).collect::<String>()) });
                }
                (Some(o), Some(n)) => { bump(c, &format!("resource_compared:{}", cat)); res.compared += 1; w.compare(cat, &o, &n); }
            }
        }
        // ---- entries copied verbatim: reference relation (and leaked references) only
        w.content = false;
        for (k, ov) in orp.dict.iter() {
            if PAGE_KEYS.contains(&k.as_str()) { continue; }
            match nrp.dict.get(k.as_str()) { Some(nv) => { bump(c, "page_entry_walked"); w.compare(&format!("Page.{}", k.as_str()), ov, nv); } None => bump(c, &format!("page_entry_not_copied:{}", k.as_str())) }
        }
    }
    if w.truncated { bump(c, "walk_truncated"); }
    for (k, v) in &w.counters { *c.entry(format!("walk:{}", k)).or_insert(0) += v; }
    for f in &w.findings { res.viol.push(Viol { class: f.class.into(), locus: f.locus.clone(), what: f.detail.clone() }); }
    // ---- closure: every reference in the new file resolves
    let size = nf.trailer.size.max(0) as u64;
    let root = nf.trailer.root.get_ref().get_inner();
    let (checked, bad) = rw::closure(&new, size, &[root]);
    *c.entry("closure_references_checked".into()).or_insert(0) += checked;
    for (r, from, kind) in bad.iter().take(5) {
        let (cl, what) = rw::unresolved_class(kind);
        res.viol.push(Viol { class: cl.into(), locus: what, what: format!("reference {} found in {} of the new document does not resolve ({})", rw::show_ref(*r), from, kind) });
    }
}

fn import_with<B, OC, SC, L, SC2, OC2, L2>(f: &File<B, OC, SC, L>, mut builder: PdfBuilder<SC2, OC2, L2>, case: &Case, res: &mut Res, c: &mut BTreeMap<String, u64>)
where B: Backend, OC: Cache<Result<AnySync, Arc<PdfError>>>, SC: Cache<Result<Arc<[u8]>, Arc<PdfError>>>, L: Log,
      SC2: Cache<Result<AnySync, Arc<PdfError>>>, OC2: Cache<Result<Arc<[u8]>, Arc<PdfError>>>, L2: Log,
{
    let old = f.resolver();
    let mut olds: Vec<OldPage> = Vec::new();
    let mut built: Vec<PageBuilder> = Vec::new();
    let mut failed_imports = 0u32;
    {
        let mut importer = Importer::new(f.resolver(), &mut builder.storage);
        for &pi in &case.pages {
            entry("get_page");
            let page = match guard(|| f.get_page(pi)) { Ok(Ok(p)) => p, Ok(Err(e)) => { bump(c, &format!("source_page_unreadable:{}", root_kind(&e))); continue; } Err(_) => { bump(c, "source_page_panic(C01 territory)"); continue; } };
            entry("contents_operations");
            let ops = match guard(|| page.contents.as_ref().map(|c| c.operations(&old)).transpose()) { Ok(Ok(o)) => Some(o.unwrap_or_default()), _ => None };
            entry("import_clone_page");
            let r = guard(|| PageBuilder::clone_page(&page, &mut importer));
            entry("idle");
            match r {
                Ok(Ok(pb)) => { bump(c, "clone_page_ok"); built.push(pb); olds.push(OldPage { idx: pi, pref: page.get_ref().get_inner(), ops }); }
                Ok(Err(e)) => { failed_imports += 1; bump(c, &format!("clone_page_err:{}", err_kind(&e))); }
                Err(p) => { res.viol.push(Viol { class: p.signature(), locus: String::new(), what: format!("PageBuilder::clone_page panicked: {}", p.describe()) }); return; }
            }
        }
    }
    if built.is_empty() { return; }
    entry("import_build");
    let r = guard(move || builder.build(CatalogBuilder::from_pages(built)));
    entry("idle");
    let bytes = match r {
        Ok(Ok(b)) => { bump(c, "build_ok"); b }
        Ok(Err(e)) => {
            // the pages in `olds` were imported successfully, yet the new document cannot be saved
            let when = if failed_imports == 0 { "every import succeeded" } else { "after a failed import" };
            bump(c, &format!("build_err({}):{}", when, err_kind(&e)));
            res.viol.push(Viol { class: format!("save-fails|{}|{}", if failed_imports == 0 { "all-imports-ok" } else { "after-failed-import" }, err_kind(&e)), locus: String::new(),
                what: format!("{} page(s) were imported successfully ({} import(s) failed) but PdfBuilder::build returns {:?}", olds.len(), failed_imports, e) });
            return;
        }
        Err(p) => { res.viol.push(Viol { class: p.signature(), locus: String::new(), what: format!("PdfBuilder::build panicked: {}", p.describe()) }); return; }
    };
    res.built_pages = olds.len() as u64;
    entry("import_reload");
    let cfg = Cfg { cached: case.new_cached, tolerant: false };
    let r = guard(|| with_file!(bytes.clone(), cfg, b"", |nf| match nf {
        Ok(nf) => { entry("idle"); oracle(&old, &olds, &nf, res, c); None }
        Err(e) => Some(e),
    }));
    entry("idle");
    match r {
        Ok(None) => {}
        Ok(Some(e)) => res.viol.push(Viol { class: "reload-error".into(), locus: format!("load:{}", root_kind(&e)), what: format!("the built document ({} bytes) cannot be loaded: {}", bytes.len(), e) }),
        Err(p) => res.viol.push(Viol { class: p.signature(), locus: String::new(), what: format!("panic while reloading / checking the new document: {}", p.describe()) }),
    }
}

/// Run one case on the real library.
pub fn exec(case: &Case, c: &mut BTreeMap<String, u64>) -> Res {
    let mut res = Res::default();
    entry("load");
    let cfg = Cfg { cached: case.old_cached, tolerant: false };
    let r = guard(|| with_file!(case.bytes.clone(), cfg, &case.password, |f| match f {
        Ok(f) => {
            entry("idle");
            if case.new_cached { import_with(&f, PdfBuilder::new(FileOptions::cached()), case, &mut res, c) } else { import_with(&f, PdfBuilder::new(FileOptions::uncached()), case, &mut res, c) }
            true
        }
        Err(_) => false,
    }));
    entry("idle");
    match r {
        Ok(true) => {}
        Ok(false) => bump(c, "source_load_error"),
        Err(p) => res.viol.push(Viol { class: p.signature(), locus: String::new(), what: format!("panic outside the guarded import calls: {}", p.describe()) }),
    }
    res
}

fn label_set(labels: &[String]) -> String { let mut l: Vec<&str> = labels.iter().map(|s| s.as_str()).collect(); l.sort(); l.dedup(); if l.is_empty() { "plain".into() } else { l.join("+") } }

/// panics are signed by location only (labels go into the witness); everything else as C20|<shrunk label set>|<class>:<locus>
/// Signatures are deliberately coarse (outcome class + resource category + affected entry): the shrunk label set goes
/// into the witness. Finer signatures proved unstable across seeds for the defects that stay open.
fn sig_for(labels: &[String], v: &Viol) -> String {
    let _ = labels;
    if v.class.starts_with("panic|") { return format!("C20|{}", v.class); }
    let (path, kind) = v.locus.rsplit_once(':').unwrap_or((v.locus.as_str(), ""));
    let first = path.split(|c| c == '.' || c == '[').next().unwrap_or("");
    let last = path.rsplit('.').next().unwrap_or("").trim_end_matches("[]");
    match v.class.as_str() {
        // what kind of object is duplicated: the last key of the path that is not a resource name such as G0 / F1 (the route by
        // which the walk reached it varies from case to case and is kept in the witness)
        "copied-twice" | "conflated" => {
            let comps: Vec<&str> = path.split('.').filter(|c| !c.is_empty()).map(|c| c.trim_end_matches("[]")).collect();
            let is_res_name = |c: &str| c.len() <= 4 && c.chars().any(|x| x.is_ascii_digit());
            let what = comps.iter().rev().find(|c| !is_res_name(c)).copied().unwrap_or(first);
            format!("C20|{}|{}", v.class, what)
        }
        // where the difference sits is named by the last two keys of the path (e.g. FontFile2.Length1), not by the resource
        // category the walk started from: the same defect reached through /Font or through /ExtGState is one finding
        "resource-differs" => {
            let comps: Vec<&str> = path.split('.').filter(|c| !c.is_empty()).map(|c| c.trim_end_matches("[]")).collect();
            let tail = if comps.len() >= 2 { format!("{}.{}", comps[comps.len() - 2], comps[comps.len() - 1]) } else { first.to_string() };
            let _ = last;
            format!("C20|resource-differs|{}:{}", tail, kind)
        }
        _ => format!("C20|{}", v.key()),
    }
}

pub fn run_case(sd: &Seeds, t: &Table, seed: u64, idx: u64, out: &mut CaseOut, c: &mut BTreeMap<String, u64>) {
    let case = make_case(sd, t, seed, idx);
    let res = exec(&case, c);
    bump(c, &format!("source:{}", case.name.split(':').next().unwrap_or("")));
    if case.tape.is_empty() { bump(c, &format!("file:{}", case.name)); if res.built_pages > 0 { bump(c, &format!("file_built:{}", case.name)); } } else { for l in &case.labels { bump(c, &format!("label:{}", l)); } }
    bump(c, &format!("pages_in_case:{}", case.pages.len()));
    if res.built_pages > 0 { out.nontrivial = Some(fnv(&[&case.bytes[..], &case.pages.iter().flat_map(|p| p.to_le_bytes()).collect::<Vec<u8>>()[..], &[case.old_cached as u8, case.new_cached as u8]].concat())); bump(c, "cases_built_and_compared"); }
    *c.entry("resources_compared".into()).or_insert(0) += res.compared;
    if idx % 97 == 0 || idx < 2 { out.sample = Some(json!({"idx": idx, "source": case.name, "pages": case.pages, "labels": case.labels, "old_cached": case.old_cached, "new_cached": case.new_cached, "built_pages": res.built_pages, "resources_compared": res.compared})); }
    let mut seen: Vec<String> = Vec::new();
    for v in &res.viol {
        let key = v.key();
        if seen.contains(&key) { continue; }
        seen.push(key.clone());
        bump(c, &format!("outcome:{}", v.class.split('|').next().unwrap_or("")));
        let (labels, tape, pages) = if !case.tape.is_empty() {
            // shrink the tape with the oracle re-run on the real code
            let mut scratch = BTreeMap::new();
            let mut fails = |cand: &[u32]| { let mut s = Src::replay(cand); let cs = gen_case(&mut s); exec(&cs, &mut scratch).viol.iter().any(|x| x.key() == key) };
            let mut shrunk = crate::tape::shrink(&case.tape, &mut fails, 150);
            // canonical pass: every entry to the smallest value that still fails (the generic shrinker only tries 0, 1 and half)
            let mut budget = 400;
            let mut i = 0;
            while i < shrunk.len() && budget > 0 {
                for v in 0..shrunk[i] { budget -= 1; let mut cand = shrunk.clone(); cand[i] = v; if fails(&cand) { shrunk = cand; break; } if budget == 0 { break; } }
                i += 1;
            }
            while shrunk.last() == Some(&0) { shrunk.pop(); }
            let mut s = Src::replay(&shrunk);
            let cs = gen_case(&mut s);
            (cs.labels, shrunk, cs.pages)
        } else { (case.labels.clone(), case.tape.clone(), case.pages.clone()) };
        let sig = sig_for(&labels, v);
        out.violations.push((sig, v.what.clone(), json!({"source": case.name, "pages": pages, "labels": labels, "tape": tape, "old_cached": case.old_cached, "new_cached": case.new_cached, "all_labels_of_original_case": case.labels})));
    }
}

pub fn worker(tier: Tier, seed: u64) -> CaseFn<'static> {
    let sd = seeds();
    let t = table(&sd, tier);
    Box::new(move |idx, out, counters| run_case(&sd, &t, seed, idx, out, counters))
}

/// `C20_TAPE=1,2,3 pdfmon C20 quick` / `C20_ONLY=<idx>`: run one case in this process and print what the oracle says (replay aid).
fn debug_single(run: &Run) -> bool {
    let sd = seeds();
    let t = table(&sd, run.tier);
    if let Ok(l) = std::env::var("C20_FIND") {
        let want: Vec<&str> = l.split('+').collect();
        let mut found = 0;
        for gi in 0..100_000u64 { let mut s = Src::fresh(Rng::derive(run.seed, PROP_NR, gi)); let c = gen_case(&mut s); if want.iter().all(|w| c.labels.iter().any(|x| x == w)) { println!("idx={} labels={:?} tape={:?}", gi + t.fixed.len() as u64, c.labels, c.tape); found += 1; if found >= 5 { break; } } }
        return true;
    }
    let case = if let Ok(tp) = std::env::var("C20_TAPE") { let tape: Vec<u32> = tp.split(',').filter_map(|x| x.trim().parse().ok()).collect(); let mut s = Src::replay(&tape); gen_case(&mut s) }
        else if let Ok(i) = std::env::var("C20_ONLY") { make_case(&sd, &t, run.seed, i.parse().unwrap_or(0)) } else { return false };
    println!("case: source={} pages={:?} labels={:?} old_cached={} new_cached={} bytes={}", case.name, case.pages, case.labels, case.old_cached, case.new_cached, case.bytes.len());
    if let Ok(p) = std::env::var("C20_DUMP") { let _ = std::fs::write(&p, &case.bytes); }
    let mut c = BTreeMap::new();
    let res = exec(&case, &mut c);
    println!("built_pages={} resources_compared={}", res.built_pages, res.compared);
    for (k, v) in &c { println!("  {} = {}", k, v); }
    for v in &res.viol { println!("VIOL {} :: {}", sig_for(&case.labels, v), v.what); }
    true
}

pub fn run(run: &Run) {
    if debug_single(run) { std::process::exit(0); }
    run.rule("case i (deterministic in seed,i): a source document, an ordered selection of 1-3 of its pages (incl. the same page twice), imported through ONE Importer into a fresh PdfBuilder (old file and builder each cached or uncached), CatalogBuilder::from_pages + PdfBuilder::build, reload. Sources: every page of every loadable sample file of the repository (encrypted ones with their password, object-stream / xref-stream files; quick: files <= 100 kB) alone and in adjacent pairs/triples/permutations; the rich generated document in 3 layouts x all ordered selections of its 3 pages; tape-generated documents (1-3 pages; Type1 / embedded TrueType / Type0 fonts, optionally sharing ToUnicode+descriptor; 0-2 images of 8 kinds; 0-2 form XObjects using the page font / an image / another form; ExtGState direct, indirect, with /Font; named colour space, tiling pattern, shading, property list, inline image; resources direct, indirect, one object shared by all pages, inherited from the page tree; own / inherited / real-valued / corner-swapped boxes; own / inherited rotation; nested page tree; single, array and Flate contents; page entries copied verbatim: scalars, dictionaries, references, shared references, streams, metadata and reference cycles (2-ring, self reference, /Parent+/Next+/Prev ring, bead /P back to the page, annotations with /P and /Popup+/Parent); classic, xref-stream+object-stream and incremental layout). Every case runs in a child process. Oracle when clone_page and build return Ok: page count; per page equal operation sequence (opsgen::op_eq), equal effective MediaBox/CropBox/Rotate read from the raw graphs with inheritance (7.7.3.4), and for every (category,name) the operations use a simultaneous walk of the source object graph and the copy (keys, array positions, scalars with Integer n = Real n, null = absent, stream raw data and Filter/DecodeParms; /Length ignored; entries only the copy has are counted, not judged) under a relation old-ref <-> new-ref that must be a bijection (copied-twice / conflated; a source object that becomes a direct object at two places is copied-twice); other page entries are walked for the relation and for unchanged (leaked) references only; every reference in any object of the new file must resolve. An Err from clone_page/build is allowed and counted per kind; panics and child deaths are violations. Generated failures are shrunk on the tape before signing. distinct_nontrivial = distinct (source, selection, configuration) for which build succeeded and the comparison ran");
    run.assume("the effective page attributes are those of PDF 32000-1 7.7.3.4 (Resources, MediaBox, CropBox, Rotate inheritable; CropBox defaults to MediaBox; rectangles normalised)");
    run.assume("content equality is modulo: Integer n = Real n (as f32), null-valued entry = absent entry, direct vs indirect placement, /Length, and additional entries in the copy (counted under walk:added_key:*)");
    let sd = seeds();
    let t = table(&sd, run.tier);
    let n_gen = run.n(1_000, 50_000);
    let n = t.fixed.len() as u64 + n_gen;
    run.add("cases_corpus", t.n_corpus);
    run.add("cases_richdoc", t.n_rich);
    run.add("cases_generated", n_gen);
    for (i, f) in sd.files.iter().enumerate() { run.add(&format!("corpus_pages:{}", f.name), sd.np[i] as u64); }
    run.exhaustive("every page of every selected corpus file alone; rich document: 3 layouts x all ordered selections of <= 3 distinct pages", true);
    let seed = run.seed;
    let written = std::sync::atomic::AtomicU64::new(0);
    crate::sup::run_cases(run, "C20", n, 1, &|idx| {
        let c = make_case(&sd, &t, seed, idx);
        // which kind of case killed its worker (the signature only names the entry point)
        let cyc: Vec<&str> = c.labels.iter().map(|l| l.as_str()).filter(|l| l.starts_with("cycle-")).collect();
        run.count(&format!("worker_death:{}:{}", c.name, if cyc.is_empty() { "no-cycle-label".to_string() } else { cyc.join("+") }));
        // the source document of the first few worker deaths is kept for replay (all of them can be regenerated from seed + idx or the tape)
        let path = if written.fetch_add(1, Ordering::Relaxed) < 8 {
            let path = format!("{}/replay/C20-input-{}.pdf", crate::run::verif_root(), idx);
            let _ = std::fs::create_dir_all(format!("{}/replay", crate::run::verif_root()));
            let _ = std::fs::write(&path, &c.bytes);
            path
        } else { String::from("(not written; regenerate with C20_ONLY=<idx> C20_DUMP=<file>)") };
        (label_set(&c.labels), json!({"source": c.name, "pages": c.pages, "labels": c.labels, "tape": c.tape, "old_cached": c.old_cached, "new_cached": c.new_cached, "input_file": path, "idx": idx}))
    });
}
