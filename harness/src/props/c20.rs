//! C20 — placeholder while the worker is built.
use crate::run::{Run, Tier};
pub fn worker(_tier: Tier, _seed: u64) -> crate::sup::CaseFn<'static> { Box::new(|_, _, _| {}) }
pub fn run(_run: &Run) { eprintln!("C20: check not built yet"); std::process::exit(2); }
