//! C01 — not built yet.
use crate::run::Run;
pub fn run(_run: &Run) { eprintln!("C01: check not built yet"); std::process::exit(2); }
