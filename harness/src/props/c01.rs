//! C01 — reading arbitrary bytes never panics, aborts or hangs (every case in a child process).
use crate::corpus::{invalid_files, valid_files, Sample};
use crate::doc::{Cfg, CFGS};
use crate::richdoc::{self, Layout};
use crate::rng::{fnv, Rng};
use crate::run::{Run, Tier};
use crate::sup::{monitored, CaseFn, CaseOut};
use crate::tape::Src;
use crate::walk::{walk, WalkStats};
use crate::with_file;
use serde_json::{json, Value};
use std::collections::BTreeMap;

pub struct Seeds { pub files: Vec<Sample>, pub rich: Vec<Vec<u8>>, tokens: Vec<Vec<(usize, usize, u8)>> }

fn scan_tokens(b: &[u8]) -> Vec<(usize, usize, u8)> {
    // (offset, len, kind) kind 0 = integer, 1 = name
    let mut out = Vec::new();
    let mut i = 0;
    while i < b.len() && out.len() < 4000 {
        let c = b[i];
        if c.is_ascii_digit() && (i == 0 || !b[i - 1].is_ascii_alphanumeric()) {
            let mut j = i; while j < b.len() && b[j].is_ascii_digit() { j += 1; }
            if j < b.len() && !b[j].is_ascii_alphabetic() && b[j] != b'.' { out.push((i, j - i, 0)); }
            i = j.max(i + 1);
        } else if c == b'/' {
            let mut j = i + 1; while j < b.len() && (b[j].is_ascii_alphanumeric() || b[j] == b'-') { j += 1; }
            if j - i > 2 { out.push((i, j - i, 1)); }
            i = j.max(i + 1);
        } else if c == b's' && b[i..].starts_with(b"stream") {
            // skip stream bodies
            match b[i..].windows(9).position(|w| w == b"endstream") { Some(p) => i += p + 9, None => break }
        } else { i += 1; }
    }
    out
}

pub fn seeds() -> Seeds {
    let mut files = valid_files();
    files.extend(invalid_files());
    let rich: Vec<Vec<u8>> = [Layout::Classic, Layout::XrefStream, Layout::Incremental].iter().map(|l| richdoc::write(&richdoc::objects(), *l, b"")).collect();
    let tokens = files.iter().map(|f| scan_tokens(&f.bytes)).collect();
    Seeds { files, rich, tokens }
}

const NAME_POOL: [&[u8]; 24] = [b"/Pages", b"/Page", b"/Kids", b"/Count", b"/Parent", b"/Length", b"/Filter", b"/FlateDecode", b"/LZWDecode", b"/DCTDecode", b"/Type0", b"/Font", b"/W", b"/Size", b"/Prev", b"/Root",
    b"/Index", b"/First", b"/N", b"/ObjStm", b"/XRef", b"/Encrypt", b"/Names", b"/Nums"];
const INT_POOL: [&[u8]; 14] = [b"0", b"1", b"-1", b"2", b"9", b"255", b"256", b"65535", b"99999", b"2147483647", b"4294967295", b"-2147483648", b"18446744073709551615", b"00000"];

pub struct Case { pub bytes: Vec<u8>, pub password: Vec<u8>, pub cfg: Cfg, pub labels: String, pub deep: bool }

fn byte_mutate(b: &mut Vec<u8>, r: &mut Rng) {
    let n = 1 + r.below(4);
    for _ in 0..n {
        if b.is_empty() { b.push(r.next_u64() as u8); continue; }
        let k = r.below(b.len() as u64) as usize;
        match r.below(7) {
            0 => b[k] ^= 1 << r.below(8),
            1 => b[k] = r.next_u64() as u8,
            2 => { b.insert(k, r.next_u64() as u8); }
            3 => { b.remove(k); }
            4 => { let l = (r.below(64) as usize).min(b.len() - k); let chunk: Vec<u8> = b[k..k + l].to_vec(); let at = r.below(b.len() as u64) as usize; for (i, c) in chunk.into_iter().enumerate() { b.insert(at + i, c); } }
            5 => { b.truncate(k); }
            _ => { let l = (r.below(200) as usize).min(b.len() - k); b.drain(k..k + l); }
        }
    }
}

pub fn grammar_soup(r: &mut Rng) -> Vec<u8> {
    let toks: [&[u8]; 40] = [b"<<", b">>", b"[", b"]", b"/Type", b"/Pages", b"/Kids", b"/Count", b"1 0 R", b"2 0 R", b"3 0 R", b"0", b"1", b"-1", b"2147483647", b"0.5", b"(str)", b"<00ff>", b"true", b"null",
        b"obj", b"endobj", b"stream\n", b"endstream", b"xref", b"trailer", b"startxref", b"/Length", b"/Root", b"/Size", b"/Filter", b"/FlateDecode", b"R", b"%c\n", b"/W", b"[1 1 1]", b"/Index", b"/Prev", b"(", b")"];
    let mut out = b"%PDF-1.5\n".to_vec();
    let nobj = 1 + r.below(6);
    let mut offs = Vec::new();
    for n in 1..=nobj {
        offs.push(out.len());
        out.extend_from_slice(format!("{} 0 obj\n", n).as_bytes());
        match r.below(3) {
            0 => out.extend_from_slice(b"<< /Type /Catalog /Pages 2 0 R >>"),
            1 => out.extend_from_slice(b"<< /Type /Pages /Kids [3 0 R] /Count 1 >>"),
            _ => { for _ in 0..r.below(30) { out.extend_from_slice(toks[r.below(40) as usize]); out.push(b' '); } }
        }
        out.extend_from_slice(b"\nendobj\n");
    }
    let x = out.len();
    out.extend_from_slice(format!("xref\n0 {}\n0000000000 65535 f \n", nobj + 1).as_bytes());
    for o in &offs { out.extend_from_slice(format!("{:010} 00000 n \n", o).as_bytes()); }
    out.extend_from_slice(b"trailer\n<< /Root 1 0 R /Size ");
    out.extend_from_slice(format!("{}", nobj + 1).as_bytes());
    for _ in 0..r.below(4) { out.push(b' '); out.extend_from_slice(toks[r.below(40) as usize]); }
    out.extend_from_slice(format!(" >>\nstartxref\n{}\n%%EOF", x).as_bytes());
    out
}

/// Content-stream token soup: operators of the operator table with plausible and implausible operands, inline images with
/// every spelling of the `ID` / data / `EI` framing (no data, one byte, EOLs of each kind), nested arrays and dictionaries.
pub fn content_soup(r: &mut Rng) -> Vec<u8> {
    const OPS: [&str; 73] = ["b", "B", "b*", "B*", "BDC", "BI", "BMC", "BT", "BX", "c", "cm", "CS", "cs", "d", "d0", "d1", "Do", "DP", "EI", "EMC", "ET", "EX", "f", "F", "f*", "G", "g", "gs", "h", "i", "ID", "j", "J", "K", "k", "l", "m", "M", "MP", "n", "q", "Q", "re", "RG", "rg", "ri", "s", "S", "SC", "sc", "SCN", "scn", "sh", "T*", "Tc", "Td", "TD", "Tf", "Tj", "TJ", "TL", "Tm", "Tr", "Ts", "Tw", "Tz", "v", "w", "W", "W*", "y", "'", "\""];
    const OPERANDS: [&str; 24] = ["0", "1", "-1", "0.5", "2147483647", "99999999999", "/Name", "/F1", "/Im1", "/GS1", "/CS1", "/P1", "(text)", "<00ff>", "[1 2]", "[(a) -20 (b)]", "[]", "<< /MCID 0 >>", "<<>>", "true", "null", "1 0 R", "[[[[1]]]]", "/"];
    let mut out = Vec::new();
    let n = 1 + r.below(30);
    for _ in 0..n {
        if r.below(5) == 0 {
            // inline image
            out.extend_from_slice(b"BI");
            out.extend_from_slice([&b" "[..], b"\n", b""][r.below(3) as usize]);
            for kv in [&b"/W 1"[..], b"/H 1", b"/BPC 8", b"/CS /G", b"/F /AHx", b"/F [/A85 /Fl]", b"/IM true", b"/W 0", b"/H -1", b"/W 65536", b"/D [1 0]", b"/DP << /Predictor 12 /Columns 99999 >>"] { if r.below(3) == 0 { out.extend_from_slice(kv); out.push(b' '); } }
            out.extend_from_slice([&b"ID"[..], b" ID", b"\nID"][r.below(3) as usize]);
            out.extend_from_slice([&b" "[..], b"\n", b"\r\n", b"\r", b""][r.below(5) as usize]);
            let dl = [0usize, 0, 1, 2, 5][r.below(5) as usize];
            for _ in 0..dl { out.push(*r.pick(&[0u8, 0xff, b'E', b'I', b'\n', b' ', b'>', b'~', b'a'])); }
            out.extend_from_slice([&b"\nEI"[..], b" EI", b"EI", b"\r\nEI", b"\nEI\n", b"", b"\nE I"][r.below(7) as usize]);
            out.push(b' ');
            continue;
        }
        for _ in 0..r.below(7) { out.extend_from_slice(r.pick(&OPERANDS).as_bytes()); out.push(*r.pick(&[b' ', b' ', b'\n', b'\t'])); }
        out.extend_from_slice(r.pick(&OPS).as_bytes());
        out.extend_from_slice([&b" "[..], b"\n", b"\r\n", b"%c\n"][r.below(4) as usize]);
    }
    out
}

/// Strings and stream texts that the library parses further after the object syntax: dates, text strings, character maps,
/// PostScript calculator functions. Each generator starts from a valid text and damages it in ways that stay inside the
/// object syntax (the string/stream still parses), so that the second-level parser is what gets exercised.
pub fn date_soup(r: &mut Rng) -> Vec<u8> {
    let mut t: Vec<u8> = match r.below(6) { 0 => b"D:20200102030405+01'00'".to_vec(), 1 => b"D:20200102030405Z".to_vec(), 2 => b"D:2020".to_vec(), 3 => b"20200102030405-08'30".to_vec(), 4 => b"D:19991231235959+14'59'".to_vec(), _ => b"D:202001020304".to_vec() };
    const MULTI: [&[u8]; 5] = ["\u{e9}".as_bytes(), "\u{20ac}".as_bytes(), "\u{1f600}".as_bytes(), b"\xc3", b"\xff"];
    for _ in 0..r.below(4) {
        if t.is_empty() { break; }
        let k = r.below(t.len() as u64 + 1) as usize;
        match r.below(7) {
            0 => { let m = *r.pick(&MULTI); for (i, b) in m.iter().enumerate() { t.insert((k + i).min(t.len()), *b); } }
            1 => { let m = *r.pick(&MULTI); let k = k.min(t.len().saturating_sub(1)); t.splice(k..(k + m.len()).min(t.len()), m.iter().cloned()); }
            2 => { t.truncate(k); }
            3 => { if k < t.len() { t[k] = *r.pick(&[b'+', b'-', b'Z', b'\'', b' ', b'9', b'0', b':', b'D', 0u8]); } }
            4 => { if k < t.len() { t.remove(k); } }
            5 => { for _ in 0..r.below(40) { t.push(b'0' + r.below(10) as u8); } }
            _ => { t.insert(k, b'0' + r.below(10) as u8); }
        }
    }
    t
}
pub fn text_string_soup(r: &mut Rng) -> Vec<u8> {
    match r.below(8) {
        0 => b"\xfe\xff\x00A\x00".to_vec(),                      // UTF-16BE, odd length
        1 => b"\xfe\xff\xd8\x00".to_vec(),                        // lone high surrogate
        2 => b"\xfe\xff\xdc\x00\xd8\x00".to_vec(),               // surrogates in the wrong order
        3 => b"\xfe\xff".to_vec(),
        4 => b"\xef\xbb\xbfutf8 \xe2\x82".to_vec(),                // UTF-8 BOM, truncated sequence
        5 => b"\xff\xfe\x41\x00".to_vec(),                        // little-endian BOM (not PDF)
        6 => (0..r.below(40)).map(|_| r.next_u64() as u8).collect(),
        _ => b"\x80\x9f\xad plain".to_vec(),
    }
}
pub fn cmap_soup(r: &mut Rng) -> Vec<u8> {
    const TOK: [&[u8]; 34] = [b"begincmap", b"endcmap", b"begincodespacerange", b"endcodespacerange", b"beginbfchar", b"endbfchar", b"beginbfrange", b"endbfrange", b"begincidrange", b"endcidrange", b"begincidchar", b"endcidchar",
        b"usecmap", b"def", b"<0000>", b"<FFFF>", b"<00>", b"<0>", b"<>", b"<D83DDE00>", b"<00410042>", b"<FFFFFFFFFF>", b"[", b"]", b"[<0041> <0042>]", b"1", b"0", b"100", b"65536", b"-1", b"4294967296", b"/CMapName", b"<<", b">>"];
    let mut t = crate::richdoc::CMAP.to_vec();
    match r.below(4) {
        0 => {
            // token-level damage of the valid map
            for _ in 0..1 + r.below(4) {
                let words: Vec<(usize, usize)> = { let mut v = Vec::new(); let mut i = 0; while i < t.len() { while i < t.len() && t[i].is_ascii_whitespace() { i += 1; } let s = i; while i < t.len() && !t[i].is_ascii_whitespace() { i += 1; } if i > s { v.push((s, i)); } } v };
                if words.is_empty() { break; }
                let (a, b) = words[r.below(words.len() as u64) as usize];
                match r.below(3) { 0 => { let w: &[u8] = *r.pick(&TOK); t.splice(a..b, w.iter().cloned()); } 1 => { t.drain(a..b); } _ => { let ins: Vec<u8> = [*r.pick(&TOK), &b" "[..]].concat(); t.splice(a..a, ins); } }
            }
        }
        1 => { t.clear(); for _ in 0..r.below(60) { { let w: &[u8] = *r.pick(&TOK); t.extend_from_slice(w); } t.push(*r.pick(&[b' ', b'\n', b'\r'])); } }
        2 => {
            // sections whose announced count, code order, code widths or target forms are off
            t = b"/CIDInit /ProcSet findresource begin 12 dict begin begincmap 1 begincodespacerange <0000> <FFFF> endcodespacerange\n".to_vec();
            for _ in 0..1 + r.below(4) {
                let n = [0u32, 1, 2, 100, 101][r.below(5) as usize];
                if r.below(2) == 0 {
                    t.extend_from_slice(format!("{} beginbfrange\n", n).as_bytes());
                    for _ in 0..r.below(4) { t.extend_from_slice(*r.pick(&[&b"<0000> <FFFF> <0000>\n"[..], b"<FFFF> <0000> <0041>\n", b"<00> <FFFF> <D83DDE00>\n", b"<0010> <0020> [<0041>]\n", b"<0010> <0012> [<0041> <0042> <0043> <0044>]\n", b"<0000> <FFFF> <FFFF>\n", b"<0000> <0010>\n", b"<0000> <00FF> <DBFF>\n", b"<0000> <FFFF> <00FFFFFF>\n", b"<0041> <0043> <>\n", b"<> <> <>\n", b"<0041> <> <0041>\n", b"<0041> <0043> []\n", b"<0041> <0043> [<>]\n", b"<0041> <0043> [<0041> <>]\n"])); }
                    t.extend_from_slice(b"endbfrange\n");
                } else {
                    t.extend_from_slice(format!("{} beginbfchar\n", n).as_bytes());
                    for _ in 0..r.below(4) { t.extend_from_slice(*r.pick(&[&b"<0041> <0041>\n"[..], b"<41> <0041>\n", b"<0041> <>\n", b"<0041> <D800>\n", b"<0041>\n", b"<004100> <0041>\n", b"<0041> /space\n", b"<0041> <004>\n"])); }
                    t.extend_from_slice(b"endbfchar\n");
                }
            }
            if r.below(2) == 0 { t.extend_from_slice(b"endcmap"); }
        }
        _ => { byte_mutate(&mut t, r); }
    }
    t
}
pub fn ps_soup(r: &mut Rng) -> Vec<u8> {
    const TOK: [&str; 44] = ["{", "}", "{", "}", "abs", "add", "atan", "ceiling", "cos", "cvi", "cvr", "div", "exp", "floor", "idiv", "ln", "log", "mod", "mul", "neg", "round", "sin", "sqrt", "sub", "truncate", "and", "bitshift", "eq", "false", "ge", "gt", "le", "lt", "ne", "not", "or", "true", "xor", "if", "ifelse", "copy", "dup", "exch", "index"];
    const NUM: [&str; 12] = ["0", "1", "-1", "2", "0.5", "1e10", "2147483647", "-2147483648", "99999999999", "3", "100000", "."];
    let mut t = Vec::new();
    if r.below(4) != 0 { t.extend_from_slice(b"{ "); }
    for _ in 0..r.below(40) {
        match r.below(4) { 0 => t.extend_from_slice(r.pick(&NUM).as_bytes()), 1 => t.extend_from_slice(r.pick(&["pop", "roll", "index", "copy", "dup", "exch"]).as_bytes()), _ => t.extend_from_slice(r.pick(&TOK).as_bytes()) }
        t.push(b' ');
    }
    if r.below(4) != 0 { t.extend_from_slice(b"}"); }
    t
}

/// The rich document with its second-level texts replaced by soup (see above).
fn typed_text_case(r: &mut Rng) -> Vec<u8> {
    use crate::mkpdf::{dict, name, Obj};
    let mut objs = richdoc::objects();
    let set_stream = |objs: &mut Vec<(u32, Obj)>, nr: u32, data: Vec<u8>| { if let Some((_, Obj::Stream(d, old))) = objs.iter_mut().find(|(n, _)| *n == nr) { d.retain(|(k, _)| k != b"Filter"); *old = data; } };
    if r.below(2) == 0 { let t = cmap_soup(r); set_stream(&mut objs, 14, t); }
    if r.below(2) == 0 { let t = ps_soup(r); set_stream(&mut objs, 24, t); }
    // predictor streams whose decoded length is not a whole number of rows (every remainder 0..=row length, row tags 0..4 and beyond)
    if r.below(2) == 0 {
        let cols = *r.pick(&[1usize, 2, 4, 7, 16]);
        let (colors, bpc) = *r.pick(&[(1usize, 8usize), (3, 8), (1, 1), (3, 4), (4, 16)]);
        let row = (cols * colors * bpc + 7) / 8;
        let pred = *r.pick(&[12i64, 10, 15, 2, 11]);
        let stride = if pred >= 10 { row + 1 } else { row };
        let n = r.below(4) as usize * stride + r.below(stride as u64 + 2) as usize;
        let mut raw: Vec<u8> = (0..n).map(|_| r.next_u64() as u8).collect();
        if pred >= 10 { let mut k = 0; while k < raw.len() { raw[k] = *r.pick(&[0u8, 1, 2, 3, 4, 4, 5, 255]); k += stride; } }
        let lzw = r.below(3) == 0;
        let data = if lzw { let mut s = crate::tape::Src::replay(&[]); crate::refimpl::codec::lzw_encode(&raw, 1, &mut s) } else { miniz_oxide::deflate::compress_to_vec_zlib(&raw, 6) };
        let parms = dict(vec![("Predictor", Obj::Int(pred)), ("Columns", Obj::Int(cols as i64)), ("Colors", Obj::Int(colors as i64)), ("BitsPerComponent", Obj::Int(bpc as i64))]);
        for nr in [6u32, 15] {
            if let Some((_, Obj::Stream(d, old))) = objs.iter_mut().find(|(n, _)| *n == nr) {
                d.retain(|(k, _)| k != b"Filter" && k != b"DecodeParms");
                d.push((b"Filter".to_vec(), name(if lzw { "LZWDecode" } else { "FlateDecode" })));
                d.push((b"DecodeParms".to_vec(), parms.clone()));
                *old = data.clone();
            }
        }
    }
    // dates and text strings in annotation, embedded-file parameters, outline titles, field names
    if let Some((_, o)) = objs.iter_mut().find(|(n, _)| *n == 45) { o.set("M", Obj::Str(date_soup(r))); o.set("Contents", Obj::Str(text_string_soup(r))); }
    if let Some((_, Obj::Stream(d, _))) = objs.iter_mut().find(|(n, _)| *n == 32) { d.retain(|(k, _)| k != b"Params"); d.push((b"Params".to_vec(), dict(vec![("Size", Obj::Int(5)), ("CreationDate", Obj::Str(date_soup(r))), ("ModDate", Obj::Str(date_soup(r)))]))); }
    if let Some((_, o)) = objs.iter_mut().find(|(n, _)| *n == 33) { o.set("Title", Obj::Str(text_string_soup(r))); }
    if let Some((_, o)) = objs.iter_mut().find(|(n, _)| *n == 36) { o.set("T", Obj::Str(text_string_soup(r))); }
    let mut info: Vec<(&str, Obj)> = vec![("Title", Obj::Str(text_string_soup(r)))];
    if r.below(4) != 0 { info.push(("CreationDate", Obj::Str(date_soup(r)))); }
    if r.below(2) == 0 { info.push(("ModDate", Obj::Str(date_soup(r)))); }
    if r.below(3) == 0 { info.push(("Trapped", name(*r.pick(&["True", "False", "Unknown", "maybe", ""])))); }
    let layout = [Layout::Classic, Layout::XrefStream][r.below(2) as usize];
    richdoc::write_with_info(&objs, layout, b"", dict(info))
}

/// Case `idx` (deterministic in (seed, idx)).
pub fn make_case(sd: &Seeds, seed: u64, idx: u64) -> Case {
    let mut r = Rng::derive(seed, 1, idx);
    let cfg = CFGS[((idx / 10) % 4) as usize];
    let pick_file = |r: &mut Rng| -> usize {
        // prefer small files; the large ones now and then
        loop { let k = r.below(sd.files.len() as u64) as usize; if sd.files[k].bytes.len() < 80_000 || r.below(40) == 0 { return k; } }
    };
    match idx % 10 {
        0 => {
            let k = pick_file(&mut r);
            let mut b = sd.files[k].bytes.clone();
            byte_mutate(&mut b, &mut r);
            Case { bytes: b, password: sd.files[k].password.clone(), cfg, labels: format!("bytes:{}", sd.files[k].name), deep: false }
        }
        1 | 2 => {
            // same-length token replacement keeps the cross-reference offsets valid
            let k = pick_file(&mut r);
            let mut b = sd.files[k].bytes.clone();
            let toks = &sd.tokens[k];
            let mut lab = Vec::new();
            for _ in 0..1 + r.below(3) {
                if toks.is_empty() { break; }
                let (off, len, kind) = toks[r.below(toks.len() as u64) as usize];
                let pool: &[&[u8]] = if kind == 0 { &INT_POOL } else { &NAME_POOL };
                let cands: Vec<&&[u8]> = pool.iter().filter(|p| p.len() <= len).collect();
                if cands.is_empty() { continue; }
                let rep: &[u8] = *cands[r.below(cands.len() as u64) as usize];
                for i in 0..len { b[off + i] = if i < rep.len() { rep[i] } else { b' ' }; }
                lab.push(String::from_utf8_lossy(rep).to_string());
            }
            Case { bytes: b, password: sd.files[k].password.clone(), cfg, labels: format!("token:{}:{}", sd.files[k].name, lab.join(",")), deep: false }
        }
        3..=7 => {
            let mut s = Src::fresh(Rng::derive(seed, 101, idx));
            let mut objs = richdoc::objects();
            let n = 1 + s.draw(3);
            let mut labs = Vec::new();
            for _ in 0..n { labs.push(richdoc::mutate(&mut objs, &mut s)); }
            let layout = [Layout::Classic, Layout::XrefStream, Layout::Incremental][s.draw(3) as usize];
            let prefix: Vec<u8> = if s.draw(5) == 0 { vec![b'x'; s.draw(600) as usize] } else { vec![] };
            Case { bytes: richdoc::write(&objs, layout, &prefix), password: vec![], cfg, labels: format!("struct:{:?}:{}", layout, labs.join(";")), deep: idx % 50 == 3 }
        }
        8 if (idx / 10) % 3 == 0 => Case { bytes: grammar_soup(&mut r), password: vec![], cfg, labels: "grammar".into(), deep: false },
        8 if (idx / 10) % 3 == 1 => Case { bytes: typed_text_case(&mut r), password: vec![], cfg, labels: "typed-text".into(), deep: false },
        8 => {
            // the rich document with its page content (and the form XObject / pattern streams) replaced by content-stream token soup
            let mut objs = richdoc::objects();
            if r.below(4) == 0 {
                // a long content stream made of one short snippet repeated (about 1 MB decoded, Flate-compressed in the file): work
                // that is quadratic in the stream length, or recursion that follows the nesting, only shows at this size
                const SNIPPETS: [&[u8]; 16] = [b"BI ID\n", b"BI /W 1 /H 1 /BPC 8 /CS /G ID x EI ", b"BI ID x\nEI ", b"q ", b"[", b"[(a)", b"<< /A ", b"(", b"BT ", b"/N BDC ", b"0 0 m ", b"1 ", b"/F1 1 Tf (x) Tj ", b"% c\n", b"<", b"BX "];
                let snip = *r.pick(&SNIPPETS);
                let total = 900_000 + r.below(400_000) as usize;
                let mut soup = Vec::with_capacity(total + 16);
                while soup.len() < total { soup.extend_from_slice(snip); }
                let z = miniz_oxide::deflate::compress_to_vec_zlib(&soup, 6);
                if let Some((_, o)) = objs.iter_mut().find(|(n, _)| *n == 6) { if let crate::mkpdf::Obj::Stream(d, data) = o { d.retain(|(k, _)| k != b"Filter"); d.push((b"Filter".to_vec(), crate::mkpdf::name("FlateDecode"))); *data = z; } }
                return Case { bytes: richdoc::write(&objs, Layout::Classic, b""), password: vec![], cfg, labels: "content-repeated".into(), deep: false };
            }
            for nr in [6u32, 9, 16, 17, 46] {
                if nr != 6 && r.below(3) != 0 { continue; }
                let soup = content_soup(&mut r);
                if let Some((_, o)) = objs.iter_mut().find(|(n, _)| *n == nr) { if let crate::mkpdf::Obj::Stream(d, data) = o { d.retain(|(k, _)| k != b"Filter"); *data = soup; } }
            }
            Case { bytes: richdoc::write(&objs, Layout::Classic, b""), password: vec![], cfg, labels: "content".into(), deep: false }
        }
        _ => {
            let k = r.below(sd.rich.len() as u64) as usize;
            let mut b = sd.rich[k].clone();
            byte_mutate(&mut b, &mut r);
            Case { bytes: b, password: vec![], cfg, labels: format!("bytes:rich{}", k), deep: false }
        }
    }
}

/// Open + walk one input in the worker under the resource monitors.
pub fn exec_case(prop: &'static str, idx: u64, c: &Case, out: &mut CaseOut, counters: &mut BTreeMap<String, u64>) {
    let n = c.bytes.len() as u64;
    // budget signatures: the case kind; for the enumerated hand-written cases the label's template (it names the construct)
    let generic_label = if c.labels.starts_with("special:") { crate::panicmon::template(&c.labels) } else { c.labels.split(':').next().unwrap_or("").to_string() };
    monitored(idx, n, out, counters, &generic_label, prop, |out, counters| {
        let mut w = WalkStats::new();
        crate::walk::ENTRY.store(crate::walk::entry_id("load"), std::sync::atomic::Ordering::Relaxed);
        let loaded = crate::panicmon::guard(|| with_file!(c.bytes.clone(), c.cfg, &c.password, |f| match f { Ok(f) => { walk(&f, &mut w, c.deep); true } Err(_) => false }));
        crate::walk::ENTRY.store(0, std::sync::atomic::Ordering::Relaxed);
        match loaded {
            Ok(true) => *counters.entry("loaded".into()).or_insert(0) += 1,
            Ok(false) => *counters.entry("load_error".into()).or_insert(0) += 1,
            Err(p) => out.violations.push((format!("{}|{}", prop, p.signature()), format!("load panicked: {} [{}]", p.describe(), c.labels), json!({"labels": c.labels}))),
        }
        for (entry, p) in &w.panics {
            out.violations.push((format!("{}|{}", prop, p.signature()), format!("{} panicked: {} [{}]", entry, p.describe(), c.labels), json!({"labels": c.labels, "entry": entry, "cfg": c.cfg.name()})));
        }
        for (k, (ok, err, pa)) in &w.calls {
            *counters.entry(format!("ok:{}", k)).or_insert(0) += ok;
            *counters.entry(format!("err:{}", k)).or_insert(0) += err;
            if *pa > 0 { *counters.entry(format!("panic:{}", k)).or_insert(0) += pa; }
        }
        *counters.entry(format!("kind:{}", c.labels.split(':').next().unwrap_or(""))).or_insert(0) += 1;
        if w.n_calls > 30 { out.nontrivial = Some(fnv(&c.bytes)); }
    });
    if idx < 3 { out.sample = Some(json!({"idx": idx, "labels": c.labels, "bytes": c.bytes.len(), "cfg": c.cfg.name()})); }
}

/// files of a directory as cases (artifacts of the libFuzzer lane are re-judged by the ordinary worker and monitors)
fn dir_cases(dir: &str) -> Vec<std::path::PathBuf> { let mut v: Vec<_> = std::fs::read_dir(dir).map(|d| d.filter_map(|e| e.ok()).map(|e| e.path()).collect()).unwrap_or_default(); v.sort(); v }

pub fn worker(_tier: Tier, seed: u64) -> CaseFn<'static> {
    let sd = seeds();
    let files = std::env::var("C01_FILES_DIR").ok().map(|d| dir_cases(&d));
    Box::new(move |idx, out, counters| {
        let c = match &files {
            Some(fs) => { let bytes = fs.get(idx as usize).and_then(|p| std::fs::read(p).ok()).unwrap_or_default(); let cfg = CFGS[bytes.len() % 4];
                Case { labels: format!("fuzz-artifact:{}", fs.get(idx as usize).map(|p| p.file_name().unwrap().to_string_lossy().to_string()).unwrap_or_default()), bytes, password: vec![], cfg, deep: false } }
            None => make_case(&sd, seed, idx),
        };
        exec_case("C01", idx, &c, out, counters);
    })
}

pub fn describe_case(sd: &Seeds, seed: u64, idx: u64) -> (String, Value) {
    let c = make_case(sd, seed, idx);
    let generic = c.labels.split(';').next().unwrap_or("").to_string();
    let path = format!("{}/replay/C01-input-{}.pdf", crate::run::verif_root(), idx);
    let _ = std::fs::create_dir_all(format!("{}/replay", crate::run::verif_root()));
    let _ = std::fs::write(&path, &c.bytes);
    (generic, json!({"labels": c.labels, "cfg": c.cfg.name(), "input_file": path, "seed": seed, "idx": idx}))
}

pub fn run(run: &Run) {
    run.rule("case i (deterministic in seed,i): byte-level mutation of a corpus file (valid, invalid, password) or of the generated rich document; same-length token replacement (boundary integers, structural names) keeping xref offsets valid; 1-3 structural mutations of the rich document's object table (re-pointed references, boundary numbers, swapped names/objects, dropped entries) re-written with valid xref in 3 layouts; grammar token soup with valid trailer. Each case: load + full walker (pages, inherited attributes, resources, fonts/widths/ToUnicode/embedded data, images, forms, content ops, name/number trees, outlines, fields, typed gets and resolve of objects by number, functions, colour spaces, scan) in one of 4 configurations inside a child process under panic monitor, allocation budget 64MiB+64x(input+decoded), CPU budget 5s+20us x (input+decoded). distinct_nontrivial = distinct inputs on which > 30 library calls were made");
    run.assume("resource budgets are two orders of magnitude above what the valid corpus needs (max observed per-case CPU and peak allocation are reported in counters)");
    let sd = seeds();
    let n = run.n(60_000, 3_000_000);
    let seed = run.seed;
    crate::sup::run_cases(run, "C01", n, 100, &|idx| describe_case(&sd, seed, idx));
    if !run.quick() {
        // AddressSanitizer lane: the same cases replayed by a worker built with -Zsanitizer=address
        if let Some(exe) = crate::lanes::build(run, "asan") {
            let m = run.n(0, 60_000);
            crate::sup::run_cases_lane(run, "C01", 0, m, 100, &|idx| describe_case(&sd, seed, idx), &crate::lanes::env_for("asan", &exe), "asan");
            run.add("asan_lane_cases", m);
        }
        // libFuzzer lane: coverage-guided; whatever it saves as an artifact is re-judged by the ordinary worker
        let mut fz: Vec<(String, Vec<u8>)> = sd.files.iter().filter(|f| f.bytes.len() < 100_000).map(|f| (f.name.clone(), f.bytes.clone())).collect();
        for (i, b) in sd.rich.iter().enumerate() { fz.push((format!("rich{}", i), b.clone())); }
        for (l, b) in crate::props::c14::specials() { if b.len() < 100_000 { fz.push((l, b)); } }
        let secs = run.n(0, 600);
        if let Some(art) = crate::lanes::fuzz(run, secs, &fz) {
            let n_art = dir_cases(&art).len() as u64;
            if n_art > 0 {
                let env = vec![("C01_FILES_DIR".to_string(), art.clone())];
                crate::sup::run_cases_lane(run, "C01", 0, n_art, 1, &|idx| { let f = dir_cases(&art); (format!("fuzz-artifact"), json!({"input_file": f.get(idx as usize).map(|p| p.to_string_lossy().to_string())})) }, &env, "");
            }
        }
    }
}
