//! C04 — serialised objects parse back to the same value (four placements), serialising never panics.
use crate::casecheck::check_case;
use crate::panicmon::guard;
use crate::par::par_for;
use crate::rng::{fnv, Rng};
use crate::run::{show, Run};
use crate::tape::Src;
use crate::val::{brief_v, gen_int, gen_name, matches, to_primitive, V};
use pdf::build::{CatalogBuilder, PdfBuilder};
use pdf::content::{parse_ops, serialize_ops, Color, Op};
use pdf::file::FileOptions;
use pdf::object::{NoResolve, NoUpdate, PlainRef, Resolve, Stream, Updater};
use pdf::parser::{parse, parse_indirect_object, Lexer, ParseFlags};
use pdf::primitive::Primitive;
use serde_json::{json, Value};

const BOUNDARY_REALS: [f32; 30] = [0.0, -0.0, 1.0, -1.0, 0.5, 0.1, 1e-7, -1e-7, 1.1754944e-38, 1e-38, 1e-45, -1e-45, 16777216.0, 16777217.0, 16777215.0,
    2147483520.0, 2147483648.0, -2147483648.0, 4294967296.0, 3e9, -3e9, 1e10, 1e20, 3.4028235e38, -3.4028235e38, 123456.79, 0.000123, 65535.5, 255.99, 1e15];

fn real_v(x: f32) -> V { V::Real(format!("{}", x)) }

fn gen_leaf(s: &mut Src) -> V {
    match s.draw(8) {
        0 => V::Int(gen_int(s)),
        1 => { let k = s.alt(2, &["real_small", "real_boundary", "real_random_bits"]);
               match k { 0 => real_v((s.draw(20001) as f32 - 10000.0) / 16.0), 1 => { let x = *s.pick(&BOUNDARY_REALS); if x.abs() >= 2147483648.0 { s.label("real>=2^31"); } real_v(x) }
                   _ => { let x = f32::from_bits(s.u32full()); if x.is_finite() { if x.abs() >= 2147483648.0 { s.label("real>=2^31"); } real_v(x) } else { real_v(1.5) } } } }
        2 => { let n = if s.draw(24) == 0 { s.label("long_string"); match s.draw(4) { 0 => 254 + s.draw(4) as usize, 1 => 65534 + s.draw(4) as usize, _ => 100 + s.draw(5000) as usize } } else { s.draw(20) as usize }; let kind = s.alt(3, &["str_ascii", "str_anybytes", "str_parens_and_escapes"]); V::Str((0..n).map(|_| if kind == 0 { 0x20 + s.draw(0x5f) as u8 } else if kind == 1 { s.byte() } else { *s.pick(&[b'(', b'(', b')', b')', b'\\', b'\r', b'\n', b'a', b'7', b'\t', 8, 12]) }).collect()) }
        3 => {
            let wide = s.alt(2, &["name_plain", "name_wide"]) == 1;
            let n = gen_name(s, wide);
            if n.bytes().any(|b| b >= 0x80) { s.label("name_non_ascii"); }
            if n.bytes().any(|b| b <= 0x20 || b == 0x7f || b"()<>[]{}/%#".contains(&b)) { s.label("name_needs_escape"); }
            V::Name(n)
        }
        4 => V::Bool(s.draw(2) == 1),
        5 => V::Null,
        6 => V::Ref(s.draw(1_000_000) as u64, if s.draw(4) == 0 { s.draw(65536) as u64 } else { 0 }),
        _ => V::Int(s.draw(1000) as i32),
    }
}
fn gen_tree(s: &mut Src, depth: u32, max_depth: u32) -> V {
    if depth >= max_depth || s.draw(3) == 0 { return gen_leaf(s); }
    // long containers hold leaves only
    let long = s.draw(24) == 0;
    if s.draw(2) == 0 {
        if long { s.label("long_array"); let n = 60 + s.draw(600) as usize; return V::Arr((0..n).map(|_| gen_leaf(s)).collect()); }
        let n = s.draw(4) as usize;
        V::Arr((0..n).map(|_| gen_tree(s, depth + 1, max_depth)).collect())
    } else {
        if long { s.label("long_dict"); }
        let n = if long { 40 + s.draw(200) as usize } else { s.draw(4) as usize };
        let depth = if long { max_depth.max(1) - 1 } else { depth };
        let mut items: Vec<(String, V)> = Vec::new();
        for _ in 0..n {
            let wide = s.alt(4, &["key_plain", "key_wide"]) == 1;
            let k = gen_name(s, wide);
            if k.bytes().any(|b| b >= 0x80 || b <= 0x20 || b == 0x7f || b"()<>[]{}/%#".contains(&b)) { s.label("key_needs_escape"); }
            if items.iter().any(|(kk, _)| *kk == k) { continue; }
            items.push((k, gen_tree(s, depth + 1, max_depth)));
        }
        V::Dict(items)
    }
}

#[derive(Debug)]
struct Case { v: V, placement: u8, stream_data: Option<Vec<u8>> }
const PLACEMENTS: [&str; 4] = ["indirect-object", "dict-value", "array-element", "content-operand"];

fn gen_case(s: &mut Src, max_depth: u32) -> Case {
    let placement = s.draw(4) as u8;
    // a deep chain now and then, to reach the supported nesting depth (parser MAX_DEPTH is 20, framing uses up to 2)
    let v = if s.alt(12, &["tree", "deep_chain"]) == 1 {
        // up to exactly the supported depth: the value's own nesting plus the level the placement adds (dictionary value / array element: 1)
        let d = (10 + s.draw(11)).min(20 - if placement == 1 || placement == 2 { 1 } else { 0 });
        let mut v = gen_leaf(s);
        for i in 0..d { v = if i % 2 == 0 { V::Arr(vec![v]) } else { V::Dict(vec![("K".into(), v)]) }; }
        v
    } else { gen_tree(s, 0, max_depth) };
    let stream_data = if placement == 0 && matches!(v, V::Dict(_)) && s.alt(3, &["no_stream", "as_stream"]) == 1 { Some(if s.draw(16) == 0 { s.label("long_stream"); let n = 1000 + s.draw(200_000) as usize; let b = s.byte(); let k = s.draw(3); (0..n).map(|i| match k { 0 => b, 1 => (i * 7 + i / 251) as u8, _ => b"endstream\nendobj\n"[i % 17] }).collect() } else { s.bytes(60) }) } else { None };
    Case { v, placement, stream_data }
}

struct BufResolve<'a> { buf: &'a [u8] }
impl<'a> Resolve for BufResolve<'a> {
    fn resolve_flags(&self, _: PlainRef, _: ParseFlags, _: usize) -> pdf::error::Result<Primitive> { Err(pdf::PdfError::Reference) }
    fn get<T: pdf::object::Object + datasize::DataSize>(&self, _: pdf::object::Ref<T>) -> pdf::error::Result<pdf::object::RcRef<T>> { Err(pdf::PdfError::Reference) }
    fn options(&self) -> &pdf::object::ParseOptions { NoResolve.options() }
    fn stream_data(&self, _: PlainRef, range: std::ops::Range<usize>) -> pdf::error::Result<std::sync::Arc<[u8]>> { self.buf.get(range).map(|s| s.into()).ok_or(pdf::PdfError::EOF) }
    fn get_data_or_decode(&self, id: PlainRef, range: std::ops::Range<usize>, _: &[pdf::enc::StreamFilter]) -> pdf::error::Result<std::sync::Arc<[u8]>> { self.stream_data(id, range) }
}

fn err1(e: &pdf::PdfError) -> String { let s = format!("{}: {}", crate::doc::root_kind(e), crate::doc::root_cause(e)); s.lines().next().unwrap_or("").chars().take(100).collect() }

fn oracle(c: &Case) -> Option<(String, String)> {
    let r = guard(|| -> Option<(String, String)> {
        let p = to_primitive(&c.v);
        match c.placement {
            0 => {
                // the real writer frames the object: create it in an empty storage and save
                let mut b = PdfBuilder::new(FileOptions::uncached());
                let prim = if let Some(data) = &c.stream_data {
                    let Primitive::Dictionary(d) = p.clone() else { unreachable!() };
                    let st = Stream::new(d, data.clone());
                    match st.to_pdf_stream(&mut NoUpdate) { Ok(s) => Primitive::Stream(s), Err(e) => return Some(("serialize-error".into(), err1(&e))) }
                } else { p.clone() };
                let r = match b.storage.create(prim) { Ok(r) => r.get_ref().get_inner(), Err(e) => return Some(("serialize-error".into(), err1(&e))) };
                let bytes = match b.build(CatalogBuilder::from_pages(vec![])) { Ok(b) => b, Err(e) => return Some(("serialize-error".into(), err1(&e))) };
                let head = format!("\n{} {} obj\n", r.id, r.gen);
                let Some(off) = bytes.windows(head.len()).position(|w| w == head.as_bytes()) else { return Some(("object-not-written".into(), format!("no `{} {} obj` in the output", r.id, r.gen))) };
                let res = BufResolve { buf: &bytes };
                let mut lx = Lexer::with_offset(&bytes[off + 1..], off + 1);
                match parse_indirect_object(&mut lx, &res, None, ParseFlags::ANY) {
                    Err(e) => Some(("reparse-error".into(), format!("{} ; text: {}", err1(&e), show(&bytes[off + 1..(off + 120).min(bytes.len())])))),
                    Ok((id, q)) => {
                        if id != r { return Some(("wrong-value".into(), "object id differs".into())); }
                        match (&c.stream_data, q) {
                            (Some(data), Primitive::Stream(st)) => {
                                let mut info = st.info.clone();
                                info.remove("Length");
                                if let Err(m) = matches(&Primitive::Dictionary(info), &c.v, false) { return Some(("wrong-value".into(), format!("stream dict: {}", m))); }
                                match st.raw_data(&res) { Ok(d) if &d[..] == &data[..] => None, Ok(_) => Some(("wrong-stream-data".into(), "stream bytes differ".into())), Err(e) => Some(("reparse-error".into(), err1(&e))) }
                            }
                            (Some(_), _) => Some(("wrong-value".into(), "stream came back as non-stream".into())),
                            (None, q) => matches(&q, &c.v, false).err().map(|m| ("wrong-value".to_string(), m)),
                        }
                    }
                }
            }
            1 | 2 => {
                let (outer, expect) = if c.placement == 1 {
                    let mut d = pdf::primitive::Dictionary::new();
                    d.insert("A", Primitive::Integer(1)); d.insert("V", p.clone()); d.insert("Z", Primitive::Integer(2));
                    (Primitive::Dictionary(d), V::Dict(vec![("A".into(), V::Int(1)), ("V".into(), c.v.clone()), ("Z".into(), V::Int(2))]))
                } else {
                    (Primitive::Array(vec![Primitive::Integer(1), p.clone(), Primitive::Integer(2)]), V::Arr(vec![V::Int(1), c.v.clone(), V::Int(2)]))
                };
                let mut out = Vec::new();
                if let Err(e) = outer.serialize(&mut out) { return Some(("serialize-error".into(), err1(&e))); }
                match parse(&out, &NoResolve, ParseFlags::ANY) {
                    Err(e) => Some(("reparse-error".into(), format!("{} ; text: {}", err1(&e), show(&out[..out.len().min(120)])))),
                    Ok(q) => matches(&q, &expect, false).err().map(|m| ("wrong-value".to_string(), format!("{} ; text: {}", m, show(&out[..out.len().min(120)])))),
                }
            }
            _ => {
                let ops = vec![Op::Save, Op::FillColor { color: Color::Other(vec![p.clone()]) }, Op::Restore];
                let data = match serialize_ops(&ops) { Ok(d) => d, Err(e) => return Some(("serialize-error".into(), err1(&e))) };
                match parse_ops(&data, &NoResolve) {
                    Err(e) => Some(("reparse-error".into(), format!("{} ; text: {}", err1(&e), show(&data[..data.len().min(120)])))),
                    Ok(back) => {
                        if back.len() != 3 { return Some(("wrong-value".into(), format!("{} ops instead of 3 ; text: {}", back.len(), show(&data[..data.len().min(120)])))); }
                        match &back[1] {
                            Op::FillColor { color: Color::Other(args) } if args.len() == 1 => matches(&args[0], &c.v, false).err().map(|m| ("wrong-value".to_string(), format!("{} ; text: {}", m, show(&data[..data.len().min(120)])))),
                            other => Some(("wrong-value".into(), format!("operand came back as {:?}", other).chars().take(160).collect())),
                        }
                    }
                }
            }
        }
    });
    match r { Ok(x) => x, Err(p) => Some((p.signature(), p.describe())) }
}

fn witness(c: &Case) -> Value { json!({"value": brief_v(&c.v), "placement": PLACEMENTS[c.placement as usize], "stream_data": c.stream_data.as_ref().map(|d| show(d))}) }

fn leaf_sweep(run: &Run) {
    // every boundary leaf in every placement
    let mut leaves: Vec<(String, V)> = Vec::new();
    for x in BOUNDARY_REALS { leaves.push((format!("real {}", x), real_v(x))); }
    for i in [0, 1, -1, i32::MAX, i32::MIN, 255, 65536] { leaves.push((format!("int {}", i), V::Int(i))); }
    for b in 0..=255u8 { leaves.push((format!("str byte {:#04x}", b), V::Str(vec![b'a', b, b'z']))); }
    for c in (1u32..=0xff).chain([0x100, 0x7ff, 0x800, 0xfffd, 0xffff, 0x10000, 0x1f600, 0x10ffff]) { if let Some(ch) = char::from_u32(c) { leaves.push((format!("name U+{:04X}", c), V::Name(format!("A{}B", ch)))); } }
    leaves.push(("empty name".into(), V::Name("".into())));
    leaves.push(("empty string".into(), V::Str(vec![])));
    leaves.push(("string parens".into(), V::Str(b"(()".to_vec())));
    leaves.push(("string backslash end".into(), V::Str(b"ab\\".to_vec())));
    for (label, v) in &leaves {
        for pl in 0..4u8 {
            let c = Case { v: v.clone(), placement: pl, stream_data: None };
            run.eval();
            run.nontrivial(fnv(format!("{:?}{}", v, pl).as_bytes()));
            if let Some((cls, detail)) = oracle(&c) {
                let kind = match v {
                    V::Real(t) => if crate::val::real_value(t).abs() >= 2147483648.0 { "real>=2^31" } else { "real" },
                    V::Int(_) => "int", V::Str(_) => "string",
                    V::Name(n) => if n.bytes().any(|b| b >= 0x80) { "name_non_ascii" } else if n.bytes().any(|b| b <= 0x20 || b == 0x7f || b"()<>[]{}/%#".contains(&b)) { "name_needs_escape" } else { "name" },
                    _ => "other" };
                run.violation(&format!("C04|leaf|{}|{}|{}", kind, PLACEMENTS[pl as usize], cls), &format!("{}: {}", label, detail), witness(&c));
            }
        }
    }
    run.add("leaf_sweep_cases", leaves.len() as u64 * 4);
    run.exhaustive("boundary leaves (30 reals, 7 ints, all 256 string bytes, names with every code point U+0001-U+00FF + plane samples) x 4 placements", true);
}

/// Re-run a stored witness (choice tape + generator parameters) against the current tree.
pub fn replay(prefix: &str, tape: &[u32], params: &Value) -> Option<Option<(String, String)>> {
    if prefix != "tree" { return None; }
    let mut s = Src::replay(tape);
    let c = gen_case(&mut s, params["max_depth"].as_u64()? as _);
    Some(oracle(&c))
}

pub fn run(run: &Run) {
    run.rule("Primitive trees (depth <= 16 incl. deep chains, strings over all bytes, names over Unicode scalar values, boundary/random-bit finite reals, i32 boundaries, references, streams via Stream::new) serialised by the real writer and re-read: (i) as an indirect object framed by Storage::save (found in PdfBuilder output, parse_indirect_object), (ii) dictionary value, (iii) array element between integers (Primitive::serialize + parser::parse), (iv) operand of scn in serialize_ops/parse_ops; equality modulo Integer≡Number. distinct_nontrivial = distinct (value, placement)");
    run.assume("Integer(n) and Number(x) are identified when numerically equal; dictionary order ignored; stream /Length ignored");
    leaf_sweep(run);
    if !run.quick() { crate::lanes::miri(run, "parse", &[11, 12, 13, 14, 15, 16], None); }
    let n = run.n(400_000, 20_000_000);
    par_for(n, |i| {
        let s = Src::fresh(Rng::derive(run.seed, 4, i));
        run.eval();
        let md = if i % 5 == 0 { 8 } else { 3 };
        check_case(run, "C04", "tree", s, &|s| gen_case(s, md), &oracle, &witness,
            &|c, s| { run.nontrivial(fnv(format!("{:?}", c).as_bytes())); run.count(&format!("placement:{}", PLACEMENTS[c.placement as usize])); run.count_labels(&s.labels); if i < 6 { run.sample(witness(c)); } }, json!({"max_depth": md}));
    });
    // thorough: the same quick workload once more under the AddressSanitizer build (memory errors in the library or its dependencies)
    if !run.quick() { crate::lanes::asan_rerun(run); }
}
