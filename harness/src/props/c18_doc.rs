//! C18 — document builder: exports a generated container (plus every object it references) from a
//! `Storage::empty` store into a real file written by `mkpdf`, with ONE object number arranged to be dangling in one of
//! the ways the statement names: explicitly free, >= /Size (two flavours: == /Size and > /Size), or inside a gap of the table.
use super::c15_gen::St;
use crate::mkpdf::{self, Obj, W};
use crate::tape::Src;
use pdf::object::{PlainRef, Resolve};
use pdf::primitive::{Dictionary, Primitive};

#[derive(Clone, Copy, Debug, PartialEq, Eq, Hash, PartialOrd, Ord)]
pub enum Dangling {
    /// the number has an explicit `f` entry (type 0 in a cross-reference stream)
    Free,
    /// the number lies between two subsections of the table: no entry at all
    Gap,
    /// the number equals /Size (first number beyond the table)
    AtSize,
    /// the number is greater than /Size
    BeyondSize,
}
pub const DANGLING: [Dangling; 4] = [Dangling::Free, Dangling::Gap, Dangling::AtSize, Dangling::BeyondSize];
impl Dangling {
    /// the statement's three kinds (== /Size and > /Size are both "beyond the table")
    pub fn class(&self) -> &'static str {
        match self { Dangling::Free => "free", Dangling::Gap => "gap", Dangling::AtSize | Dangling::BeyondSize => "beyond-size" }
    }
    pub fn name(&self) -> &'static str {
        match self { Dangling::Free => "free", Dangling::Gap => "gap", Dangling::AtSize => "at-size", Dangling::BeyondSize => "beyond-size" }
    }
}

/// Primitive -> independent writer object. Stream data is taken verbatim (it is "already encoded" for mkpdf).
pub fn conv(p: &Primitive, res: &impl Resolve) -> Result<Obj, String> {
    Ok(match p {
        Primitive::Null => Obj::Null,
        Primitive::Integer(i) => Obj::Int(*i as i64),
        Primitive::Number(f) => Obj::Real(*f as f64),
        Primitive::Boolean(b) => Obj::Bool(*b),
        Primitive::String(s) => Obj::Str(s.as_bytes().to_vec()),
        Primitive::Name(n) => Obj::Name(n.as_bytes().to_vec()),
        Primitive::Array(a) => Obj::Arr(a.iter().map(|x| conv(x, res)).collect::<Result<Vec<_>, _>>()?),
        Primitive::Dictionary(d) => Obj::Dict(conv_dict(d, res)?),
        Primitive::Reference(r) => Obj::Ref(r.id as u32, r.gen as u16),
        Primitive::Stream(s) => {
            let data = s.raw_data(res).map_err(|e| format!("stream data: {}", e))?;
            Obj::Stream(conv_dict(&s.info, res)?, data.to_vec())
        }
    })
}
pub fn conv_dict(d: &Dictionary, res: &impl Resolve) -> Result<Vec<(Vec<u8>, Obj)>, String> {
    d.iter().map(|(k, v)| Ok((k.as_bytes().to_vec(), conv(v, res)?))).collect()
}

/// every object of the store, numbers 1..=n
pub fn export_store(st: &St) -> Result<Vec<(u32, Obj)>, String> {
    let res = st.resolver();
    let mut out = Vec::new();
    let mut id = 1u64;
    loop {
        match res.resolve(PlainRef { id, gen: 0 }) {
            Ok(p) => out.push((id as u32, conv(&p, &res)?)),
            Err(_) => break,
        }
        id += 1;
        if id > 5000 { return Err("store has more than 5000 objects".into()); }
    }
    Ok(out)
}

/// Object numbering of one test document, fixed BEFORE the container is built (the container must mention `dangling`).
/// Store objects 1..=n, container n+1, catalog n+2, page tree n+3, page n+4, cross-reference stream n+5 (when used).
#[derive(Clone, Debug)]
pub struct Plan {
    pub n_store: u32,
    pub container: u32,
    pub kind: Dangling,
    /// the dangling object number
    pub dangling: u32,
    pub size: u32,
    /// object above the gap (0 = none)
    pub filler: u32,
    pub xref_stream: Option<u32>,
    /// kind Free only: the object exists in the first revision and is deleted by an incremental update
    pub freed_by_update: bool,
    /// freed_by_update only: 0 = both sections classic tables, 1 = the update is a cross-reference stream, 2 = both sections are
    pub update_format: u8,
    pub free_gen: u16,
    pub labels: Vec<&'static str>,
}

pub fn plan(n_store: u32, kind: Dangling, s: &mut Src) -> Plan {
    let mut p = plan_after(n_store + 4, kind, s);
    p.n_store = n_store;
    p.container = n_store + 1;
    p
}

/// numbering for an arbitrary object table whose highest number is `last_used` (the cross-reference stream, when used, takes last_used+1)
pub fn plan_after(last_used: u32, kind: Dangling, s: &mut Src) -> Plan {
    let mut labels: Vec<&'static str> = Vec::new();
    let freed_by_update = kind == Dangling::Free && s.alt(3, &["free-entry", "freed-by-update"]) == 1;
    let xstream = !freed_by_update && s.alt(2, &["xref-table", "xref-stream"]) == 1;
    if xstream { labels.push("xref-stream"); }
    if freed_by_update { labels.push("freed-by-update"); }
    let last = last_used + if xstream { 1 } else { 0 };
    let update_format = if freed_by_update { s.alt(2, &["update-in-table", "update-in-xref-stream", "both-sections-xref-streams"]) as u8 } else { 0 };
    let (dangling, size, filler) = match kind {
        // freed by update: dangling = last+1, the cross-reference streams (if any) take last+2 and last+3
        Dangling::Free if freed_by_update => (last + 1, last + 4, 0),
        Dangling::Free => (last + 1, last + 2, 0),
        Dangling::Gap => { let width = [1u32, 3][s.draw(2) as usize]; (last + 1, last + 1 + width + 1, last + 1 + width) }
        Dangling::AtSize => (last + 1, last + 1, 0),
        Dangling::BeyondSize => { let off = [1u32, 2, 1000, 70000][s.draw(4) as usize]; (last + 1 + off, last + 1, 0) }
    };
    let free_gen: u16 = if s.draw(4) == 3 { 65535 } else { 1 };
    Plan { n_store: 0, container: 0, kind, dangling, size, filler, xref_stream: if xstream { Some(last_used + 1) } else { None }, freed_by_update, update_format, free_gen, labels }
}

pub fn write(pl: &Plan, store_objs: &[(u32, Obj)], container: &Obj) -> Vec<u8> {
    let n = pl.n_store;
    let (c, cat, pages, page) = (n + 1, n + 2, n + 3, n + 4);
    let mut all: Vec<(u32, Obj)> = store_objs.to_vec();
    all.push((c, container.clone()));
    all.push((cat, mkpdf::dict(vec![("Type", mkpdf::name("Catalog")), ("Pages", mkpdf::rf(pages))])));
    all.push((pages, mkpdf::dict(vec![("Type", mkpdf::name("Pages")), ("Count", Obj::Int(1)), ("Kids", mkpdf::arr(vec![mkpdf::rf(page)]))])));
    all.push((page, mkpdf::dict(vec![("Type", mkpdf::name("Page")), ("Parent", mkpdf::rf(pages)), ("MediaBox", mkpdf::ints(&[0, 0, 612, 792]))])));
    write_table(pl, &all, vec![(b"Root".to_vec(), mkpdf::rf(cat))])
}

/// write an object table with the dangling arrangement of `pl`; `trailer` = trailer entries without /Size and /Prev
pub fn write_table(pl: &Plan, objs: &[(u32, Obj)], trailer: Vec<(Vec<u8>, Obj)>) -> Vec<u8> {
    let mut w = W::new(b"", if pl.xref_stream.is_some() || pl.update_format > 0 { "1.5" } else { "1.4" });
    let mut all: Vec<(u32, Obj)> = objs.to_vec();
    if pl.filler != 0 { all.push((pl.filler, mkpdf::dict(vec![("Filler", Obj::Bool(true))]))); }
    if pl.freed_by_update {
        // first revision: the object exists; second revision: it is deleted (free entry with the next generation number)
        w.free(0, 0, 65535);
        for (nr, o) in &all { w.obj(*nr, 0, o); }
        w.obj(pl.dangling, 0, &mkpdf::dict(vec![("Deleted", mkpdf::st("this object was removed by the update"))]));
        if pl.update_format == 2 { w.xref_stream(pl.dangling + 1, trailer.clone(), pl.size, &[], &mkpdf::flate_filter); } else { w.xref_table(trailer.clone(), pl.size, &[]); }
        w.free(0, pl.dangling, 65535);
        w.free(pl.dangling, 0, pl.free_gen);
        if pl.update_format >= 1 { w.xref_stream(pl.dangling + 2, trailer, pl.size, &[], &mkpdf::flate_filter); } else { w.xref_table(trailer, pl.size, &[]); }
        return w.buf;
    }
    if pl.kind == Dangling::Free { w.free(0, pl.dangling, 65535); w.free(pl.dangling, 0, pl.free_gen); } else { w.free(0, 0, 65535); }
    for (nr, o) in &all { w.obj(*nr, 0, o); }
    // Gap: numbers dangling .. filler-1 get no entry at all (mkpdf starts a new subsection / a new /Index pair after a hole)
    match pl.xref_stream {
        Some(nr) => { w.xref_stream(nr, trailer, pl.size, &[], &mkpdf::flate_filter); }
        None => { w.xref_table(trailer, pl.size, &[]); }
    }
    w.buf
}

// ------------------------------------------------------------------ independent well-formedness check

fn refs_of(o: &Obj, out: &mut Vec<u32>) {
    match o {
        Obj::Ref(n, _) => out.push(*n),
        Obj::Arr(a) => a.iter().for_each(|x| refs_of(x, out)),
        Obj::Dict(d) | Obj::Stream(d, _) => d.iter().for_each(|(_, x)| refs_of(x, out)),
        _ => {}
    }
}

/// entries of a classic single-section table: number -> in use?
fn table_entries(b: &[u8]) -> Result<std::collections::BTreeMap<u32, bool>, String> {
    use crate::refimpl::c06_read::P;
    let pos = b.windows(9).rposition(|w| w == b"startxref").ok_or("no startxref")?;
    let mut p = P::new(b, pos + 9);
    let xoff = p.uint()? as usize;
    let mut p = P::new(b, xoff);
    p.keyword(b"xref")?;
    let mut m = std::collections::BTreeMap::new();
    loop {
        p.skip_ws();
        if b[p.i..].starts_with(b"trailer") { break; }
        let first = p.uint()? as u32;
        let n = p.uint()? as u32;
        for k in 0..n {
            let _ = p.uint()?; let _ = p.uint()?;
            p.skip_ws();
            let t = *b.get(p.i).ok_or("EOF in xref")?;
            p.i += 1;
            if m.insert(first + k, t == b'n').is_some() { return Err(format!("object {} listed twice", first + k)); }
        }
    }
    Ok(m)
}

/// Reads the file back with the independent reference reader (`refimpl::c06_read`, shares no code with the library) and checks
/// that it is what the case claims: every in-use object parses at its offset, /Root and /Size are right, the dangling number
/// is free / in a hole / >= /Size as planned, and — with `expect_ref` — the planted reference is the ONLY reference in the file
/// that does not lead to an in-use object. Ok(false) = flavour the reference reader does not cover (cross-reference stream,
/// incremental update, indirect stream /Length): not checked.
pub fn refcheck(bytes: &[u8], pl: &Plan, expect_ref: bool) -> Result<bool, String> {
    if pl.xref_stream.is_some() || pl.freed_by_update { return Ok(false); }
    let (trailer, objs) = match crate::refimpl::c06_read::read_classic(bytes) {
        Ok(x) => x,
        Err(e) if e.contains("direct integer") => return Ok(false),
        Err(e) => return Err(format!("reference reader rejects the file: {}", e)),
    };
    let inuse: std::collections::BTreeSet<u32> = objs.iter().map(|(n, _, _)| *n).collect();
    match trailer.get("Size") { Some(Obj::Int(n)) if *n as u32 == pl.size => {}, other => return Err(format!("/Size is {:?}, planned {}", other, pl.size)) }
    let table = table_entries(bytes)?;
    if table.keys().any(|n| *n >= pl.size) { return Err("table lists a number >= /Size".into()); }
    let d = pl.dangling;
    match pl.kind {
        Dangling::Free => if table.get(&d) != Some(&false) { return Err(format!("object {} should have a free entry", d)); },
        Dangling::Gap => if table.contains_key(&d) || d >= pl.size || !table.keys().any(|n| *n > d) { return Err(format!("object {} should lie in a hole of the table", d)); },
        Dangling::AtSize => if d != pl.size { return Err("dangling number should equal /Size".into()); },
        Dangling::BeyondSize => if d <= pl.size { return Err("dangling number should exceed /Size".into()); },
    }
    if inuse.contains(&d) { return Err(format!("object {} is defined", d)); }
    let mut refs = Vec::new();
    refs_of(&trailer, &mut refs);
    for (_, _, o) in &objs { refs_of(o, &mut refs); }
    if let Some(bad) = refs.iter().find(|n| !inuse.contains(n) && **n != d) { return Err(format!("stray reference to undefined object {}", bad)); }
    let planted = refs.iter().filter(|n| **n == d).count();
    if expect_ref && planted != 1 { return Err(format!("{} references to the dangling object instead of 1", planted)); }
    if !expect_ref && planted != 0 { return Err("twin document refers to the dangling object".into()); }
    Ok(true)
}
