//! C05 — stream filters decode what standard encoders produce; corrupted data never panics.
use crate::doc::CFGS;
use crate::mkpdf::{self, Obj};
use crate::panicmon::guard;
use crate::par::{par_chunks, par_for};
use crate::refimpl::codec::{self, Geometry};
use crate::rng::{fnv, Rng};
use crate::run::{hex, show, Run};
use crate::tape::{shrink, Src};
use crate::with_file;
use pdf::enc::{decode, LZWFlateParams, PredictorType, StreamFilter};
use pdf::object::{PlainRef, Ref, Resolve, Stream};
use serde_json::json;

#[derive(Clone, Debug)]
struct Layer { kind: u8, early: i32, predictor: i32, geo: Geometry, explicit_params: bool }
const KINDS: [&str; 5] = ["AHx", "A85", "RL", "LZW", "Flate"];

struct Case { data: Vec<u8>, layers: Vec<Layer>, encoded: Vec<u8>, route: u8, labels: String }

fn gen_data(s: &mut Src, max: usize) -> Vec<u8> {
    let n = match s.draw(4) { 0 => s.draw(16) as usize, 1 => s.draw(max as u32 + 1) as usize, _ => s.draw(200) as usize };
    match s.draw(4) {
        0 => (0..n).map(|_| s.byte()).collect(),
        1 => { let b = s.byte(); vec![b; n] }
        2 => { let k = 1 + s.draw(6) as usize; let pat: Vec<u8> = (0..k).map(|_| s.byte()).collect(); (0..n).map(|i| pat[i % k]).collect() }
        _ => (0..n).map(|i| if s.draw(8) == 0 { s.byte() } else { (i / 5) as u8 }).collect(),
    }
}

fn gen_case(s: &mut Src, max: usize) -> Case {
    let nl = 1 + s.pick_w(5, 2) as usize; // 1..3 layers, 1 most likely
    let mut layers = Vec::new();
    for _ in 0..nl {
        let kind = s.draw(5) as u8;
        s.label(KINDS[kind as usize]);
        let early = if kind == 3 { if s.alt(1, &["early1", "lzw_early0"]) == 1 { 0 } else { 1 } } else { 1 };
        layers.push(Layer { kind, early, predictor: 1, geo: Geometry { colors: 1, bpc: 8, columns: 1 }, explicit_params: false });
    }
    if nl > 1 { s.label(if nl == 2 { "chain2" } else { "chain3" }); }
    // predictor only on the last (innermost) layer with free geometry; data is a whole number of rows
    let last = nl - 1;
    let mut data = gen_data(s, max);
    if layers[last].kind >= 3 {
        let p = s.alt(3, &["nopred", "pred_png", "pred_tiff2", "pred_1_explicit"]);
        if p == 1 || p == 2 {
            let colors = 1 + s.pick_w(2, 3);
            let bpc = if s.alt(3, &["bpc8", "bpc_not8"]) == 0 { 8 } else { *s.pick(&[1u32, 2, 4, 16]) };
            if colors > 1 { s.label("colors>1"); }
            let columns = 1 + s.draw(70);
            let geo = Geometry { colors, bpc, columns };
            let rb = geo.row_bytes();
            let rows = (data.len() / rb).max(1).min(40);
            while data.len() < rows * rb { let b = s.byte(); data.push(b); }
            data.truncate(rows * rb);
            if rows > 1 { s.label("rows>1"); }
            if p == 2 && bpc < 8 {
                // bits after the last sample of a row are padding: keep them zero so that "original bytes" is well defined
                let used = (geo.colors * geo.bpc * geo.columns) as usize;
                let pad = rb * 8 - used;
                if pad > 0 { for r in 0..rows { data[r * rb + rb - 1] &= 0xffu8 << pad; } }
            }
            layers[last].predictor = if p == 2 { 2 } else { 10 + s.draw(6) as i32 };
            if p == 1 && layers[last].predictor == 10 { s.label("pred_eq_10"); }
            layers[last].geo = geo;
            layers[last].explicit_params = true;
        } else if p == 3 {
            layers[last].explicit_params = true;
        }
    }
    let cur = encode_chain(&data, &layers, s);
    let route = s.alt(2, &["route_direct", "route_stream", "route_file"]) as u8;
    Case { data, layers, encoded: cur, route, labels: String::new() }
}

/// encode from the innermost layer outwards
fn encode_chain(data: &[u8], layers: &[Layer], s: &mut Src) -> Vec<u8> {
    let mut cur = data.to_vec();
    for l in layers.iter().rev() {
        if l.predictor == 2 { cur = codec::tiff_predict(&cur, &l.geo); }
        else if l.predictor >= 10 {
            let mode = s.alt(2, &["png_rowtag_same", "png_rowtag_mixed"]);
            let fixed = s.draw(5) as u8;
            let mut tags: Vec<u8> = Vec::new();
            let rows = cur.len() / l.geo.row_bytes();
            for _ in 0..rows { tags.push(if mode == 0 { fixed } else { s.draw(5) as u8 }); }
            for t in &tags { s.label(["png_none", "png_sub", "png_up", "png_avg", "png_paeth"][*t as usize]); }
            cur = codec::png_predict(&cur, &l.geo, |r| tags[r]);
        }
        cur = match l.kind {
            0 => codec::hex_encode(&cur, s),
            1 => codec::a85_encode(&cur, s),
            2 => codec::rl_encode(&cur, s),
            3 => codec::lzw_encode(&cur, l.early as u32, s),
            _ => codec::flate_encode(&cur, s),
        };
    }
    cur
}

fn filter_of(l: &Layer) -> StreamFilter {
    let p = LZWFlateParams { predictor: l.predictor, n_components: l.geo.colors as i32, bits_per_component: l.geo.bpc as i32, columns: l.geo.columns as i32, early_change: l.early };
    match l.kind { 0 => StreamFilter::ASCIIHexDecode, 1 => StreamFilter::ASCII85Decode, 2 => StreamFilter::RunLengthDecode, 3 => StreamFilter::LZWDecode(p), _ => StreamFilter::FlateDecode(p) }
}
fn filter_name(k: u8) -> &'static str { ["ASCIIHexDecode", "ASCII85Decode", "RunLengthDecode", "LZWDecode", "FlateDecode"][k as usize] }

fn parms_obj(l: &Layer) -> Obj {
    let mut d: Vec<(&str, Obj)> = Vec::new();
    if l.predictor != 1 || l.explicit_params {
        d.push(("Predictor", Obj::Int(l.predictor as i64)));
        if l.predictor != 1 {
            d.push(("Colors", Obj::Int(l.geo.colors as i64)));
            d.push(("BitsPerComponent", Obj::Int(l.geo.bpc as i64)));
            d.push(("Columns", Obj::Int(l.geo.columns as i64)));
        }
    }
    if l.kind == 3 && l.early == 0 { d.push(("EarlyChange", Obj::Int(0))); }
    if d.is_empty() { Obj::Null } else { mkpdf::dict(d) }
}

/// run the case on the real library; Ok(decoded) | Err(class, detail)
fn execute(c: &Case) -> Result<Vec<u8>, (String, String)> {
    match c.route {
        0 => {
            let mut cur = c.encoded.clone();
            for l in &c.layers {
                let f = filter_of(l);
                match guard(|| decode(&cur, &f)) {
                    Err(p) => return Err((p.signature(), p.describe())),
                    Ok(Err(e)) => return Err(("decode-error".into(), format!("{} at layer {}", e, KINDS[l.kind as usize]))),
                    Ok(Ok(v)) => cur = v,
                }
            }
            Ok(cur)
        }
        1 => {
            let st = Stream::from_compressed((), c.encoded.clone(), c.layers.iter().map(filter_of).collect());
            match guard(|| st.data(&pdf::object::NoResolve)) {
                Err(p) => Err((p.signature(), p.describe())),
                Ok(Err(e)) => Err(("decode-error".into(), format!("{}", e))),
                Ok(Ok(v)) => Ok(v.to_vec()),
            }
        }
        _ => {
            let mut objs = mkpdf::skeleton(1);
            let filt = if c.layers.len() == 1 { mkpdf::name(filter_name(c.layers[0].kind)) } else { Obj::Arr(c.layers.iter().map(|l| mkpdf::name(filter_name(l.kind))).collect()) };
            let parms: Vec<Obj> = c.layers.iter().map(parms_obj).collect();
            let mut d = vec![("Filter", filt)];
            if parms.iter().any(|p| *p != Obj::Null) {
                d.push(("DecodeParms", if c.layers.len() == 1 { parms[0].clone() } else { Obj::Arr(parms) }));
            }
            objs.push((4, mkpdf::stream(d, &c.encoded)));
            let bytes = mkpdf::simple_doc(&objs, 1, vec![]);
            let r = guard(|| with_file!(bytes.clone(), CFGS[0], b"", |f| {
                let f = f.map_err(|e| format!("load: {}", e))?;
                let res = f.resolver();
                let st = res.get::<Stream<()>>(Ref::new(PlainRef { id: 4, gen: 0 })).map_err(|e| format!("get stream: {}", e))?;
                (**st.data()).data(&res).map(|d| d.to_vec()).map_err(|e| format!("{}", e))
            }));
            match r {
                Err(p) => Err((p.signature(), p.describe())),
                Ok(Err(e)) => Err(("decode-error".into(), e)),
                Ok(Ok(v)) => Ok(v),
            }
        }
    }
}

fn outcome(c: &Case) -> Option<(String, String)> {
    match execute(c) {
        Ok(d) if d == c.data => None,
        Ok(d) => {
            let cls = if d.len() != c.data.len() { "wrong-length" } else { "wrong-bytes" };
            Some((cls.into(), format!("decoded {} bytes, expected {}", d.len(), c.data.len())))
        }
        Err(e) => Some(e),
    }
}

fn self_check(c: &Case) -> Result<(), String> {
    // my own decoders must invert my own encoders for the plain chain (predictor-free layers), else harness error
    let mut cur = c.encoded.clone();
    for l in &c.layers {
        cur = match l.kind {
            0 => codec::hex_decode(&cur)?, 1 => codec::a85_decode(&cur)?, 2 => codec::rl_decode(&cur)?,
            3 => codec::lzw_decode(&cur, l.early as u32)?,
            _ => codec::zlib_decode(&cur).or_else(|_| codec::raw_inflate(&cur))?,
        };
    }
    // undo predictor of the last layer only via comparing with re-prediction is skipped; compare lengths
    let last = c.layers.last().unwrap();
    if last.predictor == 1 && cur != c.data { return Err("reference decoder does not invert reference encoder".into()); }
    Ok(())
}

fn random_part(run: &Run) {
    let n = run.n(150_000, 3_000_000);
    let max = if run.quick() { 4096 } else { 65536 };
    par_for(n, |i| {
        let mut s = Src::fresh(Rng::derive(run.seed, 5, i));
        let cmax = if i % 16 == 0 { max } else { 512 };
        let c = gen_case(&mut s, cmax);
        run.eval();
        if let Err(e) = self_check(&c) { run.inconclusive(format!("case {}: {}", i, e)); return; }
        let labels = s.label_set();
        run.nontrivial(fnv(&c.encoded) ^ fnv(labels.as_bytes()));
        for l in &c.layers { run.count(&format!("layer:{}{}", KINDS[l.kind as usize], if l.predictor >= 10 { "+png" } else if l.predictor == 2 { "+tiff" } else { "" })); }
        run.count(&format!("route:{}", c.route));
        if i < 6 { run.sample(json!({"labels": labels, "data_len": c.data.len(), "encoded": show(&c.encoded[..c.encoded.len().min(80)])})); }
        if let Some((cls, _)) = outcome(&c) {
            // shrink on the real code, same outcome class
            let tape = s.tape.clone();
            let small = shrink(&tape, |t| {
                let mut s2 = Src::replay(t);
                let c2 = gen_case(&mut s2, cmax);
                if self_check(&c2).is_err() { return false; }
                matches!(outcome(&c2), Some((k, _)) if k == cls)
            }, 600);
            let mut s3 = Src::replay(&small);
            let c3 = gen_case(&mut s3, cmax);
            let (cls3, detail) = outcome(&c3).unwrap_or((cls.clone(), "(shrunk case no longer fails)".into()));
            let sig = format!("C05|{}|{}", s3.label_set(), cls3);
            run.violation(&sig, &detail, json!({"tape": small, "labels": s3.label_set(), "data_hex": hex(&c3.data[..c3.data.len().min(200)]),
                "encoded_hex": hex(&c3.encoded[..c3.encoded.len().min(400)]), "layers": format!("{:?}", c3.layers), "route": c3.route}));
        }
    });
}

/// Large, very repetitive payloads (a blank page image, a zero-filled table) through chains in which two or three filters compress:
/// the stored stream is a few hundred bytes for megabytes of data, a ratio no single filter reaches.
const BIG_CHAINS: [&[u8]; 14] = [&[4, 4], &[4, 2], &[3, 4], &[2, 4], &[3, 3], &[4, 3], &[1, 4, 4], &[4, 4, 4], &[0, 3, 2], &[4, 3, 2], &[3, 2], &[4], &[3], &[1, 4, 2]];
const BIG_PAYLOADS: [&str; 5] = ["constant", "periodic", "blank-with-marks", "zero-rows-png", "counter-rows-tiff"];
fn big_case(seed: u64, i: u64, size: usize) -> (Case, String) {
    let chain = BIG_CHAINS[(i % 14) as usize];
    let payload = ((i / 14) % 5) as usize;
    let route = ((i / 70) % 3) as u8;
    let mut s = Src::fresh(Rng::derive(seed, 55, i));
    let mut layers: Vec<Layer> = chain.iter().map(|&k| Layer { kind: k, early: if k == 3 && (i / 210) % 2 == 1 { 0 } else { 1 }, predictor: 1, geo: Geometry { colors: 1, bpc: 8, columns: 1 }, explicit_params: false }).collect();
    let last = layers.len() - 1;
    let mut size = size;
    let data: Vec<u8> = match payload {
        0 => { let b = s.byte(); vec![b; size] }
        1 => { let k = 2 + s.draw(14) as usize; let pat: Vec<u8> = (0..k).map(|_| s.byte()).collect(); (0..size).map(|j| pat[j % k]).collect() }
        2 => { let mut d = vec![0xffu8; size]; let marks = 1 + s.draw(12) as usize; for _ in 0..marks { let at = s.draw(size as u32) as usize; let b = s.byte(); d[at] = b; } d }
        3 | _ if layers[last].kind < 3 => { let b = s.byte(); (0..size).map(|j| if j % 4096 < 4 { (j / 4096) as u8 } else { b }).collect() }
        3 => { let geo = Geometry { colors: 3, bpc: 8, columns: 1000 }; size -= size % geo.row_bytes(); layers[last].predictor = 12; layers[last].geo = geo; layers[last].explicit_params = true; vec![0u8; size] }
        _ => { let geo = Geometry { colors: 1, bpc: 8, columns: 2048 }; size -= size % geo.row_bytes(); layers[last].predictor = 2; layers[last].geo = geo; layers[last].explicit_params = true; (0..size).map(|j| (j % 2048) as u8).collect() }
    };
    let encoded = encode_chain(&data, &layers, &mut s);
    let name = format!("{}|{}|route{}", chain.iter().map(|&k| KINDS[k as usize]).collect::<Vec<_>>().join(">"), BIG_PAYLOADS[payload], route);
    (Case { data, layers, encoded, route, labels: String::new() }, name)
}
fn big_part(run: &Run) {
    let n: u64 = if run.quick() { 210 } else { 840 };
    let best_ratio = std::sync::atomic::AtomicU64::new(0);
    par_for(n, |i| {
        // quick: 1-1.5 MiB; thorough also 4-12 MiB
        let mut r = Rng::derive(run.seed, 56, i);
        let size = if run.quick() || i < 420 { (1 << 20) + r.below(1 << 19) as usize } else { (4 << 20) + r.below(8 << 20) as usize };
        let (c, name) = big_case(run.seed, i, size);
        run.eval();
        if let Err(e) = self_check(&c) { run.inconclusive(format!("big case {}: {}", i, e)); return; }
        run.nontrivial(fnv(&c.encoded) ^ fnv(name.as_bytes()) ^ c.data.len() as u64);
        run.count("big_cases");
        best_ratio.fetch_max((c.data.len() / c.encoded.len().max(1)) as u64, std::sync::atomic::Ordering::Relaxed);
        if c.data.len() / c.encoded.len().max(1) > 4096 { run.count("big_cases_ratio_over_4096"); }
        if let Some((cls, detail)) = outcome(&c) {
            // smallest failing size of the same case (halving)
            let mut sz = size;
            while sz > 4096 { let (c2, _) = big_case(run.seed, i, sz / 2); if matches!(outcome(&c2), Some((k, _)) if k == cls) { sz /= 2; } else { break; } }
            let (c3, _) = big_case(run.seed, i, sz);
            run.violation(&format!("C05|big|{}|{}", name, cls), &format!("{} (payload {} bytes, stored {} bytes; fails from {} bytes of payload on)", detail, c.data.len(), c.encoded.len(), c3.data.len()),
                json!({"big_case": i, "size": sz, "layers": format!("{:?}", c3.layers), "route": c3.route, "stored_len": c3.encoded.len(), "payload_len": c3.data.len(), "encoded_hex": hex(&c3.encoded[..c3.encoded.len().min(400)])}));
        }
    });
    run.add("big_best_ratio", best_ratio.load(std::sync::atomic::Ordering::Relaxed));
}

fn corruption_part(run: &Run) {
    let n = run.n(100_000, 2_000_000);
    par_for(n, |i| {
        let mut s = Src::fresh(Rng::derive(run.seed, 50, i));
        let mut c = gen_case(&mut s, 300);
        c.route = 0;
        let mut r = Rng::derive(run.seed, 51, i);
        // mutate the outermost encoded bytes
        let mut e = c.encoded.clone();
        match r.below(4) {
            0 => { let k = r.below(e.len() as u64 + 1) as usize; e.truncate(k); }
            1 => { for _ in 0..1 + r.below(3) { if !e.is_empty() { let k = r.below(e.len() as u64) as usize; e[k] ^= 1 << r.below(8); } } }
            2 => { if !e.is_empty() { let k = r.below(e.len() as u64) as usize; e[k] = r.next_u64() as u8; } }
            _ => { let k = r.below(e.len() as u64 + 1) as usize; e.insert(k, r.next_u64() as u8); }
        }
        run.eval();
        run.count("corrupted");
        let mut cur = e.clone();
        for l in &c.layers {
            let f = filter_of(l);
            match guard(|| decode(&cur, &f)) {
                Err(p) => {
                    run.violation(&format!("C05|corrupt|{}|{}", KINDS[l.kind as usize], p.signature()), &p.describe(),
                        json!({"filter": format!("{:?}", f), "input_hex": hex(&cur[..cur.len().min(300)])}));
                    return;
                }
                Ok(Err(_)) => { run.count("corrupted->error"); return; }
                Ok(Ok(v)) => cur = v,
            }
        }
        run.count("corrupted->value");
    });
    // every prefix of small encodings, every filter
    let datas: Vec<Vec<u8>> = vec![b"".to_vec(), b"a".to_vec(), b"hello hello hello".to_vec(), vec![0; 40], (0..=255u8).collect()];
    for d in &datas {
        for kind in 0..5u8 {
            let mut s = Src::replay(&[]);
            let l = Layer { kind, early: 1, predictor: 1, geo: Geometry { colors: 1, bpc: 8, columns: 1 }, explicit_params: false };
            let enc = match kind { 0 => codec::hex_encode(d, &mut s), 1 => codec::a85_encode(d, &mut s), 2 => codec::rl_encode(d, &mut s), 3 => codec::lzw_encode(d, 1, &mut s), _ => codec::flate_encode(d, &mut s) };
            for k in 0..=enc.len() {
                run.eval();
                let f = filter_of(&l);
                if let Err(p) = guard(|| decode(&enc[..k], &f)) {
                    run.violation(&format!("C05|corrupt|{}|{}", KINDS[kind as usize], p.signature()), &p.describe(), json!({"filter": KINDS[kind as usize], "prefix_len": k, "input_hex": hex(&enc[..k.min(300)])}));
                }
            }
        }
    }
}

fn exhaustive_part(run: &Run) {
    // all hex digit pairs in both cases
    let digits = b"0123456789abcdefABCDEF";
    for &h in digits { for &l in digits {
        run.eval();
        let exp = (codec::hex_decode(&[h, l]).unwrap())[0];
        let inp = [h, l, b'>'];
        match guard(|| decode(&inp, &StreamFilter::ASCIIHexDecode)) {
            Ok(Ok(v)) if v == [exp] => {}
            Ok(r) => run.violation("C05|exh|hexpair|wrong-bytes", &format!("{:?} -> {:?}", show(&inp), r.map(|v| hex(&v)).map_err(|e| e.to_string())), json!({"input": show(&inp)})),
            Err(p) => run.violation(&format!("C05|exh|hexpair|{}", p.signature()), &p.describe(), json!({"input": show(&inp)})),
        }
        run.nontrivial(fnv(&inp));
    } }
    run.exhaustive("all 22x22 hex digit pairs", true);
    // all 256 run-length headers with full-length, one-short and empty payloads
    for h in 0..=255u32 {
        for variant in 0..3 {
            let need = if h < 128 { h as usize + 1 } else if h > 128 { 1 } else { 0 };
            let have = match variant { 0 => need, 1 => need.saturating_sub(1), _ => 0 };
            let mut inp = vec![h as u8];
            inp.extend((0..have).map(|i| (i * 7 + 3) as u8));
            if variant == 0 { inp.push(128); }
            run.eval();
            run.nontrivial(fnv(&inp) ^ 0x52);
            let r = guard(|| decode(&inp, &StreamFilter::RunLengthDecode));
            match r {
                Err(p) => run.violation(&format!("C05|exh|rl-header|{}|{}", if variant == 0 { "complete" } else { "truncated" }, p.signature()), &p.describe(), json!({"header": h, "payload_len": have})),
                Ok(Ok(v)) if variant == 0 => {
                    let exp = codec::rl_decode(&inp).unwrap();
                    if v != exp { run.violation("C05|exh|rl-header|wrong-bytes", &format!("header {} -> {} bytes, expected {}", h, v.len(), exp.len()), json!({"header": h})); }
                }
                Ok(Err(e)) if variant == 0 => run.violation("C05|exh|rl-header|decode-error", &format!("header {}: {}", h, e), json!({"header": h})),
                _ => {}
            }
        }
    }
    run.exhaustive("all 256 run-length headers x {complete, one byte short, empty}", true);
    // all 2^24 Paeth triples through enc::unfilter
    par_chunks(1 << 24, 1 << 16, |lo, hi| {
        let mut bad: Option<(u8, u8, u8, u8)> = None;
        for v in lo..hi {
            let (a, b, c) = (v as u8, (v >> 8) as u8, (v >> 16) as u8);
            let prev = [c, b];
            let inp = [a.wrapping_sub(c), 0];
            let mut out = [0u8; 2];
            pdf::enc::unfilter(PredictorType::Paeth, 1, &prev, &inp, &mut out);
            let ia = a as i32; let ib = b as i32; let ic = c as i32; let p = ia + ib - ic;
            let (pa, pb, pc) = ((p - ia).abs(), (p - ib).abs(), (p - ic).abs());
            let exp = if pa <= pb && pa <= pc { a } else if pb <= pc { b } else { c };
            if out[0] != a || out[1] != exp { bad = Some((a, b, c, out[1])); }
        }
        run.evals(hi - lo);
        if let Some((a, b, c, got)) = bad { run.violation("C05|exh|paeth|wrong-bytes", &format!("paeth({},{},{}) -> {}", a, b, c, got), json!({"a": a, "b": b, "c": c})); }
    });
    run.add("paeth_triples", 1 << 24);
    run.exhaustive("all 2^24 (left, up, upper-left) Paeth triples", true);
    // ASCII85 groups
    let full = !run.quick();
    let total: u64 = if full { 1 << 32 } else { 1 << 20 };
    let stride: u64 = if full { 1 } else { 4099 }; // stratified: v = i*4099 + (i % 4099) mod 2^32 covers the range
    par_chunks(total, 1 << 16, |lo, hi| {
        let mut buf = Vec::with_capacity(((hi - lo) * 5 + 2) as usize);
        let mut exp = Vec::with_capacity(((hi - lo) * 4) as usize);
        for i in lo..hi {
            let v = if full { i as u32 } else { (i.wrapping_mul(stride).wrapping_add(i >> 3)) as u32 ^ ((i as u32) << 12) };
            exp.extend_from_slice(&v.to_be_bytes());
            if v == 0 && i % 2 == 0 { buf.push(b'z'); } else { buf.extend_from_slice(&codec::a85_group(v)); }
        }
        buf.extend_from_slice(b"~>");
        run.evals(hi - lo);
        match guard(|| decode(&buf, &StreamFilter::ASCII85Decode)) {
            Ok(Ok(v)) if v == exp => {}
            Ok(Ok(v)) => {
                let k = v.iter().zip(exp.iter()).position(|(a, b)| a != b).unwrap_or(v.len().min(exp.len())) / 4;
                run.violation("C05|exh|a85-group|wrong-bytes", &format!("group #{} of batch starting at {}", k, lo), json!({"batch_lo": lo, "group_index": k}));
            }
            Ok(Err(e)) => run.violation("C05|exh|a85-group|decode-error", &format!("batch at {}: {}", lo, e), json!({"batch_lo": lo})),
            Err(p) => run.violation(&format!("C05|exh|a85-group|{}", p.signature()), &p.describe(), json!({"batch_lo": lo})),
        }
    });
    run.add("a85_groups", total);
    run.exhaustive(if full { "all 2^32 ASCII85 5-character groups" } else { "2^20 stratified ASCII85 groups (all 2^32 in thorough tier)" }, full);
    // all partial groups of 1 and 2 bytes (and 3 bytes in thorough)
    let tails: u64 = if full { 256 + 65536 + (1 << 24) } else { 256 + 65536 };
    par_chunks(tails, 1 << 12, |lo, hi| {
        for i in lo..hi {
            let data: Vec<u8> = if i < 256 { vec![i as u8] } else if i < 256 + 65536 { let v = i - 256; vec![(v >> 8) as u8, v as u8] } else { let v = i - 256 - 65536; vec![(v >> 16) as u8, (v >> 8) as u8, v as u8] };
            let mut c = [0u8; 4]; c[..data.len()].copy_from_slice(&data);
            let g = codec::a85_group(u32::from_be_bytes(c));
            let mut inp = g[..data.len() + 1].to_vec(); inp.extend_from_slice(b"~>");
            match guard(|| decode(&inp, &StreamFilter::ASCII85Decode)) {
                Ok(Ok(v)) if v == data => {}
                Ok(r) => run.violation(&format!("C05|exh|a85-tail{}|{}", data.len(), if r.is_ok() { "wrong-bytes" } else { "decode-error" }), &format!("{} -> {:?}", show(&inp), r.map(|v| hex(&v)).map_err(|e| e.to_string())), json!({"input": show(&inp)})),
                Err(p) => run.violation(&format!("C05|exh|a85-tail|{}", p.signature()), &p.describe(), json!({"input": show(&inp)})),
            }
        }
        run.evals(hi - lo);
    });
    run.exhaustive("all ASCII85 partial groups of 1-2 bytes (3 bytes: thorough)", full);
}

pub fn run(run: &Run) {
    run.rule("random part: (data, chain of 1-3 filters from {ASCIIHex, ASCII85, RunLength, LZW early 0/1, Flate zlib/raw}, PNG/TIFF predictor with Colors 1-4, BPC {1,2,4,8,16}, Columns 1-70 on the innermost LZW/Flate layer) encoded by independent encoders with free spelling choices, decoded via enc::decode / Stream::data / a generated file; oracle = original bytes; failing cases are tape-shrunk and signed by minimal label set. big part: 1-12 MiB constant / periodic / nearly blank / predictor-friendly payloads through 14 chains in which up to three filters compress (stored size a few hundred bytes), all three routes. exhaustive parts: hex digit pairs, run-length headers, 2^24 Paeth triples, ASCII85 groups/tails. corruption part: truncations and byte edits must give value or Err. distinct_nontrivial = distinct (encoded bytes, label set) pairs");
    run.assume("reference encoders (harness/src/refimpl/codec.rs) emit spec-conformant data; checked against own decoders + miniz_oxide on every case (self_check)");
    exhaustive_part(run);
    random_part(run);
    big_part(run);
    corruption_part(run);
    // thorough: the same quick workload once more under the AddressSanitizer build (memory errors in the library or its dependencies)
    if !run.quick() { crate::lanes::asan_rerun(run); }
}
