//! C18 — typed readers: one monomorphic read+observe function per typed model, selected by name, generic over the
//! resolver (a loaded `File` in any of the four configurations).
//!
//! "Observe" = write the value that was read back to its dictionary form (`ObjectWrite`, into a throw-away store), so that the
//! monitor can look at the entry under test without knowing the Rust field. `Font` is observed through its public fields
//! (its writer re-emits the raw entries it keeps in `_other`, which would hide a field that was read as absent).
use super::c15_gen::{new_store, St};
use crate::panicmon::{guard, PanicRec};
use datasize::DataSize;
use pdf::enc::{CCITTFaxDecodeParams, DCTDecodeParams, JBIG2DecodeParams, LZWFlateParams};
use pdf::error::PdfError;
use pdf::font::{CIDFont, Font, FontData, FontDescriptor, FontStream3, TFont, Type0Font};
use pdf::object::*;
use pdf::primitive::{Dictionary, Primitive};

/// outcome of `Lazy::load` on one lazily read entry: Ok(number of elements / 1) or the error
pub type LazyOut = Vec<(String, Result<usize, PdfError>)>;

pub trait Observe {
    fn observe(&self, up: &mut St) -> pdf::error::Result<Dictionary>;
    /// load the `Lazy` values stored under `key` (only the models that have such fields implement this)
    fn lazy_probe(&self, _key: &str, _res: &impl Resolve) -> Option<LazyOut> { None }
}

fn as_dict(p: Primitive) -> pdf::error::Result<Dictionary> {
    match p {
        Primitive::Dictionary(d) => Ok(d),
        Primitive::Null => Ok(Dictionary::new()),
        other => Err(PdfError::Other { msg: format!("C18 observe: writer produced a {} instead of a dictionary", other.get_debug_name()) }),
    }
}

macro_rules! plain_observe {
    ($($t:ty),* $(,)?) => { $( impl Observe for $t { fn observe(&self, up: &mut St) -> pdf::error::Result<Dictionary> { as_dict(self.to_primitive(up)?) } } )* };
}
plain_observe!(Catalog, PageTree, PageLabel, PatternDict, GraphicsStateParameters, PostScriptDict, ImageDict, FormDict,
    InteractiveFormDictionary, SeedValueDictionary, SignatureDictionary, SignatureReferenceDictionary, Annot, FieldDictionary, AppearanceStreams,
    FileSpec, Files<Ref<Stream<EmbeddedFile>>>, EmbeddedFile, EmbeddedFileParamDict, Outlines, MarkInformation, StructTreeRoot, StructElem, InfoDict,
    LZWFlateParams, DCTDecodeParams, CCITTFaxDecodeParams, JBIG2DecodeParams, IccInfo, TFont, Type0Font, CIDFont, FontDescriptor, FontStream3);

fn annots_probe(page: &Page, key: &str, res: &impl Resolve) -> Option<LazyOut> {
    if key != "Annots" { return None; }
    Some(vec![("Annots".to_string(), page.annotations.load(res).map(|v| v.len()))])
}
impl Observe for Page {
    fn observe(&self, up: &mut St) -> pdf::error::Result<Dictionary> { as_dict(self.to_primitive(up)?) }
    fn lazy_probe(&self, key: &str, res: &impl Resolve) -> Option<LazyOut> { annots_probe(self, key, res) }
}
impl Observe for PagesNode {
    fn observe(&self, up: &mut St) -> pdf::error::Result<Dictionary> { as_dict(self.to_primitive(up)?) }
    fn lazy_probe(&self, key: &str, res: &impl Resolve) -> Option<LazyOut> {
        match self { PagesNode::Leaf(p) => annots_probe(p, key, res), _ => None }
    }
}
impl Observe for Resources {
    fn observe(&self, up: &mut St) -> pdf::error::Result<Dictionary> { as_dict(self.to_primitive(up)?) }
    fn lazy_probe(&self, key: &str, res: &impl Resolve) -> Option<LazyOut> {
        if key != "Font" { return None; }
        let mut v: LazyOut = self.fonts.iter().map(|(k, l)| (k.as_str().to_string(), l.load(res).map(|_| 1))).collect();
        v.sort_by(|a, b| a.0.cmp(&b.0));
        Some(v)
    }
}
impl<I: ObjectWrite> Observe for Stream<I> {
    fn observe(&self, up: &mut St) -> pdf::error::Result<Dictionary> { as_dict(self.info.info.to_primitive(up)?) }
}
impl Observe for Font {
    fn observe(&self, up: &mut St) -> pdf::error::Result<Dictionary> {
        let mut d = match self.data {
            FontData::Type1(ref t) | FontData::TrueType(ref t) => t.to_dict(up)?,
            FontData::Type0(ref t) => t.to_dict(up)?,
            FontData::CIDFontType0(ref c) | FontData::CIDFontType2(ref c) => c.to_dict(up)?,
            FontData::Other(ref d) => d.clone(),
        };
        // the per-subtype struct also declares BaseFont / ToUnicode for some subtypes: `Font`'s own fields are the ones a caller sees
        d.remove("BaseFont"); d.remove("ToUnicode"); d.remove("Encoding");
        if let Some(ref n) = self.name { d.insert("BaseFont", n.to_primitive(up)?); }
        if let Some(ref t) = self.to_unicode { d.insert("ToUnicode", t.to_primitive(up)?); }
        if let Some(ref e) = self.encoding { d.insert("Encoding", e.to_primitive(up)?); }
        Ok(d)
    }
}

pub enum ReadOut {
    Panic(PanicRec),
    Err(PdfError),
    Ok {
        /// the value written back to dictionary form; Err = the write-back itself failed (harness-level trouble, not judged)
        dict: Result<Dictionary, String>,
        lazy: Option<LazyOut>,
    },
}

/// Objects the writer creates while a value is written back (e.g. the lookup stream of an Indexed colour space) get fresh
/// numbers in the scratch store, in the iteration order of the library's hash maps: the numbers mean nothing. The scratch
/// store is pre-filled so that its numbers lie above every number of the document, and references into it are replaced by
/// the content of the object they designate.
const SCRATCH_BASE: u64 = 400;
fn scratch_store() -> super::c15_gen::St {
    use pdf::object::Updater;
    let mut up = new_store();
    for _ in 0..SCRATCH_BASE { let _ = up.create(Primitive::Null); }
    up
}
fn expand_created(p: &Primitive, up: &super::c15_gen::St, depth: usize) -> Primitive {
    match p {
        Primitive::Reference(r) if r.id >= SCRATCH_BASE && depth < 6 => {
            let mut d = Dictionary::new();
            match up.resolver().resolve(*r) {
                Ok(Primitive::Stream(s)) => { d.insert("CreatedStream", expand_created(&Primitive::Dictionary(s.info.clone()), up, depth + 1)); }
                Ok(o) => { d.insert("CreatedObject", expand_created(&o, up, depth + 1)); }
                Err(_) => { d.insert("CreatedObjectUnreadable", Primitive::Integer(1)); }
            }
            Primitive::Dictionary(d)
        }
        Primitive::Array(a) => Primitive::Array(a.iter().map(|x| expand_created(x, up, depth + 1)).collect()),
        Primitive::Dictionary(d) => { let mut n = Dictionary::new(); for (k, x) in d.iter() { n.insert(k.clone(), expand_created(x, up, depth + 1)); } Primitive::Dictionary(n) }
        other => other.clone(),
    }
}

fn finish<T: Observe>(v: &T, res: &impl Resolve, lazy_key: Option<&str>) -> ReadOut {
    let dict = match guard(|| { let mut up = scratch_store(); v.observe(&mut up).map(|d| match expand_created(&Primitive::Dictionary(d), &up, 0) { Primitive::Dictionary(d) => d, _ => unreachable!() }) }) {
        Ok(Ok(d)) => Ok(d),
        Ok(Err(e)) => Err(format!("write-back error: {}", e)),
        Err(p) => Err(format!("write-back panic: {}", p.describe())),
    };
    let lazy = match lazy_key {
        Some(k) => match guard(|| v.lazy_probe(k, res)) {
            Ok(l) => l,
            Err(p) => return ReadOut::Panic(p),
        },
        None => None,
    };
    ReadOut::Ok { dict, lazy }
}

fn read_as<T: Object + DataSize + Observe, R: Resolve>(res: &R, r: PlainRef, via_get: bool, lazy_key: Option<&str>) -> ReadOut {
    if via_get {
        match guard(|| res.get::<T>(Ref::new(r))) {
            Err(p) => ReadOut::Panic(p),
            Ok(Err(e)) => ReadOut::Err(e),
            Ok(Ok(v)) => finish(&*v, res, lazy_key),
        }
    } else {
        match guard(|| res.resolve(r).and_then(|p| T::from_primitive(p, res))) {
            Err(p) => ReadOut::Panic(p),
            Ok(Err(e)) => ReadOut::Err(e),
            Ok(Ok(v)) => finish(&v, res, lazy_key),
        }
    }
}

/// for the few models without `DataSize` (they cannot go through `Resolve::get`)
fn read_direct<T: Object + Observe, R: Resolve>(res: &R, r: PlainRef, lazy_key: Option<&str>) -> ReadOut {
    match guard(|| res.resolve(r).and_then(|p| T::from_primitive(p, res))) {
        Err(p) => ReadOut::Panic(p),
        Ok(Err(e)) => ReadOut::Err(e),
        Ok(Ok(v)) => finish(&v, res, lazy_key),
    }
}

/// names accepted by `read_target`
pub const READERS: &[&str] = &["Catalog", "PageTree", "PageTree@PagesNode", "Page", "Page@PagesNode", "PageLabel", "Resources", "PatternDict", "GraphicsStateParameters",
    "Stream<ImageDict>", "Stream<FormDict>", "InteractiveFormDictionary", "SeedValueDictionary", "SignatureDictionary",
    "SignatureReferenceDictionary", "Annot", "FieldDictionary", "AppearanceStreams", "FileSpec", "Files", "Stream<EmbeddedFile>", "EmbeddedFileParamDict",
    "Outlines", "MarkInformation", "StructTreeRoot", "StructElem", "InfoDict", "LZWFlateParams", "DCTDecodeParams", "CCITTFaxDecodeParams", "JBIG2DecodeParams",
    "Stream<IccInfo>", "TFont", "Type0Font", "CIDFont", "FontDescriptor", "Stream<FontStream3>", "Font"];

pub fn read_target<R: Resolve>(reader: &str, res: &R, r: PlainRef, via_get: bool, lazy_key: Option<&str>) -> ReadOut {
    macro_rules! go { ($t:ty) => { read_as::<$t, R>(res, r, via_get, lazy_key) }; }
    macro_rules! direct { ($t:ty) => { read_direct::<$t, R>(res, r, lazy_key) }; }
    match reader {
        "Catalog" => go!(Catalog),
        "PageTree" => go!(PageTree),
        "Page" => go!(Page),
        "PageTree@PagesNode" | "Page@PagesNode" => go!(PagesNode),
        "PageLabel" => go!(PageLabel),
        "Resources" => go!(Resources),
        "PatternDict" => go!(PatternDict),
        "GraphicsStateParameters" => go!(GraphicsStateParameters),
        "Stream<ImageDict>" => go!(Stream<ImageDict>),
        "Stream<FormDict>" => go!(Stream<FormDict>),
        "InteractiveFormDictionary" => go!(InteractiveFormDictionary),
        "SeedValueDictionary" => direct!(SeedValueDictionary),
        "SignatureDictionary" => direct!(SignatureDictionary),
        "SignatureReferenceDictionary" => direct!(SignatureReferenceDictionary),
        "Annot" => go!(Annot),
        "FieldDictionary" => go!(FieldDictionary),
        "AppearanceStreams" => go!(AppearanceStreams),
        "FileSpec" => go!(FileSpec),
        "Files" => go!(Files<Ref<Stream<EmbeddedFile>>>),
        "Stream<EmbeddedFile>" => go!(Stream<EmbeddedFile>),
        "EmbeddedFileParamDict" => go!(EmbeddedFileParamDict),
        "Outlines" => go!(Outlines),
        "MarkInformation" => go!(MarkInformation),
        "StructTreeRoot" => go!(StructTreeRoot),
        "StructElem" => go!(StructElem),
        "InfoDict" => go!(InfoDict),
        "LZWFlateParams" => go!(LZWFlateParams),
        "DCTDecodeParams" => go!(DCTDecodeParams),
        "CCITTFaxDecodeParams" => go!(CCITTFaxDecodeParams),
        "JBIG2DecodeParams" => go!(JBIG2DecodeParams),
        "Stream<IccInfo>" => go!(Stream<IccInfo>),
        "TFont" => go!(TFont),
        "Type0Font" => go!(Type0Font),
        "CIDFont" => go!(CIDFont),
        "FontDescriptor" => go!(FontDescriptor),
        "Stream<FontStream3>" => go!(Stream<FontStream3>),
        "Font" => go!(Font),
        other => ReadOut::Err(PdfError::Other { msg: format!("C18 harness: no reader named {}", other) }),
    }
}
