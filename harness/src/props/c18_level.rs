//! C18 tier 2 — the document-level reads the statement names (`FileOptions::load`, `File::get_page`, `Page::resources`,
//! fonts through `Lazy`, annotations, images, outlines, forms, info) on the rich document of `richdoc.rs`, with one dangling
//! reference planted in a catalog / trailer / page-tree / page / resources / font / image / form / annotation entry.
//!
//! Oracle: a fixed read script produces a transcript (step -> ok:<summary> | err). For an optional entry (array element, map
//! value) the transcript must equal that of the TWIN document in which the entry (element, map entry) is simply not there;
//! for a required entry a named step must fail with an error that names the entry. No step may panic.
use super::c18::{chain, note_failing};
use super::c18_doc::{self as doc, Dangling, DANGLING};
use crate::doc::{error_fields, Cfg, CFGS};
use crate::mkpdf::{self, Obj};
use crate::panicmon::{guard, PanicRec};
use crate::par::par_for;
use crate::richdoc;
use crate::rng::{fnv, Rng};
use crate::run::{hex, Run};
use crate::tape::Src;
use crate::with_file;
use pdf::any::AnySync;
use pdf::backend::Backend;
use pdf::error::PdfError;
use pdf::file::{Cache, File, Log};
use pdf::font::{Font, FontData};
use pdf::object::*;
use serde_json::{json, Value};
use std::sync::Arc;

#[derive(Clone, Copy, Debug, PartialEq)]
pub enum How {
    /// the entry's value is the dangling reference; twin: entry removed
    Value,
    /// the entry is an array (a single value is turned into a one-element array): the reference is inserted at the position; twin: not inserted
    Elem(usize),
    /// the entry is a dictionary: a new key refers to the dangling object; twin: key not there
    MapVal,
    /// required entry: the value is replaced; the step must fail with an error naming one of the names
    Required(&'static str, &'static [&'static str]),
}

pub struct Plant {
    pub label: &'static str,
    /// root-cause family (same vocabulary as tier 1)
    pub family: &'static str,
    /// object number in the rich document; 0 = the trailer
    pub obj: u32,
    /// dictionary keys leading to the entry
    pub path: &'static [&'static str],
    pub how: How,
}

pub fn plants() -> Vec<Plant> {
    let p = |label, family, obj, path, how| Plant { label, family, obj, path, how };
    vec![
        p("Trailer.Info", "Option", 0, &["Info"][..], How::Value),
        p("Trailer.ID", "Vec", 0, &["ID"], How::Value),
        p("Trailer.Root", "derived-reader", 0, &["Root"], How::Required("load", &["root", "Root"])),
        p("Catalog.Version", "Option", 1, &["Version"], How::Value),
        p("Catalog.Names", "Option", 1, &["Names"], How::Value),
        p("Catalog.PageLabels", "Option", 1, &["PageLabels"], How::Value),
        p("Catalog.Outlines", "Option", 1, &["Outlines"], How::Value),
        p("Catalog.AcroForm", "Option", 1, &["AcroForm"], How::Value),
        p("Catalog.Metadata", "Ref (unresolved)", 1, &["Metadata"], How::Value),
        p("Catalog.Dests", "Option", 1, &["Dests"], How::Value),
        p("Catalog.StructTreeRoot", "Option", 1, &["StructTreeRoot"], How::Value),
        p("Catalog.Pages", "derived-reader", 1, &["Pages"], How::Required("load", &["pages", "Pages"])),
        p("Pages.Resources", "Option", 2, &["Resources"], How::Value),
        p("Pages.MediaBox", "Option", 2, &["MediaBox"], How::Value),
        p("Pages.Count", "derived-reader", 2, &["Count"], How::Required("load", &["count", "Count"])),
        p("Pages.Kids[]", "page-tree walk", 2, &["Kids"], How::Elem(1)),
        p("Pages.Kids[] (last)", "page-tree walk", 2, &["Kids"], How::Elem(2)),
        p("Page.Contents", "Option", 3, &["Contents"], How::Value),
        p("Page.Contents[]", "Content element", 7, &["Contents"], How::Elem(1)),
        p("Page.Contents[] (single value made array)", "Content element", 3, &["Contents"], How::Elem(1)),
        p("Page.Annots", "Lazy value", 3, &["Annots"], How::Value),
        p("Page.Annots[]", "Lazy<Vec> element", 3, &["Annots"], How::Elem(1)),
        p("Page.CropBox", "Option", 3, &["CropBox"], How::Value),
        p("Page.Rotate", "default", 3, &["Rotate"], How::Value),
        p("Page.Resources", "Option", 7, &["Resources"], How::Value),
        p("Page.MediaBox", "Option", 7, &["MediaBox"], How::Value),
        p("Page.Parent", "derived-reader", 3, &["Parent"], How::Required("get_page", &["parent", "Parent"])),
        p("Resources.Font", "HashMap", 5, &["Font"], How::Value),
        p("Resources.Font{}", "HashMap<Name,Lazy> value", 5, &["Font"], How::MapVal),
        p("Resources.XObject", "HashMap", 5, &["XObject"], How::Value),
        p("Resources.ExtGState{}", "HashMap value", 5, &["ExtGState"], How::MapVal),
        p("Resources.ColorSpace{}", "HashMap value", 5, &["ColorSpace"], How::MapVal),
        p("Resources.Properties{}", "HashMap value", 5, &["Properties"], How::MapVal),
        p("Font.ToUnicode", "Font-reader", 11, &["ToUnicode"], How::Value),
        p("Font.Encoding", "Font-reader", 11, &["Encoding"], How::Value),
        p("Font.FontDescriptor", "Option", 11, &["FontDescriptor"], How::Value),
        p("Font.Widths", "Option", 11, &["Widths"], How::Value),
        p("Font.Widths[]", "Option<Vec> element", 11, &["Widths"], How::Elem(2)),
        p("Type0Font.DescendantFonts[]", "Vec element", 12, &["DescendantFonts"], How::Elem(1)),
        p("Type0Font.ToUnicode", "Font-reader", 12, &["ToUnicode"], How::Value),
        p("FontDescriptor.FontFile2", "Option", 13, &["FontFile2"], How::Value),
        p("Image.ColorSpace", "Option", 15, &["ColorSpace"], How::Value),
        p("Image.SMask", "Ref (unresolved)", 15, &["SMask"], How::Value),
        p("Form.Resources", "Option", 16, &["Resources"], How::Value),
        p("Outlines.Count", "default", 30, &["Count"], How::Value),
        p("Outlines.First", "Ref (unresolved)", 30, &["First"], How::Value),
        p("AcroForm.Fields", "Vec", 35, &["Fields"], How::Value),
        p("AcroForm.Fields[]", "Vec element", 35, &["Fields"], How::Elem(1)),
        p("AcroForm.DR", "Option", 35, &["DR"], How::Value),
        p("Annot.AP", "Option", 45, &["AP"], How::Value),
        p("Annot.Rect", "Option", 45, &["Rect"], How::Value),
    ]
}

const DNG_KEY: &str = "Dng";

fn navigate<'a>(o: &'a mut Obj, path: &[&str]) -> Option<&'a mut Obj> {
    if path.is_empty() { return Some(o); }
    match o {
        Obj::Dict(d) | Obj::Stream(d, _) => d.iter_mut().find(|(k, _)| k == path[0].as_bytes()).and_then(|(_, v)| navigate(v, &path[1..])),
        _ => None,
    }
}

/// apply the plant (dangling = Some(number)) or build the twin (None) on `holder`
fn apply(holder: &mut Obj, pl: &Plant, dangling: Option<u32>) -> Result<(), String> {
    let (dirs, key) = pl.path.split_at(pl.path.len() - 1);
    let key = key[0];
    let parent = navigate(holder, dirs).ok_or_else(|| format!("{}: path not found", pl.label))?;
    match (pl.how, dangling) {
        (How::Value, Some(d)) | (How::Required(..), Some(d)) => parent.set(key, Obj::Ref(d, 0)),
        (How::Value, None) => parent.remove(key),
        (How::Required(..), None) => {}
        (How::Elem(pos), d) => {
            let old = parent.get(key).cloned().ok_or_else(|| format!("{}: no such entry", pl.label))?;
            let mut a = match old { Obj::Arr(a) => a, single => vec![single] };
            if let Some(d) = d { let p = pos.min(a.len()); a.insert(p, Obj::Ref(d, 0)); }
            parent.set(key, Obj::Arr(a));
        }
        (How::MapVal, d) => {
            let old = parent.get(key).cloned().ok_or_else(|| format!("{}: no such entry", pl.label))?;
            let Obj::Dict(mut m) = old else { return Err(format!("{}: entry is not a dictionary", pl.label)) };
            if let Some(d) = d { m.insert(0, (DNG_KEY.as_bytes().to_vec(), Obj::Ref(d, 0))); }
            parent.set(key, Obj::Dict(m));
        }
    }
    Ok(())
}

/// `base` = the hand-written rich document untouched (same numbering and cross-reference flavour)
pub struct Docs { pub dangling: Vec<u8>, pub twin: Vec<u8>, pub base: Vec<u8>, pub plan: doc::Plan, pub holder_text: String }

pub fn build(pl: &Plant, kind: Dangling, s: &mut Src) -> Result<Docs, String> {
    let base = richdoc::objects();
    let max = base.iter().map(|(n, _)| *n).max().unwrap_or(1);
    let info_nr = max + 1;
    let plan = doc::plan_after(info_nr, kind, s);
    let mut holder_text = String::new();
    let mut mk = |d: Option<u32>, untouched: bool| -> Result<Vec<u8>, String> {
        let mut objs = base.clone();
        objs.push((info_nr, mkpdf::dict(vec![("Title", mkpdf::st("rich")), ("CreationDate", mkpdf::st("D:20200102030405+01'00'"))])));
        let mut trailer = mkpdf::dict(vec![("Root", mkpdf::rf(1)), ("Info", mkpdf::rf(info_nr)), ("ID", mkpdf::arr(vec![mkpdf::st("id-a"), mkpdf::st("id-b")]))]);
        if untouched {}
        else if pl.obj == 0 { apply(&mut trailer, pl, d)?; if d.is_some() { holder_text = crate::run::show(&mkpdf::obj_bytes(&trailer)); } }
        else {
            let h = objs.iter_mut().find(|(n, _)| *n == pl.obj).ok_or("holder object not in the rich document")?;
            apply(&mut h.1, pl, d)?;
            if d.is_some() { holder_text = crate::run::show(&mkpdf::obj_bytes(&h.1)); }
        }
        let Obj::Dict(tr) = trailer else { unreachable!() };
        Ok(doc::write_table(&plan, &objs, tr))
    };
    let dangling = mk(Some(plan.dangling), false)?;
    let twin = mk(None, false)?;
    let base_doc = mk(None, true)?;
    Ok(Docs { dangling, twin, base: base_doc, plan, holder_text })
}

// ------------------------------------------------------------------ the read script

pub enum StepOut { Ok(String), Err(PdfError), Panic(PanicRec) }
pub type Transcript = Vec<(String, StepOut)>;

fn step<T>(t: &mut Transcript, name: &str, f: impl FnOnce() -> Result<T, PdfError>, sum: impl FnOnce(&T) -> String) -> Option<T> {
    // after a panic the File is not used any more (a cache slot whose computation panicked stays "in progress": asking for it again would block)
    if matches!(t.last(), Some((_, StepOut::Panic(_)))) { return None; }
    match guard(f) {
        Ok(Ok(v)) => { t.push((name.to_string(), StepOut::Ok(sum(&v)))); Some(v) }
        Ok(Err(e)) => { t.push((name.to_string(), StepOut::Err(e))); None }
        Err(p) => { t.push((name.to_string(), StepOut::Panic(p))); None }
    }
}
fn note<T>(t: &mut Transcript, name: &str, f: impl FnOnce() -> T, sum: impl FnOnce(&T) -> String) -> Option<T> { step(t, name, || Ok(f()), sum) }

fn font_steps(t: &mut Transcript, pre: &str, font: &Font, res: &impl Resolve) {
    note(t, &format!("{}font.fields", pre), || (), |_| format!("name={:?} enc={} tounicode={} descriptor={} widths={:?}", font.name.as_ref().map(|n| n.as_str().to_string()), font.encoding.is_some(), font.to_unicode.is_some(),
        match &font.data { FontData::Type1(f) | FontData::TrueType(f) => f.font_descriptor.is_some(), FontData::CIDFontType0(_) | FontData::CIDFontType2(_) => true, _ => false },
        // an empty list counts as an absent entry (same convention as tier 1)
        match &font.data { FontData::Type1(f) | FontData::TrueType(f) => f.widths.clone().filter(|w| !w.is_empty()), _ => None }));
    if let FontData::Type1(f) | FontData::TrueType(f) = &font.data {
        if let Some(d) = &f.font_descriptor { note(t, &format!("{}font.descriptor", pre), || (), |_| format!("file={} file2={} file3={}", d.font_file.is_some(), d.font_file2.is_some(), d.font_file3.is_some())); }
    }
    if let FontData::Type0(t0) = &font.data { note(t, &format!("{}font.descendants", pre), || (), |_| format!("{}", t0.descendant_fonts.len())); }
    step(t, &format!("{}font.widths", pre), || font.widths(res), |w| format!("{}", w.is_some()));
    step(t, &format!("{}font.to_unicode", pre), || font.to_unicode(res).transpose(), |m| format!("{}", m.is_some()));
}

pub fn script<B, OC, SC, L>(file: &File<B, OC, SC, L>) -> Transcript
where B: Backend, OC: Cache<Result<AnySync, Arc<PdfError>>>, SC: Cache<Result<Arc<[u8]>, Arc<PdfError>>>, L: Log {
    let mut t: Transcript = Vec::new();
    let res = file.resolver();
    note(&mut t, "trailer", || (), |_| format!("info={} id={}", file.trailer.info_dict.as_ref().map(|i| format!("{:?}", i.title.as_ref().map(|s| s.to_string_lossy()))).unwrap_or("none".into()), file.trailer.id.len()));
    let cat = file.get_root();
    note(&mut t, "catalog", || (), |_| format!("version={:?} names={} labels={} dests={} outlines={} forms={} metadata={} struct={}", cat.version.as_ref().map(|n| n.as_str().to_string()),
        cat.names.is_some(), cat.page_labels.is_some(), cat.dests.is_some(), cat.outlines.is_some(), cat.forms.is_some(), cat.metadata.is_some(), cat.struct_tree_root.is_some()));
    if let Some(o) = &cat.outlines { note(&mut t, "outlines", || (), |_| format!("count={} first={} last={}", o.count, o.first.is_some(), o.last.is_some())); }
    if let Some(f) = &cat.forms {
        note(&mut t, "forms", || (), |_| format!("fields={} need={} dr={} da={}", f.fields.len(), f.need_appearences, f.dr.is_some(), f.da.is_some()));
    }
    let n = file.num_pages();
    note(&mut t, "num_pages", || (), |_| format!("{}", n));
    for i in 0..n.min(8) {
        let pre = format!("page{}.", i);
        let Some(page) = step(&mut t, &format!("{}get_page", pre), || file.get_page(i), |_| "page".into()) else { continue };
        step(&mut t, &format!("{}media_box", pre), || page.media_box(), |r| format!("{:?}", r));
        step(&mut t, &format!("{}crop_box", pre), || page.crop_box(), |r| format!("{:?}", r));
        note(&mut t, &format!("{}rotate", pre), || (), |_| format!("{}", page.rotate));
        note(&mut t, &format!("{}contents", pre), || (), |_| format!("{:?}", page.contents.as_ref().map(|c| c.parts.len())));
        if let Some(c) = &page.contents { step(&mut t, &format!("{}operations", pre), || c.operations(&res), |ops| format!("{}", ops.len())); }
        if let Some(an) = step(&mut t, &format!("{}annotations.load", pre), || page.annotations.load(&res), |a| format!("{}", a.len())) {
            for (j, a) in an.iter().enumerate() {
                note(&mut t, &format!("{}annot{}", pre, j), || (), |_| format!("subtype={} rect={:?} ap={}", a.subtype.as_str(), a.rect, a.appearance_streams.is_some()));
            }
        }
        let Some(r) = step(&mut t, &format!("{}resources", pre), || page.resources().map(|r| r.clone()), |_| "resources".into()) else { continue };
        let mut fonts: Vec<_> = r.fonts.iter().collect();
        fonts.sort_by(|a, b| a.0.as_str().cmp(b.0.as_str()));
        note(&mut t, &format!("{}font-names", pre), || (), |_| fonts.iter().map(|(k, _)| k.as_str()).filter(|k| *k != DNG_KEY).collect::<Vec<_>>().join(","));
        for (k, lazy) in fonts {
            // a map entry that is "not there" and one that refers to nothing must read the same: the planted key may be missing, or load to nothing
            let nm = format!("{}font[{}].load", pre, k.as_str());
            if matches!(t.last(), Some((_, StepOut::Panic(_)))) { break; }
            if k.as_str() == DNG_KEY {
                match guard(|| lazy.load(&res)) { Ok(Ok(_)) => {}, Ok(Err(e)) => t.push((format!("{}font[dangling-entry].load", pre), StepOut::Err(e))), Err(p) => t.push((nm, StepOut::Panic(p))) }
                continue;
            }
            if let Some(f) = step(&mut t, &nm, || lazy.load(&res), |_| "font".into()) { font_steps(&mut t, &format!("{}font[{}].", pre, k.as_str()), &f, &res); }
        }
        let mut xs: Vec<_> = r.xobjects.iter().collect();
        xs.sort_by(|a, b| a.0.as_str().cmp(b.0.as_str()));
        for (k, xr) in xs {
            let nm = format!("{}xobject[{}]", pre, k.as_str());
            if let Some(x) = step(&mut t, &nm, || res.get(*xr), |_| "xobject".into()) {
                match &*x {
                    XObject::Image(im) => { note(&mut t, &format!("{}.image", nm), || (), |_| format!("{}x{} cs={} smask={}", im.width, im.height, im.color_space.is_some(), im.smask.is_some())); }
                    XObject::Form(f) => { note(&mut t, &format!("{}.form", nm), || (), |_| format!("resources={}", f.dict().resources.is_some())); }
                    _ => {}
                }
            }
        }
        let mut gs: Vec<String> = r.graphics_states.keys().map(|k| k.as_str().to_string()).collect(); gs.sort();
        let mut cs: Vec<String> = r.color_spaces.keys().map(|k| k.as_str().to_string()).collect(); cs.sort();
        let mut pr: Vec<String> = r.properties.keys().map(|k| k.as_str().to_string()).collect(); pr.sort();
        note(&mut t, &format!("{}resource-maps", pre), || (), |_| format!("gs={:?} cs={:?} props={:?} patterns={}", gs, cs, pr, r.pattern.len()));
    }
    t
}

fn run_script(bytes: &[u8], cfg: Cfg) -> Result<Transcript, PanicRec> {
    guard(|| with_file!(bytes.to_vec(), cfg, b"", |f| match f {
        Ok(file) => { let mut t = vec![("load".to_string(), StepOut::Ok("loaded".into()))]; t.extend(script(&file)); t }
        Err(e) => vec![("load".to_string(), StepOut::Err(e))],
    }))
}

/// step name without the page / resource instance ("page1.font[F1].load" -> "font.load")
fn generic_step(s: &str) -> String {
    let s = match s.find('.') { Some(i) if s.starts_with("page") && s != "page" => &s[i + 1..], _ => s };
    let mut out = String::new();
    let mut depth = 0;
    for c in s.chars() { match c { '[' => depth += 1, ']' => depth -= 1, _ if depth == 0 => out.push(c), _ => {} } }
    out.trim_end_matches(|c: char| c.is_ascii_digit()).to_string()
}

struct Raw { cfg: Cfg, outcome: String, what: String }

fn mode_class(cfgs: &[Cfg]) -> &'static str {
    let strict = cfgs.iter().any(|c| !c.tolerant);
    let tolerant = cfgs.iter().any(|c| c.tolerant);
    match (strict, tolerant) { (true, true) => "any-mode", (true, false) => "strict", _ => "tolerant" }
}

fn text(o: &StepOut) -> String { match o { StepOut::Ok(s) => format!("ok({})", s), StepOut::Err(e) => format!("err({})", chain(e)), StepOut::Panic(p) => format!("panic({})", p.describe()) } }

/// judge one (plant, kind, tape): returns findings (signature, what) and inconclusive notes
pub fn evaluate(pl: &Plant, kind: Dangling, src: &mut Src) -> (Vec<(String, String)>, Vec<String>, Option<Docs>) {
    let docs = match build(pl, kind, src) { Ok(d) => d, Err(e) => return (vec![], vec![format!("tier 2 {}: cannot build: {}", pl.label, e)], None) };
    let mut raws: Vec<Raw> = Vec::new();
    let mut inc = Vec::new();
    // generator conformance, independent of the library: the files are what the case claims (see c18_doc::refcheck)
    let mut verified = true;
    for (bytes, expect_ref) in [(&docs.dangling, true), (&docs.twin, false), (&docs.base, false)] {
        match doc::refcheck(bytes, &docs.plan, expect_ref) {
            Ok(v) => verified &= v,
            Err(e) => return (vec![], vec![format!("tier 2 {}: generated file fails the reference check: {}", pl.label, e)], None),
        }
    }
    let variant = match pl.how { How::Value => "optional", How::Elem(_) => "array-element", How::MapVal => "map-value", How::Required(..) => "required" };
    for cfg in CFGS {
        let twin = match run_script(&docs.twin, cfg) { Ok(t) => t, Err(p) => { inc.push(format!("tier 2 {}: twin document panics outside a step: {}", pl.label, p.describe())); continue; } };
        // the untouched hand-written document must load: otherwise nothing can be said in this configuration
        match run_script(&docs.base, cfg) {
            Ok(b) if matches!(b.first(), Some((_, StepOut::Ok(_)))) => {}
            // the files are hand-written valid documents whose byte-level structure the reference reader has confirmed: when not even the untouched
            // one loads, the statement's "load succeeds" is still owed for the document with the dangling optional entry
            Ok(_) if verified && !matches!(pl.how, How::Required(..)) => {
                match run_script(&docs.dangling, cfg) {
                    Ok(d) => if let Some((_, StepOut::Err(e))) = d.first() {
                        raws.push(Raw { cfg, outcome: "load:error-instead-of-value".into(), what: format!("{} entry {} refers to a {} object: load fails ({}); the untouched document does not load either in this configuration, although both are well-formed (reference reader)", variant, pl.label, kind.name(), chain(e)) });
                    } else { inc.push(format!("tier 2 {}: the untouched rich document does not load but the one with the dangling reference does", pl.label)); },
                    Err(p) => raws.push(Raw { cfg, outcome: format!("PANIC {}", p.signature()), what: format!("{}: panic: {}", pl.label, p.describe()) }),
                }
                continue;
            }
            Ok(b) => { inc.push(format!("tier 2 {}: the untouched rich document does not load: {}", pl.label, b.first().map(|(_, o)| text(o)).unwrap_or_default())); continue; }
            Err(p) => { inc.push(format!("tier 2 {}: the untouched rich document panics: {}", pl.label, p.describe())); continue; }
        }
        // (errors at later steps of the twin are fine as long as the dangling document shows the same: e.g. the twin of Pages.Resources lacks resources)
        let twin_loads = matches!(twin.first(), Some((_, StepOut::Ok(_))));
        let dang = match run_script(&docs.dangling, cfg) { Ok(t) => t, Err(p) => { raws.push(Raw { cfg, outcome: format!("PANIC {}", p.signature()), what: format!("{}: panic outside a step: {}", pl.label, p.describe()) }); continue; } };
        if let Some((n, StepOut::Panic(p))) = dang.iter().find(|(_, o)| matches!(o, StepOut::Panic(_))) {
            raws.push(Raw { cfg, outcome: format!("PANIC {}", p.signature()), what: format!("{} refers to a {} object: step {} panics: {}", pl.label, kind.name(), n, p.describe()) });
            continue;
        }
        if !twin_loads && !matches!(pl.how, How::Required(..)) {
            // the document loads when the entry has a valid value but not when the optional entry is absent: absence is not accepted, so the
            // dangling entry cannot be "treated as absent" either way
            let loads = matches!(dang.first(), Some((_, StepOut::Ok(_))));
            raws.push(Raw { cfg, outcome: if loads { "load:differs-from-absent".into() } else { "load:error-instead-of-value".into() },
                what: format!("{} entry {} refers to a {} object: load {} while the same document without the {} does not load ({}) although the untouched document does", variant, pl.label, kind.name(),
                    if loads { "succeeds" } else { "fails" }, match pl.how { How::Elem(_) => "element", How::MapVal => "map entry", _ => "entry" }, twin.first().map(|(_, o)| text(o)).unwrap_or_default()) });
            continue;
        }
        if let How::Required(stepname, names) = pl.how {
            let hit = dang.iter().find(|(n, _)| generic_step(n) == stepname);
            match hit {
                Some((n, StepOut::Err(e))) => {
                    let fields = error_fields(e);
                    if !fields.iter().any(|f| names.contains(&f.as_str())) {
                        raws.push(Raw { cfg, outcome: format!("{}:error-does-not-name-entry", stepname), what: format!("required entry {} refers to a {} object: step {} fails but the error does not name the entry (fields {:?}, chain {})", pl.label, kind.name(), n, fields, chain(e)) });
                    }
                }
                Some((n, _)) => raws.push(Raw { cfg, outcome: format!("{}:value-instead-of-error", stepname), what: format!("required entry {} refers to a {} object but step {} succeeds", pl.label, kind.name(), n) }),
                None => inc.push(format!("tier 2 {}: step {} not reached", pl.label, stepname)),
            }
            continue;
        }
        // optional: transcripts must agree step by step
        let mut diff: Option<(String, String, String)> = None;
        for i in 0..dang.len().max(twin.len()) {
            match (dang.get(i), twin.get(i)) {
                (Some((n, a)), Some((m, b))) if n == m => {
                    let same = match (a, b) { (StepOut::Ok(x), StepOut::Ok(y)) => x == y, (StepOut::Err(_), StepOut::Err(_)) => true, _ => false };
                    if !same {
                        let cls = match (a, b) { (StepOut::Err(_), StepOut::Ok(_)) => "error-instead-of-value".to_string(),
                            (StepOut::Ok(_), StepOut::Err(_)) => "value-instead-of-error".to_string(), _ => "wrong-value".to_string() };
                        diff = Some((n.clone(), cls, format!("{} vs twin {}", text(a), text(b))));
                        break;
                    }
                }
                (Some((n, a)), other) => { diff = Some((n.clone(), if matches!(a, StepOut::Err(_)) { "error-instead-of-value".into() } else { "wrong-value".into() }, format!("step sequence differs: {} {} vs twin {:?}", n, text(a), other.map(|(m, b)| format!("{} {}", m, text(b))))));  break; }
                (None, Some((m, b))) => { diff = Some((m.clone(), "wrong-value".into(), format!("step {} {} only in the twin", m, text(b)))); break; }
                (None, None) => break,
            }
        }
        // entries typed Ref<T> are kept unresolved by the reader (see tier 1 "deferred"): their presence is not judged, only errors and panics are
        if pl.family == "Ref (unresolved)" && matches!(&diff, Some((_, c, _)) if c == "wrong-value") { diff = None; }
        if let Some((n, cls, detail)) = diff {
            raws.push(Raw { cfg, outcome: format!("{}:{}", generic_step(&n), cls), what: format!("{} entry {} refers to a {} object: document-level step {} differs from the document without the {}: {}", variant, pl.label, kind.name(), n,
                match pl.how { How::Elem(_) => "element", How::MapVal => "map entry", _ => "entry" }, detail) });
        }
    }
    if !inc.is_empty() && !raws.is_empty() { raws.clear(); }
    let mut outcomes: Vec<String> = raws.iter().map(|r| r.outcome.clone()).collect();
    outcomes.sort(); outcomes.dedup();
    let mut findings = Vec::new();
    for o in outcomes {
        let rs: Vec<&Raw> = raws.iter().filter(|r| r.outcome == o).collect();
        let cfgs: Vec<Cfg> = rs.iter().map(|r| r.cfg).collect();
        let sig = match o.strip_prefix("PANIC ") {
            Some(p) => format!("C18|{}", p),
            // document-level symptoms of the root causes tier 1 signs in detail: no dangling kind / wrapper chain here (they are in the witness and the evidence)
            None => format!("C18|doc-level|{}|{}|{}", pl.family, mode_class(&cfgs), o),
        };
        findings.push((sig, format!("{} [in {}]", rs[0].what, cfgs.iter().map(|c| c.name()).collect::<Vec<_>>().join(", "))));
    }
    (findings, inc, Some(docs))
}

pub fn run(run: &Run) {
    let ps = plants();
    let reps = run.n(2, 12);
    let per = (ps.len() * DANGLING.len()) as u64;
    run.extra("tier2_plants", json!(ps.iter().map(|p| p.label).collect::<Vec<_>>()));
    par_for(per * reps, |i| {
        let pl = &ps[(i % ps.len() as u64) as usize];
        let kind = DANGLING[((i / ps.len() as u64) % DANGLING.len() as u64) as usize];
        let mut src = Src::fresh(Rng::derive(run.seed, 1802, i));
        let (findings, inc, docs) = evaluate(pl, kind, &mut src);
        run.eval();
        run.count("tier2:documents");
        run.count(&format!("tier2:how:{}", match pl.how { How::Value => "value", How::Elem(_) => "element", How::MapVal => "map-value", How::Required(..) => "required" }));
        for w in inc { run.inconclusive(w); }
        let Some(docs) = docs else { return };
        run.nontrivial(fnv(&docs.dangling));
        if findings.is_empty() { run.count("tier2:ok"); }
        for (sig, what) in findings {
            note_failing(&sig, &format!("{} {}", pl.label, kind.name()));
            let w: Value = if run.has_violation(&sig) { Value::Null } else {
                json!({"plant": pl.label, "object": pl.obj, "holder": docs.holder_text, "dangling_kind": kind.name(), "dangling_object": docs.plan.dangling, "size": docs.plan.size,
                    "labels": docs.plan.labels, "file_hex": hex(&docs.dangling)})
            };
            run.violation(&sig, &what, w);
        }
    });
    run.exhaustive("tier 2: every (plant, dangling kind) combination", true);
}
